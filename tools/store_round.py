#!/usr/bin/env python3
"""store_round.py <seedroot> <matrix.out> <round> <kind text> <head>

Files the candidates of one seeding round under /verif/seeded.

<seedroot>/<P>/out/<n>/ holds what a sub-agent delivered (patch.diff, notes.md, the demonstration as *_test.go or
*_test.go.txt); <seedroot>/verify.tsv is what tools/verify_seeds.sh wrote about them; <matrix.out> is the output of
tools/par_matrix.sh over the same candidates.  A candidate is kept when it was confirmed (builds, the suite passes,
the demonstration passes on the clean tree and fails with the patch) and some property's quick check reports it; it
is filed under the property it was written for when that one reports it, under the first other property that does
otherwise ("refiled": true).  Candidates nothing reports are listed on stdout and not stored.
"""
import json, os, re, shutil, string, sys

root, matrix, rnd, kind, head = sys.argv[1], sys.argv[2], int(sys.argv[3]), sys.argv[4], sys.argv[5]
seeded = "/verif/seeded"

det = {}
for l in open(matrix):
    m = re.match(r"^(C\d\d)-(\w+): (.*)$", l)
    if m:
        det[(m.group(1), m.group(2))] = re.findall(r"(C\d\d)\(\d+\)", m.group(3))
ver = {}
for l in open(os.path.join(root, "verify.tsv")):
    f = l.rstrip("\n").split("\t")
    if len(f) >= 3:
        ver[(f[0], f[1])] = " ".join(f[2:])


def next_id(prop):
    have = {d.split("-", 1)[1] for d in os.listdir(seeded) if d.startswith(prop + "-")}
    for s in list(string.ascii_lowercase) + ["z" + c for c in string.ascii_lowercase]:
        if s not in have:
            return s
    raise SystemExit("no free id for " + prop)


stored, skipped = 0, []
for (p, n), props in sorted(det.items()):
    src = os.path.join(root, p, "out", n)
    v = ver.get((p, n), "")
    good = "build=ok" in v and "suite=pass" in v and "demo_clean=pass" in v and "demo_patched=fails" in v
    if not good:
        skipped.append(f"{p}-{n}: not confirmed ({v or 'no verify line'})")
        continue
    if not props:
        skipped.append(f"{p}-{n}: confirmed, reported by no property")
        continue
    target = p if p in props else props[0]
    sid = f"{target}-{next_id(target)}"
    dst = os.path.join(seeded, sid)
    os.makedirs(dst)
    shutil.copy(os.path.join(src, "patch.diff"), dst)
    if os.path.exists(os.path.join(src, "notes.md")):
        shutil.copy(os.path.join(src, "notes.md"), dst)
    for f in os.listdir(src):
        if f.endswith("_test.go") or f.endswith("_test.go.txt"):
            shutil.copy(os.path.join(src, f), os.path.join(dst, f if f.endswith(".txt") else f + ".txt"))
    files = sorted(set(re.findall(r"^\+\+\+ b/(\S+)", open(os.path.join(src, "patch.diff")).read(), re.M)))
    meta = {
        "seed_id": sid,
        "property": target,
        "round": rnd,
        "kind": kind,
        "files_changed": files,
        "written_for": p,
        "candidate": f"{p}/out/{n}",
        "reported_by": props,
        "needs_to_manifest": "see notes.md",
        "author": f"independent sub-agent given only the text of property {p}, the list of lines used by earlier rounds, and a scratch worktree of /repo at {head}",
        "confirmed_by_me": {
            "how": f"tools/verify_seeds.sh {root}: scratch worktree of /repo HEAD ({head}) under /var/tmp; go build ./...; pinned suite in a private /tmp; demo test on the clean tree and with the patch (as a GOARCH=386 binary where the fault only exists on 32-bit builds)",
            "result": v,
        },
        "demo": "the *_test.go.txt file in this directory (copy it without .txt into the package directory named in its package clause)",
    }
    if target != p:
        meta["refiled"] = True
    json.dump(meta, open(os.path.join(dst, "meta.json"), "w"), indent=1)
    stored += 1
print(f"stored {stored}")
for s in skipped:
    print("skipped", s)
