#!/bin/bash
# usage: par_configs.sh [root=/verif/refactors] [parallel=8] — every stored refactoring under the other build configurations of the
# thorough tier (properties that the thorough tier does not decide under windows are left out there); prints the obligations that
# fail with the refactoring applied but not on the unchanged tree under the same configuration.  Works on private copies of /repo HEAD.
root=${1:-/verif/refactors}; P=${2:-8}
T=$(mktemp -d /var/tmp/parc.XXXXXX)
cat > $T/one.sh <<'EOS'
#!/bin/bash
D=$1; cfg=$2; props=$3; T=$4; tag=$5
W=$(mktemp -d /var/tmp/parc1.XXXXXX); trap 'rm -rf $W' EXIT
git -C /repo archive HEAD | tar -x -C $W; cd $W
o=$T/out_${tag}_$(basename $D).txt
if patch -p1 -s -f --no-backup-if-mismatch < $D/patch.diff >/dev/null 2>&1; then
  (cd /verif && VERIF_NO_CONTROLS=1 VERIF_CONFIG=$cfg ./bin/sftpcheck -repo $W -property $props -out $W/.ev 2>/dev/null | grep -E ': (violated|undecided): ' | sed -E 's/^[^ ]+ //' | sed "s#$W/##g" | cut -c1-160 | sort -u > $o)
else echo PATCH-DOES-NOT-APPLY > $o; fi
EOS
chmod +x $T/one.sh
for cfg in windows/amd64 darwin/arm64 linux/386 linux/amd64+debug; do
  props=all
  [ $cfg = windows/amd64 ] && props=C01,C02,C03,C04,C06,C07,C08,C10,C12,C13,C14,C16,C18,C19,C20
  tag=$(echo $cfg | tr '/+' '__')
  B=$(mktemp -d /var/tmp/parcb.XXXXXX); git -C /repo archive HEAD | tar -x -C $B
  (cd /verif && VERIF_NO_CONTROLS=1 VERIF_CONFIG=$cfg ./bin/sftpcheck -repo $B -property $props -out $B/.ev 2>/dev/null | grep -E ": (violated|undecided): " | sed -E 's/^[^ ]+ //' | sed "s#$B/##g" | cut -c1-160 | sort -u > $T/base_$tag.txt)
  rm -rf $B
  ls -d $root/C*/ | sed 's#/$##' | xargs -P $P -I{} $T/one.sh {} $cfg $props $T $tag
  for f in $(ls $T/out_${tag}_* | sort -V); do
    new=$(comm -13 $T/base_$tag.txt $f)
    [ -n "$new" ] && { echo "=== $cfg $(basename $f .txt | sed "s/out_${tag}_//")"; echo "$new"; }
  done
done
rm -rf $T
echo done
