#!/bin/bash
# usage: trypatch.sh <patch.diff> <props comma separated|all>
# Applies the patch to /repo, runs the quick checks, reverts. Never commits.
set -u
patch=$1; props=${2:-all}
cd /repo || exit 2
if ! git diff --quiet; then echo "repo dirty"; exit 2; fi
if ! git apply --check "$patch" 2>/dev/null; then
  if ! git apply -3 --check "$patch" 2>/dev/null; then echo "PATCH-DOES-NOT-APPLY $patch"; exit 3; fi
fi
git apply "$patch" || git apply -3 "$patch"
cd /verif
./bin/sftpcheck -property "$props" -out /tmp/trypatch-evidence 2>&1 | grep -E "VIOLATION|violated|undecided|obligations" | grep -v "^VIOLATION" | head -${3:-30}
git -C /repo checkout -- . ; git -C /repo reset -q
rm -rf /tmp/trypatch-evidence
