#!/bin/bash
# Usage: verify_refactors.sh [root=/verif/refactors]
# Confirms every stored behaviour-preserving refactoring <root>/<id>-<n>/patch.diff in a scratch worktree of /repo HEAD:
# it applies, builds for linux, 386, windows, darwin and plan9, and the pinned suite passes.  Writes <root>/verify.tsv.
set -u
export PATH=/opt/veriftools/go1.26.8/bin:$PATH GOFLAGS=-mod=mod GOPROXY=off GOSUMDB=off GOTOOLCHAIN=local GOWORK=off
ROOT=${1:-/verif/refactors}
SV=/var/tmp/rv; WT=$SV/wt
rm -rf $SV; mkdir -p $SV
suite() { unshare -rm sh -c "mount -t tmpfs tmpfs /tmp && cd $WT && timeout 600 go test -vet=off -count=1 ./..."; }
git -C /repo worktree prune
git -C /repo worktree add --detach $WT HEAD -q || exit 2
out=$ROOT/verify.tsv; : > $out
for d in $(ls -d $ROOT/C??-* | sort -V); do
  [ -f $d/patch.diff ] || continue
  id=$(basename $d)
  cd $WT && git checkout -q -- . && git clean -fdq
  if ! git apply $d/patch.diff 2>$SV/apply.log; then echo -e "$id\tpatch-does-not-apply" >> $out; continue; fi
  build=ok
  for t in linux/amd64 linux/386 windows/amd64 darwin/arm64 plan9/amd64; do
    GOOS=${t%/*} GOARCH=${t#*/} go build ./... >$SV/build.log 2>&1 || build="FAIL($t)"
  done
  if suite >$SV/suite.log 2>&1; then s=pass; else if suite >$SV/suite.log 2>&1; then s=pass; else s=FAIL; fi; fi
  echo -e "$id\tbuild=$build\tsuite=$s" >> $out
done
cd / && git -C /repo worktree remove --force $WT; rm -rf $SV
grep -v 'build=ok.suite=pass' $out; echo "$(grep -c 'build=ok.suite=pass' $out) of $(wc -l < $out) confirmed"
