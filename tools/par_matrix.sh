#!/bin/bash
# usage: par_matrix.sh <root> [parallel=6] [binary] — par_one.sh for every <root>/C*/ directory holding a patch.diff, in parallel;
# output is grouped per patch (one header line, failing obligations indented below it) and sorted by id.
root=${1:-/verif/seeded}; P=${2:-6}; BIN=${3:-/verif/bin/sftpcheck}
T=$(mktemp -d /var/tmp/parm.XXXXXX)
# every private copy leaves its own entries in the Go build cache (about 45 MB each): a cache of its own, removed at the end
export GOCACHE=$(mktemp -d /var/tmp/gocache.XXXXXX)
ls -d $root/C*/ | sed 's#/$##' | xargs -P $P -I{} sh -c "/verif/tools/par_one.sh {} $BIN > $T/\$(basename {}).out 2>&1"
for f in $(ls $T | sort -V); do cat $T/$f; done
rm -rf $T
chmod -R u+w $GOCACHE 2>/dev/null; rm -rf $GOCACHE
