#!/bin/bash
# usage: combo_matrix.sh [parallel=6] — every seeded fault on top of every stored refactoring of the same property (see combo_one.sh)
P=${1:-6}
for S in $(ls -d /verif/seeded/C*-* | sort -V); do
  prop=$(basename $S); prop=${prop%%-*}
  for R in $(ls -d /verif/refactors/$prop-* | sort -V); do echo "$S $R"; done
done | xargs -P $P -L 1 /verif/tools/combo_one.sh
