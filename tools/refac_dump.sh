#!/bin/bash
# usage: refac_dump.sh <patch>  — shows how the normalised source of the patched tree differs from the reference (HEAD) source
p=$1
cd /repo && git diff --quiet || { echo "repo dirty"; exit 2; }
git apply $p || exit 3
rm -rf /var/tmp/ovdump; cd /verif && VERIF_DUMP_OVERLAY=/var/tmp/ovdump ./bin/sftpcheck -property C03 -out /tmp/refacdump-ev >/dev/null 2>&1
git -C /repo checkout -- . ; git -C /repo clean -fdq; rm -rf /tmp/refacdump-ev
for f in /var/tmp/ovdump/*; do b=$(basename $f); rel=${b#repo_}; rel=$(echo $rel | sed 's#internal_encoding_ssh_filexfer_openssh_#internal/encoding/ssh/filexfer/openssh/#; s#internal_encoding_ssh_filexfer_#internal/encoding/ssh/filexfer/#'); gofmt $f > /var/tmp/ovdump/fmt.go 2>/dev/null || cp $f /var/tmp/ovdump/fmt.go; git -C /repo show HEAD:$rel | diff -u - /var/tmp/ovdump/fmt.go | sed "s#^+++ .*#+++ normalised $rel#"; done
