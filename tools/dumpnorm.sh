#!/bin/bash
# usage: dumpnorm.sh <patch> [file-substring] — normalised source of a patched private copy, diffed against the patched source
P=$1; W=$(mktemp -d /var/tmp/dn.XXXXXX); git -C /repo archive HEAD | tar -x -C $W; (cd $W && patch -p1 -s < $P)
rm -rf /var/tmp/ovdump; (cd /verif && VERIF_DUMP_OVERLAY=/var/tmp/ovdump VERIF_NO_CONTROLS=1 ./bin/sftpcheck -repo $W -property C03 -out $W/.ev >/dev/null 2>&1)
grep -o 'de-extraction[^"]*' $W/.ev/C03.json | sort -u | sed 's/^/  NOTE /'
for f in /var/tmp/ovdump/*; do b=$(basename $f); rel=$(echo $b | sed "s#^$(echo $W | sed 's#^/##; s#/#_#g')_##" | sed 's#internal_encoding_ssh_filexfer_openssh_#internal/encoding/ssh/filexfer/openssh/#; s#internal_encoding_ssh_filexfer_#internal/encoding/ssh/filexfer/#'); echo "=== $rel"; gofmt $f > /var/tmp/ovdump.fmt 2>/dev/null || cp $f /var/tmp/ovdump.fmt; git -C /repo show HEAD:$rel | diff -u - /var/tmp/ovdump.fmt | grep '^[+-]' | grep -v '^[+-]\s*//' ; done
rm -rf $W
