#!/usr/bin/env python3
"""Regenerates /verif/MANIFEST.json from the table below (the only place where
claims are listed).  Run after changing which properties are claimed."""
import json, os

ROOT = os.path.dirname(os.path.dirname(os.path.abspath(__file__)))
props = [json.loads(l) for l in open(os.path.join(ROOT, "properties.jsonl"))]

# id -> (category, technique, level text, level note, design ref)
CLAIMS = {}
NA = {}

def claim(pid, cat, technique, text, note, ref):
    CLAIMS[pid] = (cat, technique, text, note, ref)

exec(open(os.path.join(ROOT, "tools", "claims.py")).read())

checks = []
for p in props:
    pid = p["id"]
    if pid not in CLAIMS:
        continue
    cat, technique, text, note, ref = CLAIMS[pid]
    checks.append({
        "property_id": pid,
        "quick_cmd": f"./build.sh && bin/sftpcheck -property {pid} -tier quick",
        "thorough_cmd": f"./build.sh && bin/sftpcheck -property {pid} -tier thorough",
        "evidence_file": f"/verif/evidence/{pid}.json",
        "replay_cmd_template": "bin/sftpcheck -replay {path}",
        "engine": "sftpcheck",
        "level_claimed": {"category": cat, "text": text, "design_ref": ref},
        "level_note": note,
        "technique": technique + "; decided on the source after name and shape normalisation in an in-memory overlay (symbols renamed relative to the reference symbol table read under their reference names; helpers unknown to it inlined back with the x/tools inliner and immediately invoked literals flattened), with a phi- and nil-test-sensitive path search; thorough tier: extra build configurations, the property's seeded faults as positive and stored behaviour-preserving refactorings as negative controls",
    })

na = []
for p in props:
    pid = p["id"]
    if pid in CLAIMS:
        continue
    na.append({"property_id": pid, "reason": NA.get(pid, "static check not built yet; see DESIGN.md section 4 for the planned rule set")})

m = {
    "version": 1,
    "setup_cmd": "./build.sh",
    "hooks": {
        "guard": "verif",
        "enable": "none needed: the checker reads /repo's source and never builds or runs it; no hook commits exist",
        "baseline_off_cmd": "cd /repo && GOFLAGS=-mod=mod GOPROXY=off go test -vet=off -count=1 -timeout 25m ./...",
        "source_commits": [],
        "add_only": True,
    },
    "engines": [{
        "name": "sftpcheck",
        "path": "/verif/checker",
        "serves_properties": sorted(CLAIMS),
        "kind_free_text": "repository-specific static analyser over go/packages + go/ssa + VTA call graph (golang.org/x/tools v0.50.0, go1.26.8): path rules on SSA CFGs (phi- and nil-test-sensitive reachability), who-may-call/who-may-write, locksets, value provenance, table extraction, linear (Fourier-Motzkin) bounds prover; source normalisation by overlay (rename canonicalisation against an embedded symbol table, de-extraction with the vendored x/tools inliner)",
    }],
    "checks": checks,
    "not_applicable": na,
    "notes": "Technique family: static analysis only. Every check re-loads /repo's working tree; nothing of pkg/sftp is ever built or run by a check. Known findings: /verif/known_findings.txt. Seeded faults (positive controls): /verif/seeded/. Behaviour-preserving refactorings (negative controls): /verif/refactors/. Demonstrations of the defects found and repaired: /verif/findings/.",
}
json.dump(m, open(os.path.join(ROOT, "MANIFEST.json"), "w"), indent=1)
print("claimed:", sorted(CLAIMS), "not applicable:", [x["property_id"] for x in na])
