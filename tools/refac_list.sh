#!/bin/bash
# usage: refac_list.sh <file with patch directories> [width] — like refac_detail.sh for the listed directories only
cd /repo && git diff --quiet || { echo "repo dirty"; exit 2; }
for d in $(cat $1); do
  p=$d/patch.diff
  git -C /repo apply --check $p 2>/dev/null || { echo "$d: PATCH-DOES-NOT-APPLY"; continue; }
  git -C /repo apply $p
  out=$(cd /verif && ./bin/sftpcheck -property all -out /tmp/refaclist-ev 2>/dev/null | grep -E ": (violated|undecided): " | sed -E 's/^[^ ]+ //' | cut -c1-${2:-230})
  git -C /repo checkout -- . ; git -C /repo clean -fdq
  if [ -n "$out" ]; then echo "=== $d"; echo "$out"; fi
done
rm -rf /tmp/refaclist-ev
