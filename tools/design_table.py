#!/usr/bin/env python3
"""design_table.py <round> <matrix.out> — the DESIGN.md §13 table rows of one seeding round.

<matrix.out> is the output of tools/par_matrix.sh over the round's candidates (ids <P>-<n> as delivered); the seeds
of the round are found through seeded/*/meta.json (round, candidate).  One row per seed: id, file and function of
the first hunk with the first line of the change, the rules of the property it is stored under that report it, and
in brackets the other properties that report it too.
"""
import json, os, re, sys

rnd, matrix = int(sys.argv[1]), sys.argv[2]
rules, props, cur = {}, {}, None
for l in open(matrix):
    m = re.match(r"^(C\d\d-\w+): (.*)$", l)
    if m:
        cur = m.group(1)
        props[cur] = re.findall(r"(C\d\d)\((\d+)\)", m.group(2))
        rules[cur] = set()
        continue
    m = re.match(r"^\s+(C\d\d\.\w+) ", l)
    if m and cur:
        rules[cur].add(m.group(1))
rows = []
for d in sorted(os.listdir("/verif/seeded")):
    mp = os.path.join("/verif/seeded", d, "meta.json")
    if not os.path.exists(mp):
        continue
    meta = json.load(open(mp))
    if meta.get("round") != rnd:
        continue
    p, n = meta["candidate"].split("/out/")
    cand = f"{p}-{n}"
    patch = open(os.path.join("/verif/seeded", d, "patch.diff")).read()
    f = re.search(r"^\+\+\+ b/(\S+)", patch, re.M).group(1)
    h = re.search(r"^@@.*@@ (.*)$", patch, re.M)
    fn = ""
    if h:
        m = re.search(r"func (\([^)]*\) )?(\w+)", h.group(1))
        fn = m.group(2) if m else h.group(1)[:40]
    minus = [l[1:].strip() for l in patch.splitlines() if l.startswith("-") and not l.startswith("---") and l[1:].strip()]
    plus = [l[1:].strip() for l in patch.splitlines() if l.startswith("+") and not l.startswith("+++") and l[1:].strip()]
    change = (minus[0] if minus else "(added)") + " → " + (plus[0] if plus else "(deleted)")
    change = change.replace("|", "\\|")[:110]
    own = sorted(r for r in rules.get(cand, ()) if r.startswith(meta["property"] + "."))
    ownS = meta["property"] + "." + ",".join(r.split(".")[1] for r in own) if own else "?"
    others = " ".join(f"{q}({k})" for q, k in props.get(cand, []) if q != meta["property"])
    wf = "" if meta["written_for"] == meta["property"] else f" (written for {meta['written_for']})"
    rows.append(f"| {d}{wf} | {f}: {fn} — `{change}` | {ownS}" + (f" ({others})" if others else "") + " |")
print("| seed | place — change | rules |\n|---|---|---|")
print("\n".join(rows))
