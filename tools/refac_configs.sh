#!/bin/bash
# Runs the stored refactorings under the other build configurations of the thorough tier and prints the obligations that
# fail with a refactoring applied but not on the unchanged tree under the same configuration.
root=${1:-/verif/refactors}
cd /repo && git diff --quiet || { echo "repo dirty"; exit 2; }
for cfg in windows/amd64 darwin/arm64 linux/386 linux/amd64+debug; do
  base=$(cd /verif && VERIF_CONFIG=$cfg ./bin/sftpcheck -property all -out /tmp/refcfg-ev 2>/dev/null | grep -E ": (violated|undecided): " | sed -E 's/^[^ ]+ //' | cut -c1-160 | sort -u)
  for p in $(ls -d $root/C*/patch.diff | sort -V); do
    d=$(dirname $p)
    git -C /repo apply --check $p 2>/dev/null || { echo "$cfg $d: PATCH-DOES-NOT-APPLY"; continue; }
    git -C /repo apply $p
    out=$(cd /verif && VERIF_CONFIG=$cfg ./bin/sftpcheck -property all -out /tmp/refcfg-ev 2>/dev/null | grep -E ": (violated|undecided): " | sed -E 's/^[^ ]+ //' | cut -c1-160 | sort -u)
    git -C /repo checkout -- . ; git -C /repo clean -fdq
    new=$(comm -13 <(echo "$base") <(echo "$out"))
    if [ -n "$new" ]; then echo "=== $cfg $d"; echo "$new"; fi
  done
done
rm -rf /tmp/refcfg-ev
echo done
