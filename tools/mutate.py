#!/usr/bin/env python3
"""Apply one textual edit to /repo, check that it still builds, run the given property checks, revert.
usage: mutate.py <props> <file> <old> <new> [desc]"""
import subprocess,sys
props,path,old,new=sys.argv[1:5]
desc=sys.argv[5] if len(sys.argv)>5 else old[:40]
p="/repo/"+path
s=open(p).read()
if s.count(old)<1:
    print("== %s: PATTERN NOT FOUND"%desc); sys.exit(0)
open(p,'w').write(s.replace(old,new,1))
try:
    b=subprocess.run("cd /repo && GOFLAGS=-mod=mod GOPROXY=off go build ./... 2>&1 | head -3",shell=True,capture_output=True,text=True).stdout.strip()
    out=subprocess.run(f"cd /verif && ./bin/sftpcheck -property {props} -out /tmp/ev | grep -v '^VIOLATION' | grep -v '^KNOWN-FINDING' | grep -v ' 0 violations' | cut -c1-260 | head -5",shell=True,capture_output=True,text=True).stdout
    print("== %s [build: %s]"%(desc,b or "ok")); print(out if out.strip() else "   NOT DETECTED")
finally:
    subprocess.run("git -C /repo checkout -- .",shell=True)
