#!/bin/bash
# usage: par_one.sh <patch-dir> [binary] — applies <patch-dir>/patch.diff to a private copy of /repo HEAD under /var/tmp, runs all
# quick checks on it with -repo, prints "<id>: <properties with violations>|NOT-DETECTED" and, on the following lines (indented),
# the failing obligations.  Does not touch /repo's working tree, so many can run at once.
D=$1; BIN=${2:-/verif/bin/sftpcheck}
id=$(basename $D)
W=$(mktemp -d /var/tmp/par.XXXXXX)
trap 'rm -rf $W' EXIT
git -C /repo archive HEAD | tar -x -C $W
cd $W
if ! patch -p1 -s -f --no-backup-if-mismatch < $D/patch.diff >/dev/null 2>&1; then echo "$id: PATCH-DOES-NOT-APPLY"; exit 0; fi
out=$(cd /verif && VERIF_NO_CONTROLS=1 $BIN -repo $W -property all -out $W/.ev 2>/dev/null); rc=$?
if [ $rc -ne 0 ] && [ $rc -ne 1 ]; then echo "$id: CHECKER-FAILED(exit $rc)"; exit 0; fi
nprops=$(echo "$out" | grep -cE "^C[0-9]+ quick")
if [ "$nprops" -lt 19 ]; then echo "$id: CHECKER-FAILED(only $nprops properties reported)"; exit 0; fi
res=$(echo "$out" | grep -E "^C[0-9]+ quick" | grep -v " 0 violations" | sed -E 's/^(C[0-9]+) quick.* ([0-9]+) violations.*/\1(\2)/' | paste -sd' ')
echo "$id: ${res:-NOT-DETECTED}"
echo "$out" | grep -E ": (violated|undecided): " | sed -E 's/^[^ ]+ //' | cut -c1-220 | sed 's/^/    /'
