# Table of claims, exec'd by gen_manifest.py.  claim(id, category, technique, text, note, design_ref)
claim("C14", "proof",
      "happens-before chain decided as path/dominance rules on go/ssa CFGs + who-may-call",
      "Every link of the chain handler(read/write) -> WaitGroup.Done -> WaitGroup.Wait -> registration and hand-off of CLOSE -> close of the backing object is decided on the SSA control-flow graphs of the dispatcher, incomingPacket, readyPacket and the worker functions, for every path (hence every schedule); together the links are sufficient for the property given the Go memory model.",
      "Trusted: Go memory model for channels and sync.WaitGroup; go/ssa CFG and dominators; static call resolution inside the module; handlers return only after their I/O is done (the property's own premise).",
      "DESIGN.md section 4, C14")

NA["C15"] = "linearizability quantifies over concurrent histories and their real-time order; no sound static argument in reach bounds that. Its structural preconditions are decided under C03 (reply routing), C14 (response only after the handler returned) and C18 (per-request buffers)."
