# Table of claims, exec'd by gen_manifest.py.  claim(id, category, technique, text, note, design_ref)
claim("C14", "proof",
      "happens-before chain decided as path/dominance rules on go/ssa CFGs + who-may-call",
      "Every link of the chain handler(read/write) -> WaitGroup.Done -> WaitGroup.Wait -> registration and hand-off of CLOSE -> close of the backing object is decided on the SSA control-flow graphs of the dispatcher, incomingPacket, readyPacket and the worker functions, for every path (hence every schedule); together the links are sufficient for the property given the Go memory model.",
      "Trusted: Go memory model for channels and sync.WaitGroup; go/ssa CFG and dominators; static call resolution inside the module; handlers return only after their I/O is done (the property's own premise).",
      "DESIGN.md section 4, C14")

NA["C15"] = "linearizability quantifies over concurrent histories and their real-time order; no sound static argument in reach bounds that. Its structural preconditions are decided under C03 (reply routing), C14 (response only after the handler returned) and C18 (per-request buffers)."

claim("C02", "other",
      "path-count/dominance rules on SSA CFGs, dispatch simulation of type switches, value provenance closed over call sites, who-may-call/who-may-write",
      "Decides necessary structural conditions for every CFG path and every request type makePacket can build: exhaustive dispatch, exactly one readyPacket per dispatched request, no received request skipped, response id and order id are the request's own, order counter/sort/head-match/single-sender discipline, reply types legal per request type, no response abandoned at shutdown (two known findings). It decides the mechanism's shape; it does not execute interleavings. Also: every lock taken on the request path is released on every path to a return (a leaked handle-table lock answers the current request and wedges all later ones). A handle request is answered by the handler its own type names (packet type x open method table), the popped queue element is the head, and order ids are the successive values of the counter. Assumes fewer than 2^32 requests per connection (the 32-bit order id wraps).",
      "Assumes handlers return and the transport preserves byte order; call resolution by static callees and VTA; oracle table of legal reply types from draft-ietf-secsh-filexfer-02 and OpenSSH PROTOCOL.",
      "DESIGN.md section 4, C02")

claim("C09", "proof",
      "effect analysis over VTA call-graph cones + dispatch simulation of the gate's type switch + exhaustive evaluation of the open-flag tables extracted from syntax",
      "For every request type that can be constructed and all 64 open-flag sets: mutating sink reachable in the handling cone => the gate classifies the request not-read-only; the gate dominates handlePacket, answers EPERM (mapped to PERMISSION_DENIED) and does not refuse reading requests. Finite and exhaustive over the extracted tables; together sufficient for the property modulo the trusted base.",
      "Trusted: sink classification (anything in os/syscall/ioutil/x-sys not on the reading allowlist is mutating), VTA call graph, OS semantics of a plain O_RDONLY open, option fixed at construction.",
      "DESIGN.md section 4, C09")

claim("C11", "other",
      "locksets, who-may-call/who-may-write, dominance of lookup results, ownership (must-consume) path rule on SSA",
      "Decides, for every path of the handle-table code of both servers: counter increments only under the lock and handles derive from it; tables accessed only under their lock; lookup results used only under ok with EBADF on the miss path; the closed set of close sites with delete-then-close on one locked path; failed opens release their handle; every object obtained from a handler or from openfile is stored in a handle or closed on every non-error path; transfer-error/context-cancel wiring; sweeps after the worker join on every return path. Necessary structural conditions, not an execution. Also: an object stored into a Request is owned only if that Request is in the handle table or closed by its creator on every path (resolved over all call sites). Also: a CLOSE is a barrier for the requests that follow it, and the request context ends before Serve joins its workers.",
      "Assumes handler objects do not close themselves and package os releases descriptors on Close; lock idiom is Lock/RLock + deferred unlock (the only idiom in the repository).",
      "DESIGN.md section 4, C11")

claim("C03", "other",
      "value provenance of request ids (fresh per loop iteration), locksets, dominance rules on dispatchRequest/recv, who-may-call",
      "Decides the routing mechanism's necessary conditions on every path: ids drawn from the atomic counter in the same iteration and used once; one locked writer per connection; register-before-send with the packet's own id; in-flight table only under its mutex; recv routes by the id decoded from the received packet and removes the entry; one pooled result channel per in-flight request, returned only after its result was consumed. Also: an in-flight entry is removed only by the receiver (for the reply) or by dispatchRequest (failed write); no other caller of getChannel and no other delete. Assumes fewer than 2^32 requests are issued while one request stays outstanding (the 32-bit request id wraps).",
      "Assumes peers answer with outstanding ids; lock idiom Lock + deferred Unlock; callers enumerated statically (functions used as values are reported).",
      "DESIGN.md section 4, C03")
claim("C04", "other",
      "channel-protocol and shutdown-shape rules on SSA (select/send/close/range structure, path counts, locksets, who-may-call)",
      "Decides the shape of the shutdown protocol that is necessary for 'every call fails, none hangs': broadcast on every receiver exit, exactly-once notification and latch under the mutex, refusal after close, send errors delivered through the table, buffered result channels, writer closed and receiver joined, and in the four concurrent transfers cancellable or drained sends, closed work channels, workers that never leave their loop, single close of cancel. Bounded-time liveness itself is not claimed. Also: every client-side Lock/RLock is released on every return path; the broadcast sweep replaces each notified entry with a fresh buffered channel (or deletes it). The loss must reach waiters without the write mutex (known finding F33).",
      "Assumes closing the writer unblocks the reader's Read and the optional ssh Wait hook returns.",
      "DESIGN.md section 4, C04")

claim("C01", "other",
      "symbolic (affine) comparison of SSA offset/length/cursor expressions per transfer loop; value provenance at server read/write sites",
      "Decides, for all 12 client transfer sites and all 6 server read/write sites, the structural necessary conditions of byte-exact transfer: offset = start + cursor, buffer region starts at the same cursor, cursor advances by the bytes covered, length field = chunk length, chunk bounded by maxPacket, work item agrees with its request, server uses the packet's own offset/buffer and answers buf[:n], reads clamped to the server maximum. Does not decide equality of bytes under reordering. Also decided: a pooled chunk buffer is returned to the pool only when no other goroutine can still read it and is not used afterwards; the File offset after each transfer (shared with C12).",
      "Assumes io.ReaderAt/io.WriterAt contracts of the backing object and that the client's packet size does not exceed the server's maximum (the property's premise).",
      "DESIGN.md section 4, C01")

claim("C12", "other",
      "locksets per exported method derived from reachable field effects, guard dominance closed over call sites, who-may-write, affine shapes of offset stores, Seek table from SSA",
      "Decides the structural conditions of os.File-like offset and closed-state semantics for every exported File method and every path: required lock mode held at every access/helper call; closed test dominates every handle load (interprocedurally); Close invalidates before sending CLOSE with the old handle and is the only writer; *At/metadata methods cannot reach a store to the offset; each offset store has the sanctioned 'bytes moved' shape; Seek's whence table and negative guard. Also: the goroutines of a transfer (which read f.handle without the lock) have ended before the method returns and releases f.mu; the WriteTo offset store is guarded so that the empty EOF chunk does not move the offset.",
      "Assumes callers use a File only through its methods; lock idiom Lock/RLock + deferred unlock.",
      "DESIGN.md section 4, C12")
claim("C13", "other",
      "structural rules on the reducers/workers/sequential loops of client.go (guards, return terms via affine comparison, channel-send shape)",
      "Decides the necessary conditions of prefix accounting on partial failure: lowest-offset reduction from MaxInt64, count = first.off - off with first.err, unconditional error delivery to the drained channel, read-worker error offset = chunk offset + bytes copied with short DATA => io.EOF, sequential loops stop at the first error, WriteTo reducer order/stop/EOF mapping, nil error only with the full length, ReadFrom returns bytes consumed. Also: a chunk's own error is examined on every path to the next chunk or to a nil result (not only a variable that merges it with the source's read error).",
      "Assumes regular files return short reads only at end of file (stated in client.go).",
      "DESIGN.md section 4, C13")

claim("C16", "other",
      "per-iteration path counts and value provenance on SSA (cursor read/advance, batch slice, status truth table, entry decode completeness)",
      "Decides the listing cursor discipline of both servers and the client loop on every path: ListAt at the cursor with a MaxFilelist buffer, cursor advanced exactly once by ListAt's own count, reply = finfo[:n], STATUS iff err != nil && (err != EOF || n == 0) (truth table over 6 cases), READDIR handled sequentially, one entry per dirent, client decodes every entry completely, skips exactly '.'/'..', continues after NAME, ends on STATUS/send error, EOF => success. Also: an entry's attribute block is framed by its flags word alone; the os server's Readdir batch size is a small positive constant. The request server's batches are not bounded in bytes (known finding F36).",
      "Assumes listers honour the ListerAt contract and the directory is not modified during the listing.",
      "DESIGN.md section 4, C16")
claim("C18", "other",
      "ownership/tagging rules: affine comparison of order-id terms, provenance of page tags closed over call sites, dominance (release after send), locksets, who-may-call",
      "Decides the allocator's ownership discipline that is necessary for invisibility: receive page tagged with the id the packet will get, READ page tagged with the request's own order id at all sites, one shared allocator, release only after the matching send under the head's order id, allocator state under its mutex, lent page leaves the free list and enters the used table, Free only in Serve's deferred function, page slices bounded by the page length. Byte-identity of response streams is not decided. Also: no decoder of package sftp reslices a byte slice beyond its length (a page is 256 KiB whatever the frame length). Also: the READ buffer has the same length with and without the allocator, and a Request that stays in the handle table keeps no slice of the receive page.",
      "Assumes every request is answered (C02) so that every page is eventually released.",
      "DESIGN.md section 4, C18")

claim("C19", "other",
      "dominance rules on the handshake, who-may-write on the extension tables, provenance of the new extension list (freshness/aliasing), table extraction of advertised vs decoded names",
      "Decides the structural conditions of truthful negotiation on every path: Client only after type==VERSION and version==3 on checked decodes with the writer closed on failure; ext written only from the VERSION packet; fsync only when advertised; INIT answered with version 3 and the configured list; all-or-nothing replacement of the list from a fresh slice of validated elements; advertised ⊆ decoded names, client encoder names ⊆ decoded names; unknown extended requests keep the session and get op-unsupported in both servers. Also: an extended request with an unknown name is classified read-only, so the read-only gate does not pre-empt the op-unsupported reply. Also: the extended-request decoder serves only names in the configured (advertised) list.",
      "Third-party peers are out of scope; extension data strings beyond table equality are not decided.",
      "DESIGN.md section 4, C19")

claim("C05", "other",
      "table extraction (request type -> package-os call with argument provenance; open-flag tables both directions; error-translation decision lists) evaluated exhaustively over finite oracle tables",
      "Decides the adapter wiring that is necessary for os-like behaviour: per request type the exact set of file-system calls with each path passed through toLocalPath once (symlink target verbatim: known finding F11), client/server open-flag tables composing to the identity for all 48 os flag combinations, error categories preserved for 44 standard error shapes (bare and in os's own wrappers), toLocalPath joining only relative paths. Of the client composites it decides two clauses: Glob threads its accumulated matches through the loop, and MkdirAll reports errors from the same sources as the toolchain's os.MkdirAll (both analysed with one provenance function). It decides the mapping, not sequences over file-system states; RemoveAll, Walk and the Remove fallback are not decided. Also decided for the client: each name-space method sends its namesake request with its arguments in the right fields; Remove's choice between its two errors; RemoveAll's walk (Lstat probe, child paths, every error returned); Glob validates first and returns literal names verbatim; ReadDir sorts; a file created without a permissions attribute gets 0666. toLocalPath's lexical cleaning is a known finding (F28).",
      "Axioms for os.IsNotExist/os.IsPermission/errors.Is/errors.As on the listed shapes; oracle tables in DESIGN.md Appendix A.",
      "DESIGN.md section 4, C05")

claim("C10", "other",
      "table extraction (type->Method->wrapper->handler method) against the documented API, value provenance of every path stored in a Request (cleanPathWithBase closure), field-to-field provenance, per-path invocation counts, error-shape evaluation",
      "Decides the adapter's tables and provenance on every path: method strings per request type, routing of each method to its wrapper and handler interface methods, all handler-visible paths produced by cleanPathWithBase from a cleaned start directory (two documented verbatim exceptions), flags/attrs copied from the right packet fields, at most one handler invocation per request, error categories and SFTP codes preserved for the standard error shapes. The attribute flags word of OPEN is not conveyed to handlers (known finding F14). Also: for every packet type x open method the handler I/O reached is the request's own (or the combination is refused), MKDIR's flags and attribute bytes reach the handler, and EOF is recognised with errors.Is wherever it decides about data.",
      "Trusted: path.Clean/Join semantics; oracle tables from request-interfaces.go / request-readme.md (DESIGN.md Appendix A.6).",
      "DESIGN.md section 4, C10")

claim("C17", "other",
      "table extraction from type-checked syntax with constant folding (mode tables, flag->call tables), exhaustive comparison with the POSIX/os oracle and mutual-inverse check, value provenance of reported attributes",
      "Decides, exhaustively over the extracted tables, that toFileMode/fromFileMode are the POSIX<->os mapping and mutually inverse on all seven type constants, the three special bits and the permission mask; that reported attributes come from the FileInfo's own Size/Mode/ModTime/owner; that both set-attribute handlers apply exactly the four flag->call pairs with the right arguments and agree; that client setters pair flag and payload in wire order; that the long name is built from the same entry. Also: long-name special-bit letters (s/S, t/T, each tested at its own position) and permission letters follow the mode bits. Also: long name and attributes take the owner from the same Sys() types with the same precedence. FSETSTAT times by name and chmod-before-chown are known findings (F37, F38).",
      "What the host file system reports is out of scope; oracle: POSIX S_IF* and os.Mode* (DESIGN.md Appendix A.4).",
      "DESIGN.md section 4, C17")

claim("C06", "other",
      "extraction of ordered wire-primitive sequences from SSA for every marshal/unmarshal function of both codecs, compared with each other and with the draft/OpenSSH oracle layouts; affine check of the length prefix; shift-pattern check of integer primitives; cursor-threading rule",
      "Decides layout agreement: per packet type marshal = unmarshal (field by field) in package sftp, both = the SFTP v3 draft layout = the filexfer sibling's encoder and decoder; attribute blocks by flag in four functions = the draft, flag and type-code constants equal across packages; length prefix = len(header)+len(payload)-4 with header first; big-endian primitives with matching shifts; no decode drops its rest buffer while decoding continues; StatVFS field order/width. Value-level round trips beyond these shapes are not decided. Also: in every attribute ladder the flag alone decides whether its block is present; count guards refuse only counts whose minimum-size elements cannot fit in the remaining bytes (linear prover; minimum size computed from the element decoder).",
      "Trusted: encoding/binary; oracle layouts in DESIGN.md Appendix A.1/A.2.",
      "DESIGN.md section 4, C06")

claim("C08", "proof",
      "bounds prover over SSA: linear integer facts from dominating guards, slice/make/copy/io definitions, field memory with the Buffer invariant, inferred callee requires/ensures, decided by Fourier–Motzkin refutation (zone/affine abstract interpretation, no execution)",
      "Every index, slice, make, non-comma-ok assertion, explicit panic, division and length-contract call in the decode cone of both codecs (about 150 functions) is an obligation; all are discharged on amd64 (quick) and additionally on 386 (thorough). Allocation sizes are proved bounded by a constant or by the input length; the 256 KiB and zero-length limits are proved to hold at the body allocation and read on every path; a failed body read never returns a nil error. Discharging all obligations is sufficient for 'total and bounded' modulo the trusted base. Also: reply-sized allocations in the client's inline name-list decoders. Also: every filexfer decoder ends with the Buffer's sticky error.",
      "Trusted: Go slice/copy/io.ReadFull semantics, prover soundness, slice lengths < 2^31, non-nil receivers, no recursion in the cone, encoding/binary for StatVFS.",
      "DESIGN.md section 4, C08")
claim("C20", "other",
      "the C08 bounds prover applied to reply-derived data in every Client/File method and background goroutine, plus the decoders they call; axiom 'delivered payload >= 4 bytes' proved where results are built; structural default-arm and no-panic rules",
      "Decides that no index/slice/make on data derived from a server reply can panic in the client (callers and background goroutines), that allocations in the reply decoders are bounded by the input, that every reply-type switch ends in an error and that decoders only return errors. Level 'other': it covers panics and allocation bounds of decoding, not the claim that the Client stays usable afterwards. Also: the sweep that fails outstanding calls when the receiver gives up cannot block a request whose write fails afterwards (fresh replacement channel per entry). Also: a STATUS in reply to a request that returns data never yields a nil error.",
      "Trusted base as C08; binary.Read for StatVFS.",
      "DESIGN.md section 4, C20")

claim("C07", "other",
      "path rules on the receive loops and shutdown sequence (reachability avoiding barriers, dominance), who-may-call, and the bounds prover on request-derived data in the handling cones",
      "Decides for both servers, on every path: a packet that failed to decode (or a nil packet) is never dispatched, the connection is closed and the error reported; the shutdown sequence close → join → sweep runs on every exit, the dispatcher closes both worker channels, responses are queued before the barrier counter is released; no panic-capable instruction on request-derived data in the handling cones is left undischarged (attribute-blob assertions, allocator page slicing, packet-manager queues); the decoders of OPEN, MKDIR, SETSTAT and FSETSTAT return nil only after the attribute block announced by the flags word was decoded successfully (so no handler or os call ever sees a truncated block); Serve's join points hold no lock that a worker needs. Also: Serve's join holds no lock a worker needs and the session context is cancelled before the join; FSTAT/FSETSTAT/CLOSE are ordered with the reads and writes of their handle; the in-package backend checks wire offsets and sizes.",
      "Assumes user handlers do not panic and honour the io.ReaderAt/WriterAt count contract; maxTxPacket < 2^31. 'Emitted responses are a prefix of the correct ones' is not decided.",
      "DESIGN.md section 4, C07")
