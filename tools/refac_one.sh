#!/bin/bash
# usage: refac_one.sh <patch> [props]  — applies a refactoring patch to /repo, prints failing obligations and the normaliser's notes, reverts
p=$1; props=${2:-all}
cd /repo && git diff --quiet || { echo "repo dirty"; exit 2; }
git apply --check $p 2>/dev/null || { echo "PATCH-DOES-NOT-APPLY"; exit 3; }
git apply $p
cd /verif && ./bin/sftpcheck -property $props -out /tmp/refacone-ev 2>&1 | grep -E ": (violated|undecided): " | sed -E 's/^[^ ]+ //' | cut -c1-${3:-260}
python3 - <<'PY'
import json,glob
seen=set()
for f in glob.glob('/tmp/refacone-ev/C*.json'):
    e=json.load(open(f))
    for n in json.dumps(e).split('"'):
        if ('de-extraction' in n or 'renamed symbol' in n) and n not in seen:
            seen.add(n); print('  NOTE', n[:200])
PY
git -C /repo checkout -- . ; git -C /repo clean -fdq; rm -rf /tmp/refacone-ev
