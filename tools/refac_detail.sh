#!/bin/bash
# For every patch under <root>/C*/out/*/patch.diff that makes some check fail, print the failing obligations (rule + key + status).
# The patches are behaviour-preserving refactorings: every line printed is a false alarm to be corrected (or a patch to be rejected).
root=${1:-/var/tmp/refac}
cd /repo && git diff --quiet || { echo "repo dirty"; exit 2; }
for p in $(ls -d $root/C*/out/*/patch.diff 2>/dev/null | sort -V); do
  d=$(dirname $p)
  if ! git -C /repo apply --check $p 2>/dev/null; then echo "$d: PATCH-DOES-NOT-APPLY"; continue; fi
  git -C /repo apply $p
  out=$(cd /verif && ./bin/sftpcheck -property all -out /tmp/refacdetail-ev 2>/dev/null | grep -E ": (violated|undecided): " | sed -E 's/^[^ ]+ //' | cut -c1-${2:-230})
  git -C /repo checkout -- . ; git -C /repo clean -fdq
  if [ -n "$out" ]; then echo "=== $d"; echo "$out"; fi
done
rm -rf /tmp/refacdetail-ev
