#!/bin/bash
# usage: par_props.sh <patch-dir> <binary> <props>  — like tools/par_one.sh for a subset of properties
D=$1; BIN=$2; PROPS=$3
id=$(basename $D)
W=$(mktemp -d /var/tmp/par.XXXXXX)
trap 'rm -rf $W' EXIT
git -C /repo archive HEAD | tar -x -C $W
cd $W
if ! patch -p1 -s -f --no-backup-if-mismatch < $D/patch.diff >/dev/null 2>&1; then echo "$id: PATCH-DOES-NOT-APPLY"; exit 0; fi
out=$(cd /verif && VERIF_NO_CONTROLS=1 $BIN -repo $W -property $PROPS -out $W/.ev 2>/dev/null); rc=$?
if [ $rc -ne 0 ] && [ $rc -ne 1 ]; then echo "$id: CHECKER-FAILED(exit $rc)"; exit 0; fi
res=$(echo "$out" | grep -E "^C[0-9]+ quick" | grep -v " 0 violations" | sed -E 's/^(C[0-9]+) quick.* ([0-9]+) violations.*/\1(\2)/' | paste -sd' ')
echo "$id: ${res:-NOT-DETECTED}"
echo "$out" | grep -E ": (violated|undecided): " | sed -E 's/^[^ ]+ //' | cut -c1-220 | sed 's/^/    /'
