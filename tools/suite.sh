#!/bin/bash
# Runs the pinned test suite of the tree in $1 (default /var/tmp/tri/wt) in a private /tmp (the suite binds /tmp/rstest.sock).
wt=${1:-/var/tmp/tri/wt}
export PATH=/opt/veriftools/go1.26.8/bin:$PATH GOFLAGS=-mod=mod GOPROXY=off GOSUMDB=off GOTOOLCHAIN=local GOWORK=off
unshare -rm sh -c "mount -t tmpfs tmpfs /tmp && cd $wt && go build ./... && go test -vet=off -count=1 -timeout 25m ./... 2>&1" | tail -${2:-12}
