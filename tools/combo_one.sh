#!/bin/bash
# usage: combo_one.sh <seed-dir> <refactor-dir>
# Applies the behaviour-preserving refactoring and then the seeded fault to a private copy of /repo HEAD (under /var/tmp)
# and runs the seed's own property check on it: the fault must still be reported ("a refactoring never hides a fault").
# Prints one line: <seed> + <refactor>: DETECTED | MISSED | CONFLICT
S=$1; R=$2
sid=$(basename $S); rid=$(basename $R); prop=${sid%%-*}
W=$(mktemp -d /var/tmp/combo.XXXXXX)
trap 'rm -rf $W' EXIT
git -C /repo archive HEAD | tar -x -C $W
cd $W
if ! git apply --unsafe-paths --directory=$W $R/patch.diff 2>/dev/null && ! patch -p1 -s -f < $R/patch.diff >/dev/null 2>&1; then echo "$sid + $rid: CONFLICT(refactor)"; exit 0; fi
if ! patch -p1 -s -f --no-backup-if-mismatch < $S/patch.diff >/dev/null 2>&1; then echo "$sid + $rid: CONFLICT"; exit 0; fi
find . -name '*.orig' -o -name '*.rej' | xargs -r rm -f
export PATH=/opt/veriftools/go1.26.8/bin:$PATH GOFLAGS=-mod=mod GOPROXY=off GOSUMDB=off GOTOOLCHAIN=local GOWORK=off CGO_ENABLED=0
if ! go build ./... >/dev/null 2>&1; then echo "$sid + $rid: CONFLICT(build)"; exit 0; fi
out=$(cd /verif && VERIF_NO_CONTROLS=1 ./bin/sftpcheck -repo $W -property $prop -out $W/.ev 2>/dev/null)
if echo "$out" | grep -q "^VIOLATION property=$prop"; then echo "$sid + $rid: DETECTED"; else echo "$sid + $rid: MISSED"; fi
