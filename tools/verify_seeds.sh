#!/bin/bash
# Usage: verify_seeds.sh [root=/tmp/seed] [property]   (with a property: only that one, in its own scratch directory and
#        output file verify.<property>.tsv, so that several can run side by side)
# Confirms every candidate seeded fault under <root>/<id>/out/<x>/ in a scratch worktree:
#  builds, passes the pinned suite, demo fails with the patch and passes without it.
# Writes <root>/verify.tsv
set -u
export GOFLAGS=-mod=mod GOPROXY=off
ROOT=${1:-/tmp/seed}
# the scratch worktree lives outside /tmp so that the suite can run with a private tmpfs on /tmp
# (the suite binds the fixed path /tmp/rstest.sock; concurrent runs would collide)
ONLY=${2:-}
SV=/var/tmp/sv${ONLY:+.$ONLY}
WT=$SV/wt
rm -rf $SV; mkdir -p $SV
suite() { unshare -rm sh -c "mount -t tmpfs tmpfs /tmp && cd $WT && timeout 600 go test -vet=off -count=1 ./..."; }
git -C /repo worktree prune
git -C /repo worktree add --detach $WT HEAD -q || exit 2
out=$ROOT/verify${ONLY:+.$ONLY}.tsv
: > $out
# two layouts: <root>/<id>/out/<x>/ (as the sub-agents deliver) and <root>/<id>-<x>/ (as stored in /verif/seeded,
# demos named *_test.go.txt)
for d in $ROOT/C*/out/[abc1-9] $ROOT/C??-?; do
  [ -f $d/patch.diff ] || continue
  case $d in $ROOT/${ONLY:-C}*) ;; *) continue;; esac
  case $d in
    */out/*) id=$(basename $(dirname $(dirname $d))); x=$(basename $d);;
    *) b=$(basename $d); id=${b%-*}; x=${b#*-};;
  esac
  cd $WT && git checkout -q -- . && git clean -fdq
  rm -rf $SV/demo; mkdir -p $SV/demo
  for t in $d/*_test.go $d/*_test.go.txt; do [ -f $t ] && cp $t $SV/demo/$(basename ${t%.txt}); done
  demo=$(ls $SV/demo/*_test.go 2>/dev/null | head -1)
  [ -n "$demo" ] || { echo -e "$id\t$x\tno-demo" >> $out; continue; }
  pkgdir=.
  if grep -q "^package sshfx" $demo; then pkgdir=internal/encoding/ssh/filexfer; fi
  if grep -q "^package openssh" $demo; then pkgdir=internal/encoding/ssh/filexfer/openssh; fi
  if grep -q "^package main" $demo; then pkgdir=server_standalone; fi
  tests=$(grep -ho "^func Test[A-Za-z0-9_]*" $demo | sed 's/func //' | paste -sd'|')
  # clean tree: demo passes
  cp $demo $pkgdir/
  if timeout 300 go test -vet=off -count=1 -run "^($tests)\$" ./$pkgdir >$SV/clean.log 2>&1; then clean=pass; else clean=FAIL; fi
  rm -f $pkgdir/$(basename $demo)
  if ! git apply $d/patch.diff 2>$SV/apply.log; then echo -e "$id\t$x\tpatch-does-not-apply" >> $out; continue; fi
  if go build ./... >$SV/build.log 2>&1; then build=ok; else build=FAIL; fi
  if suite >$SV/suite.log 2>&1; then suite=pass; else
     # one retry: the suite has a flaky statvfs comparison
     if suite >$SV/suite.log 2>&1; then suite=pass; else suite=FAIL; fi
  fi
  cp $demo $pkgdir/
  if timeout 300 go test -vet=off -count=1 -run "^($tests)\$" ./$pkgdir >$SV/mut.log 2>&1; then mut=PASS-unexpected; else mut=fails; fi
  if [ $mut = PASS-unexpected ]; then
     # a fault of 32-bit builds: the demonstration is run as a GOARCH=386 binary, with and without the patch
     if GOARCH=386 timeout 300 go test -vet=off -count=1 -run "^($tests)\$" ./$pkgdir >$SV/mut386.log 2>&1; then :; else
        git checkout -q -- . ; cp $demo $pkgdir/
        if GOARCH=386 timeout 300 go test -vet=off -count=1 -run "^($tests)\$" ./$pkgdir >$SV/clean386.log 2>&1; then mut="fails(GOARCH=386)"; fi
     fi
  fi
  rm -f $pkgdir/$(basename $demo)
  echo -e "$id\t$x\tbuild=$build\tsuite=$suite\tdemo_clean=$clean\tdemo_patched=$mut" >> $out
done
cd / && git -C /repo worktree remove --force $WT; rm -rf $SV
cat $out
