#!/bin/bash
# For every seeded fault (given directory root, default /verif/seeded), apply it to /repo, run all quick checks,
# record which properties raise violations, revert.  Never commits to /repo.
root=${1:-/verif/seeded}
cd /repo && git diff --quiet || { echo "repo dirty"; exit 2; }
for p in $(ls -d $root/C*/patch.diff $root/C*/out/*/patch.diff 2>/dev/null | sort); do
  d=$(dirname $p)
  if ! git -C /repo apply --check $p 2>/dev/null; then echo "$d: PATCH-DOES-NOT-APPLY"; continue; fi
  git -C /repo apply $p
  raw=$(cd /verif && ./bin/sftpcheck -property all -out /tmp/seedmatrix-ev 2>/dev/null)
  if [ $(echo "$raw" | grep -cE "^C[0-9]+ quick") -lt 19 ]; then git -C /repo checkout -- . ; git -C /repo clean -fdq; echo "$d: CHECKER-FAILED"; continue; fi
  res=$(echo "$raw" | grep -E "^C[0-9]+ quick" | grep -v " 0 violations" | sed -E 's/^(C[0-9]+) quick.* ([0-9]+) violations.*/\1(\2)/' | paste -sd' ')
  git -C /repo checkout -- . ; git -C /repo clean -fdq
  echo "$d: ${res:-NOT-DETECTED}"
done
rm -rf /tmp/seedmatrix-ev
