package main

import (
	"go/constant"
	"os"
	"fmt"
	"go/token"
	"go/types"
	"sort"
	"strings"

	"golang.org/x/tools/go/ssa"
)

// Engine Z, part 2: per-function fact collection over SSA and bounds obligations.

type anchoredFact struct {
	l      lin
	anchor ssa.Instruction // the fact holds in code dominated by anchor (nil: everywhere)
	ablock *ssa.BasicBlock // or: in every block dominated by (or equal to) this block
}

type memCell struct {
	isSlice bool
	term    lin    // integer fields: current value
	key     string // slice fields: identity of the current slice value
	dirty   bool   // written by this function since the last point the invariant was assumed
}

type zsummary struct {
	requires   []zreq       // len(param i) >= k
	ensures    map[int]zens // result j: len = len(param i) - k, valid when the error result is nil (or always if no error result)
	errIdx     int          // index of the error result, -1 if none
	done       bool
	inProgress bool
}

type zreq struct {
	param int
	min   int64
	cap   bool // requirement on cap(param) instead of len(param)
}

type zens struct {
	param int
	sub   int64
}

type zworld struct {
	p       *Program
	int64ok bool // 64-bit int
	sums    map[*ssa.Function]*zsummary
	fns     map[*ssa.Function]*zfn
}

func newZWorld(p *Program) *zworld {
	return &zworld{p: p, int64ok: p.Cfg.GOARCH != "386", sums: map[*ssa.Function]*zsummary{}, fns: map[*ssa.Function]*zfn{}}
}

type zfn struct {
	convBusy  map[*ssa.Convert]bool
	pgDepth   int
	nilDepth  int
	convExact map[*ssa.Convert]bool
	addBusy   map[*ssa.BinOp]bool
	addExact  map[*ssa.BinOp]bool
	w         *zworld
	fn        *ssa.Function
	facts     []anchoredFact
	seen      map[string]bool             // atoms whose defining facts were generated
	mem       map[ssa.Instruction]memCell // load instruction -> value at that point
	fresh     int
	// memory epochs: invariant obligations to prove (buffer invariant at returns/calls)
	invObl    []zobl
	errOf     map[ssa.Value]*ssa.Call // error-typed Extract -> the call it comes from
	built     bool
	callState map[ssa.Instruction]map[fieldKey]memCell // memory state just before each call
	minDefs   []minDef                                 // min/max builtins met so far: the result is one of the arguments
}

type minDef struct {
	name string
	args []lin
	call *ssa.Call
}

type zobl struct {
	In    ssa.Instruction
	Kind  string
	Goals []lin
	Desc  string
	Alt   [][]lin // alternative goal sets (any one suffices)
}

func (w *zworld) get(fn *ssa.Function) *zfn {
	if z, ok := w.fns[fn]; ok {
		return z
	}
	z := &zfn{w: w, fn: fn, seen: map[string]bool{}, mem: map[ssa.Instruction]memCell{}, errOf: map[ssa.Value]*ssa.Call{}, callState: map[ssa.Instruction]map[fieldKey]memCell{}}
	w.fns[fn] = z
	z.buildMemory()
	z.calleePostconditions()
	return z
}

// calleePostconditions: a callee that returns len(rest) = len(arg) - k on success thereby guarantees
// len(arg) >= k on the caller's success edge, even when the caller discards the rest.
func (z *zfn) calleePostconditions() {
	eachInstr(z.fn, func(in ssa.Instruction) {
		call, ok := in.(*ssa.Call)
		if !ok {
			return
		}
		callee := call.Call.StaticCallee()
		if callee == nil || !inModule(callee) || callee.Blocks == nil || callee == z.fn {
			return
		}
		sum := z.w.summary(callee)
		if !sum.done {
			return
		}
		for _, en := range sum.ensures {
			if en.sub <= 0 || en.param >= len(call.Call.Args) {
				continue
			}
			ln := z.lenOf(call.Call.Args[en.param], 1)
			fact := leq(linConst(en.sub), ln, 0)
			if sum.errIdx < 0 {
				z.addFact(fact, call)
				continue
			}
			for _, r := range *call.Referrers() {
				if e, ok := r.(*ssa.Extract); ok && e.Index == sum.errIdx {
					for _, blk := range z.nilEdges(e) {
						z.addFactAtBlock(fact, blk)
					}
				}
			}
		}
	})
}

func (z *zfn) intBits(t types.Type) (bits int, signed bool, ok bool) {
	b, isB := t.Underlying().(*types.Basic)
	if !isB || b.Info()&types.IsInteger == 0 {
		return 0, false, false
	}
	w := 64
	if !z.w.int64ok {
		w = 32
	}
	switch b.Kind() {
	case types.Int:
		return w, true, true
	case types.Uint, types.Uintptr:
		return w, false, true
	case types.Int8:
		return 8, true, true
	case types.Int16:
		return 16, true, true
	case types.Int32:
		return 32, true, true
	case types.Int64:
		return 64, true, true
	case types.Uint8:
		return 8, false, true
	case types.Uint16:
		return 16, false, true
	case types.Uint32:
		return 32, false, true
	case types.Uint64:
		return 64, false, true
	case types.UntypedInt:
		return 64, true, true
	}
	return 0, false, false
}

func (z *zfn) addFact(l lin, anchor ssa.Instruction) {
	z.facts = append(z.facts, anchoredFact{l: l, anchor: anchor})
}

// rangeFacts adds the value range of an integer-typed atom.
func (z *zfn) rangeFacts(name string, t types.Type, anchor ssa.Instruction) {
	bits, signed, ok := z.intBits(t)
	if !ok {
		return
	}
	v := linVar(name)
	if !signed {
		z.addFact(v.scale(-1), anchor) // -x <= 0
		if bits < 63 {
			hi := v.clone()
			hi.c = -((int64(1) << uint(bits)) - 1)
			z.addFact(hi, anchor)
		}
	} else if bits <= 32 {
		hi := v.clone()
		hi.c = -((int64(1) << uint(bits-1)) - 1)
		z.addFact(hi, anchor)
		lo := v.scale(-1)
		lo.c = -(int64(1) << uint(bits-1))
		z.addFact(lo, anchor)
	}
}

func anchorOf(v ssa.Value) ssa.Instruction {
	if in, ok := v.(ssa.Instruction); ok {
		return in
	}
	return nil
}

// lengthLike: the value is a length, capacity, count of copied/read bytes, or simple arithmetic on those and constants.
func (z *zfn) lengthLike(v ssa.Value, d int) bool {
	if d > 6 {
		return false
	}
	switch x := v.(type) {
	case *ssa.Const:
		k, ok := constInt(x)
		return ok && k >= 0 && k < 1<<31
	case *ssa.Convert:
		return z.lengthLike(x.X, d+1)
	case *ssa.Call:
		switch builtinName(&x.Call) {
		case "len", "cap", "copy":
			return true
		}
	case *ssa.Extract:
		if call, ok := x.Tuple.(*ssa.Call); ok && x.Index == 0 {
			if callIs(&call.Call, "io.ReadFull", "io.ReadAtLeast") || isFillCall(&call.Call) {
				return true
			}
		}
	case *ssa.BinOp:
		switch x.Op {
		case token.QUO:
			if k, ok := constInt(x.Y); ok && k > 0 {
				return z.lengthLike(x.X, d+1)
			}
		case token.ADD:
			return z.lengthLike(x.X, d+1) && z.lengthLike(x.Y, d+1)
		}
	case *ssa.UnOp:
		if x.Op == token.MUL {
			if a, ok := x.X.(*ssa.Alloc); ok {
				sts := reachingStores(x, a)
				if len(sts) == 1 && sts[0].Parent() == x.Parent() {
					return z.lengthLike(sts[0].Val, d+1)
				}
			}
		}
	case *ssa.Phi:
		for _, e := range x.Edges {
			if e == ssa.Value(x) {
				continue
			}
			if !z.lengthLike(e, d+1) {
				return false
			}
		}
		return true
	}
	return false
}

func (z *zfn) atom(name string, v ssa.Value) lin {
	if !z.seen[name] {
		z.seen[name] = true
		if v != nil {
			z.rangeFacts(name, v.Type(), nil)
		}
	}
	return linVar(name)
}

func (z *zfn) vname(v ssa.Value) string {
	switch x := v.(type) {
	case *ssa.Parameter:
		return "p:" + x.Name()
	case *ssa.FreeVar:
		return "fv:" + x.Name()
	}
	return "v:" + v.Name()
}

// term gives the linear form of an integer SSA value.
func (z *zfn) term(v ssa.Value) lin { return z.termD(v, 0) }

func (z *zfn) termD(v ssa.Value, d int) lin {
	if d > 14 {
		return z.atom(z.vname(v)+"!", v)
	}
	switch x := v.(type) {
	case *ssa.Const:
		if k, ok := constInt(x); ok {
			return linConst(k)
		}
	case *ssa.ChangeType:
		return z.termD(x.X, d+1)
	case *ssa.Convert:
		fb, fs, ok1 := z.intBits(x.X.Type())
		tb, ts, ok2 := z.intBits(x.Type())
		if ok1 && ok2 {
			exact := false
			switch {
			case fs == ts && tb >= fb:
				exact = true
			case !fs && ts && tb > fb:
				exact = true
			default:
				exact = z.lengthLike(x.X, 0) // lengths are < 2^31 and non-negative
			}
			if exact {
				return z.termD(x.X, d+1)
			}
			// a sign change that provably keeps the value: signed -> unsigned of a value known to be
			// non-negative here, unsigned -> signed of a value known to fit (decided once per instruction)
			if fs != ts && tb >= fb {
				if keep, done := z.convExact[x]; done {
					if keep {
						return z.termD(x.X, d+1)
					}
				} else if !z.convBusy[x] {
					if z.convBusy == nil {
						z.convBusy = map[*ssa.Convert]bool{}
						z.convExact = map[*ssa.Convert]bool{}
					}
					z.convBusy[x] = true
					src := z.termD(x.X, d+1)
					var goal lin
					if fs && !ts {
						goal = src.scale(-1) // src >= 0
					} else {
						goal = src.clone()
						if tb >= 64 {
							goal.c -= 1<<63 - 1
						} else {
							goal.c -= int64(1)<<uint(tb-1) - 1
						}
					}
					keep, _ := z.prove(x, []lin{goal}) // (with the case split over phis: the operand is often a clamped join)
					z.convBusy[x] = false
					z.convExact[x] = keep
					if keep {
						return src
					}
				}
			}
			// a narrowing conversion of a value that provably fits keeps the value (decided once per instruction)
			if tb < fb {
				if keep, done := z.convExact[x]; done {
					if keep {
						return z.termD(x.X, d+1)
					}
				} else if !z.convBusy[x] {
					if z.convBusy == nil {
						z.convBusy = map[*ssa.Convert]bool{}
						z.convExact = map[*ssa.Convert]bool{}
					}
					z.convBusy[x] = true
					src := z.termD(x.X, d+1)
					hi := src.clone()
					if ts {
						hi.c -= int64(1)<<uint(tb-1) - 1
					} else {
						hi.c -= int64(1)<<uint(tb) - 1
					}
					lo := src.scale(-1) // src >= 0 (for a signed target the lower bound is more generous than needed)
					keep, _ := z.prove(x, []lin{hi, lo})
					z.convBusy[x] = false
					z.convExact[x] = keep
					if keep {
						return src
					}
				}
			}
			// the same conversion of the same operand is the same value; a same-width sign change is
			// operand -/+ 2^N·k with k in {0,1}
			src := z.termD(x.X, d+1)
			name := "cv:" + src.key() + fmt.Sprintf("%d", src.c) + ":" + x.Type().String()
			cv := z.atom(name, x)
			if !z.seen[name+"/def"] {
				z.seen[name+"/def"] = true
				if fb == tb && fb <= 32 && fs != ts {
					k := linVar("k:" + name)
					z.addFact(k.scale(-1), nil)
					z.addFact(k.plus(linConst(1), -1), nil)
					m := int64(1) << uint(fb)
					sign := int64(1) // unsigned -> signed: cv = src - m*k
					if fs && !ts {
						sign = -1 // signed -> unsigned: cv = src + m*k
					}
					z.addFact(cv.plus(src, -1).plus(k, sign*m), nil)
					z.addFact(src.plus(cv, -1).plus(k, -sign*m), nil)
				}
			}
			return cv
		}
	case *ssa.BinOp:
		_, signed, ok := z.intBits(x.Type())
		if !ok {
			break
		}
		wrapSafe := signed || (z.lengthLike(x.X, 0) && z.lengthLike(x.Y, 0))
		switch x.Op {
		case token.ADD:
			if wrapSafe {
				return z.termD(x.X, d+1).plus(z.termD(x.Y, d+1), 1)
			}
			// an unsigned addition that provably does not wrap where it is computed is the mathematical sum
			// (decided once per instruction)
			if bits, _, _ := z.intBits(x.Type()); bits <= 32 {
				if keep, done := z.addExact[x]; done {
					if keep {
						return z.termD(x.X, d+1).plus(z.termD(x.Y, d+1), 1)
					}
				} else if !z.addBusy[x] {
					if z.addBusy == nil {
						z.addBusy = map[*ssa.BinOp]bool{}
						z.addExact = map[*ssa.BinOp]bool{}
					}
					z.addBusy[x] = true
					sum := z.termD(x.X, d+1).plus(z.termD(x.Y, d+1), 1)
					goal := sum.clone()
					goal.c -= int64(1)<<uint(bits) - 1
					keep, _ := z.prove(x, []lin{goal})
					z.addBusy[x] = false
					z.addExact[x] = keep
					if keep {
						return sum
					}
				}
			}
			// a 64-bit unsigned sum of two values that are provably below 2^62 does not wrap either
			if bits, _, _ := z.intBits(x.Type()); bits == 64 {
				if keep, done := z.addExact[x]; done {
					if keep {
						return z.termD(x.X, d+1).plus(z.termD(x.Y, d+1), 1)
					}
				} else if !z.addBusy[x] {
					if z.addBusy == nil {
						z.addBusy = map[*ssa.BinOp]bool{}
						z.addExact = map[*ssa.BinOp]bool{}
					}
					z.addBusy[x] = true
					a, b := z.termD(x.X, d+1), z.termD(x.Y, d+1)
					ga, gb := a.clone(), b.clone()
					ga.c -= int64(1) << 62
					gb.c -= int64(1) << 62
					keep, _ := z.prove(x, []lin{ga, gb})
					z.addBusy[x] = false
					z.addExact[x] = keep
					if keep {
						return a.plus(b, 1)
					}
				}
			}
		case token.SUB:
			if signed {
				return z.termD(x.X, d+1).plus(z.termD(x.Y, d+1), -1)
			}
			// an unsigned difference whose subtrahend is provably not the larger one is the mathematical difference
			if keep, done := z.addExact[x]; done {
				if keep {
					return z.termD(x.X, d+1).plus(z.termD(x.Y, d+1), -1)
				}
			} else if !z.addBusy[x] {
				if z.addBusy == nil {
					z.addBusy = map[*ssa.BinOp]bool{}
					z.addExact = map[*ssa.BinOp]bool{}
				}
				z.addBusy[x] = true
				a, b := z.termD(x.X, d+1), z.termD(x.Y, d+1)
				keep, _ := z.prove(x, []lin{leq(b, a, 0)})
				z.addBusy[x] = false
				z.addExact[x] = keep
				if keep {
					return a.plus(b, -1)
				}
			}
		case token.MUL:
			if signed {
				if k, ok := constInt(x.Y); ok {
					return z.termD(x.X, d+1).scale(k)
				}
				if k, ok := constInt(x.X); ok {
					return z.termD(x.Y, d+1).scale(k)
				}
			}
		case token.QUO:
			if k, ok := constInt(x.Y); ok && k > 0 {
				name := z.vname(x)
				q := z.atom(name, x)
				if !z.seen[name+"/def"] {
					z.seen[name+"/def"] = true
					num := z.termD(x.X, d+1)
					nonneg := z.lengthLike(x.X, 0) || !signed
					if !nonneg {
						// is the numerator provably non-negative where the division happens?
						nonneg = entails(z.factsAt(x), num.scale(-1))
					}
					if nonneg {
						// k*q <= num ; num <= k*q + k-1
						z.addFact(q.scale(k).plus(num, -1), x)
						up := num.plus(q, -k)
						up.c -= k - 1
						z.addFact(up, x)
					} else {
						// truncated division: |num - k*q| <= k-1
						a := num.plus(q, -k)
						a.c -= k - 1
						z.addFact(a, x)
						b := q.scale(k).plus(num, -1)
						b.c -= k - 1
						z.addFact(b, x)
					}
				}
				return q
			}
		case token.AND:
			if m, ok := constInt(x.Y); ok && m >= 0 {
				name := z.vname(x)
				a := z.atom(name, x)
				if !z.seen[name+"/def"] {
					z.seen[name+"/def"] = true
					z.addFact(a.scale(-1), x)
					hi := a.clone()
					hi.c = -m
					z.addFact(hi, x)
				}
				return a
			}
		}
		return z.atom(z.vname(x), x)
	case *ssa.UnOp:
		switch x.Op {
		case token.SUB:
			if _, signed, ok := z.intBits(x.Type()); ok && signed {
				return z.termD(x.X, d+1).scale(-1)
			}
		case token.MUL:
			if cell, ok := z.mem[x]; ok && !cell.isSlice {
				return cell.term
			}
			if a, ok := x.X.(*ssa.Alloc); ok {
				sts := reachingStores(x, a)
				if len(sts) == 1 && sts[0].Parent() == x.Parent() {
					return z.termD(sts[0].Val, d+1)
				}
			}
		}
		return z.atom(z.vname(x), x)
	case *ssa.Call:
		switch builtinName(&x.Call) {
		case "len":
			return z.lenOf(x.Call.Args[0], d+1)
		case "cap":
			return z.capOf(x.Call.Args[0], d+1)
		case "copy":
			name := z.vname(x)
			n := z.atom(name, x)
			if !z.seen[name+"/def"] {
				z.seen[name+"/def"] = true
				dl, sl := z.lenOf(x.Call.Args[0], d+1), z.lenOf(x.Call.Args[1], d+1)
				z.addFact(n.scale(-1), x)
				z.addFact(leq(n, dl, 0), x)
				z.addFact(leq(n, sl, 0), x)
				// copy returns exactly min(len(dst), len(src)): pick the side that is provably the minimum
				if ok, _ := z.prove(x, []lin{leq(sl, dl, 0)}); ok {
					z.addFact(leq(sl, n, 0), x)
				} else if ok, _ := z.prove(x, []lin{leq(dl, sl, 0)}); ok {
					z.addFact(leq(dl, n, 0), x)
				}
			}
			return n
		case "min", "max":
			name := z.vname(x)
			n := z.atom(name, x)
			if !z.seen[name+"/def"] {
				z.seen[name+"/def"] = true
				var ats []lin
				var ks []int64
				defer func() { z.minDefs = append(z.minDefs, minDef{name: name, args: ats, call: x}) }()
				for _, a := range x.Call.Args {
					at := z.termD(a, d+1)
					ats = append(ats, at)
					ks = append(ks, at.c)
					if builtinName(&x.Call) == "min" {
						z.addFact(leq(n, at, 0), x) // min(a…) <= each a
					} else {
						z.addFact(leq(at, n, 0), x) // max(a…) >= each a
					}
				}
				// the result is one of the arguments: a constant that bounds every argument from the other side
				// bounds the result (tried for the constant parts of the arguments)
				for _, k := range ks {
					all := true
					for _, at := range ats {
						var g lin
						if builtinName(&x.Call) == "min" {
							g = leq(linConst(k), at, 0) // k <= arg
						} else {
							g = leq(at, linConst(k), 0) // arg <= k
						}
						if ok, _ := z.prove(x, []lin{g}); !ok {
							all = false
							break
						}
					}
					if all {
						if builtinName(&x.Call) == "min" {
							z.addFact(leq(linConst(k), n, 0), x)
						} else {
							z.addFact(leq(n, linConst(k), 0), x)
						}
					}
				}
			}
			return n
		}
		// small module functions with an affine result over their receiver's fields (Len, Cap)
		if callee := x.Call.StaticCallee(); callee != nil && inModule(callee) {
			if t, ok := z.inlineAffine(x, callee); ok {
				return t
			}
		}
		return z.atom(z.vname(x), x)
	case *ssa.Extract:
		if call, ok := x.Tuple.(*ssa.Call); ok && x.Index == 0 && call.Call.IsInvoke() {
			// io.ReaderAt / io.WriterAt / io.Reader / ListerAt contract: 0 <= n <= len(p)
			switch call.Call.Method.Name() {
			case "ReadAt", "WriteAt", "Read", "Write", "ListAt":
				name := z.vname(x)
				n := z.atom(name, x)
				if !z.seen[name+"/def"] {
					z.seen[name+"/def"] = true
					z.addFact(n.scale(-1), x)
					z.addFact(leq(n, z.lenOf(call.Call.Args[0], d+1), 0), x)
				}
				return n
			}
		}
		if call, ok := x.Tuple.(*ssa.Call); ok && x.Index == 0 && isFillCall(&call.Call) {
			name := z.vname(x)
			n := z.atom(name, x)
			if !z.seen[name+"/def"] {
				z.seen[name+"/def"] = true
				z.addFact(n.scale(-1), x)
				z.addFact(leq(n, z.lenOf(call.Call.Args[1], d+1), 0), x)
			}
			return n
		}
		return z.atom(z.vname(x), x)
	}
	if phi, ok := v.(*ssa.Phi); ok {
		name := z.vname(phi)
		a := z.atom(name, phi)
		if !z.seen[name+"/loop"] {
			z.seen[name+"/loop"] = true
			l := innermostLoop(loopsOf(z.fn), phi.Block())
			if l != nil && l.head == phi.Block() {
				// phi = [c0 on entry, phi + k on the back edges] with constant k: monotone
				var init *int64
				inc, dec, okShape := true, true, true
				for i, e := range phi.Edges {
					if l.blocks[phi.Block().Preds[i]] {
						b, ok := e.(*ssa.BinOp)
						if !ok || b.X != ssa.Value(phi) {
							okShape = false
							continue
						}
						k, ok := constInt(b.Y)
						if !ok || (b.Op != token.ADD && b.Op != token.SUB) {
							okShape = false
							continue
						}
						if b.Op == token.SUB {
							k = -k
						}
						if k < 0 {
							inc = false
						}
						if k > 0 {
							dec = false
						}
					} else if k, ok := constInt(e); ok {
						kk := k
						init = &kk
					} else {
						okShape = false
					}
				}
				if okShape && init != nil {
					if inc {
						z.addFact(leq(linConst(*init), a, 0), nil)
					}
					if dec {
						z.addFact(leq(a, linConst(*init), 0), nil)
					}
				}
			}
		}
		return a
	}
	return z.atom(z.vname(v), v)
}

// inlineAffine: the callee is a one-return function whose result is affine over loads of
// fields of its receiver; evaluate it in the caller's memory state.
func (z *zfn) inlineAffine(call *ssa.Call, callee *ssa.Function) (lin, bool) {
	if len(callee.Blocks) != 1 || callee.Signature.Recv() == nil || len(call.Call.Args) != 1 {
		return lin{}, false
	}
	ret, ok := callee.Blocks[0].Instrs[len(callee.Blocks[0].Instrs)-1].(*ssa.Return)
	if !ok || len(ret.Results) != 1 {
		return lin{}, false
	}
	if _, _, isInt := z.intBits(ret.Results[0].Type()); !isInt {
		return lin{}, false
	}
	recv := call.Call.Args[0]
	var eval func(v ssa.Value, d int) (lin, bool)
	eval = func(v ssa.Value, d int) (lin, bool) {
		if d > 8 {
			return lin{}, false
		}
		switch x := v.(type) {
		case *ssa.Const:
			if k, ok := constInt(x); ok {
				return linConst(k), true
			}
		case *ssa.BinOp:
			a, ok1 := eval(x.X, d+1)
			b, ok2 := eval(x.Y, d+1)
			if ok1 && ok2 {
				switch x.Op {
				case token.ADD:
					return a.plus(b, 1), true
				case token.SUB:
					return a.plus(b, -1), true
				}
			}
		case *ssa.Convert:
			// widening (or same-width, non-negative) conversions of lengths keep the value
			if fb, fs, ok1 := z.intBits(x.X.Type()); ok1 {
				if tb, _, ok2 := z.intBits(x.Type()); ok2 && tb >= fb && fs {
					return eval(x.X, d+1)
				}
			}
		case *ssa.Call:
			bn := builtinName(&x.Call)
			if bn == "len" || bn == "cap" {
				if u, ok := x.Call.Args[0].(*ssa.UnOp); ok {
					if fa, ok := u.X.(*ssa.FieldAddr); ok && fa.X == ssa.Value(callee.Params[0]) {
						cell, ok := z.fieldAt(call, recv, fa)
						if ok && cell.isSlice {
							if bn == "len" {
								return z.atom("len#"+cell.key, nil), true
							}
							return z.atom("cap#"+cell.key, nil), true
						}
					}
				}
			}
		case *ssa.UnOp:
			if fa, ok := x.X.(*ssa.FieldAddr); ok && x.Op == token.MUL && fa.X == ssa.Value(callee.Params[0]) {
				cell, ok := z.fieldAt(call, recv, fa)
				if ok && !cell.isSlice {
					return cell.term, true
				}
			}
		}
		return lin{}, false
	}
	return eval(ret.Results[0], 0)
}

// sliceKey gives an identity to a slice (or string) value and generates its defining facts.
func (z *zfn) sliceKey(v ssa.Value, d int) string {
	if d > 14 {
		return z.vname(v) + "!"
	}
	switch x := v.(type) {
	case *ssa.ChangeType:
		return z.sliceKey(x.X, d+1)
	case *ssa.Convert:
		// string <-> []byte conversions keep the length
		k := z.vname(x)
		if !z.seen["s:"+k] {
			z.seen["s:"+k] = true
			in := z.sliceKey(x.X, d+1)
			z.eqLen(k, in, x)
		}
		return k
	case *ssa.UnOp:
		if x.Op == token.MUL {
			if cell, ok := z.mem[x]; ok && cell.isSlice {
				return cell.key
			}
			if a, ok := x.X.(*ssa.Alloc); ok {
				// a local slice variable, or an array being sliced
				sts := reachingStores(x, a)
				if len(sts) == 1 && sts[0].Parent() == x.Parent() {
					return z.sliceKey(sts[0].Val, d+1)
				}
			}
			// a field of a local struct that is only ever used through its fields (a literal built here and read
			// here): the one store to that field that comes before the load
			if st := localFieldStore(x); st != nil {
				return z.sliceKey(st.Val, d+1)
			}
		}
	case *ssa.Slice:
		k := z.vname(x)
		if z.seen["s:"+k] {
			return k
		}
		z.seen["s:"+k] = true
		var baseLen, baseCap lin
		if pt, ok := x.X.Type().Underlying().(*types.Pointer); ok {
			if arr, ok := pt.Elem().Underlying().(*types.Array); ok {
				baseLen, baseCap = linConst(arr.Len()), linConst(arr.Len())
			}
		}
		isString := false
		if b, ok := x.X.Type().Underlying().(*types.Basic); ok && b.Info()&types.IsString != 0 {
			isString = true
		}
		if baseLen.coef == nil {
			bk := z.sliceKey(x.X, d+1)
			baseLen = z.atom("len#"+bk, nil)
			if isString {
				baseCap = baseLen
			} else {
				baseCap = z.atom("cap#"+bk, nil)
			}
			z.lenCapFacts(bk, anchorOf(x.X))
		}
		lo := linConst(0)
		if x.Low != nil {
			lo = z.termD(x.Low, d+1)
		}
		hi := baseLen
		if x.High != nil {
			hi = z.termD(x.High, d+1)
		}
		mx := baseCap
		if x.Max != nil {
			mx = z.termD(x.Max, d+1)
		}
		ln, cp := z.atom("len#"+k, nil), z.atom("cap#"+k, nil)
		// len = hi - lo ; cap = max - lo  (valid after the slice expression succeeded)
		z.addFact(ln.plus(hi, -1).plus(lo, 1), x)
		z.addFact(hi.plus(lo, -1).plus(ln, -1), x)
		z.addFact(cp.plus(mx, -1).plus(lo, 1), x)
		z.addFact(mx.plus(lo, -1).plus(cp, -1), x)
		// success of the expression: 0 <= lo <= hi <= max <= cap(base)
		z.addFact(lo.scale(-1), x)
		z.addFact(leq(lo, hi, 0), x)
		z.addFact(leq(hi, mx, 0), x)
		z.addFact(leq(mx, baseCap, 0), x)
		return k
	case *ssa.MakeSlice:
		k := z.vname(x)
		if !z.seen["s:"+k] {
			z.seen["s:"+k] = true
			ln, cp := z.atom("len#"+k, nil), z.atom("cap#"+k, nil)
			l, c := z.termD(x.Len, d+1), z.termD(x.Cap, d+1)
			z.addFact(leq(ln, l, 0), x)
			z.addFact(leq(l, ln, 0), x)
			z.addFact(leq(cp, c, 0), x)
			z.addFact(leq(c, cp, 0), x)
		}
		return k
	case *ssa.Alloc:
		// pointer to array
		if arr, ok := derefType(x.Type()).Underlying().(*types.Array); ok {
			k := z.vname(x)
			if !z.seen["s:"+k] {
				z.seen["s:"+k] = true
				ln, cp := z.atom("len#"+k, nil), z.atom("cap#"+k, nil)
				for _, a := range []lin{ln, cp} {
					z.addFact(leq(a, linConst(arr.Len()), 0), nil)
					z.addFact(leq(linConst(arr.Len()), a, 0), nil)
				}
			}
			return k
		}
	case *ssa.Extract:
		// result of a summarised module call
		if call, ok := x.Tuple.(*ssa.Call); ok {
			k := z.vname(x)
			if !z.seen["s:"+k] {
				z.seen["s:"+k] = true
				z.callEnsures(call, x, k)
			}
			return k
		}
	case *ssa.Call:
		k := z.vname(x)
		if !z.seen["s:"+k] {
			z.seen["s:"+k] = true
			if builtinName(&x.Call) == "append" && len(x.Call.Args) == 2 {
				// len(append(a, b...)) = len(a) + len(b)
				if _, isSlice := x.Call.Args[1].Type().Underlying().(*types.Slice); isSlice {
					ln := z.atom("len#"+k, nil)
					z.lenCapFacts(k, nil)
					sum := z.lenOf(x.Call.Args[0], d+1).plus(z.lenOf(x.Call.Args[1], d+1), 1)
					z.addFact(leq(ln, sum, 0), x)
					z.addFact(leq(sum, ln, 0), x)
				}
			} else {
				z.callEnsures(x, nil, k)
			}
		}
		return k
	case *ssa.Const:
		if s, ok := constString(x); ok {
			k := fmt.Sprintf("const%d", len(s))
			ln := z.atom("len#"+k, nil)
			z.addFact(leq(ln, linConst(int64(len(s))), 0), nil)
			z.addFact(leq(linConst(int64(len(s))), ln, 0), nil)
			return k
		}
		if isNilConst(x) {
			k := "nil"
			for _, a := range []lin{z.atom("len#"+k, nil), z.atom("cap#"+k, nil)} {
				z.addFact(a, nil)
				z.addFact(a.scale(-1), nil)
			}
			return k
		}
	}
	return z.vname(v)
}

func (z *zfn) eqLen(a, b string, anchor ssa.Instruction) {
	la, lb := z.atom("len#"+a, nil), z.atom("len#"+b, nil)
	z.addFact(leq(la, lb, 0), anchor)
	z.addFact(leq(lb, la, 0), anchor)
	z.lenCapFacts(a, anchor)
	z.lenCapFacts(b, anchor)
}

// lenCapFacts: 0 <= len <= cap for a slice identity.
func (z *zfn) lenCapFacts(k string, anchor ssa.Instruction) {
	if z.seen["lc:"+k] {
		return
	}
	z.seen["lc:"+k] = true
	ln, cp := z.atom("len#"+k, nil), z.atom("cap#"+k, nil)
	z.addFact(ln.scale(-1), nil)
	z.addFact(leq(ln, cp, 0), nil)
}

func (z *zfn) lenOf(v ssa.Value, d int) lin {
	if pt, ok := v.Type().Underlying().(*types.Pointer); ok {
		if arr, ok := pt.Elem().Underlying().(*types.Array); ok {
			return linConst(arr.Len())
		}
	}
	if arr, ok := v.Type().Underlying().(*types.Array); ok {
		return linConst(arr.Len())
	}
	k := z.sliceKey(v, d)
	z.lenCapFacts(k, nil)
	return z.atom("len#"+k, nil)
}

func (z *zfn) capOf(v ssa.Value, d int) lin {
	if pt, ok := v.Type().Underlying().(*types.Pointer); ok {
		if arr, ok := pt.Elem().Underlying().(*types.Array); ok {
			return linConst(arr.Len())
		}
	}
	k := z.sliceKey(v, d)
	z.lenCapFacts(k, nil)
	if b, ok := v.Type().Underlying().(*types.Basic); ok && b.Info()&types.IsString != 0 {
		return z.atom("len#"+k, nil)
	}
	return z.atom("cap#"+k, nil)
}

// callEnsures instantiates the callee's length summary for the result value.
func (z *zfn) callEnsures(call *ssa.Call, ex *ssa.Extract, key string) {
	callee := call.Call.StaticCallee()
	if callee == nil || !inModule(callee) || callee.Blocks == nil {
		return
	}
	if fnName(callee) == "(*allocator).GetPage" && ex == nil {
		// container invariant of the allocator (checked as C18.R7 / C08.O1 "allocator pages"): every page is a
		// make([]byte, maxMsgLength) or came out of the page lists
		ln, cp := z.atom("len#"+key, nil), z.atom("cap#"+key, nil)
		z.lenCapFacts(key, nil)
		z.addFact(leq(linConst(256*1024), ln, 0), call)
		z.addFact(leq(ln, linConst(256*1024), 0), call)
		z.addFact(leq(linConst(256*1024), cp, 0), call)
		return
	}
	sum := z.w.summary(callee)
	idx := 0
	if ex != nil {
		idx = ex.Index
	}
	en, ok := sum.ensures[idx]
	if !ok {
		return
	}
	if en.param >= len(call.Call.Args) {
		return
	}
	argLen := z.lenOf(call.Call.Args[en.param], 1)
	ln := z.atom("len#"+key, nil)
	z.lenCapFacts(key, nil)
	f1 := ln.plus(argLen, -1)
	f1.c += en.sub // len - arglen + sub <= 0
	f2 := argLen.plus(ln, -1)
	f2.c -= en.sub
	if sum.errIdx < 0 {
		z.addFact(f1, call)
		z.addFact(f2, call)
		return
	}
	// conditional on the error result being nil: anchored at the first instruction of the
	// non-error edge of every `err != nil` / `err == nil` test on that call's error value
	for _, r := range *call.Referrers() {
		e, ok := r.(*ssa.Extract)
		if !ok || e.Index != sum.errIdx {
			continue
		}
		for _, blk := range z.nilEdges(e) {
			if len(blk.Instrs) > 0 {
				z.addFactAtBlock(f1, blk)
				z.addFactAtBlock(f2, blk)
			}
		}
	}
}

// addFactAtBlock anchors a fact at a block: it holds in every block the given block dominates.
func (z *zfn) addFactAtBlock(l lin, b *ssa.BasicBlock) {
	z.facts = append(z.facts, anchoredFact{l: l, ablock: b})
}

// nilEdges: blocks entered only when the error value is nil.
func (z *zfn) nilEdges(errV ssa.Value) []*ssa.BasicBlock {
	var out []*ssa.BasicBlock
	vals := map[ssa.Value]bool{errV: true}
	for v := range vals {
		refs := v.Referrers()
		if refs == nil {
			continue
		}
		for _, r := range *refs {
			b, ok := r.(*ssa.BinOp)
			if !ok || !isNilConst(b.Y) {
				continue
			}
			for _, rr := range *b.Referrers() {
				iff, ok := rr.(*ssa.If)
				if !ok {
					continue
				}
				var s *ssa.BasicBlock
				if b.Op == token.NEQ {
					s = iff.Block().Succs[1]
				} else if b.Op == token.EQL {
					s = iff.Block().Succs[0]
				}
				if s != nil && edgeOnly(iff.Block(), s) {
					out = append(out, s)
				}
			}
		}
	}
	// the error joined with an earlier one before it is tested (`if err == nil { _, err = g() }; if err != nil { return }`):
	// the join is nil only through this error's edge when every other edge carries a value that is known not to be nil
	// on that edge — behind the join's nil test this error is nil too
	if refs := errV.Referrers(); refs != nil && z.nilDepth < 2 {
		for _, r := range *refs {
			ph, ok := r.(*ssa.Phi)
			if !ok {
				continue
			}
			only := true
			for j, e := range ph.Edges {
				if e == errV {
					continue
				}
				if isNilConst(e) {
					only = false
					break
				}
				pred := ph.Block().Preds[j]
				excluded := false
				for _, nt := range nilTests(e) {
					if nt.nonNil == nil || nt.nonNil == nt.isNil {
						continue
					}
					if nt.nonNil == pred || nt.nonNil.Dominates(pred) || (nt.iff.Block() == pred && nt.nonNil == ph.Block()) {
						excluded = true
					}
				}
				if !excluded {
					only = false
					break
				}
			}
			if only {
				z.nilDepth++
				out = append(out, z.nilEdges(ph)...)
				z.nilDepth--
			}
		}
	}
	// and every block behind such a test that the side on which the error is not nil cannot get to (the error may be
	// joined with a later one and tested again: `if err == nil && … { err = f() }; if err != nil { return }` — what
	// follows is reached only with the first error nil, although no single edge says so)
	for _, nt := range nilTests(errV) {
		reached := map[*ssa.BasicBlock]bool{}
		reachFromNilSide(nt, true, func(in ssa.Instruction) bool {
			reached[in.Block()] = true
			return false
		}, nil)
		tb := nt.iff.Block()
		for _, b := range z.fn.Blocks {
			if b == tb || reached[b] || !tb.Dominates(b) || len(b.Instrs) == 0 {
				continue
			}
			// not in a loop around the test: a later iteration's value is another value
			if l := innermostLoop(loopsOf(z.fn), b); l != nil && !l.blocks[tb] {
				continue
			}
			already := false
			for _, o := range out {
				if o == b || o.Dominates(b) {
					already = true
				}
			}
			if !already {
				out = append(out, b)
			}
		}
	}
	return out
}

// edgeOnly: block s is entered only through the edge from a (other predecessors are inside s's own dominance region).
func edgeOnly(a, s *ssa.BasicBlock) bool {
	for _, p := range s.Preds {
		if p != a && !s.Dominates(p) {
			return false
		}
	}
	return true
}

// ---------- memory (fields of parameter-rooted objects) ----------

type fieldKey struct {
	root string
	path string
}

func (z *zfn) rootOf(fa *ssa.FieldAddr) (string, string, bool) {
	root, path := accessPath(fa)
	switch r := root.(type) {
	case *ssa.Parameter:
		return "p:" + r.Name(), path, true
	case *ssa.FreeVar:
		return "fv:" + r.Name(), path, true
	case *ssa.Alloc:
		// a local holding a parameter (captured receiver)
		if pr, ok := rootParam(r).(*ssa.Parameter); ok {
			return "p:" + pr.Name(), path, true
		}
	}
	return "", "", false
}

// mayWrite: does the call possibly modify fields of the object v points to?
func (z *zfn) invalidates(in ssa.Instruction) []string {
	cc := callOf(in)
	if cc == nil {
		return nil
	}
	if builtinName(cc) != "" {
		return nil
	}
	var roots []string
	for _, a := range cc.Args {
		if _, isPtr := a.Type().Underlying().(*types.Pointer); !isPtr {
			continue
		}
		var name string
		switch r := a.(type) {
		case *ssa.Parameter:
			name = "p:" + r.Name()
		case *ssa.FieldAddr:
			if rt, _, ok := z.rootOf(r); ok {
				name = rt
			}
		case *ssa.UnOp:
			if al, ok := r.X.(*ssa.Alloc); ok {
				if pr, ok := rootParam(al).(*ssa.Parameter); ok {
					name = "p:" + pr.Name()
				}
			}
		}
		if name == "" {
			continue
		}
		callee := cc.StaticCallee()
		if callee != nil && inModule(callee) && !z.w.writesFields(callee) {
			continue
		}
		roots = append(roots, name)
	}
	if cc.IsInvoke() {
		if pr, ok := cc.Value.(*ssa.Parameter); ok {
			roots = append(roots, "p:"+pr.Name())
		}
	}
	return roots
}

var writesMemo = map[*ssa.Function]int{}

// writesFields: the function (or a module callee) stores through a field address of a parameter.
func (w *zworld) writesFields(fn *ssa.Function) bool {
	switch writesMemo[fn] {
	case 1:
		return true
	case 2:
		return false
	case 3:
		return false // in progress
	}
	writesMemo[fn] = 3
	res := false
	eachInstr(fn, func(in ssa.Instruction) {
		switch x := in.(type) {
		case *ssa.Store:
			switch a := x.Addr.(type) {
			case *ssa.FieldAddr:
				root, _ := accessPath(a)
				if _, isAlloc := root.(*ssa.Alloc); !isAlloc {
					res = true
				} else if _, isP := rootParam(root).(*ssa.Parameter); isP {
					res = true
				}
			case *ssa.Parameter:
				res = true
			case *ssa.UnOp:
				res = true
			}
		case *ssa.Call:
			if c := x.Call.StaticCallee(); c != nil && inModule(c) && c.Blocks != nil {
				if w.writesFields(c) {
					res = true
				}
			} else if x.Call.IsInvoke() {
				res = true
			}
		}
	})
	if res {
		writesMemo[fn] = 1
	} else {
		writesMemo[fn] = 2
	}
	return res
}

// bufferRoot: is the root a *Buffer (filexfer) whose invariant 0 <= off <= len(b) is assumed/preserved?
func isBufferType(t types.Type) bool {
	n := namedOf(t)
	return n != nil && n.Obj().Name() == "Buffer" && n.Obj().Pkg() != nil && n.Obj().Pkg().Path() == pkgSshfx
}

func (z *zfn) freshCell(key fieldKey, t types.Type, anchor ssa.Instruction) memCell {
	z.fresh++
	name := fmt.Sprintf("m%d:%s.%s", z.fresh, key.root, key.path)
	if _, isSlice := t.Underlying().(*types.Slice); isSlice {
		z.lenCapFacts(name, nil)
		return memCell{isSlice: true, key: name}
	}
	if b, ok := t.Underlying().(*types.Basic); ok && b.Info()&types.IsString != 0 {
		z.lenCapFacts(name, nil)
		return memCell{isSlice: true, key: name}
	}
	z.seen[name] = true
	z.rangeFacts(name, t, nil)
	return memCell{term: linVar(name)}
}

// buildMemory runs a forward pass assigning a symbolic value to every load of a field of a
// parameter-rooted object, and records invariant assumptions/obligations for *Buffer.
func (z *zfn) buildMemory() {
	fn := z.fn
	if fn.Blocks == nil {
		return
	}
	type state map[fieldKey]memCell
	exit := map[*ssa.BasicBlock]state{}
	// buffer parameters
	var bufRoots []string
	for _, pr := range fn.Params {
		if isBufferType(pr.Type()) {
			if _, isPtr := pr.Type().Underlying().(*types.Pointer); isPtr {
				bufRoots = append(bufRoots, "p:"+pr.Name())
			}
		}
	}
	assumeInv := func(st state, root string, anchor ssa.Instruction) {
		offK, bK := fieldKey{root, "off"}, fieldKey{root, "b"}
		oc := z.freshCell(offK, types.Typ[types.Int], anchor)
		bc := z.freshCell(bK, types.NewSlice(types.Typ[types.Byte]), anchor)
		st[offK], st[bK] = oc, bc
		// 0 <= off <= len(b)
		z.addFact(oc.term.scale(-1), anchor)
		z.addFact(leq(oc.term, z.atom("len#"+bc.key, nil), 0), anchor)
	}
	// all pointer-to-struct parameters: every integer/slice/string field gets a cell
	structRoots := map[string]*types.Struct{}
	for _, pr := range fn.Params {
		if pt, ok := pr.Type().Underlying().(*types.Pointer); ok {
			if stt, ok := pt.Elem().Underlying().(*types.Struct); ok {
				structRoots["p:"+pr.Name()] = stt
			}
		}
	}
	materialize := func(st state, root string, anchor ssa.Instruction) {
		stt := structRoots[root]
		if stt == nil {
			return
		}
		for i := 0; i < stt.NumFields(); i++ {
			f := stt.Field(i)
			k := fieldKey{root, f.Name()}
			if _, have := st[k]; have {
				continue
			}
			switch u := f.Type().Underlying().(type) {
			case *types.Slice:
				st[k] = z.freshCell(k, f.Type(), anchor)
			case *types.Basic:
				if u.Info()&(types.IsInteger|types.IsString) != 0 {
					st[k] = z.freshCell(k, f.Type(), anchor)
				}
			}
		}
	}
	// fields written inside a loop (per loop head)
	loops := loopsOf(fn)
	writtenIn := func(l *loop) (roots map[string]bool, fields map[fieldKey]bool) {
		roots, fields = map[string]bool{}, map[fieldKey]bool{}
		for lb := range l.blocks {
			for _, in := range lb.Instrs {
				switch x := in.(type) {
				case *ssa.Store:
					if fa, ok := x.Addr.(*ssa.FieldAddr); ok {
						if r, pth, ok := z.rootOf(fa); ok {
							fields[fieldKey{r, pth}] = true
						}
					} else if pr, ok := x.Addr.(*ssa.Parameter); ok {
						roots["p:"+pr.Name()] = true
					}
				case *ssa.Call, *ssa.Defer, *ssa.Go:
					for _, r := range z.invalidates(in) {
						roots[r] = true
					}
				}
			}
		}
		return
	}
	for _, b := range reversePostorder(fn) {
		st := state{}
		if b == fn.Blocks[0] {
			for _, r := range bufRoots {
				assumeInv(st, r, nil)
			}
			for r := range structRoots {
				materialize(st, r, nil)
			}
		} else {
			// meet of processed predecessors; an unprocessed predecessor (back edge) forgets everything
			first := true
			allDone := true
			for _, pd := range b.Preds {
				ps, ok := exit[pd]
				if !ok {
					allDone = false
					continue
				}
				if first {
					for k, v := range ps {
						st[k] = v
					}
					first = false
				} else {
					for k, v := range st {
						o, ok := ps[k]
						if !ok || o.key != v.key || o.term.key() != v.term.key() || o.term.c != v.term.c || o.dirty != v.dirty {
							delete(st, k)
						}
					}
				}
			}
			if !allDone {
				// loop head: keep what the loop body cannot change
				var lp *loop
				for _, l := range loops {
					if l.head == b {
						lp = l
					}
				}
				if lp == nil {
					st = state{}
				} else {
					wr, wf := writtenIn(lp)
					for k := range st {
						if wr[k.root] || wf[k] {
							delete(st, k)
						}
					}
				}
				for _, r := range bufRoots {
					if _, have := st[fieldKey{r, "off"}]; !have && len(b.Instrs) > 0 {
						delete(st, fieldKey{r, "b"})
						assumeInvAt(z, st, r, b)
					}
				}
			}
		}
		for _, in := range b.Instrs {
			switch x := in.(type) {
			case *ssa.UnOp:
				if x.Op != token.MUL {
					continue
				}
				fa, ok := x.X.(*ssa.FieldAddr)
				if !ok {
					continue
				}
				root, path, ok := z.rootOf(fa)
				if !ok {
					continue
				}
				k := fieldKey{root, path}
				cell, have := st[k]
				if !have {
					cell = z.freshCell(k, x.Type(), x)
					st[k] = cell
				}
				z.mem[x] = cell
			case *ssa.Store:
				fa, ok := x.Addr.(*ssa.FieldAddr)
				if !ok {
					// a store through the parameter itself (*p = T{…}) forgets all its fields
					if pr, ok := x.Addr.(*ssa.Parameter); ok {
						for k := range st {
							if k.root == "p:"+pr.Name() {
								delete(st, k)
							}
						}
					}
					continue
				}
				root, path, ok := z.rootOf(fa)
				if !ok {
					continue
				}
				k := fieldKey{root, path}
				if _, isSlice := x.Val.Type().Underlying().(*types.Slice); isSlice {
					st[k] = memCell{isSlice: true, key: z.sliceKey(x.Val, 0), dirty: true}
				} else if _, _, isInt := z.intBits(x.Val.Type()); isInt {
					st[k] = memCell{term: z.term(x.Val), dirty: true}
				} else {
					delete(st, k)
				}
			case *ssa.Call, *ssa.Defer, *ssa.Go:
				snap := state{}
				for k, v := range st {
					snap[k] = v
				}
				z.callState[in] = snap
				roots := z.invalidates(in)
				for _, r := range roots {
					// obligation: the buffer invariant must hold when the object is handed over
					isBuf := false
					for _, br := range bufRoots {
						if br == r {
							isBuf = true
						}
					}
					if isBuf {
						z.invariantObligation(st, r, in, "before the call")
					}
					for k := range st {
						if k.root == r {
							delete(st, k)
						}
					}
					if isBuf {
						assumeInv(st, r, in)
					}
					materialize(st, r, in)
				}
			case *ssa.Return:
				for _, r := range bufRoots {
					z.invariantObligation(st, r, in, "at return")
				}
			}
		}
		cp := state{}
		for k, v := range st {
			cp[k] = v
		}
		exit[b] = cp
	}
	z.built = true
}

func assumeInvAt(z *zfn, st map[fieldKey]memCell, root string, b *ssa.BasicBlock) {
	offK, bK := fieldKey{root, "off"}, fieldKey{root, "b"}
	oc := z.freshCell(offK, types.Typ[types.Int], nil)
	bc := z.freshCell(bK, types.NewSlice(types.Typ[types.Byte]), nil)
	st[offK], st[bK] = oc, bc
	z.addFactAtBlock(oc.term.scale(-1), b)
	z.addFactAtBlock(leq(oc.term, z.atom("len#"+bc.key, nil), 0), b)
}

func (z *zfn) invariantObligation(st map[fieldKey]memCell, root string, in ssa.Instruction, when string) {
	oc, ok1 := st[fieldKey{root, "off"}]
	bc, ok2 := st[fieldKey{root, "b"}]
	if !ok1 || !ok2 || (!oc.dirty && !bc.dirty) {
		return
	}
	z.invObl = append(z.invObl, zobl{In: in, Kind: "buffer-invariant", Desc: "0 <= off <= len(b) " + when,
		Goals: []lin{oc.term.scale(-1), leq(oc.term, z.atom("len#"+bc.key, nil), 0)}})
}

// fieldAt: the memory cell of field fa.Field of object recv as seen just before instruction at.
func (z *zfn) fieldAt(at ssa.Instruction, recv ssa.Value, fa *ssa.FieldAddr) (memCell, bool) {
	// find a load of the same field of the same root in the caller that is in the same epoch: simplest is to
	// look for the nearest dominating load/store of that field with no invalidation between; we re-use z.mem of
	// loads in the same block before `at`, else any dominating load whose cell is still current at `at`.
	st := derefStruct(fa.X.Type())
	if st == nil {
		return memCell{}, false
	}
	name := st.Field(fa.Field).Name()
	var rootName string
	switch r := recv.(type) {
	case *ssa.Parameter:
		rootName = "p:" + r.Name()
	case *ssa.UnOp:
		if al, ok := r.X.(*ssa.Alloc); ok {
			if pr, ok := rootParam(al).(*ssa.Parameter); ok {
				rootName = "p:" + pr.Name()
			}
		}
	}
	if rootName == "" {
		return memCell{}, false
	}
	if snap, ok := z.callState[at]; ok {
		c, ok := snap[fieldKey{rootName, name}]
		return c, ok
	}
	return memCell{}, false
}

// cellBefore replays the block of `at` up to it to obtain the field's current cell.
func (z *zfn) cellBefore(at ssa.Instruction, k fieldKey) (memCell, bool) {
	// the forward pass stored cells for loads; for a call we need the state at the call: recompute cheaply by
	// scanning backwards in the dominator chain for the latest event on k.
	b := at.Block()
	idx := idxIn(at)
	for {
		for i := idx - 1; i >= 0; i-- {
			in := b.Instrs[i]
			switch x := in.(type) {
			case *ssa.UnOp:
				if c, ok := z.mem[x]; ok {
					if fa, ok := x.X.(*ssa.FieldAddr); ok {
						if r, p, ok := z.rootOf(fa); ok && r == k.root && p == k.path {
							return c, true
						}
					}
				}
			case *ssa.Store:
				if fa, ok := x.Addr.(*ssa.FieldAddr); ok {
					if r, p, ok := z.rootOf(fa); ok && r == k.root && p == k.path {
						if _, isSlice := x.Val.Type().Underlying().(*types.Slice); isSlice {
							return memCell{isSlice: true, key: z.sliceKey(x.Val, 0), dirty: true}, true
						}
						return memCell{term: z.term(x.Val), dirty: true}, true
					}
				}
			case *ssa.Call:
				for _, r := range z.invalidates(in) {
					if r == k.root {
						// the cell assumed right after that call
						return z.epochCell(in, k)
					}
				}
			}
		}
		id := b.Idom()
		if id == nil {
			return z.epochCell(nil, k)
		}
		// only follow a straight dominator chain (single predecessor), otherwise give up
		if len(b.Preds) != 1 {
			return memCell{}, false
		}
		b = id
		idx = len(b.Instrs)
	}
}

// epochCell: the cell created by assumeInv at the given anchor (nil = entry).
func (z *zfn) epochCell(anchor ssa.Instruction, k fieldKey) (memCell, bool) {
	// cells are named m<N>:root.path and created in pairs; find by scanning facts' atoms is awkward, so we
	// keep it simple: create (once) a dedicated cell per (anchor,key).
	name := fmt.Sprintf("e:%p:%s.%s", anchor, k.root, k.path)
	if k.path == "b" {
		z.lenCapFacts(name, nil)
		return memCell{isSlice: true, key: name}, true
	}
	if !z.seen[name] {
		z.seen[name] = true
		z.rangeFacts(name, types.Typ[types.Int], nil)
		if k.path == "off" {
			bname := fmt.Sprintf("e:%p:%s.%s", anchor, k.root, "b")
			z.lenCapFacts(bname, nil)
			z.addFact(linVar(name).scale(-1), anchor)
			z.addFact(leq(linVar(name), z.atom("len#"+bname, nil), 0), anchor)
		}
	}
	return memCell{term: linVar(name)}, true
}

// ---------- facts at a program point ----------

func anchorDominates(a ssa.Instruction, at ssa.Instruction) bool {
	if a == nil {
		return true
	}
	if a.Block() == nil || at.Block() == nil {
		return false
	}
	if a.Parent() != at.Parent() {
		return false
	}
	if a == at {
		return false
	}
	return dominates(a, at)
}

// condFacts translates a branch condition (taken = truth) into linear facts.
func (z *zfn) condFacts(c ssa.Value, truth bool) []lin {
	switch x := c.(type) {
	case *ssa.UnOp:
		if x.Op == token.NOT {
			return z.condFacts(x.X, !truth)
		}
	case *ssa.BinOp:
		if _, _, ok := z.intBits(x.X.Type()); !ok {
			// pointer/interface nil tests on immutable SSA values: nz:<v> in {0,1}
			if isNilConst(x.Y) && (x.Op == token.EQL || x.Op == token.NEQ) {
				switch x.X.(type) {
				case *ssa.Parameter, *ssa.Extract, *ssa.Call, *ssa.Phi:
					nz := linVar("nz:" + z.vname(x.X))
					isNonNil := (x.Op == token.NEQ) == truth
					if isNonNil {
						return []lin{leq(linConst(1), nz, 0)}
					}
					return []lin{nz}
				}
			}
			return nil
		}
		a, b := z.term(x.X), z.term(x.Y)
		op := x.Op
		if !truth {
			switch op {
			case token.LSS:
				op = token.GEQ
			case token.LEQ:
				op = token.GTR
			case token.GTR:
				op = token.LEQ
			case token.GEQ:
				op = token.LSS
			case token.EQL:
				op = token.NEQ
			case token.NEQ:
				op = token.EQL
			}
		}
		switch op {
		case token.LSS:
			return []lin{leq(a, b, 1)}
		case token.LEQ:
			return []lin{leq(a, b, 0)}
		case token.GTR:
			return []lin{leq(b, a, 1)}
		case token.GEQ:
			return []lin{leq(b, a, 0)}
		case token.EQL:
			return []lin{leq(a, b, 0), leq(b, a, 0)}
		case token.NEQ:
			// x != 0 for a non-negative x means x >= 1
			if k, ok := constInt(x.Y); ok && k == 0 {
				if _, signed, _ := z.intBits(x.X.Type()); !signed || z.lengthLike(x.X, 0) || usedAsBoundBefore(x.X, x) {
					return []lin{leq(linConst(1), a, 0)}
				}
			}
		}
	}
	return nil
}

// usedAsBoundBefore: v was a slice bound in an instruction that dominates `at` — it got past the bounds check, so
// it is not negative.
func usedAsBoundBefore(v ssa.Value, at ssa.Instruction) bool {
	refs := v.Referrers()
	if refs == nil {
		return false
	}
	for _, r := range *refs {
		if sl, ok := r.(*ssa.Slice); ok && (sl.High == v || sl.Low == v || sl.Max == v) && dominates(sl, at) {
			return true
		}
	}
	return false
}

// factsAt gathers everything known at instruction `at`.
func (z *zfn) factsAt(at ssa.Instruction) []lin {
	var out []lin
	// guards on the dominator chain
	b := at.Block()
	for cur := b; cur != nil; {
		id := cur.Idom()
		if id == nil {
			break
		}
		if iff, ok := id.Instrs[len(id.Instrs)-1].(*ssa.If); ok {
			t, f := id.Succs[0], id.Succs[1]
			if t != f {
				if (t == cur || t.Dominates(cur)) && edgeOnly(id, t) {
					out = append(out, z.condFacts(iff.Cond, true)...)
					out = append(out, z.ioFacts(iff.Cond, true)...)
				} else if (f == cur || f.Dominates(cur)) && edgeOnly(id, f) {
					out = append(out, z.condFacts(iff.Cond, false)...)
					out = append(out, z.ioFacts(iff.Cond, false)...)
				}
			}
		}
		cur = id
	}
	out = append(out, z.phiGuardFacts(at)...)
	// generate definitional facts for everything mentioned so far is done eagerly by term(); collect anchored ones
	for _, f := range z.facts {
		if f.ablock != nil {
			if f.ablock == at.Block() || f.ablock.Dominates(at.Block()) {
				out = append(out, f.l)
			}
			continue
		}
		if anchorDominates(f.anchor, at) {
			out = append(out, f.l)
		}
	}
	return out
}

// phiGuardFacts: `at` lies behind a nil test of a phi Q (x := head(q); if x == nil { return } — with head inlined, x
// joins "nil, the queue was empty" and "q[0]").  The test excludes the edges of Q's block on which Q's value decides it
// the other way; what is known on every remaining edge — the facts at the end of its predecessor and the condition of
// the branch that leads into the block — holds at `at` too (same argument as edgeExcluded: the last execution of the
// join before `at` came in through a remaining edge, and SSA values and memory versions named in those facts are not
// redefined on the way).
func (z *zfn) phiGuardFacts(at ssa.Instruction) []lin {
	if z.pgDepth > 0 {
		return nil
	}
	z.pgDepth++
	defer func() { z.pgDepth-- }()
	var out []lin
	done := map[*ssa.BasicBlock]bool{}
	for cur := at.Block(); cur != nil; {
		id := cur.Idom()
		if id == nil {
			break
		}
		if iff, ok := id.Instrs[len(id.Instrs)-1].(*ssa.If); ok {
			if bo, ok := iff.Cond.(*ssa.BinOp); ok && (bo.Op == token.EQL || bo.Op == token.NEQ) {
				x, y := bo.X, bo.Y
				if isNilConst(x) {
					x, y = y, x
				}
				if q, ok := x.(*ssa.Phi); ok && isNilConst(y) && !done[q.Block()] {
					pb := q.Block()
					if l := innermostLoop(loopsOf(z.fn), pb); !(l != nil && l.head == pb) && (pb == id || pb.Dominates(id)) {
						var remaining []int
						for i := range q.Edges {
							if !z.edgeExcluded2(q, i, at) {
								remaining = append(remaining, i)
							}
						}
						if len(remaining) > 0 && len(remaining) < len(q.Edges) {
							done[pb] = true
							var common map[string]lin
							for _, i := range remaining {
								pred := pb.Preds[i]
								last := pred.Instrs[len(pred.Instrs)-1]
								fs := append([]lin{}, z.factsAt(last)...)
								if pif, ok := last.(*ssa.If); ok {
									if pred.Succs[0] == pb && pred.Succs[1] != pb {
										fs = append(fs, z.condFacts(pif.Cond, true)...)
									} else if pred.Succs[1] == pb && pred.Succs[0] != pb {
										fs = append(fs, z.condFacts(pif.Cond, false)...)
									}
								}
								m := map[string]lin{}
								for _, f := range fs {
									m[f.String()] = f
								}
								if common == nil {
									common = m
								} else {
									for k := range common {
										if _, ok := m[k]; !ok {
											delete(common, k)
										}
									}
								}
							}
							for _, f := range common {
								out = append(out, f)
							}
						}
					}
				}
			}
		}
		cur = id
	}
	return out
}

// staticallyDeadEdge: the edge from pred to b is the side of a comparison of two nil constants (what is left of
// `if b == nil` once a helper has been inlined with a nil argument) that cannot be taken.
func staticallyDeadEdge(pred, b *ssa.BasicBlock) bool {
	iff, ok := pred.Instrs[len(pred.Instrs)-1].(*ssa.If)
	if !ok || pred.Succs[0] == pred.Succs[1] {
		return false
	}
	bo, ok := iff.Cond.(*ssa.BinOp)
	if !ok || (bo.Op != token.EQL && bo.Op != token.NEQ) || !isNilConst(bo.X) || !isNilConst(bo.Y) {
		return false
	}
	taken := 0 // nil == nil: the true side
	if bo.Op == token.NEQ {
		taken = 1
	}
	return pred.Succs[1-taken] == b && pred.Succs[taken] != b
}

// edgeExcluded2 is edgeExcluded for the phi that is itself tested (edgeExcluded looks at sibling phis).
func (z *zfn) edgeExcluded2(q *ssa.Phi, i int, at ssa.Instruction) bool {
	pb := q.Block()
	pred := pb.Preds[i]
	last := pred.Instrs[len(pred.Instrs)-1]
	for cur := at.Block(); cur != nil && cur != pb; {
		id := cur.Idom()
		if id == nil || !(id == pb || pb.Dominates(id)) {
			break
		}
		if iff, ok := id.Instrs[len(id.Instrs)-1].(*ssa.If); ok {
			t, f := id.Succs[0], id.Succs[1]
			truth, have := false, false
			if t != f {
				if (t == cur || t.Dominates(cur)) && edgeOnly(id, t) {
					truth, have = true, true
				} else if (f == cur || f.Dominates(cur)) && edgeOnly(id, f) {
					truth, have = false, true
				}
			}
			if bo, ok := iff.Cond.(*ssa.BinOp); have && ok && (bo.Op == token.EQL || bo.Op == token.NEQ) {
				x, y := bo.X, bo.Y
				if isNilConst(x) {
					x, y = y, x
				}
				if x == ssa.Value(q) && isNilConst(y) {
					wantNil := (bo.Op == token.EQL) == truth
					ev := q.Edges[i]
					switch {
					case isNilConst(ev):
						if !wantNil {
							return true
						}
					case definitelyNonNil(ev, last):
						if wantNil {
							return true
						}
					}
				}
			}
		}
		cur = id
	}
	return false
}

// ioFacts: err == nil after io.ReadFull(r, buf) means n == len(buf).
func (z *zfn) ioFacts(c ssa.Value, truth bool) []lin {
	b, ok := c.(*ssa.BinOp)
	if !ok || !isNilConst(b.Y) {
		return nil
	}
	isNil := (b.Op == token.EQL && truth) || (b.Op == token.NEQ && !truth)
	if !isNil {
		return nil
	}
	ex, ok := b.X.(*ssa.Extract)
	if !ok {
		return nil
	}
	call, ok := ex.Tuple.(*ssa.Call)
	if !ok || !callIs(&call.Call, "io.ReadFull") {
		return nil
	}
	var n ssa.Value
	for _, r := range *call.Referrers() {
		if e, ok := r.(*ssa.Extract); ok && e.Index == 0 {
			n = e
		}
	}
	if n == nil {
		return nil
	}
	nt, lt := z.term(n), z.lenOf(call.Call.Args[1], 0)
	return []lin{leq(nt, lt, 0), leq(lt, nt, 0)}
}

// prove checks goals at `at`, with a bounded case split over phi atoms.
func (z *zfn) prove(at ssa.Instruction, goals []lin) (bool, string) {
	// force generation of facts for all atoms (term() already did); gather
	facts := z.factsAt(at)
	for _, g := range goals {
		if entails(facts, g) {
			continue
		}
		if z.provePhi(at, g, 0, nil) {
			continue
		}
		var defs []minDef
		for _, m := range z.minDefs {
			if anchorDominates(m.call, at) {
				defs = append(defs, m)
			}
		}
		if len(defs) > 0 && entailsSplit(facts, g, defs) {
			continue
		}
		return false, g.String()
	}
	return true, ""
}

// entailsSplit: min(a…)/max(a…) is exactly one of its arguments.  The goal is entailed when it is entailed in every
// combination of "the result of this min/max is that argument" (at most three builtins are split: 27 cases of three
// arguments each).
func entailsSplit(facts []lin, g lin, defs []minDef) bool {
	if len(defs) > 3 {
		defs = defs[:3]
	}
	var rec func(i int, fs []lin) bool
	rec = func(i int, fs []lin) bool {
		if i == len(defs) {
			return entails(fs, g)
		}
		n := linVar(defs[i].name)
		for _, a := range defs[i].args {
			if !rec(i+1, append(append([]lin{}, fs...), leq(n, a, 0), leq(a, n, 0))) {
				return false
			}
		}
		return true
	}
	return rec(0, facts)
}

// sameOnThisPath: the integer b, computed on another path of the function, would have the value of a at `at` — b is
// a pure expression (constants, parameters, conversions proved exact, arithmetic, min/max, loads of fields the
// function never stores to) so its defining facts hold wherever it is evaluated, and with the guards that lead to
// `at` they give a == b.
func (z *zfn) sameOnThisPath(at ssa.Instruction, a, b ssa.Value) bool {
	var anchors = map[ssa.Instruction]bool{}
	var pure func(v ssa.Value, d int) bool
	pure = func(v ssa.Value, d int) bool {
		if d > 8 {
			return false
		}
		switch x := v.(type) {
		case *ssa.Const, *ssa.Parameter:
			return true
		case *ssa.Convert:
			anchors[x] = true
			return pure(x.X, d+1)
		case *ssa.BinOp:
			anchors[x] = true
			return pure(x.X, d+1) && pure(x.Y, d+1)
		case *ssa.Call:
			if n := builtinName(&x.Call); n != "min" && n != "max" {
				return false
			}
			anchors[x] = true
			for _, arg := range x.Call.Args {
				if !pure(arg, d+1) {
					return false
				}
			}
			return true
		case *ssa.UnOp:
			if x.Op != token.MUL {
				return false
			}
			fa, ok := x.X.(*ssa.FieldAddr)
			if !ok {
				return false
			}
			if _, ok := fa.X.(*ssa.Parameter); !ok {
				return false
			}
			// no store to that field (or call that could reach one through the parameter is the memory model's
			// business: the load's cell must be the entry cell, i.e. the same atom as a load at `at` would give)
			for _, blk := range z.fn.Blocks {
				for _, in := range blk.Instrs {
					if st, ok := in.(*ssa.Store); ok {
						if fb, ok := st.Addr.(*ssa.FieldAddr); ok && fb.Field == fa.Field && fb.X == fa.X {
							return false
						}
					}
				}
			}
			anchors[x] = true
			return true
		}
		return false
	}
	if !pure(b, 0) {
		return false
	}
	ta, tb := z.term(a), z.term(b)
	facts := z.factsAt(at)
	for _, f := range z.facts {
		if f.ablock == nil && f.anchor != nil && anchors[f.anchor] && !anchorDominates(f.anchor, at) {
			facts = append(facts, f.l)
		}
	}
	var defs []minDef
	for _, m := range z.minDefs {
		if anchorDominates(m.call, at) || anchors[m.call] {
			defs = append(defs, m)
		}
	}
	return entailsSplit(facts, leq(ta, tb, 0), defs) && entailsSplit(facts, leq(tb, ta, 0), defs)
}

// provePhi: goal mentions a phi atom (directly or via len#phi); split over its edges.
func (z *zfn) provePhi(at ssa.Instruction, g lin, depth int, extra []lin) bool {
	if depth > 3 {
		return false
	}
	for name := range g.coef {
		var phi *ssa.Phi
		isLen, isCap := false, false
		vn := name
		if strings.HasPrefix(name, "len#") {
			vn, isLen = name[4:], true
		} else if strings.HasPrefix(name, "cap#") {
			vn, isCap = name[4:], true
		}
		if !strings.HasPrefix(vn, "v:") {
			continue
		}
		for _, b := range z.fn.Blocks {
			for _, in := range b.Instrs {
				if p, ok := in.(*ssa.Phi); ok && p.Name() == vn[2:] {
					phi = p
				}
			}
		}
		if phi == nil {
			continue
		}
		l := innermostLoop(loopsOf(z.fn), phi.Block())
		if l != nil && l.head == phi.Block() {
			continue
		}
		all := true
		for i, e := range phi.Edges {
			pred := phi.Block().Preds[i]
			if z.edgeExcluded(phi, i, at) || staticallyDeadEdge(pred, phi.Block()) {
				continue
			}
			var sub lin
			switch {
			case isLen:
				sub = z.lenOf(e, 0)
			case isCap:
				sub = z.capOf(e, 0)
			default:
				sub = z.term(e)
			}
			k := g.coef[name]
			ng := g.clone()
			delete(ng.coef, name)
			ng = ng.plus(sub, k)
			// facts at the end of pred, plus the condition of pred's branch towards the phi block
			last := pred.Instrs[len(pred.Instrs)-1]
			facts := z.factsAt(last)
			if iff, ok := last.(*ssa.If); ok {
				if pred.Succs[0] == phi.Block() && pred.Succs[1] != phi.Block() {
					facts = append(facts, z.condFacts(iff.Cond, true)...)
				} else if pred.Succs[1] == phi.Block() && pred.Succs[0] != phi.Block() {
					facts = append(facts, z.condFacts(iff.Cond, false)...)
				}
			}
			// facts that hold at `at` and do not mention the phi are still valid
			for _, f := range z.factsAt(at) {
				if _, has := f.coef[name]; !has {
					facts = append(facts, f)
				}
			}
			var carry []lin
			for _, f := range extra {
				if _, has := f.coef[name]; !has {
					facts = append(facts, f)
					carry = append(carry, f)
				}
			}
			// what is known at the end of the predecessor still holds once the path went through this edge
			// (SSA values are not redefined on the way: loop-head phis are not split)
			for _, f := range z.factsAt(last) {
				if _, has := f.coef[name]; !has {
					carry = append(carry, f)
				}
			}
			// what this edge adds is also known further up the chain of phis
			if iff, ok := last.(*ssa.If); ok {
				if pred.Succs[0] == phi.Block() && pred.Succs[1] != phi.Block() {
					carry = append(carry, z.condFacts(iff.Cond, true)...)
				} else if pred.Succs[1] == phi.Block() && pred.Succs[0] != phi.Block() {
					carry = append(carry, z.condFacts(iff.Cond, false)...)
				}
			}
			for _, f := range z.factsAt(at) {
				if _, has := f.coef[name]; !has {
					carry = append(carry, f)
				}
			}
			if !entails(facts, ng) && !z.provePhi(last, ng, depth+1, carry) {
				if os.Getenv("ZTRACE") != "" {
					fmt.Fprintf(os.Stderr, "ZTRACE depth=%d phi=%s edge=%d val=%s goal=%s FAILED\n", depth, phi.Name(), i, e.Name(), ng.String())
				}
				all = false
				break
			}
		}
		if all {
			return true
		}
	}
	if depth == 0 {
		return z.provePhiInFacts(at, g)
	}
	return false
}

// provePhiInFacts: the goal does not mention a phi, but what is known at `at` ties it to one (n == len(b[:length])
// with length a phi).  Split over that phi's edges, keeping every fact and adding phi == the edge's value.
func (z *zfn) provePhiInFacts(at ssa.Instruction, g lin) bool {
	return z.provePhiInFactsX(at, g, nil, 0, map[string]bool{})
}

// provePhiInFactsX: with `extra` hypotheses from an outer split; a join that the hypotheses of one edge mention in turn
// (a limit that is itself the smaller of two values) is split one level further.
func (z *zfn) provePhiInFactsX(at ssa.Instruction, g lin, extra []lin, depth int, skip map[string]bool) bool {
	base := append(append([]lin{}, z.factsAt(at)...), extra...)
	names := map[string]bool{}
	for _, f := range base {
		for n := range f.coef {
			if _, inGoal := g.coef[n]; !inGoal {
				names[n] = true
			}
		}
	}
	var sorted []string
	for n := range names {
		sorted = append(sorted, n)
	}
	sort.Strings(sorted)
	for _, name := range sorted {
		if skip[name] {
			continue
		}
		isLen, isCap := false, false
		vn := name
		if strings.HasPrefix(name, "len#") {
			vn, isLen = name[4:], true
		} else if strings.HasPrefix(name, "cap#") {
			vn, isCap = name[4:], true
		}
		if !strings.HasPrefix(vn, "v:") {
			continue
		}
		var phi *ssa.Phi
		for _, b := range z.fn.Blocks {
			for _, in := range b.Instrs {
				if p, ok := in.(*ssa.Phi); ok && p.Name() == vn[2:] {
					phi = p
				}
			}
		}
		if phi == nil {
			continue
		}
		if l := innermostLoop(loopsOf(z.fn), phi.Block()); l != nil && l.head == phi.Block() {
			continue
		}
		if !(phi.Block() == at.Block() || phi.Block().Dominates(at.Block())) {
			continue
		}
		all, any := true, false
		for i, e := range phi.Edges {
			if z.edgeExcluded(phi, i, at) {
				continue
			}
			any = true
			pred := phi.Block().Preds[i]
			var sub lin
			switch {
			case isLen:
				sub = z.lenOf(e, 0)
			case isCap:
				sub = z.capOf(e, 0)
			default:
				sub = z.term(e)
			}
			last := pred.Instrs[len(pred.Instrs)-1]
			facts := append([]lin{}, z.factsAt(last)...)
			if iff, ok := last.(*ssa.If); ok {
				if pred.Succs[0] == phi.Block() && pred.Succs[1] != phi.Block() {
					facts = append(facts, z.condFacts(iff.Cond, true)...)
				} else if pred.Succs[1] == phi.Block() && pred.Succs[0] != phi.Block() {
					facts = append(facts, z.condFacts(iff.Cond, false)...)
				}
			}
			facts = append(facts, z.factsAt(at)...)
			facts = append(facts, extra...)
			facts = append(facts, leq(linVar(name), sub, 0), leq(sub, linVar(name), 0))
			if !entails(facts, g) && !z.provePhi(at, g, 1, facts) {
				deeper := false
				if depth < 1 {
					skip[name] = true
					deeper = z.provePhiInFactsX(at, g, facts, depth+1, skip)
					delete(skip, name)
				}
				if !deeper {
					all = false
					break
				}
			}
		}
		if all && any {
			return true
		}
	}
	return false
}

// edgeExcluded: `at` is reached from phi's block only under a nil test of a sibling phi (one of the same block)
// whose value on edge i decides the test the other way: the value phi takes on that edge does not arrive at `at`.
// This is what a (value, error) pair looks like once the function that returned it has been inlined: both are phis
// of the join, and the caller's `if err != nil { return }` selects the edges that carried a nil error.
//
// Sound in loops as well: the phi block dominates the test's block, which dominates `at`, and the successor taken is
// entered through that edge only, so the last execution of the test before `at` follows the last execution of the
// phi block and sees the sibling's value of that execution.
func (z *zfn) edgeExcluded(phi *ssa.Phi, i int, at ssa.Instruction) bool {
	pb := phi.Block()
	pred := pb.Preds[i]
	last := pred.Instrs[len(pred.Instrs)-1]
	for cur := at.Block(); cur != nil && cur != pb; {
		id := cur.Idom()
		if id == nil || !(id == pb || pb.Dominates(id)) {
			break
		}
		if iff, ok := id.Instrs[len(id.Instrs)-1].(*ssa.If); ok {
			t, f := id.Succs[0], id.Succs[1]
			truth, have := false, false
			if t != f {
				if (t == cur || t.Dominates(cur)) && edgeOnly(id, t) {
					truth, have = true, true
				} else if (f == cur || f.Dominates(cur)) && edgeOnly(id, f) {
					truth, have = false, true
				}
			}
			// the phi itself compared with a constant, and a constant on this edge: the comparison is decided
			if bo, ok := iff.Cond.(*ssa.BinOp); have && ok && stripConv(bo.X) == ssa.Value(phi) {
				if kc, ok1 := constInt(bo.Y); ok1 {
					if ke, ok2 := constInt(phi.Edges[i]); ok2 {
						var holds, known bool
						switch bo.Op {
						case token.EQL:
							holds, known = ke == kc, true
						case token.NEQ:
							holds, known = ke != kc, true
						case token.LSS:
							holds, known = ke < kc, true
						case token.LEQ:
							holds, known = ke <= kc, true
						case token.GTR:
							holds, known = ke > kc, true
						case token.GEQ:
							holds, known = ke >= kc, true
						}
						if known && holds != truth {
							return true
						}
					}
				}
			}
			// a sibling boolean join tested as it is (`v, ok := f(); if !ok { return }` with f inlined back: ok and v are
			// joins of the same block): the edges on which ok is the constant that the branch taken rules out are excluded
			{
				cv, neg := iff.Cond, false
				if u, isU := cv.(*ssa.UnOp); isU && u.Op == token.NOT {
					cv, neg = u.X, true
				}
				if q, ok := cv.(*ssa.Phi); have && ok && q.Block() == pb && q != phi && len(q.Edges) == len(phi.Edges) {
					if k, isC := q.Edges[i].(*ssa.Const); isC && k.Value != nil && k.Value.Kind() == constant.Bool {
						qTrue := truth != neg // the value q must have for the branch taken
						if constant.BoolVal(k.Value) != qTrue {
							return true
						}
					}
				}
			}
			if bo, ok := iff.Cond.(*ssa.BinOp); have && ok && (bo.Op == token.EQL || bo.Op == token.NEQ) {
				x, y := bo.X, bo.Y
				if isNilConst(x) {
					x, y = y, x
				}
				if q, ok := x.(*ssa.Phi); ok && isNilConst(y) && q.Block() == pb && q != phi && len(q.Edges) == len(phi.Edges) {
					wantNil := (bo.Op == token.EQL) == truth
					ev := q.Edges[i]
					switch {
					case isNilConst(ev):
						if !wantNil {
							return true
						}
					case definitelyNonNil(ev, last):
						if wantNil {
							return true
						}
					}
				}
			}
		}
		cur = id
	}
	return false
}

// ---------- summaries ----------

func (w *zworld) summary(fn *ssa.Function) *zsummary {
	if s, ok := w.sums[fn]; ok {
		return s
	}
	s := &zsummary{ensures: map[int]zens{}, errIdx: -1}
	w.sums[fn] = s
	if fn.Blocks == nil {
		s.done = true
		return s
	}
	s.inProgress = true
	res := fn.Signature.Results()
	for i := 0; i < res.Len(); i++ {
		if types.Identical(res.At(i).Type(), types.Universe.Lookup("error").Type()) {
			s.errIdx = i
		}
	}
	z := w.get(fn)
	// ensures: every success return yields len(result j) = len(param i) - k
	type cand struct {
		param int
		sub   int64
		ok    bool
	}
	cands := map[int]*cand{}
	nret := 0
	eachInstr(fn, func(in ssa.Instruction) {
		r, ok := in.(*ssa.Return)
		if !ok || !isReturn(in) {
			return
		}
		if s.errIdx >= 0 && !isNilConst(r.Results[s.errIdx]) {
			if definitelyNonNil(r.Results[s.errIdx], in) {
				return // a failure return: the relation is only promised for err == nil
			}
			// an error value that may be nil: be conservative — treat as a possible success path
		}
		nret++
		for j, rv := range r.Results {
			if _, isSlice := rv.Type().Underlying().(*types.Slice); !isSlice {
				continue
			}
			found := false
			lt := z.lenOf(rv, 0)
			facts := z.factsAt(in)
			for pi, pr := range fn.Params {
				if _, isSlice := pr.Type().Underlying().(*types.Slice); !isSlice {
					continue
				}
				pl := z.lenOf(pr, 0)
				for k := int64(0); k <= 16; k++ {
					// len(ret) == len(param) - k ?
					g1 := lt.plus(pl, -1)
					g1.c += k
					g2 := pl.plus(lt, -1)
					g2.c -= k
					if entails(facts, g1) && entails(facts, g2) {
						c := cands[j]
						if c == nil {
							cands[j] = &cand{pi, k, true}
						} else if c.param != pi || c.sub != k {
							c.ok = false
						}
						found = true
						break
					}
				}
				if found {
					break
				}
			}
			if !found {
				if c := cands[j]; c != nil {
					c.ok = false
				} else {
					cands[j] = &cand{ok: false}
				}
			}
		}
	})
	if nret > 0 {
		for j, c := range cands {
			if c.ok {
				s.ensures[j] = zens{c.param, c.sub}
			}
		}
	}
	s.inProgress = false
	s.done = true
	return s
}

// stdlib contracts: minimum length of the slice argument
var stdRequires = map[string][2]int64{ // funcID -> {arg index (after receiver), min length}
	"encoding/binary.(bigEndian).Uint16": {0, 2}, "encoding/binary.(bigEndian).Uint32": {0, 4}, "encoding/binary.(bigEndian).Uint64": {0, 8},
	"encoding/binary.(bigEndian).PutUint16": {0, 2}, "encoding/binary.(bigEndian).PutUint32": {0, 4}, "encoding/binary.(bigEndian).PutUint64": {0, 8},
	"encoding/binary.(littleEndian).Uint32": {0, 4},
}

// obligationsOf enumerates the panic-capable instructions of fn with their proof goals.
func (z *zfn) obligationsOf() []zobl {
	var out []zobl
	fn := z.fn
	eachInstr(fn, func(in ssa.Instruction) {
		switch x := in.(type) {
		case *ssa.Slice:
			var baseCap lin
			isStr := false
			if b, ok := x.X.Type().Underlying().(*types.Basic); ok && b.Info()&types.IsString != 0 {
				isStr = true
			}
			if isStr {
				baseCap = z.lenOf(x.X, 0)
			} else {
				baseCap = z.capOf(x.X, 0)
			}
			lo := linConst(0)
			if x.Low != nil {
				lo = z.term(x.Low)
			}
			var hi lin
			if x.High != nil {
				hi = z.term(x.High)
			} else {
				hi = z.lenOf(x.X, 0)
			}
			mx := baseCap
			if x.Max != nil {
				mx = z.term(x.Max)
			}
			goals := []lin{lo.scale(-1), leq(lo, hi, 0), leq(hi, mx, 0), leq(mx, baseCap, 0)}
			// drop trivial goals
			var g2 []lin
			for _, g := range goals {
				if g.isConst() && g.c <= 0 {
					continue
				}
				g2 = append(g2, g)
			}
			if len(g2) > 0 {
				out = append(out, zobl{In: in, Kind: "slice", Goals: g2, Desc: "0 <= low <= high <= cap"})
			}
		case *ssa.IndexAddr:
			idx := z.term(x.Index)
			ln := z.lenOf(x.X, 0)
			goals := []lin{idx.scale(-1), leq(idx, ln, 1)}
			var g2 []lin
			for _, g := range goals {
				if g.isConst() && g.c <= 0 {
					continue
				}
				g2 = append(g2, g)
			}
			if len(g2) > 0 {
				out = append(out, zobl{In: in, Kind: "index", Goals: g2, Desc: "0 <= index < len"})
			}
		case *ssa.Index:
			idx := z.term(x.Index)
			ln := z.lenOf(x.X, 0)
			goals := []lin{idx.scale(-1), leq(idx, ln, 1)}
			var g2 []lin
			for _, g := range goals {
				if g.isConst() && g.c <= 0 {
					continue
				}
				g2 = append(g2, g)
			}
			if len(g2) > 0 {
				out = append(out, zobl{In: in, Kind: "index", Goals: g2, Desc: "0 <= index < len"})
			}
		case *ssa.Lookup:
			if b, ok := x.X.Type().Underlying().(*types.Basic); ok && b.Info()&types.IsString != 0 {
				idx := z.term(x.Index)
				ln := z.lenOf(x.X, 0)
				out = append(out, zobl{In: in, Kind: "index", Goals: []lin{idx.scale(-1), leq(idx, ln, 1)}, Desc: "0 <= index < len(string)"})
			}
		case *ssa.MakeSlice:
			l, cp := z.term(x.Len), z.term(x.Cap)
			if l.isConst() && cp.isConst() {
				return
			}
			goals := []lin{l.scale(-1), leq(l, cp, 0)}
			out = append(out, zobl{In: in, Kind: "make", Goals: goals, Desc: "0 <= len <= cap"})
			// the terms above are mathematical: an addition in the size expression that wraps round its (narrow)
			// type gives a capacity below the length, and make panics.  Each addition of 8/16/32-bit operands in the
			// size expressions must be shown not to wrap.
			var walkSize func(v ssa.Value, d int)
			walkSize = func(v ssa.Value, d int) {
				if d > 4 {
					return
				}
				switch y := v.(type) {
				case *ssa.Convert:
					walkSize(y.X, d+1)
				case *ssa.ChangeType:
					walkSize(y.X, d+1)
				case *ssa.BinOp:
					if bits, signed, ok := z.intBits(y.Type()); ok && bits <= 32 && (y.Op == token.ADD || y.Op == token.SUB) {
						a, b := z.term(y.X), z.term(y.Y)
						if !(a.isConst() && b.isConst()) {
							var g lin
							if y.Op == token.ADD {
								g = a.clone()
								for k, cf := range b.coef {
									g.coef[k] += cf
								}
								g.c += b.c
								max := int64(1)<<uint(bits) - 1
								if signed {
									max = int64(1)<<uint(bits-1) - 1
								}
								g.c -= max
								out = append(out, zobl{In: in, Kind: "wrap", Goals: []lin{g}, Desc: fmt.Sprintf("%d-bit addition in a make size does not wrap", bits)})
							} else if !signed {
								out = append(out, zobl{In: in, Kind: "wrap", Goals: []lin{leq(b, a, 0)}, Desc: fmt.Sprintf("%d-bit unsigned subtraction in a make size does not wrap", bits)})
							}
						}
					}
					walkSize(y.X, d+1)
					walkSize(y.Y, d+1)
				}
			}
			walkSize(x.Len, 0)
			if x.Cap != x.Len {
				walkSize(x.Cap, 0)
			}
			// allocation bounded by a constant or by the length of some existing slice
			var alts [][]lin
			lim := cp.clone()
			lim.c -= 1 << 22
			alts = append(alts, []lin{lim})
			for name := range z.seenLens() {
				alts = append(alts, []lin{leq(cp, linVar(name), 0)})
			}
			out = append(out, zobl{In: in, Kind: "alloc", Alt: alts, Desc: "allocation size bounded by a constant or by the input length"})
		case *ssa.TypeAssert:
			if !x.CommaOk {
				out = append(out, zobl{In: in, Kind: "assert", Desc: "type assertion without ok"})
			}
		case *ssa.Panic:
			out = append(out, zobl{In: in, Kind: "panic", Desc: "explicit panic"})
		case *ssa.BinOp:
			if x.Op == token.QUO || x.Op == token.REM {
				if _, _, ok := z.intBits(x.Type()); ok {
					if _, isC := constInt(x.Y); !isC {
						d := z.term(x.Y)
						out = append(out, zobl{In: in, Kind: "div", Alt: [][]lin{{leq(linConst(1), d, 0)}, {leq(d, linConst(-1), 0)}}, Desc: "divisor != 0"})
					}
				}
			}
		case *ssa.Call:
			cc := &x.Call
			if f := calleeFunc(cc); f != nil {
				if req, ok := stdRequires[funcID(f)]; ok {
					args := argsOf(cc)
					ln := z.lenOf(args[req[0]], 0)
					out = append(out, zobl{In: in, Kind: "call", Goals: []lin{leq(linConst(req[1]), ln, 0)}, Desc: fmt.Sprintf("%s needs len >= %d", f.Name(), req[1])})
				}
			}
			if callee := cc.StaticCallee(); callee != nil && inModule(callee) && callee.Blocks != nil {
				for _, rq := range z.w.requiresOf(callee) {
					if rq.param < len(cc.Args) {
						ln := z.lenOf(cc.Args[rq.param], 0)
						what := "len"
						if rq.cap {
							ln = z.capOf(cc.Args[rq.param], 0)
							what = "cap"
						}
						out = append(out, zobl{In: in, Kind: "call", Goals: []lin{leq(linConst(rq.min), ln, 0)}, Desc: fmt.Sprintf("%s requires %s(arg %d) >= %d", fnName(callee), what, rq.param, rq.min)})
					}
				}
			}
		}
	})
	out = append(out, z.invObl...)
	return out
}

// seenLens: the len# atoms known in this function (candidates for "proportional to input").
func (z *zfn) seenLens() map[string]bool {
	out := map[string]bool{}
	for k := range z.seen {
		if strings.HasPrefix(k, "len#") {
			out[k] = true
		}
	}
	return out
}

// requiresOf: obligations of fn that cannot be discharged locally but have the form
// len(param) >= k are lifted to the callers.
var requiresMemo = map[*ssa.Function][]zreq{}
var requiresBusy = map[*ssa.Function]bool{}

func (w *zworld) requiresOf(fn *ssa.Function) []zreq {
	if r, ok := requiresMemo[fn]; ok {
		return r
	}
	if requiresBusy[fn] {
		return nil
	}
	requiresBusy[fn] = true
	defer delete(requiresBusy, fn)
	z := w.get(fn)
	var reqs []zreq
	for _, o := range z.obligationsOf() {
		if len(o.Goals) == 0 {
			continue
		}
		ok, _ := z.prove(o.In, o.Goals)
		if ok {
			continue
		}
		// try: assume len(param i) >= k for the smallest k <= 64 that makes all goals provable
		found := false
		for _, useCap := range []bool{true, false} {
			if found {
				break
			}
			for pi, pr := range fn.Params {
				if _, isSlice := pr.Type().Underlying().(*types.Slice); !isSlice {
					continue
				}
				pl := z.lenOf(pr, 0)
				if useCap {
					pl = z.capOf(pr, 0)
				}
				for k := int64(1); k <= 64; k++ {
					extra := leq(linConst(k), pl, 0)
					facts := append(z.factsAt(o.In), extra)
					all := true
					for _, g := range o.Goals {
						if !entails(facts, g) {
							all = false
							break
						}
					}
					if all {
						merged := false
						for i := range reqs {
							if reqs[i].param == pi && reqs[i].cap == useCap {
								if k > reqs[i].min {
									reqs[i].min = k
								}
								merged = true
							}
						}
						if !merged {
							reqs = append(reqs, zreq{pi, k, useCap})
						}
						found = true
						break
					}
				}
				if found {
					break
				}
			}
		}
	}
	requiresMemo[fn] = reqs
	return reqs
}

// reversePostorder of the CFG from the entry block (unreachable blocks are appended).
func reversePostorder(fn *ssa.Function) []*ssa.BasicBlock {
	seen := map[*ssa.BasicBlock]bool{}
	var post []*ssa.BasicBlock
	var dfs func(b *ssa.BasicBlock)
	dfs = func(b *ssa.BasicBlock) {
		seen[b] = true
		for _, s := range b.Succs {
			if !seen[s] {
				dfs(s)
			}
		}
		post = append(post, b)
	}
	dfs(fn.Blocks[0])
	var out []*ssa.BasicBlock
	for i := len(post) - 1; i >= 0; i-- {
		out = append(out, post[i])
	}
	for _, b := range fn.Blocks {
		if !seen[b] {
			out = append(out, b)
		}
	}
	return out
}

// definitelyNonNil: the error value returned at `at` cannot be nil.
func definitelyNonNil(v ssa.Value, at ssa.Instruction) bool {
	switch x := v.(type) {
	case *ssa.Const:
		return !isNilConst(x)
	case *ssa.MakeInterface:
		return true
	case *ssa.Call:
		return callIs(&x.Call, "fmt.Errorf", "errors.New")
	case *ssa.UnOp:
		if g, ok := x.X.(*ssa.Global); ok && x.Op == token.MUL {
			// a package-level error variable (errShortPacket, ErrShortPacket, io.EOF …)
			return strings.HasPrefix(strings.ToLower(g.Name()), "err") || g.Name() == "EOF"
		}
	}
	// guarded by `v != nil` on the way to `at`
	refs := v.Referrers()
	if refs == nil {
		return false
	}
	for _, r := range *refs {
		b, ok := r.(*ssa.BinOp)
		if !ok || !isNilConst(b.Y) {
			continue
		}
		for _, rr := range *b.Referrers() {
			iff, ok := rr.(*ssa.If)
			if !ok {
				continue
			}
			var s *ssa.BasicBlock
			if b.Op == token.NEQ {
				s = iff.Block().Succs[0]
			} else if b.Op == token.EQL {
				s = iff.Block().Succs[1]
			}
			if s != nil && edgeOnly(iff.Block(), s) && (s == at.Block() || s.Dominates(at.Block())) {
				return true
			}
		}
	}
	return false
}

// localFieldStore: ld loads field f of a struct variable that lives in this function and is touched only by field
// stores and field loads — or is filled once, whole, from a composite literal that is (never passed on, copied or
// address-taken otherwise); exactly one store writes f and it dominates the load: that store.
func localFieldStore(ld *ssa.UnOp) *ssa.Store {
	fa, ok := ld.X.(*ssa.FieldAddr)
	if !ok {
		return nil
	}
	al, ok := fa.X.(*ssa.Alloc)
	if !ok {
		return nil
	}
	st := fieldStoreOf(al, fa.Field, 0, ld)
	if st == nil || !dominates(st, ld) {
		return nil
	}
	return st
}

func fieldStoreOf(al *ssa.Alloc, field int, depth int, at ssa.Instruction) *ssa.Store {
	if al.Referrers() == nil || depth > 2 {
		return nil
	}
	var stores []*ssa.Store
	var whole []*ssa.Store
	wholeLoads := 0
	for _, r := range *al.Referrers() {
		switch x := r.(type) {
		case *ssa.DebugRef:
		case *ssa.FieldAddr:
			if x.Referrers() == nil {
				continue
			}
			for _, rr := range *x.Referrers() {
				switch y := rr.(type) {
				case *ssa.Store:
					if y.Addr != ssa.Value(x) {
						return nil // the field's address is stored somewhere
					}
					if x.Field == field {
						stores = append(stores, y)
					}
				case *ssa.UnOp, *ssa.DebugRef:
				default:
					return nil
				}
			}
		case *ssa.Store:
			if x.Addr != ssa.Value(al) {
				return nil // the variable's address escapes
			}
			whole = append(whole, x)
		case *ssa.UnOp:
			wholeLoads++ // read as a whole (copied into another variable): harmless for what it holds
		default:
			return nil
		}
	}
	switch {
	case len(whole) == 0 && len(stores) == 1:
		return stores[0]
	case len(whole) == 1 && len(stores) == 0:
		// filled from another local struct
		if src, ok := whole[0].Val.(*ssa.UnOp); ok && src.Op == token.MUL {
			if a2, ok := src.X.(*ssa.Alloc); ok {
				if st := fieldStoreOf(a2, field, depth+1, src); st != nil && dominates(st, src) && dominates(whole[0], at) {
					return st
				}
			}
		}
	}
	return nil
}
