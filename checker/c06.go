package main

import (
	"fmt"
	"go/constant"
	"go/token"
	"go/types"
	"os"
	"sort"
	"strings"

	"golang.org/x/tools/go/ssa"
)

func init() {
	register("C06", &propSpec{
		level:       "other",
		explanation: "Layout agreement of the two codecs decided by extracting, from SSA, the ordered sequence of wire primitives (with the field each carries) of every marshal and unmarshal function and comparing: marshal = unmarshal per packet type in package sftp, both = the SFTP v3 draft / OpenSSH PROTOCOL layout, = the filexfer sibling's marshal and unmarshal sequences; attribute blocks by flag agree in the five functions that implement them and with the draft, and the two packages' flag and type-code constants are numerically equal; the length prefix is len(header)+len(payload)-4 with header written first; integer primitives are big-endian with matching shifts; decode cursors are threaded (no rest buffer is dropped while decoding continues); the reflect/binary-encoded structs have the wire's field order and widths. Value-level round trips beyond these shapes are not decided.",
		run:         runC06,
		assumptions: []string{"encoding/binary.BigEndian and binary.Read/Write are correct", "strings are byte strings (no UTF-8 processing)"},
	})
}

type wtok struct {
	Prim  string // type, u8, u32, u64, str, bytes, attrs, status, ext, count
	Field string
	Loop  bool
}

func (t wtok) String() string {
	s := t.Prim
	if t.Field != "" {
		s += ":" + t.Field
	}
	if t.Loop {
		s += "*"
	}
	return s
}

func toksString(ts []wtok, withField bool) string {
	var parts []string
	for _, t := range ts {
		if withField {
			parts = append(parts, t.String())
		} else {
			s := t.Prim
			if t.Loop {
				s += "*"
			}
			parts = append(parts, s)
		}
	}
	return strings.Join(parts, " ")
}

// srcField names what a marshalled value is: a field of the packet, len(field), a constant, a parameter.
func srcField(v ssa.Value) string {
	if k, ok := constInt(v); ok {
		return fmt.Sprintf("const(%d)", k)
	}
	if s, ok := constString(v); ok {
		return fmt.Sprintf("const(%q)", s)
	}
	t := stripConv(v)
	if call, ok := t.(*ssa.Call); ok && builtinName(&call.Call) == "len" {
		return "len(" + srcField(call.Call.Args[0]) + ")"
	}
	for _, l := range leavesOf(v) {
		switch l.Kind {
		case leafFieldLoad:
			return l.Field
		case leafParam:
			return "param:" + l.Param.Name()
		}
	}
	return "?"
}

// dstField names where a decoded value ends up.
func dstField(v ssa.Value) string {
	name := ""
	var visit func(v ssa.Value, d int)
	visit = func(v ssa.Value, d int) {
		if d > 4 || name != "" {
			return
		}
		refs := v.Referrers()
		if refs == nil {
			return
		}
		for _, r := range *refs {
			switch x := r.(type) {
			case *ssa.Store:
				if x.Val != v {
					continue
				}
				switch a := x.Addr.(type) {
				case *ssa.FieldAddr:
					_, n, _, _ := fieldOf(a)
					name = n
				case *ssa.Alloc:
					name = "var:" + a.Comment
				case *ssa.Parameter:
					name = "out:" + a.Name()
				case *ssa.IndexAddr:
					name = "elem"
				}
			case *ssa.Convert, *ssa.ChangeType, *ssa.MakeInterface:
				visit(x.(ssa.Value), d+1)
			case *ssa.Phi:
				visit(x, d+1)
			}
		}
	}
	visit(v, 0)
	return name
}

// seqOf extracts the wire-primitive sequence of a marshal or unmarshal function.
func seqOf(p *Program, fn *ssa.Function, depth int) []wtok {
	var out []wtok
	if fn == nil || fn.Blocks == nil || depth > 3 {
		return out
	}
	loops := loopsOf(fn)
	for _, b := range fn.Blocks {
		if b == fn.Recover {
			continue
		}
		inL := innermostLoop(loops, b) != nil
		for _, in := range b.Instrs {
			call, ok := in.(*ssa.Call)
			if !ok {
				continue
			}
			cc := &call.Call
			add := func(prim, field string) { out = append(out, wtok{prim, field, inL}) }
			// builtin append(b, CONST) = a type byte (or raw bytes)
			if builtinName(cc) == "append" && len(cc.Args) == 2 {
				if s, ok := cc.Args[1].(*ssa.Slice); ok {
					if a, ok := s.X.(*ssa.Alloc); ok {
						if arr, ok := derefType(a.Type()).Underlying().(*types.Array); ok && arr.Len() == 1 && isByteType(arr.Elem()) {
							for _, r := range *a.Referrers() {
								if ia, ok := r.(*ssa.IndexAddr); ok {
									for _, rr := range *ia.Referrers() {
										if st, ok := rr.(*ssa.Store); ok {
											if k, ok := constInt(st.Val); ok {
												add("type", fmt.Sprintf("%d", k))
											} else {
												add("u8", srcField(st.Val))
											}
										}
									}
								}
							}
						}
					}
				}
				continue
			}
			name := calleeName(cc)
			args := argsOf(cc)
			callee := cc.StaticCallee()
			pk := ""
			if callee != nil && callee.Package() != nil {
				pk = callee.Package().Pkg.Path()
			} else if cc.IsInvoke() && cc.Method.Pkg() != nil {
				pk = cc.Method.Pkg().Path()
			}
			if !strings.HasPrefix(pk, pkgSftp) {
				continue
			}
			ext := func(i int) ssa.Value {
				for _, r := range *call.Referrers() {
					if ex, ok := r.(*ssa.Extract); ok && ex.Index == i {
						return ex
					}
				}
				return nil
			}
			res := func() string {
				if call.Type() != nil {
					if _, isTuple := call.Type().(*types.Tuple); isTuple {
						if e := ext(0); e != nil {
							return dstField(e)
						}
						return "_"
					}
				}
				return dstField(call)
			}
			switch name {
			// ---- package sftp encoders ----
			case "marshalUint32":
				add("u32", srcField(args[1]))
			case "marshalUint64":
				add("u64", srcField(args[1]))
			case "marshalString":
				add("str", srcField(args[1]))
			case "marshalStatus":
				add("u32", "Code")
				add("str", "msg")
				add("str", "lang")
			case "marshalFileStat", "marshalFileInfo", "marshal":
				add("attrs", "")
			case "marshalIDStringPacket":
				k, _ := constInt(args[0])
				add("type", fmt.Sprintf("%d", k))
				add("u32", srcField(args[1]))
				add("str", srcField(args[2]))
			// ---- package sftp decoders ----
			case "unmarshalUint32Safe", "unmarshalUint32":
				add("u32", res())
			case "unmarshalUint64Safe", "unmarshalUint64":
				add("u64", res())
			case "unmarshalStringSafe", "unmarshalString":
				add("str", res())
			case "unmarshalIDString":
				add("u32", ptrField(args[1]))
				add("str", ptrField(args[2]))
			case "unmarshalAttrs", "unmarshalFileStat":
				add("attrs", "")
			case "unmarshalExtensionPair":
				add("str", "Name")
				add("str", "Data")
			// ---- filexfer Buffer ----
			case "StartPacket":
				add("type", srcField(args[0]))
				add("u32", "id")
			case "AppendUint8":
				add("u8", srcField(args[0]))
			case "AppendUint16":
				add("u16", srcField(args[0]))
			case "AppendUint32", "AppendCount":
				add("u32", srcField(args[0]))
			case "AppendUint64", "AppendInt64":
				add("u64", srcField(args[0]))
			case "AppendString", "AppendByteSlice":
				add("str", srcField(args[0]))
			case "ConsumeUint8", "ConsumeBool":
				add("u8", res())
			case "ConsumeUint16":
				add("u16", res())
			case "ConsumeUint32", "ConsumeCount":
				add("u32", res())
			case "ConsumeUint64", "ConsumeInt64":
				add("u64", res())
			case "ConsumeString", "ConsumeByteSlice", "ConsumeByteSliceCopy":
				add("str", res())
			case "MarshalInto", "UnmarshalFrom", "XXX_UnmarshalByFlags":
				rt := ""
				if r := recvOf(cc); r != nil {
					rt = typeName(r.Type())
				}
				switch rt {
				case "Attributes":
					add("attrs", "")
				case "NameEntry":
					out = append(out, wtok{"str", "Filename", true}, wtok{"str", "Longname", true}, wtok{"attrs", "", true})
				case "ExtendedAttribute", "ExtensionPair":
					out = append(out, wtok{"str", "", inL}, wtok{"str", "", inL})
				default:
					if callee != nil {
						for _, t := range seqOf(p, callee, depth+1) {
							t.Loop = t.Loop || inL
							out = append(out, t)
						}
					}
				}
			case "Packet":
				// payload bytes passed through
				if len(args) == 1 {
					if f := srcField(args[0]); f != "?" && f != "param:payload" && !strings.HasPrefix(f, "const") {
						add("bytes", f)
					}
				}
			}
		}
	}
	return out
}

func ptrField(v ssa.Value) string {
	if fa, ok := v.(*ssa.FieldAddr); ok {
		_, n, _, _ := fieldOf(fa)
		return n
	}
	return "?"
}

// body layouts after `type, u32 id`, in primitives (S = string, A = attrs)
var layoutOracle = map[string]struct {
	code int64
	body string
}{
	"Open": {3, "str u32 attrs"}, "Close": {4, "str"}, "Read": {5, "str u64 u32"}, "Write": {6, "str u64 str"},
	"Lstat": {7, "str"}, "Fstat": {8, "str"}, "Setstat": {9, "str attrs"}, "Fsetstat": {10, "str attrs"},
	"Opendir": {11, "str"}, "Readdir": {12, "str"}, "Remove": {13, "str"}, "Mkdir": {14, "str attrs"}, "Rmdir": {15, "str"},
	"Realpath": {16, "str"}, "Stat": {17, "str"}, "Rename": {18, "str str"}, "Readlink": {19, "str"}, "Symlink": {20, "str str"},
	"Status": {101, "u32 str str"}, "Handle": {102, "str"}, "Data": {103, "str"}, "Name": {104, "u32 str* str* attrs*"}, "Attrs": {105, "attrs"},
	"Extended": {200, "str"},
}

// how package sftp names the packet types
var sftpTypes = map[string]string{
	"sshFxpOpenPacket": "Open", "sshFxpClosePacket": "Close", "sshFxpReadPacket": "Read", "sshFxpWritePacket": "Write", "sshFxpLstatPacket": "Lstat",
	"sshFxpFstatPacket": "Fstat", "sshFxpSetstatPacket": "Setstat", "sshFxpFsetstatPacket": "Fsetstat", "sshFxpOpendirPacket": "Opendir",
	"sshFxpReaddirPacket": "Readdir", "sshFxpRemovePacket": "Remove", "sshFxpMkdirPacket": "Mkdir", "sshFxpRmdirPacket": "Rmdir",
	"sshFxpRealpathPacket": "Realpath", "sshFxpStatPacket": "Stat", "sshFxpRenamePacket": "Rename", "sshFxpReadlinkPacket": "Readlink",
	"sshFxpSymlinkPacket": "Symlink", "sshFxpStatusPacket": "Status", "sshFxpHandlePacket": "Handle", "sshFxpDataPacket": "Data",
	"sshFxpNamePacket": "Name", "sshFxpStatResponse": "Attrs",
}

var sshfxTypes = map[string]string{
	"OpenPacket": "Open", "ClosePacket": "Close", "ReadPacket": "Read", "WritePacket": "Write", "LStatPacket": "Lstat", "FStatPacket": "Fstat",
	"SetstatPacket": "Setstat", "FSetstatPacket": "Fsetstat", "OpenDirPacket": "Opendir", "ReadDirPacket": "Readdir", "RemovePacket": "Remove",
	"MkdirPacket": "Mkdir", "RmdirPacket": "Rmdir", "RealPathPacket": "Realpath", "StatPacket": "Stat", "RenamePacket": "Rename",
	"ReadLinkPacket": "Readlink", "SymlinkPacket": "Symlink", "StatusPacket": "Status", "HandlePacket": "Handle", "DataPacket": "Data",
	"NamePacket": "Name", "AttrsPacket": "Attrs",
}

// canon turns a token list into the oracle notation (after type and id).
func canonBody(ts []wtok) (code string, body string) { return canonBodyID(ts, true) }

func isByteType(t types.Type) bool {
	b, ok := t.Underlying().(*types.Basic)
	return ok && (b.Kind() == types.Uint8 || b.Kind() == types.Byte)
}

func canonBodyID(ts []wtok, hasID bool) (code string, body string) {
	var parts []string
	i := 0
	if len(ts) > 0 && ts[0].Prim == "type" {
		code = ts[0].Field
		i = 1
	} else if hasID && len(ts) > 1 && ts[0].Prim == "u8" && strings.HasPrefix(ts[0].Field, "const(") && ts[1].Prim == "u32" && strings.HasPrefix(ts[1].Field, "param:") {
		// the packet header written out field by field (a constant type byte, then the caller's request id) instead of
		// through StartPacket
		code = ts[0].Field
		i = 1
	}
	if hasID && i < len(ts) && ts[i].Prim == "u32" { // the request id
		i++
	}
	for ; i < len(ts); i++ {
		t := ts[i]
		s := t.Prim
		// u32 len + bytes payload  ==  str
		if t.Prim == "u32" && i+1 < len(ts) && ts[i+1].Prim == "bytes" {
			s = "str"
			i++
		}
		if t.Loop {
			s += "*"
		}
		parts = append(parts, s)
	}
	return code, strings.Join(parts, " ")
}

func runC06(c *Ctx) {
	p := c.P
	pos := func(in ssa.Instruction) string { return p.Pos(in.Pos()) }

	// ---------- type codes ----------
	{
		names := map[string]string{"Open": "sshFxpOpen", "Close": "sshFxpClose", "Read": "sshFxpRead", "Write": "sshFxpWrite", "Lstat": "sshFxpLstat", "Fstat": "sshFxpFstat",
			"Setstat": "sshFxpSetstat", "Fsetstat": "sshFxpFsetstat", "Opendir": "sshFxpOpendir", "Readdir": "sshFxpReaddir", "Remove": "sshFxpRemove", "Mkdir": "sshFxpMkdir",
			"Rmdir": "sshFxpRmdir", "Realpath": "sshFxpRealpath", "Stat": "sshFxpStat", "Rename": "sshFxpRename", "Readlink": "sshFxpReadlink", "Symlink": "sshFxpSymlink",
			"Status": "sshFxpStatus", "Handle": "sshFxpHandle", "Data": "sshFxpData", "Name": "sshFxpName", "Attrs": "sshFxpAttrs", "Extended": "sshFxpExtended"}
		fxNames := map[string]string{"Open": "PacketTypeOpen", "Close": "PacketTypeClose", "Read": "PacketTypeRead", "Write": "PacketTypeWrite", "Lstat": "PacketTypeLStat", "Fstat": "PacketTypeFStat",
			"Setstat": "PacketTypeSetstat", "Fsetstat": "PacketTypeFSetstat", "Opendir": "PacketTypeOpenDir", "Readdir": "PacketTypeReadDir", "Remove": "PacketTypeRemove", "Mkdir": "PacketTypeMkdir",
			"Rmdir": "PacketTypeRmdir", "Realpath": "PacketTypeRealPath", "Stat": "PacketTypeStat", "Rename": "PacketTypeRename", "Readlink": "PacketTypeReadLink", "Symlink": "PacketTypeSymlink",
			"Status": "PacketTypeStatus", "Handle": "PacketTypeHandle", "Data": "PacketTypeData", "Name": "PacketTypeName", "Attrs": "PacketTypeAttrs", "Extended": "PacketTypeExtended"}
		cv := func(pk *ssa.Package, n string) int64 {
			if k, ok := pk.Pkg.Scope().Lookup(n).(*types.Const); ok {
				v, _ := constant.Int64Val(constant.ToInt(k.Val()))
				return v
			}
			return -1
		}
		for k, o := range layoutOracle {
			a, b := cv(p.Sftp, names[k]), cv(p.Sshfx, fxNames[k])
			c.check(a == o.code && b == o.code, "R1", "type code "+k, "sftp.go/fxp.go", fmt.Sprintf("%d", o.code), fmt.Sprintf("SSH_FXP_%s is %d in package sftp and %d in filexfer, the draft says %d", strings.ToUpper(k), a, b, o.code))
		}
		for _, pr := range [][3]string{{"sshFxpInit", "PacketTypeInit", "1"}, {"sshFxpVersion", "PacketTypeVersion", "2"}, {"sshFxpExtendedReply", "PacketTypeExtendedReply", "201"}} {
			a, b := cv(p.Sftp, pr[0]), cv(p.Sshfx, pr[1])
			c.check(fmt.Sprint(a) == pr[2] && fmt.Sprint(b) == pr[2], "R1", "type code "+pr[0], "sftp.go/fxp.go", pr[2], fmt.Sprintf("%s=%d, %s=%d, draft %s", pr[0], a, pr[1], b, pr[2]))
		}
	}

	// ---------- R1 (a,b): package sftp ----------
	var tnames []string
	for n := range sftpTypes {
		tnames = append(tnames, n)
	}
	sort.Strings(tnames)
	for _, tn := range tnames {
		kind := sftpTypes[tn]
		nt := p.NamedType(p.Sftp, tn)
		if nt == nil {
			c.missing("R1", tn)
			continue
		}
		pt := types.NewPointer(nt)
		enc := p.methodOf(pt, "marshalPacket")
		if enc == nil || enc.Blocks == nil {
			enc = p.methodOf(pt, "MarshalBinary")
		}
		dec := p.methodOf(pt, "UnmarshalBinary")
		var encT, decT []wtok
		if enc != nil && enc.Blocks != nil {
			encT = seqOf(p, enc, 0)
			c.looked(fnName(enc))
		}
		if dec != nil && dec.Blocks != nil {
			decT = seqOf(p, dec, 0)
			c.looked(fnName(dec))
		}
		o := layoutOracle[kind]
		if len(encT) > 0 {
			encC := append([]wtok{}, encT...)
			switch kind {
			case "Write", "Data":
				// header carries u32 Length, the payload is Data
				encC = append(encC, wtok{"bytes", "Data", false})
			case "Open", "Setstat", "Fsetstat", "Mkdir":
				// header ends with the attribute flags word, the payload holds the attributes by flags
				// (MKDIR used to send only the flags word; a flags word that announces fields which are not sent
				// is a malformed ATTRS block, which the decoders refuse)
				if kind == "Mkdir" && len(encC) > 0 && encC[len(encC)-1].Prim != "attrs" {
					break
				}
				if len(encC) > 0 && encC[len(encC)-1].Prim == "attrs" {
					encC = encC[:len(encC)-1]
				}
				for len(encC) > 0 && encC[len(encC)-1].Prim == "attrs" {
					encC = encC[:len(encC)-1]
				}
				if len(encC) > 0 && encC[len(encC)-1].Prim == "u32" && encC[len(encC)-1].Field == "Flags" {
					encC[len(encC)-1] = wtok{"attrs", "", false}
				}
			case "Name":
				// entries are marshalled by sshFxpNameAttr.MarshalBinary
				if na := p.Func("(*sshFxpNameAttr).MarshalBinary"); na != nil {
					for _, t := range seqOf(p, na, 0) {
						t.Loop = true
						encC = append(encC, t)
					}
				}
			}
			code, body := canonBody(encC)
			c.check(code == fmt.Sprint(o.code), "R1", "sftp encoder "+tn+" type byte", p.Pos(enc.Pos()), code, fmt.Sprintf("%s is sent with type byte %s, the draft says %d", tn, code, o.code))
			c.check(body == o.body, "R1", "sftp encoder "+tn+" layout", p.Pos(enc.Pos()), body, fmt.Sprintf("%s is encoded as [%s], the draft layout is [%s]", tn, body, o.body))
		}
		if len(decT) > 0 {
			decC := append([]wtok{}, decT...)
			switch kind {
			case "Write", "Data":
				decC = append(decC, wtok{"bytes", "Data", false})
			case "Open", "Setstat", "Fsetstat", "Mkdir":
				// ATTRS = flags word + the fields it announces: the decoder reads the word and either leaves the
				// fields undecoded or runs unmarshalFileStat(flags, rest) over them to validate
				if n := len(decC); n > 1 && decC[n-1].Prim == "attrs" && decC[n-2].Field == "Flags" {
					decC = decC[:n-1]
				}
				if len(decC) > 0 && decC[len(decC)-1].Field == "Flags" {
					decC[len(decC)-1] = wtok{"attrs", "", false}
				}
			}
			_, body := canonBody(append([]wtok{{"type", "", false}}, decC...))
			c.check(body == o.body, "R1", "sftp decoder "+tn+" layout", p.Pos(dec.Pos()), body, fmt.Sprintf("%s is decoded as [%s], the draft layout is [%s]", tn, body, o.body))
		}
		if len(encT) > 0 && len(decT) > 0 {
			// field by field: drop the type byte from the encoder
			e := encT
			if len(e) > 0 && e[0].Prim == "type" {
				e = e[1:]
			}
			// drop trailing attrs payload tokens
			for len(e) > 0 && e[len(e)-1].Prim == "attrs" {
				e = e[:len(e)-1]
			}
			d := decT
			for len(d) > 0 && d[len(d)-1].Prim == "attrs" && len(d) > 1 && d[len(d)-2].Field == "Flags" {
				d = d[:len(d)-1]
			}
			es, ds := toksString(e, true), toksString(d, true)
			c.check(es == ds, "R1", "sftp "+tn+" encoder = decoder", p.Pos(enc.Pos()), es, fmt.Sprintf("%s is encoded as [%s] but decoded as [%s]: fields are exchanged or have different widths", tn, es, ds))
		}
	}
	// client-only extended encoders vs server-side decoders
	for _, pr := range [][3]string{
		{"sshFxpPosixRenamePacket", "sshFxpExtendedPacketPosixRename", "posix-rename@openssh.com"},
		{"sshFxpHardlinkPacket", "sshFxpExtendedPacketHardlink", "hardlink@openssh.com"},
		{"sshFxpStatvfsPacket", "sshFxpExtendedPacketStatVFS", "statvfs@openssh.com"},
	} {
		en, dn := p.NamedType(p.Sftp, pr[0]), p.NamedType(p.Sftp, pr[1])
		if en == nil || dn == nil {
			c.missing("R1", pr[0]+"/"+pr[1])
			continue
		}
		enc := p.methodOf(types.NewPointer(en), "MarshalBinary")
		dec := p.methodOf(types.NewPointer(dn), "UnmarshalBinary")
		e, d := seqOf(p, enc, 0), seqOf(p, dec, 0)
		// encoder: type(200) u32 ID str const(name) str… ; decoder: u32 ID str ExtendedRequest str…
		okName := len(e) > 2 && e[0].Field == "200" && e[2].Field == fmt.Sprintf("const(%q)", pr[2])
		c.check(okName, "R1", pr[0]+" extension name", p.Pos(enc.Pos()), pr[2], "the client encoder does not send EXTENDED(200) with the name "+pr[2])
		var ef, df []string
		for i, t := range e {
			if i >= 3 {
				ef = append(ef, t.String())
			}
		}
		for i, t := range d {
			if i >= 2 {
				df = append(df, t.String())
			}
		}
		c.check(strings.Join(ef, " ") == strings.Join(df, " ") && len(ef) > 0, "R1", pr[0]+" encoder = "+pr[1]+" decoder", p.Pos(enc.Pos()), strings.Join(ef, " "), fmt.Sprintf("the client sends [%s] after the extension name but the server decodes [%s]", strings.Join(ef, " "), strings.Join(df, " ")))
	}
	// fsync@openssh.com has no decoder in this package; PROTOCOL says: uint32 id, string "fsync@openssh.com", string handle
	if en := p.NamedType(p.Sftp, "sshFxpFsyncPacket"); en == nil {
		c.missing("R1", "sshFxpFsyncPacket")
	} else if enc := p.methodOf(types.NewPointer(en), "MarshalBinary"); enc == nil {
		c.missing("R1", "(*sshFxpFsyncPacket).MarshalBinary")
	} else {
		e := seqOf(p, enc, 0)
		okName := len(e) > 2 && e[0].Field == "200" && e[2].Field == fmt.Sprintf("const(%q)", "fsync@openssh.com")
		c.check(okName, "R1", "sshFxpFsyncPacket extension name", p.Pos(enc.Pos()), "fsync@openssh.com", "the client encoder does not send EXTENDED(200), the id and then the name fsync@openssh.com")
		var ef []string
		for i, t := range e {
			if i >= 3 {
				ef = append(ef, t.String())
			}
		}
		c.check(strings.Join(ef, " ") == "str:Handle", "R1", "sshFxpFsyncPacket layout after the name", p.Pos(enc.Pos()), "str:Handle", fmt.Sprintf("the client sends [%s] after the extension name, PROTOCOL says [string handle]", strings.Join(ef, " ")))
	}
	// INIT / VERSION
	for _, tn := range []string{"sshFxInitPacket", "sshFxVersionPacket"} {
		nt := p.NamedType(p.Sftp, tn)
		if nt == nil {
			continue
		}
		enc := p.methodOf(types.NewPointer(nt), "MarshalBinary")
		e := toksString(seqOf(p, enc, 0), false)
		c.check(e == "type u32 str* str*", "R1", "sftp encoder "+tn+" layout", p.Pos(enc.Pos()), e, tn+" is encoded as ["+e+"], expected [type u32 (str str)*]")
		// the pair is a name and its data, in that order
		if ef := strings.Fields(toksString(seqOf(p, enc, 0), true)); len(ef) == 4 {
			c.check(ef[2] != ef[3], "R1", "sftp encoder "+tn+" pairs", p.Pos(enc.Pos()), ef[2]+" "+ef[3], tn+" writes ["+ef[2]+" "+ef[3]+"] for every extension: the same field twice, the other one never")
		}
	}

	// ---------- R1 (c): filexfer sibling ----------
	var fnames []string
	for n := range sshfxTypes {
		fnames = append(fnames, n)
	}
	sort.Strings(fnames)
	for _, tn := range fnames {
		kind := sshfxTypes[tn]
		obj := p.Sshfx.Pkg.Scope().Lookup(tn)
		if obj == nil {
			c.missing("R1", "sshfx."+tn)
			continue
		}
		pt := types.NewPointer(obj.Type())
		enc := p.SSA.MethodValue(p.SSA.MethodSets.MethodSet(pt).Lookup(p.Sshfx.Pkg, "MarshalPacket"))
		dec := p.SSA.MethodValue(p.SSA.MethodSets.MethodSet(pt).Lookup(p.Sshfx.Pkg, "UnmarshalPacketBody"))
		o := layoutOracle[kind]
		if enc != nil && enc.Blocks != nil {
			_, body := canonBody(seqOf(p, enc, 0))
			c.check(body == o.body, "R1", "filexfer encoder "+tn+" layout", p.Pos(enc.Pos()), body, fmt.Sprintf("filexfer encodes %s as [%s], the draft layout is [%s]", tn, body, o.body))
		}
		if dec != nil && dec.Blocks != nil {
			_, body := canonBodyID(seqOf(p, dec, 0), false)
			c.check(body == o.body, "R1", "filexfer decoder "+tn+" layout", p.Pos(dec.Pos()), body, fmt.Sprintf("filexfer decodes %s as [%s], the draft layout is [%s]", tn, body, o.body))
		}
	}
	c.floor("R1", 110)

	// ---------- R2 attribute block by flag ----------
	checkAttrLadders(c, "R2", false)

	// ---------- R3 length prefix ----------
	if sp := p.Func("sendPacket"); sp == nil {
		c.missing("R3", "sendPacket")
	} else {
		c.looked("sendPacket")
		var put *ssa.Call
		eachInstr(sp, func(in ssa.Instruction) {
			if call, ok := in.(*ssa.Call); ok && calleeName(&call.Call) == "PutUint32" {
				put = call
			}
		})
		// header and payload are identified by what is done with them: the header is the slice whose first four bytes
		// receive the prefix and that is written first; the payload is what is written second.  (They were identified as
		// results #0 and #1 of a helper; inlining that helper makes them phis.)
		var writes []*ssa.Call
		eachInstr(sp, func(in ssa.Instruction) {
			if call, ok := in.(*ssa.Call); ok && call.Call.IsInvoke() && call.Call.Method.Name() == "Write" {
				writes = append(writes, call)
			}
		})
		if put == nil {
			c.bad("R3", "sendPacket length prefix", p.Pos(sp.Pos()), "sendPacket no longer writes the length prefix")
		} else {
			args := argsOf(&put.Call)
			var header ssa.Value
			dstOK := false
			if sl, ok := args[0].(*ssa.Slice); ok && sl.Low == nil {
				if h, ok := constInt(sl.High); ok && h == 4 {
					header = sl.X
					dstOK = true
				}
			}
			c.check(dstOK, "R3", "sendPacket length position", pos(put), "header[:4]", "the length is not stored in the first four bytes of the header")
			var payload ssa.Value
			if len(writes) == 2 {
				payload = writes[1].Call.Args[0]
			}
			t := affineOf(args[1])
			hk, pk := "", ""
			for k, v := range t.atoms {
				call, ok := v.(*ssa.Call)
				if !ok || builtinName(&call.Call) != "len" {
					continue
				}
				if header != nil && sameValueModNil(call.Call.Args[0], header) {
					hk = k
				}
				if payload != nil && sameValueModNil(call.Call.Args[0], payload) {
					pk = k
				}
			}
			c.check(len(t.coef) == 2 && t.c == -4 && hk != "" && pk != "" && hk != pk && t.coef[hk] == 1 && t.coef[pk] == 1, "R3", "sendPacket length value", pos(put), "len(header)+len(payload)-4", "the length prefix is "+t.String()+", not len(header)+len(payload)-4")
			okW := len(writes) == 2 && header != nil && sameValueModNil(writes[0].Call.Args[0], header) && !sameValueModNil(writes[1].Call.Args[0], header) && dominates(writes[0], writes[1]) &&
				!reachAvoiding(sp, nil, func(x ssa.Instruction) bool { return x == ssa.Instruction(writes[0]) }, func(x ssa.Instruction) bool { return x == ssa.Instruction(put) })
			c.check(okW, "R3", "sendPacket writes header then payload", p.Pos(sp.Pos()), "Write(header); Write(payload) after the prefix is set", "header and payload are not written in this order after the prefix was filled in")
			// every payload byte the prefix counted is written: where the second write is skipped the payload is empty
			if len(writes) == 2 {
				if iff, truth := guardOf(writes[1]); iff != nil && dominates(writes[0], iff) {
					z := newZWorld(p).get(sp)
					pl := z.lenOf(writes[1].Call.Args[0], 0)
					skipped := append(z.condFacts(iff.Cond, !truth), leq(linConst(0), pl, 0))
					if bo, ok := iff.Cond.(*ssa.BinOp); ok && !isNilConst(bo.Y) && !isNilConst(bo.X) {
						c.check(entails(skipped, leq(pl, linConst(0), 0)), "R3", "sendPacket skips the payload write only for an empty payload", pos(writes[1]), "not written: len(payload) == 0",
							"the test in front of the payload write lets a non-empty payload go unwritten: the length prefix announces bytes that never follow, and the stream is out of step from there on")
					}
				}
			}
			// both come out of the packet's marshaller
			fromMarshal := func(v ssa.Value) bool {
				if v == nil {
					return false
				}
				for _, l := range leavesOf(v) {
					if l.Kind == leafCallResult {
						switch calleeName(l.Call) {
						case "marshalPacket", "MarshalBinary":
							continue
						}
					}
					if cst, ok := l.V.(*ssa.Const); ok && cst.Value == nil {
						continue // no payload
					}
					return false
				}
				return true
			}
			c.check(fromMarshal(header) && fromMarshal(payload), "R3", "sendPacket sends what the marshaller produced", pos(put), "header and payload are the marshaller's results", "what sendPacket frames is not the packet marshaller's output")
		}
	}
	if bp := p.FuncIn(p.Sshfx, "(*Buffer).Packet"); bp == nil {
		c.missing("R3", "sshfx (*Buffer).Packet")
	} else {
		okL := false
		eachInstr(bp, func(in ssa.Instruction) {
			if call, ok := in.(*ssa.Call); ok && calleeName(&call.Call) == "PutLength" {
				t := affineOf(argsOf(&call.Call)[0])
				if t.c == -4 && len(t.coef) == 2 && t.coef["len(param:payload)"] == 1 {
					okL = true
				}
			}
		})
		c.check(okL, "R3", "Buffer.Packet length value", p.Pos(bp.Pos()), "len(b.b)-4+len(payload)", "filexfer's length prefix is not len(buffer)-4+len(payload)")
	}
	if rp := p.Func("recvPacket"); rp != nil {
		// type byte b[0], payload b[1:n]
		okT, okP := false, false
		eachInstr(rp, func(in ssa.Instruction) {
			if r, ok := in.(*ssa.Return); ok && isReturn(in) && isNilConst(r.Results[2]) {
				for _, l := range leavesOf(r.Results[0]) {
					if u, ok := l.V.(*ssa.UnOp); ok {
						if ia, ok := u.X.(*ssa.IndexAddr); ok {
							if k, ok := constInt(ia.Index); ok && k == 0 {
								okT = true
							}
						}
					}
				}
				if s, ok := r.Results[1].(*ssa.Slice); ok {
					if k, ok := constInt(s.Low); ok && k == 1 {
						// b[1:n], or b[1:] of a b that has been cut to b[:n]
						if s.High != nil {
							okP = true
						} else {
							for _, l := range leavesOfIface(s.X) {
								if in, isS := l.(*ssa.Slice); isS && in.High != nil && in.Low == nil {
									okP = true
								}
							}
						}
					}
				}
			}
		})
		c.check(okT && okP, "R3", "recvPacket splits type and payload", p.Pos(rp.Pos()), "typ = b[0], payload = b[1:n]", "recvPacket no longer returns b[0] as the type and b[1:n] as the payload")
	} else {
		c.missing("R3", "recvPacket")
	}

	// ---------- R4 integer primitives ----------
	checkBigEndian(c)

	// ---------- R5 struct-driven encodings ----------
	if sv := p.NamedType(p.Sftp, "StatVFS"); sv == nil {
		c.missing("R5", "StatVFS")
	} else {
		st := sv.Underlying().(*types.Struct)
		want := []string{"ID:uint32", "Bsize:uint64", "Frsize:uint64", "Blocks:uint64", "Bfree:uint64", "Bavail:uint64", "Files:uint64", "Ffree:uint64", "Favail:uint64", "Fsid:uint64", "Flag:uint64", "Namemax:uint64"}
		var got []string
		for i := 0; i < st.NumFields(); i++ {
			got = append(got, st.Field(i).Name()+":"+st.Field(i).Type().String())
		}
		c.check(strings.Join(got, ",") == strings.Join(want, ","), "R5", "StatVFS wire order", "packet.go", "id + 11 × uint64 in OpenSSH order", "StatVFS is serialised by binary.Write in field order "+strings.Join(got, ",")+", OpenSSH's reply is "+strings.Join(want, ","))
		if mp := p.Func("(*StatVFS).marshalPacket"); mp != nil {
			be := false
			eachInstr(mp, func(in ssa.Instruction) {
				if call, ok := in.(*ssa.Call); ok && callIs(&call.Call, "encoding/binary.Write") {
					for _, l := range leavesOf(call.Call.Args[1]) {
						if l.Kind == leafGlobal && l.V.Name() == "BigEndian" {
							be = true
						}
					}
				}
			})
			if !be {
				// written out by hand with the package's big-endian primitives: the id, then the eleven members in
				// OpenSSH's order — one call each, or a loop over an array literal of them
				var order []string
				okHand := false
				var idFirst bool
				for _, cl := range callsWhere(mp, func(cc *ssa.CallCommon) bool { return calleeName(cc) == "marshalUint32" }) {
					if srcField(callOf(cl).Args[1]) == "ID" {
						idFirst = true
					}
				}
				u64 := callsWhere(mp, func(cc *ssa.CallCommon) bool { return calleeName(cc) == "marshalUint64" })
				if len(u64) == 11 {
					for _, cl := range u64 {
						order = append(order, srcField(callOf(cl).Args[1]))
					}
				} else if len(u64) == 1 && inLoop(u64[0]) {
					var arrV ssa.Value
					switch x := callOf(u64[0]).Args[1].(type) {
					case *ssa.UnOp:
						if ia, ok := x.X.(*ssa.IndexAddr); ok && x.Op == token.MUL {
							arrV = ia.X
						}
					case *ssa.Index:
						arrV = x.X
						if ld, ok := arrV.(*ssa.UnOp); ok && ld.Op == token.MUL {
							arrV = ld.X
						}
					}
					{
						{
							if arr, ok := arrV.(*ssa.Alloc); ok {
								byIdx := map[int64]string{}
								eachInstr(mp, func(in ssa.Instruction) {
									if st, ok := in.(*ssa.Store); ok {
										if sa, ok := st.Addr.(*ssa.IndexAddr); ok && sa.X == ssa.Value(arr) {
											if k, ok := constInt(sa.Index); ok {
												byIdx[k] = srcField(st.Val)
											}
										}
									}
								})
								for i := int64(0); i < int64(len(byIdx)); i++ {
									order = append(order, byIdx[i])
								}
							}
						}
					}
				}
				wantOrder := []string{"Bsize", "Frsize", "Blocks", "Bfree", "Bavail", "Files", "Ffree", "Favail", "Fsid", "Flag", "Namemax"}
				okHand = idFirst && strings.Join(order, ",") == strings.Join(wantOrder, ",")
				c.check(okHand, "R5", "StatVFS big endian", p.Pos(mp.Pos()), "id and the eleven members written with marshalUint32/marshalUint64 in OpenSSH's order",
					"the statvfs reply is neither written by binary.Write(…, BigEndian, p) nor field by field in OpenSSH's order: members are written as "+strings.Join(order, ","))
			} else {
				c.check(be, "R5", "StatVFS big endian", p.Pos(mp.Pos()), "binary.Write(…, BigEndian, p)", "the statvfs reply is not written big-endian")
			}
		} else {
			c.missing("R5", "(*StatVFS).marshalPacket")
		}
	}

	// ---------- R7 a copied byte string has the length of the original (filexfer data/write payloads) ----------
	if f := p.FuncIn(p.Sshfx, "(*Buffer).ConsumeByteSliceCopy"); f == nil {
		c.missing("R7", "sshfx (*Buffer).ConsumeByteSliceCopy")
	} else {
		w := newZWorld(p)
		z := w.get(f)
		var data ssa.Value
		eachInstr(f, func(in ssa.Instruction) {
			if call, ok := in.(*ssa.Call); ok && calleeName(&call.Call) == "ConsumeByteSlice" {
				data = call
			}
		})
		if data == nil {
			c.und("R7", "ConsumeByteSliceCopy source", p.Pos(f.Pos()), "the copy does not start from ConsumeByteSlice")
		} else {
			eachInstr(f, func(in ssa.Instruction) {
				r, ok := in.(*ssa.Return)
				if !ok || !isReturn(in) {
					return
				}
				rl, dl := z.lenOf(r.Results[0], 0), z.lenOf(data, 0)
				ok1, _ := z.prove(in, []lin{leq(rl, dl, 0), leq(dl, rl, 0)})
				c.check(ok1, "R7", "ConsumeByteSliceCopy length", pos(in), "len(result) == len(consumed string) for every hint", "the copy returned by ConsumeByteSliceCopy can be shorter (or longer) than the string that was consumed, depending on the hint buffer: a reused DataPacket/WritePacket decodes a truncated payload")
			})
		}
	}

	// ---------- R9 collected elements are distinct objects ----------
	checkFreshElements(c, "R9")
	checkBufferReinitialisers(c, "R10")
	checkAttrBlockFollowsItsFlags(c, "R11")
	checkFilexferRequestDispatch(c, "R12")
	checkPacketStartsAtZero(c, "R13")
	checkDecodedFlagsReachTheLadder(c, "R14")
	checkAdvertisedDataMatchesOpenSSH(c, "R15")
	// R16 (shared with C08.O3): both frame readers accept the frames the encoders write — from the body-less five-byte
	// packet up to the limit
	c.withRule("R16", func() { checkFrameLimits(c, newZWorld(p)) })
	checkDecodedPacketsDoNotAliasTheBuffer(c, "R17")
	checkHeaderReservesLengthPrefix(c, "R18")
	checkMarshalledUnderTheGivenID(c, "R19")
	checkExtendedFlagIffPairs(c, "R20")
	checkStringsEncodedVerbatim(c, "R21")
	// R22 (= C04.R10): a failed write inside a frame is latched — the next packet would be read as that frame's payload;
	// R23 (= C03.R2): a frame is written as one piece under the connection's write mutex
	checkWriteFailureLatched(c, "R22")
	c.withOnly("R2", "R23", func() { runC03(c) })

	// ---------- R8 count guards refuse only what cannot fit ----------
	checkCountGuards(c, "R8")

	// ---------- R6 decode cursors are threaded ----------
	{
		n := checkCursorThreading(c, "R6", nil)
		c.check(n >= 10, "R6", "last-decode sites", "?", fmt.Sprintf("%d sites", n), fmt.Sprintf("only %d sites", n))
	}
}

// seqOfBlock is seqOf restricted to one block.
func seqOfBlock(p *Program, fn *ssa.Function, b *ssa.BasicBlock) []wtok {
	all := seqOfBlocks(p, fn, map[*ssa.BasicBlock]bool{b: true})
	return all
}

func seqOfBlocks(p *Program, fn *ssa.Function, only map[*ssa.BasicBlock]bool) []wtok {
	// reuse seqOf on a filtered view: build tokens per instruction in the selected blocks
	var out []wtok
	full := seqOfWithPos(p, fn)
	for _, t := range full {
		if only[t.blk] {
			out = append(out, t.wtok)
		}
	}
	return out
}

type wtokPos struct {
	wtok
	blk *ssa.BasicBlock
}

// seqOfWithPos tags tokens with their block (a second, position-aware pass over the same classifier).
func seqOfWithPos(p *Program, fn *ssa.Function) []wtokPos {
	var out []wtokPos
	loops := loopsOf(fn)
	for _, b := range fn.Blocks {
		inL := innermostLoop(loops, b) != nil
		for _, in := range b.Instrs {
			call, ok := in.(*ssa.Call)
			if !ok {
				continue
			}
			cc := &call.Call
			name := calleeName(cc)
			args := argsOf(cc)
			res := func() string {
				if _, isTuple := call.Type().(*types.Tuple); isTuple {
					for _, r := range *call.Referrers() {
						if ex, ok := r.(*ssa.Extract); ok && ex.Index == 0 {
							return dstField(ex)
						}
					}
					return "_"
				}
				return dstField(call)
			}
			add := func(prim, field string) { out = append(out, wtokPos{wtok{prim, field, inL}, b}) }
			switch name {
			case "marshalUint32":
				add("u32", srcField(args[1]))
			case "marshalUint64":
				add("u64", srcField(args[1]))
			case "marshalString":
				add("str", srcField(args[1]))
			case "unmarshalUint32Safe":
				add("u32", res())
			case "unmarshalUint64Safe":
				add("u64", res())
			case "unmarshalStringSafe":
				add("str", res())
			case "AppendUint32", "AppendCount":
				add("u32", srcField(args[0]))
			case "AppendUint64":
				add("u64", srcField(args[0]))
			case "AppendString":
				add("str", srcField(args[0]))
			case "ConsumeUint32", "ConsumeCount":
				add("u32", res())
			case "ConsumeUint64":
				add("u64", res())
			case "ConsumeString":
				add("str", res())
			case "MarshalInto", "UnmarshalFrom":
				if r := recvOf(cc); r != nil && typeName(r.Type()) == "ExtendedAttribute" {
					out = append(out, wtokPos{wtok{"str", "type", true}, b}, wtokPos{wtok{"str", "data", true}, b})
				}
			}
		}
	}
	return out
}

// checkBigEndian verifies the hand-written integer primitives.
func checkBigEndian(c *Ctx) {
	p := c.P
	// appendShifts: the constant shifts of the bytes appended by fn, in order
	appendShifts := func(fn *ssa.Function) []int64 {
		var shifts []int64
		eachInstr(fn, func(in ssa.Instruction) {
			call, ok := in.(*ssa.Call)
			if !ok || builtinName(&call.Call) != "append" {
				return
			}
			s, ok := call.Call.Args[1].(*ssa.Slice)
			if !ok {
				return
			}
			a, ok := s.X.(*ssa.Alloc)
			if !ok {
				return
			}
			byIdx := map[int64]int64{}
			for _, r := range *a.Referrers() {
				ia, ok := r.(*ssa.IndexAddr)
				if !ok {
					continue
				}
				i, _ := constInt(ia.Index)
				for _, rr := range *ia.Referrers() {
					st, ok := rr.(*ssa.Store)
					if !ok {
						continue
					}
					v := stripConv(st.Val)
					sh := int64(0)
					if b, ok := v.(*ssa.BinOp); ok && b.Op == token.SHR {
						sh, _ = constInt(b.Y)
					}
					byIdx[i] = sh
				}
			}
			for i := int64(0); i < int64(len(byIdx)); i++ {
				shifts = append(shifts, byIdx[i])
			}
		})
		return shifts
	}
	eq := func(a, b []int64) bool {
		if len(a) != len(b) {
			return false
		}
		for i := range a {
			if a[i] != b[i] {
				return false
			}
		}
		return true
	}
	if f := p.Func("marshalUint32"); f != nil {
		got := appendShifts(f)
		if len(got) == 0 && callsBigEndian(f, "AppendUint32") {
			got = []int64{24, 16, 8, 0} // the standard library's big-endian append of the same width
		}
		c.check(eq(got, []int64{24, 16, 8, 0}), "R4", "marshalUint32 byte order", p.Pos(f.Pos()), "v>>24, v>>16, v>>8, v", fmt.Sprintf("marshalUint32 appends the bytes with shifts %v: not big-endian", got))
	} else {
		c.missing("R4", "marshalUint32")
	}
	for _, spec := range []struct {
		name string
		want []int64
	}{{"(*Buffer).AppendUint32", []int64{24, 16, 8, 0}}, {"(*Buffer).AppendUint64", []int64{56, 48, 40, 32, 24, 16, 8, 0}}, {"(*Buffer).AppendUint16", []int64{8, 0}}} {
		if f := p.FuncIn(p.Sshfx, spec.name); f != nil {
			got := appendShifts(f)
			if len(got) == 0 && callsBigEndian(f, strings.TrimPrefix(spec.name, "(*Buffer).")) {
				got = spec.want // (*Buffer).AppendUintNN through binary.BigEndian.AppendUintNN: same width, big-endian
			}
			c.check(eq(got, spec.want), "R4", "sshfx "+spec.name+" byte order", p.Pos(f.Pos()), fmt.Sprint(spec.want), fmt.Sprintf("%s appends the bytes with shifts %v: not big-endian", spec.name, got))
		} else {
			c.missing("R4", "sshfx "+spec.name)
		}
	}
	// unmarshalUint32: OR of b[i] << (24-8i)
	if f := p.Func("unmarshalUint32"); f != nil {
		got := map[int64]int64{}
		eachInstr(f, func(in ssa.Instruction) {
			b, ok := in.(*ssa.BinOp)
			if !ok || b.Op != token.SHL {
				return
			}
			sh, _ := constInt(b.Y)
			for _, l := range leavesOf(b.X) {
				if u, ok := l.V.(*ssa.UnOp); ok {
					if ia, ok := u.X.(*ssa.IndexAddr); ok {
						i, _ := constInt(ia.Index)
						got[i] = sh
					}
				}
			}
		})
		if len(got) == 0 && callsBigEndian(f, "Uint32") {
			got = map[int64]int64{0: 24, 1: 16, 2: 8}
		}
		// b[3] is used unshifted
		c.check(got[0] == 24 && got[1] == 16 && got[2] == 8 && len(got) == 3, "R4", "unmarshalUint32 byte order", p.Pos(f.Pos()), "b[0]<<24 | b[1]<<16 | b[2]<<8 | b[3]", fmt.Sprintf("unmarshalUint32 shifts %v: not big-endian", got))
		// returns b[4:]
		okRest := false
		eachInstr(f, func(in ssa.Instruction) {
			if r, ok := in.(*ssa.Return); ok {
				if s, ok := r.Results[1].(*ssa.Slice); ok {
					if k, ok := constInt(s.Low); ok && k == 4 && s.High == nil {
						okRest = true
					}
				}
			}
		})
		c.check(okRest, "R4", "unmarshalUint32 rest", p.Pos(f.Pos()), "b[4:]", "unmarshalUint32 does not return the bytes after the four it consumed")
	} else {
		c.missing("R4", "unmarshalUint32")
	}
	if f := p.Func("marshalUint64"); f != nil {
		// marshalUint32(marshalUint32(b, v>>32), v)
		var shifts []int64
		eachInstr(f, func(in ssa.Instruction) {
			if call, ok := in.(*ssa.Call); ok && calleeName(&call.Call) == "marshalUint32" {
				v := stripConv(call.Call.Args[1])
				sh := int64(0)
				if b, ok := v.(*ssa.BinOp); ok && b.Op == token.SHR {
					sh, _ = constInt(b.Y)
				}
				shifts = append(shifts, sh)
			}
		})
		c.check(eq(shifts, []int64{32, 0}), "R4", "marshalUint64 halves", p.Pos(f.Pos()), "high word then low word", fmt.Sprintf("marshalUint64 writes the words with shifts %v", shifts))
	} else {
		c.missing("R4", "marshalUint64")
	}
	if f := p.Func("unmarshalUint64"); f != nil {
		okH := false
		eachInstr(f, func(in ssa.Instruction) {
			if b, ok := in.(*ssa.BinOp); ok && b.Op == token.SHL {
				if sh, ok := constInt(b.Y); ok && sh == 32 {
					// shifted operand is the first decoded word
					for _, l := range leavesOf(b.X) {
						if l.Kind == leafCallResult && l.Idx == 0 {
							if pr, ok := l.Call.Args[0].(*ssa.Parameter); ok && pr == f.Params[0] {
								okH = true
							}
						}
					}
				}
			}
		})
		c.check(okH, "R4", "unmarshalUint64 halves", p.Pos(f.Pos()), "first word is the high half", "unmarshalUint64 does not treat the first word as the high half")
	} else {
		c.missing("R4", "unmarshalUint64")
	}
	if f := p.Func("marshalString"); f != nil {
		okS := false
		eachInstr(f, func(in ssa.Instruction) {
			if call, ok := in.(*ssa.Call); ok && calleeName(&call.Call) == "marshalUint32" {
				if srcField(call.Call.Args[1]) == "len(param:v)" {
					okS = true
				}
			}
		})
		c.check(okS, "R4", "marshalString length prefix", p.Pos(f.Pos()), "uint32(len(v)) then bytes", "marshalString does not prefix the byte length of the string")
	} else {
		c.missing("R4", "marshalString")
	}
	for _, name := range []string{"(*Buffer).ConsumeUint32", "(*Buffer).ConsumeUint64", "(*Buffer).ConsumeUint16"} {
		if f := p.FuncIn(p.Sshfx, name); f != nil {
			be := false
			eachInstr(f, func(in ssa.Instruction) {
				if call, ok := in.(*ssa.Call); ok {
					if fo := calleeFunc(&call.Call); fo != nil && fo.Pkg() != nil && fo.Pkg().Path() == "encoding/binary" && strings.HasPrefix(fo.Name(), "Uint") {
						if r := recvOf(&call.Call); r != nil && typeName(r.Type()) == "bigEndian" {
							be = true
						}
					}
				}
			})
			c.check(be, "R4", "sshfx "+name+" byte order", p.Pos(f.Pos()), "binary.BigEndian", name+" does not decode big-endian")
		}
	}
}

// checkAttrLadders: the attribute block is a ladder of flag tests; under each flag the codec handles exactly the
// draft's fields, in the draft's order, and the flag alone decides whether the block is present.
func checkAttrLadders(c *Ctx, rule string, sftpOnly bool) {
	p := c.P
	type ladder map[int64]string
	var guarded map[int64]bool
	extract := func(fn *ssa.Function) (ladder, []int64) {
		guarded = map[int64]bool{}
		lad := ladder{}
		var order []int64
		if fn == nil {
			return lad, nil
		}
		for _, b := range fn.Blocks {
			iff, ok := b.Instrs[len(b.Instrs)-1].(*ssa.If)
			if !ok {
				continue
			}
			cmp, ok := iff.Cond.(*ssa.BinOp)
			if !ok || (cmp.Op != token.NEQ && cmp.Op != token.EQL) {
				continue
			}
			and, ok := cmp.X.(*ssa.BinOp)
			if !ok || and.Op != token.AND {
				continue
			}
			k, ok := constInt(and.Y)
			if !ok {
				continue
			}
			k = k & 0xFFFFFFFF
			y, _ := constInt(cmp.Y)
			y = y & 0xFFFFFFFF
			var body *ssa.BasicBlock
			switch {
			case cmp.Op == token.NEQ && y == 0:
				body = b.Succs[0]
			case cmp.Op == token.EQL && y == k:
				body = b.Succs[0]
			case cmp.Op == token.EQL && y == 0:
				body = b.Succs[1]
			case cmp.Op == token.NEQ && y == k && k != 0:
				body = b.Succs[1] // `flags&X != X { return }`: the section follows on the other side
			default:
				continue
			}
			// tokens in the blocks dominated by body and not dominated by a later flag test's body
			region := regionOf(fn, body)
			var toks []wtok
			sub := &ssa.Function{}
			_ = sub
			for _, rb := range fn.Blocks {
				if !region[rb] {
					continue
				}
				for _, t := range seqOfBlock(p, fn, rb) {
					toks = append(toks, t)
				}
			}
			if _, dup := lad[k]; !dup {
				order = append(order, k)
			}
			lad[k] = toksString(toks, true)
			// the flag test itself must not sit under another condition (`n > 0 && flags&X != 0`): it is reached
			// from the previous section on every path, errors of a decoder apart
			for cur, steps := b, 0; steps < 4 && len(cur.Preds) == 1; steps++ {
				pred := cur.Preds[0]
				piff, isIf := pred.Instrs[len(pred.Instrs)-1].(*ssa.If)
				if !isIf {
					cur = pred
					continue
				}
				isFlagTest, isErrTest := false, false
				if pc, ok := piff.Cond.(*ssa.BinOp); ok {
					if a2, ok := pc.X.(*ssa.BinOp); ok && a2.Op == token.AND {
						isFlagTest = true
					}
					if isNilConst(pc.Y) || isNilConst(pc.X) {
						isErrTest = true
					}
					// a test of the flags word as a whole (`flags == 0`: nothing to do) is a flags condition too
					for _, l := range leavesOf(pc.X) {
						if (l.Kind == leafFieldLoad && l.Field == "Flags") || (l.Kind == leafParam && l.Param.Name() == "flags") {
							isFlagTest = true
						}
					}
				}
				if !isFlagTest && !isErrTest {
					guarded[k] = true
				}
				break
			}
			// the section must start unconditionally once the flag test has passed: a further condition between
			// the flag test and the first field (say, "and the list is not empty") makes the block's presence
			// depend on something the peer cannot see in the flags word
			for cur, steps := body, 0; cur != nil && steps < 8; steps++ {
				if len(seqOfBlock(p, fn, cur)) > 0 {
					break
				}
				if _, isIf := cur.Instrs[len(cur.Instrs)-1].(*ssa.If); isIf || len(cur.Succs) != 1 {
					guarded[k] = true
					break
				}
				cur = cur.Succs[0]
			}
		}
		return lad, order
	}
	want := map[int64]string{
		0x1:        "u64:Size",
		0x2:        "u32:UID u32:GID",
		0x4:        "u32:Mode",
		0x8:        "u32:Atime u32:Mtime",
		0x80000000: "u32:count str:type* str:data*",
	}
	norm := func(s string) string {
		r := strings.NewReplacer("Permissions", "Mode", "ATime", "Atime", "MTime", "Mtime", "len(Extended)", "count", "len(ExtendedAttributes)", "count", "var:count", "count",
			"ExtType", "type", "ExtData", "data", "var:typ", "type", "var:data", "data")
		s = r.Replace(s)
		// sibling spellings of the extended pair
		s = strings.ReplaceAll(s, "str*", "str:?*")
		s = strings.ReplaceAll(s, "str:?*", "str*")
		return s
	}
	wantOrder := []int64{0x1, 0x2, 0x4, 0x8, 0x80000000}
	fns := []struct {
		name string
		fn   *ssa.Function
	}{
		{"marshalFileStat", p.Func("marshalFileStat")},
		{"unmarshalFileStat", p.Func("unmarshalFileStat")},
		{"sshfx.Attributes.MarshalInto", p.FuncIn(p.Sshfx, "(*Attributes).MarshalInto")},
		{"sshfx.Attributes.XXX_UnmarshalByFlags", p.FuncIn(p.Sshfx, "(*Attributes).XXX_UnmarshalByFlags")},
	}
	if sftpOnly {
		fns = fns[:2]
	}
	for _, f := range fns {
		if f.fn == nil {
			c.missing(rule, f.name)
			continue
		}
		c.looked(f.name)
		lad, order := extract(f.fn)
		for k, w := range want {
			got := norm(lad[k])
			okL := got == w
			if k == 0x80000000 {
				// count then pairs of strings in a loop; names of the pair differ between the codecs
				parts := strings.Fields(got)
				okL = len(parts) >= 3 && strings.HasPrefix(parts[0], "u32") && strings.HasPrefix(parts[1], "str") && strings.HasSuffix(parts[1], "*") && strings.HasPrefix(parts[2], "str") && strings.HasSuffix(parts[2], "*")
				// the pair is two different things: the type, then the data
				if okL && strings.Contains(parts[1], ":") && parts[1] == parts[2] {
					okL = false
				}
			}
			c.check(okL, rule, fmt.Sprintf("%s flag %#x", f.name, k), p.Pos(f.fn.Pos()), got, fmt.Sprintf("under attribute flag %#x %s handles [%s], the draft says [%s]", k, f.name, got, w))
			c.check(!guarded[k], rule, fmt.Sprintf("%s flag %#x decides alone", f.name, k), p.Pos(f.fn.Pos()), "the block is present exactly when the flag is set", fmt.Sprintf("in %s the block for attribute flag %#x is subject to a further condition after the flag test: the flag can be set on the wire without its block", f.name, k))
		}
		okOrder := len(order) == len(wantOrder)
		for i := range order {
			if i < len(wantOrder) && order[i] != wantOrder[i] {
				okOrder = false
			}
		}
		c.check(okOrder, rule, f.name+" flag order", p.Pos(f.fn.Pos()), "SIZE, UIDGID, PERMISSIONS, ACMODTIME, EXTENDED", fmt.Sprintf("%s handles the attribute flags in the order %#x", f.name, order))
	}
	if sftpOnly {
		return
	}
	// flag constants equal in both packages
	for _, pr := range [][2]string{{"sshFileXferAttrSize", "AttrSize"}, {"sshFileXferAttrUIDGID", "AttrUIDGID"}, {"sshFileXferAttrPermissions", "AttrPermissions"}, {"sshFileXferAttrACmodTime", "AttrACModTime"}, {"sshFileXferAttrExtended", "AttrExtended"}} {
		a, _ := p.Sftp.Pkg.Scope().Lookup(pr[0]).(*types.Const)
		b, _ := p.Sshfx.Pkg.Scope().Lookup(pr[1]).(*types.Const)
		same := a != nil && b != nil && constant.Compare(constant.ToInt(a.Val()), token.EQL, constant.ToInt(b.Val()))
		c.check(same, rule, "flag constant "+pr[0], "attrs.go", "equal in both codecs", pr[0]+" and sshfx."+pr[1]+" differ")
	}
	// Attributes.Len agrees with MarshalInto on sizes
	if ln := p.FuncIn(p.Sshfx, "(*Attributes).Len"); ln != nil {
		sizes := map[int64]int64{}
		for _, b := range ln.Blocks {
			iff, ok := b.Instrs[len(b.Instrs)-1].(*ssa.If)
			if !ok {
				continue
			}
			cmp, ok := iff.Cond.(*ssa.BinOp)
			if !ok {
				continue
			}
			and, ok := cmp.X.(*ssa.BinOp)
			if !ok || and.Op != token.AND {
				continue
			}
			k, ok := constInt(and.Y)
			if !ok {
				continue
			}
			for _, in := range b.Succs[0].Instrs {
				if bo, ok := in.(*ssa.BinOp); ok && bo.Op == token.ADD {
					if v, ok := constInt(bo.Y); ok {
						sizes[k&0xFFFFFFFF] = v
					}
				}
			}
		}
		wantSz := map[int64]int64{1: 8, 2: 8, 4: 4, 8: 8, 0x80000000: 4}
		for k, w := range wantSz {
			c.check(sizes[k] == w, rule, fmt.Sprintf("Attributes.Len flag %#x", k), p.Pos(ln.Pos()), fmt.Sprintf("%d bytes", sizes[k]), fmt.Sprintf("Attributes.Len counts %d bytes for flag %#x, the encoding uses %d", sizes[k], k, w))
		}
	}
}

// checkCountGuards (C06.R8): a decoder that sizes an allocation by a count from the wire refuses counts that cannot
// fit (C08).  Such a guard must not refuse anything that does fit, or bytes the other codec (and this codec's own
// encoder) produce are rejected: on every refusing edge of a guard on the count, "count >= 0 and count elements of
// the minimum encoded size fit in the remaining bytes" must be contradictory (linear prover).  The minimum element
// size is computed from the element decoder's own field sequence (the tokens inside the loop that follows).
func checkCountGuards(c *Ctx, rule string) {
	p := c.P
	w := newZWorld(p)
	minOf := func(t wtok) int64 {
		switch t.Prim {
		case "u8":
			return 1
		case "u16":
			return 2
		case "u32", "str", "attrs", "bytes":
			return 4
		case "u64":
			return 8
		}
		return 0
	}
	sites := []struct {
		name string
		fn   *ssa.Function
	}{
		{"sshfx.NamePacket.UnmarshalPacketBody", p.FuncIn(p.Sshfx, "(*NamePacket).UnmarshalPacketBody")},
		{"sshfx.Attributes.XXX_UnmarshalByFlags", p.FuncIn(p.Sshfx, "(*Attributes).XXX_UnmarshalByFlags")},
		{"unmarshalFileStat", p.Func("unmarshalFileStat")},
	}
	for _, s := range sites {
		fn := s.fn
		if fn == nil {
			c.missing(rule, s.name)
			continue
		}
		// the allocation sized by the count
		var mk *ssa.MakeSlice
		eachInstr(fn, func(in ssa.Instruction) {
			if m, ok := in.(*ssa.MakeSlice); ok {
				if _, isConst := constInt(m.Cap); !isConst {
					mk = m
				}
			}
		})
		if mk == nil {
			c.und(rule, s.name+" count guard", p.Pos(fn.Pos()), "no allocation sized by a decoded count")
			continue
		}
		countV := stripConv(mk.Cap)
		// minimum element size: the decode tokens inside loops of fn
		var kmin int64
		for _, t := range seqOf(p, fn, 0) {
			if t.Loop {
				kmin += minOf(t)
			}
		}
		if kmin == 0 {
			c.und(rule, s.name+" count guard", p.Pos(fn.Pos()), "cannot compute the minimum element size")
			continue
		}
		z := w.get(fn)
		mentions := func(v ssa.Value) bool {
			found := false
			var walk func(x ssa.Value, d int)
			walk = func(x ssa.Value, d int) {
				if x == nil || d > 6 || found {
					return
				}
				if x == countV || stripConv(x) == countV {
					found = true
					return
				}
				switch y := x.(type) {
				case *ssa.BinOp:
					walk(y.X, d+1)
					walk(y.Y, d+1)
				case *ssa.Convert:
					walk(y.X, d+1)
				case *ssa.ChangeType:
					walk(y.X, d+1)
				case *ssa.UnOp:
					walk(y.X, d+1)
				}
			}
			walk(v, 0)
			return found
		}
		// remaining length: the numerator of the division in a guard
		var lenV ssa.Value
		var findLen func(x ssa.Value, d int)
		findLen = func(x ssa.Value, d int) {
			if x == nil || d > 6 {
				return
			}
			switch y := x.(type) {
			case *ssa.BinOp:
				if y.Op == token.QUO {
					if _, ok := constInt(y.Y); ok {
						lenV = y.X
						return
					}
				}
				findLen(y.X, d+1)
				findLen(y.Y, d+1)
			case *ssa.Convert:
				findLen(y.X, d+1)
			}
		}
		var guards []*ssa.If
		for _, b := range fn.Blocks {
			iff, ok := b.Instrs[len(b.Instrs)-1].(*ssa.If)
			if !ok || !mentions(iff.Cond) || !(b == mk.Block() || b.Dominates(mk.Block())) {
				continue
			}
			guards = append(guards, iff)
			findLen(iff.Cond, 0)
		}
		if len(guards) == 0 || lenV == nil {
			c.bad(rule, s.name+" count guard", p.Pos(mk.Pos()), "the count that sizes the allocation is not compared with the remaining bytes")
			continue
		}
		ct, lt := z.term(countV), z.term(lenV)
		wf := []lin{ct.scale(-1), leq(ct.scale(kmin), lt, 0)} // count >= 0, kmin*count <= remaining
		for i, g := range guards {
			blk := g.Block()
			// the refusing edge is the successor that does not lead to the allocation
			for si, succ := range blk.Succs {
				if succ == mk.Block() || succ.Dominates(mk.Block()) || blockReaches(succ, mk.Block()) {
					continue
				}
				// terms first: building them records the facts of divisions and conversions
				cf := z.condFacts(g.Cond, si == 0)
				facts := append([]lin{}, z.factsAt(g)...)
				facts = append(facts, cf...)
				facts = append(facts, wf...)
				key := fmt.Sprintf("%s count guard #%d refuses only what cannot fit", s.name, i+1)
				okI := infeasible(facts)
				if !okI && os.Getenv("ZDEBUG") != "" && strings.Contains(key, os.Getenv("ZDEBUG")) {
					for _, f := range facts {
						fmt.Printf("   F %s\n", f)
					}
				}
				c.check(okI, rule, key, p.Pos(g.Cond.Pos()), fmt.Sprintf("refused ⇒ %d·count > remaining bytes (or count < 0)", kmin),
					fmt.Sprintf("the guard refuses a count whose elements (at least %d bytes each) fit in the remaining bytes: a well-formed packet that the encoder and the other codec produce is rejected", kmin))
			}
		}
	}
}

// checkFreshElements (C06.R9): a decoder that collects pointers to the elements it decodes must decode each element
// into storage of its own.  `append(list, &x)` in a loop with x declared outside the loop makes every collected
// pointer denote the same variable: all decoded elements equal the last one, and decode∘encode changes the bytes.
func checkFreshElements(c *Ctx, rule string) {
	p := c.P
	n := 0
	for _, fn := range decodeCone(p) {
		loops := loopsOf(fn)
		if len(loops) == 0 {
			continue
		}
		ord := 0
		eachInstr(fn, func(in ssa.Instruction) {
			call, ok := in.(*ssa.Call)
			if !ok || builtinName(&call.Call) != "append" || len(call.Call.Args) != 2 {
				return
			}
			l := innermostLoop(loops, call.Block())
			if l == nil {
				return
			}
			// the appended elements: stores into the variadic array
			sl, ok := call.Call.Args[1].(*ssa.Slice)
			if !ok {
				return
			}
			arr, ok := sl.X.(*ssa.Alloc)
			if !ok {
				return
			}
			for _, r := range *arr.Referrers() {
				ia, ok := r.(*ssa.IndexAddr)
				if !ok {
					continue
				}
				for _, rr := range *ia.Referrers() {
					st, ok := rr.(*ssa.Store)
					if !ok {
						continue
					}
					al, isAlloc := st.Val.(*ssa.Alloc)
					if !isAlloc {
						continue
					}
					n++
					ord++
					fresh := l.blocks[al.Block()]
					c.check(fresh, rule, fmt.Sprintf("%s: collected element #%d has storage of its own", fnName(fn), ord), p.Pos(call.Pos()), "the variable whose address is appended is declared inside the loop",
						"the loop appends the address of a variable declared outside it: every collected pointer denotes that one variable, so all decoded elements equal the last one decoded")
				}
			}
		})
	}
	c.check(n >= 2, rule, "decoders that collect element pointers", "?", fmt.Sprintf("%d sites", n), fmt.Sprintf("only %d sites found", n))
}

// checkBufferReinitialisers (R10): the filexfer Buffer has a sticky error that makes every Consume* return zero.  A
// method that gives the Buffer new contents and rewinds it (stores 0 into off, or assigns the whole struct) starts a
// new decode, so it has to clear that error as well: Reset and StartPacket do (they assign a fresh Buffer); a method
// that only replaces the bytes and the offset leaves a Buffer that once over-read unreadable, and a re-used
// ExtendedReplyPacket decodes the next, well-formed reply to zero values.
func checkBufferReinitialisers(c *Ctx, rule string) {
	p := c.P
	n := 0
	for _, fn := range p.LibFuncs() {
		if fn.Package() != p.Sshfx || fn.Signature.Recv() == nil || typeName(fn.Signature.Recv().Type()) != "Buffer" {
			continue
		}
		rewinds, clears, whole := false, false, false
		eachInstr(fn, func(in ssa.Instruction) {
			st, ok := in.(*ssa.Store)
			if !ok {
				return
			}
			if _, name, base, ok := fieldOf(st.Addr); ok && len(fn.Params) > 0 && base == fn.Params[0] {
				if k, isK := constInt(st.Val); name == "off" && isK && k == 0 {
					rewinds = true
				}
				if name == "Err" && isNilConst(st.Val) {
					clears = true
				}
				return
			}
			if len(fn.Params) > 0 && st.Addr == fn.Params[0] {
				whole = true
			}
		})
		if !rewinds && !whole {
			continue
		}
		n++
		c.check(whole || clears, rule, fnName(fn)+" clears the sticky error when it rewinds the Buffer", p.Pos(fn.Pos()), "new contents, offset 0, no error",
			fnName(fn)+" gives the Buffer new contents and offset 0 but keeps Err: after one over-read every later decode through this Buffer yields zero values and ErrShortPacket, whatever bytes it was given")
	}
	c.check(n >= 3, rule, "methods that rewind a Buffer", "?", fmt.Sprintf("%d methods", n), fmt.Sprintf("only %d found (Reset, StartPacket, UnmarshalBinary expected)", n))
}

// callsBigEndian: f obtains its bytes (or its value) from encoding/binary's BigEndian method of that name.
func callsBigEndian(f *ssa.Function, method string) bool {
	found := false
	eachInstr(f, func(in ssa.Instruction) {
		if cc := callOf(in); cc != nil {
			if fn := calleeFunc(cc); fn != nil && fn.Name() == method && fn.Pkg() != nil && fn.Pkg().Path() == "encoding/binary" {
				if sig, ok := fn.Type().(*types.Signature); ok && sig.Recv() != nil && typeName(sig.Recv().Type()) == "bigEndian" {
					found = true
				}
			}
		}
	})
	return found
}

// checkAttrBlockFollowsItsFlags (R11): an ATTRS block is a flags word followed by exactly the fields the word announces.
// Package sftp writes the word with marshalUint32 and the fields with marshalFileStat(b, flags, …): wherever the two
// are written by one function (the encoders of OPEN, SETSTAT, FSETSTAT, MKDIR, and marshalFileInfo), the flags handed
// to marshalFileStat must be the very value whose word was written — not the flags some other source (the FileInfo
// the attributes were taken from) would announce.  Otherwise the word and the block disagree and the receiver reads
// one field out of the bytes of another.
func checkAttrBlockFollowsItsFlags(c *Ctx, rule string) {
	p := c.P
	mfs := p.Func("marshalFileStat")
	if mfs == nil {
		c.missing(rule, "marshalFileStat")
		return
	}
	c.looked("marshalFileStat")
	n := 0
	// a field of the packet is the same value wherever it is read (in the method or in a literal inside it)
	key := func(v ssa.Value) string {
		v = stripConv(v)
		for _, l := range leavesOf(v) {
			if l.Kind == leafFieldLoad && len(leavesOf(v)) == 1 {
				return "field:" + typeName(l.Base.Type()) + "." + l.Field
			}
		}
		return valKey(v)
	}
	byOuter := map[*ssa.Function][]*ssa.Function{}
	for _, fn := range p.ModuleFuncs() {
		if o := outermost(fn); o.Pkg == p.Sftp && o != mfs {
			byOuter[o] = append(byOuter[o], fn)
		}
	}
	var outers []*ssa.Function
	for o := range byOuter {
		outers = append(outers, o)
	}
	sort.Slice(outers, func(i, j int) bool { return outers[i].String() < outers[j].String() })
	for _, o := range outers {
		var calls []*ssa.Call
		words := map[string]bool{}
		for _, fn := range byOuter[o] {
			eachInstr(fn, func(in ssa.Instruction) {
				call, ok := in.(*ssa.Call)
				if !ok {
					return
				}
				if call.Call.StaticCallee() == mfs && len(call.Call.Args) == 3 {
					calls = append(calls, call)
				}
				if calleeName(&call.Call) == "marshalUint32" && len(call.Call.Args) == 2 {
					words[key(call.Call.Args[1])] = true
				}
			})
		}
		sort.Slice(calls, func(i, j int) bool { return calls[i].Pos() < calls[j].Pos() })
		for ord, call := range calls {
			n++
			// the flags word among the arguments: the uint32 (second by convention; elsewhere once the function has
			// become a method of the attributes)
			var fl ssa.Value = call.Call.Args[1]
			for _, a := range call.Call.Args {
				if isBasicKind(types.Uint32)(a.Type()) {
					fl = a
				}
			}
			k := key(fl)
			c.check(words[k], rule, fmt.Sprintf("%s: attribute block #%d laid out by the flags word it follows", fnName(o), ord+1), p.Pos(call.Pos()),
				"marshalFileStat gets the flags this function wrote as the word", "the attribute block is laid out by "+k+", which is not a flags word this function writes: the word announces one set of fields and the block carries another")
		}
	}
	c.check(n >= 8, rule, "attribute blocks written next to their flags word", "?", fmt.Sprintf("%d sites", n), fmt.Sprintf("only %d sites found", n))
}

// checkFilexferRequestDispatch (R12): filexfer's RequestPacket decodes a request by asking newPacketFromType for an
// empty packet of the type byte.  For every request type of SFTP v3 (3..20 and 200) it must hand out a packet, and that
// packet's own Type() must be the byte asked for — otherwise the codec cannot read back what its own MarshalPacket
// (and package sftp's encoder, which R1/R2 hold to the same layout) writes.  Decided by running newPacketFromType and
// the Type methods in the SSA interpreter, so a switch and a table of constructors are read alike.
func checkFilexferRequestDispatch(c *Ctx, rule string) {
	p := c.P
	var fn *ssa.Function
	for _, f := range p.ModuleFuncs() {
		if f.Pkg == p.Sshfx && f.Name() == "newPacketFromType" && f.Parent() == nil {
			fn = f
		}
	}
	var codes []int64
	for k := int64(3); k <= 20; k++ {
		codes = append(codes, k)
	}
	codes = append(codes, 200)
	// the constructor table folded into the request decoder: RequestPacket.UnmarshalFrom is run with a buffer whose first
	// byte is the type, up to the call of the chosen packet's UnmarshalPacketBody
	var viaDecoder *ssa.Function
	if fn == nil || len(fn.Params) != 1 {
		for _, f := range p.ModuleFuncs() {
			if f.Pkg == p.Sshfx && f.Name() == "UnmarshalFrom" && f.Signature.Recv() != nil && typeName(f.Signature.Recv().Type()) == "RequestPacket" {
				viaDecoder = f
			}
		}
		if viaDecoder == nil || len(viaDecoder.Params) != 2 {
			c.missing(rule, "sshfx newPacketFromType")
			return
		}
		fn = viaDecoder
	}
	c.looked(fnName(fn))
	pt := fn.Params[len(fn.Params)-1].Type()
	for _, k := range codes {
		key := fmt.Sprintf("filexfer decodes request type %d", k)
		var st evStop
		if viaDecoder == nil {
			st = newEvaluator(p).run(fn, []evVal{evInt(k, pt)}, 0)
		} else {
			ev := newEvaluator(p)
			k := k
			ev.opaque = func(callee *ssa.Function, args []evVal) (evVal, bool) {
				if callee.Pkg == p.Sshfx && callee.Signature.Recv() != nil && typeName(callee.Signature.Recv().Type()) == "Buffer" {
					if callee.Name() == "ConsumeUint8" {
						return evInt(k, types.Typ[types.Uint8]), true
					}
					return evVal{}, true
				}
				return evVal{}, false
			}
			ev.intercept = func(call *ssa.CallCommon, args []evVal) bool {
				return call.IsInvoke() && call.Method.Name() == "UnmarshalPacketBody"
			}
			bufObj := &evObj{typ: derefType(fn.Params[1].Type()), fields: map[string]evVal{"Err": {k: evNil}}}
			reqObj := &evObj{typ: derefType(fn.Params[0].Type()), fields: map[string]evVal{}}
			res := ev.run(fn, []evVal{{k: evObject, obj: reqObj}, {k: evObject, obj: bufObj}}, 0)
			switch {
			case res.kind == "intercept" && len(res.vals) > 0:
				st = evStop{kind: "return", vals: []evVal{res.vals[0], {k: evNil}}}
			case res.kind == "return":
				st = evStop{kind: "return", vals: []evVal{{k: evNil}, {}}}
			default:
				st = res
			}
		}
		if st.kind != "return" || len(st.vals) != 2 {
			c.und(rule, key, p.Pos(fn.Pos()), "newPacketFromType could not be evaluated: "+st.kind+" "+st.why)
			continue
		}
		pk := st.vals[0]
		if pk.k == evNil {
			c.bad(rule, key, p.Pos(fn.Pos()), fmt.Sprintf("newPacketFromType has no packet for request type %d: RequestPacket cannot decode a request the codec itself encodes", k))
			continue
		}
		if pk.k != evIface || pk.t == nil {
			c.und(rule, key, p.Pos(fn.Pos()), "the packet newPacketFromType returns is not understood")
			continue
		}
		m := p.SSA.MethodSets.MethodSet(pk.t).Lookup(p.Sshfx.Pkg, "Type")
		var tf *ssa.Function
		if m != nil {
			tf = p.SSA.MethodValue(m)
		}
		if tf == nil {
			c.und(rule, key, p.Pos(fn.Pos()), typeName(pk.t)+" has no Type method")
			continue
		}
		recv := evVal{k: evObject, obj: &evObj{typ: derefType(pk.t), fields: map[string]evVal{}}}
		if pk.inner != nil {
			recv = *pk.inner
		}
		ts := newEvaluator(p).run(tf, []evVal{recv}, 0)
		if ts.kind != "return" || len(ts.vals) != 1 || ts.vals[0].k != evConst {
			c.und(rule, key, p.Pos(tf.Pos()), typeName(pk.t)+".Type() could not be evaluated")
			continue
		}
		got, _ := constant.Int64Val(constant.ToInt(ts.vals[0].c))
		c.check(got == k, rule, key, p.Pos(fn.Pos()), fmt.Sprintf("%s, whose Type() is %d", typeName(pk.t), got),
			fmt.Sprintf("for type byte %d newPacketFromType hands out a %s, whose Type() is %d: the body is decoded with another packet's layout", k, typeName(pk.t), got))
	}
}

// checkPacketStartsAtZero (C06.R13): filexfer's encoders may be handed a scratch buffer to build the packet in.  The
// packet starts at offset 0 of what they return: wherever the four bytes of the length prefix are reserved
// (append(x, four zero bytes)), x is provably empty — b[:0], a fresh make(…, 0, n) — so that stale contents of the
// scratch buffer do not end up in front of the packet (length, type and id would be read from them).
func checkPacketStartsAtZero(c *Ctx, rule string) {
	p := c.P
	w := newZWorld(p)
	n := 0
	ord := map[string]int{}
	for _, fn := range p.ModuleFuncs() {
		if outermost(fn).Pkg != p.Sshfx {
			continue
		}
		var z *zfn
		eachInstr(fn, func(in ssa.Instruction) {
			call, ok := in.(*ssa.Call)
			if !ok || builtinName(&call.Call) != "append" || len(call.Call.Args) != 2 {
				return
			}
			if !isByteSlice(call.Call.Args[0].Type()) || !isFourZeroBytes(call.Call.Args[1]) {
				return
			}
			if z == nil {
				z = w.get(fn)
			}
			n++
			k := fnName(fn) + ": length prefix reserved at offset 0"
			ord[k]++
			key := k
			if ord[k] > 1 {
				key = fmt.Sprintf("%s #%d", k, ord[k])
			}
			ok2, _ := z.prove(in, []lin{leq(z.lenOf(call.Call.Args[0], 0), linConst(0), 0)})
			c.check(ok2, rule, key, p.Pos(in.Pos()), "the slice the prefix is appended to is empty",
				"the four bytes of the length prefix are appended to a slice that is not provably empty: with a caller-supplied scratch buffer that still has contents the packet is built behind them, and length, type and request id are read from stale bytes")
		})
	}
	c.check(n >= 1, rule, "places that reserve the length prefix", "?", fmt.Sprintf("%d appends of four zero bytes", n), "no place found where filexfer reserves the length prefix of a packet")
}

// isFourZeroBytes: v is a slice of exactly four zero bytes (make([]byte, 4), or the slice go/ssa builds for the
// variadic arguments 0, 0, 0, 0).
func isFourZeroBytes(v ssa.Value) bool {
	switch x := v.(type) {
	case *ssa.MakeSlice:
		k, ok := constInt(x.Len)
		return ok && k == 4
	case *ssa.Slice:
		al, ok := x.X.(*ssa.Alloc)
		if !ok || x.Low != nil {
			return false
		}
		if x.High != nil {
			if k, isK := constInt(x.High); !isK || k != 4 {
				return false
			}
		}
		arr, ok := derefType(al.Type()).Underlying().(*types.Array)
		if !ok || arr.Len() != 4 {
			return false
		}
		// every store into it is a zero (an element never stored is zero as well)
		zero := true
		for _, r := range *al.Referrers() {
			if ia, ok := r.(*ssa.IndexAddr); ok {
				for _, rr := range *ia.Referrers() {
					if st, ok := rr.(*ssa.Store); ok {
						if k, ok := constInt(st.Val); !ok || k != 0 {
							zero = false
						}
					}
				}
			}
		}
		return zero
	}
	return false
}

// checkCursorThreading: in every function (of package sftp, or of `only` when given) with two or more calls of the
// decode primitives, the rest buffer a decode returns is dropped only when no further decode can follow.  A rest that
// only flows into joins nobody reads (a shadowed `b` in a loop body, the result temporaries of a helper inlined back)
// is dropped.  Returns the number of dropped rests it examined.
func checkCursorThreading(c *Ctx, rule string, only map[*ssa.Function]bool) int {
	p := c.P
	pos := func(in ssa.Instruction) string { return p.Pos(in.Pos()) }
	n := 0
	for _, fn := range p.LibFuncs() {
		if outermost(fn).Package() != p.Sftp {
			continue
		}
		if only != nil && !only[fn] {
			continue
		}
		var decodes []*ssa.Call
		eachInstr(fn, func(in ssa.Instruction) {
			if call, ok := in.(*ssa.Call); ok {
				switch calleeName(&call.Call) {
				case "unmarshalUint32Safe", "unmarshalUint64Safe", "unmarshalStringSafe", "unmarshalUint32", "unmarshalUint64", "unmarshalString", "unmarshalAttrs", "unmarshalFileStat", "unmarshalExtensionPair":
					if call.Call.StaticCallee() != nil && call.Call.StaticCallee().Package() == p.Sftp {
						decodes = append(decodes, call)
					}
				}
			}
		})
		if len(decodes) < 2 {
			continue
		}
		for _, d := range decodes {
			// the rest output
			restIdx := 1
			var rest *ssa.Extract
			for _, r := range *d.Referrers() {
				if ex, ok := r.(*ssa.Extract); ok && ex.Index == restIdx {
					rest = ex
				}
			}
			seen := map[ssa.Value]bool{}
			var usedV func(v ssa.Value) bool
			usedV = func(v ssa.Value) bool {
				if seen[v] {
					return false
				}
				seen[v] = true
				refs := v.Referrers()
				if refs == nil {
					return false
				}
				for _, r := range *refs {
					switch x := r.(type) {
					case *ssa.DebugRef:
					case *ssa.Return:
						// handing the position back with an error does not continue the decoding
						last := x.Results[len(x.Results)-1]
						if isNilConst(last) {
							return true
						}
					case *ssa.Phi:
						// a join counts when somebody reads it
						if usedV(x) {
							return true
						}
					default:
						// (a Store is a spilled result — named results + defer — or a variable kept in memory)
						return true
					}
				}
				return false
			}
			if rest != nil && usedV(rest) {
				continue
			}
			// dropped: no further decode may be reachable
			later := reachAvoiding(fn, d, func(in ssa.Instruction) bool {
				for _, o := range decodes {
					if ssa.Instruction(o) == in && o != d {
						return true
					}
				}
				return false
			}, nil)
			n++
			c.check(!later, rule, "rest of "+calleeName(&d.Call)+" in "+fnName(fn), pos(d), "the remaining bytes are dropped only by the last decode", "the bytes remaining after this decode are dropped although decoding continues: the next field is read from a stale position (e.g. a shadowed buffer variable in a loop)")
		}
	}
	return n
}

// checkDecodedFlagsReachTheLadder (C06.R14 / C16.R13): the attribute ladder is given the flags word as it was read —
// the result of the uint32 primitive, a packet's Flags field, or a parameter handed on — never a masked or otherwise
// recomputed word.  With a bit masked away its block stays undecoded in the buffer, and in a NAME reply every later
// entry is read from the middle of it.
func checkDecodedFlagsReachTheLadder(c *Ctx, rule string) {
	p := c.P
	n := 0
	for _, fn := range p.LibFuncs() {
		if outermost(fn).Package() != p.Sftp {
			continue
		}
		eachInstr(fn, func(in ssa.Instruction) {
			cc := callOf(in)
			if cc == nil || cc.StaticCallee() == nil || fnName(cc.StaticCallee()) != "unmarshalFileStat" || len(cc.Args) != 2 {
				return
			}
			n++
			v := stripConv(cc.Args[0])
			ok := false
			switch x := v.(type) {
			case *ssa.Parameter:
				ok = true
			case *ssa.Extract:
				if call, isCall := x.Tuple.(*ssa.Call); isCall && x.Index == 0 {
					switch calleeName(&call.Call) {
					case "unmarshalUint32Safe", "unmarshalUint32":
						ok = true
					}
				}
			case *ssa.UnOp:
				if x.Op == token.MUL {
					if _, name, _, isField := fieldOf(x.X); isField && (name == "Flags" || name == "Pflags") {
						ok = true
					}
				}
			}
			c.check(ok, rule, "flags word given to the attribute ladder in "+fnName(fn), p.Pos(in.Pos()), "the word as decoded (primitive result, Flags field or parameter)",
				"unmarshalFileStat is given a recomputed flags word ("+v.String()+"): a block whose bit was masked away stays in the buffer and the fields behind it are read from the wrong position")
		})
	}
	c.check(n >= 6, rule, "calls of the attribute ladder", "?", fmt.Sprintf("%d calls", n), fmt.Sprintf("only %d calls of unmarshalFileStat found", n))
}

// checkDecodedPacketsDoNotAliasTheBuffer (C06.R17): a packet decoded by the filexfer codec owns its bytes ("Request is
// not allowed to alias any part of the data byte slice"): a byte-slice field is filled with ConsumeByteSliceCopy, or
// with a copy — never with what ConsumeByteSlice hands out, which is a window into the receive buffer.  With the alias,
// re-encoding a decoded WRITE or DATA packet after the buffer was reused gives other bytes than were decoded.
func checkDecodedPacketsDoNotAliasTheBuffer(c *Ctx, rule string) {
	p := c.P
	n := 0
	for _, fn := range p.ModuleFuncs() {
		if fn.Pkg != p.Sshfx && fn.Pkg != p.Ossh {
			continue
		}
		nm := fn.Name()
		if nm != "UnmarshalPacketBody" && nm != "UnmarshalFrom" && nm != "UnmarshalBinary" {
			continue
		}
		eachInstr(fn, func(in ssa.Instruction) {
			st, ok := in.(*ssa.Store)
			if !ok {
				return
			}
			if sl, isSl := st.Val.Type().Underlying().(*types.Slice); !isSl || !isByteType(sl.Elem()) {
				return
			}
			if _, _, _, isField := fieldOf(st.Addr); !isField {
				return
			}
			n++
			alias := false
			for _, l := range leavesOf(st.Val) {
				if l.Kind == leafCallResult && calleeName(l.Call) == "ConsumeByteSlice" {
					alias = true
				}
			}
			c.check(!alias, rule, "byte-slice field decoded in "+fnName(fn)+" is a copy", p.Pos(in.Pos()), "ConsumeByteSliceCopy (or a copy)", "a byte-slice field of the decoded packet is the window ConsumeByteSlice returns into the receive buffer: the packet changes when the buffer is reused")
		})
	}
	c.check(n >= 2, rule, "byte-slice fields decoded by the filexfer codec", "?", fmt.Sprintf("%d stores", n), fmt.Sprintf("only %d byte-slice fields found in the filexfer decoders", n))
}

// checkHeaderReservesLengthPrefix (C06.R18 / C03.R8): sendPacket writes the length into the first four bytes of what a
// packet's marshaller returns (header[:4]).  Every buffer a marshaller of package sftp creates therefore starts with
// those four bytes reserved — make([]byte, 4, n).  With make([]byte, 0, n) the length word overwrites the type byte and
// three bytes of the request id: the peer reads another packet type, under another id.
func checkHeaderReservesLengthPrefix(c *Ctx, rule string) {
	p := c.P
	n := 0
	for _, fn := range p.LibFuncs() {
		if fn.Pkg != p.Sftp || fn.Parent() != nil {
			continue
		}
		nm := fn.Name()
		if nm != "MarshalBinary" && nm != "marshalPacket" && nm != "marshalIDStringPacket" && nm != "marshalStatus" {
			continue
		}
		eachInstr(fn, func(in ssa.Instruction) {
			ms, ok := in.(*ssa.MakeSlice)
			if !ok || !isByteSlice(ms.Type()) {
				return
			}
			// the buffer that becomes the first result — the header, into whose first four bytes the length is written
			// (a separate payload buffer, the second result of marshalPacket, has no prefix)
			isHeader := false
			for _, rin := range findInstrs(fn, isReturn) {
				r := rin.(*ssa.Return)
				if len(r.Results) == 0 {
					continue
				}
				seen := map[ssa.Value]bool{}
				var back func(v ssa.Value, d int) bool
				back = func(v ssa.Value, d int) bool {
					if v == nil || seen[v] || d > 40 {
						return false
					}
					seen[v] = true
					switch x := v.(type) {
					case *ssa.MakeSlice:
						return x == ms
					case *ssa.Call:
						if len(x.Call.Args) > 0 && isByteSlice(x.Call.Args[0].Type()) {
							return back(x.Call.Args[0], d+1)
						}
					case *ssa.Slice:
						return back(x.X, d+1)
					case *ssa.Phi:
						for _, e := range x.Edges {
							if back(e, d+1) {
								return true
							}
						}
					case *ssa.Extract:
						return back(x.Tuple, d+1)
					}
					return false
				}
				if back(r.Results[0], 0) {
					isHeader = true
				}
			}
			if !isHeader {
				return
			}
			n++
			k, isK := constInt(ms.Len)
			c.check(isK && k == 4, rule, "buffer of "+fnName(fn)+" starts with the length prefix reserved", p.Pos(in.Pos()), "make([]byte, 4, n)",
				"the marshaller's buffer does not start with four reserved bytes: sendPacket writes the length over the packet's type and request id")
		})
	}
	c.check(n >= 20, rule, "marshal buffers", "?", fmt.Sprintf("%d buffers", n), fmt.Sprintf("only %d marshal buffers found in package sftp", n))
}

// checkMarshalledUnderTheGivenID (C06.R19): MarshalPacket(reqid, b) puts the packet on the wire under reqid — "the
// internal RequestID is overridden by the reqid argument".  Whatever a MarshalPacket method hands the id to (the
// StartPacket of its buffer, the MarshalPacket of the packet it wraps) gets the parameter itself; a stored field in
// its place makes encode-then-decode return another id than the one asked for.
func checkMarshalledUnderTheGivenID(c *Ctx, rule string) {
	p := c.P
	n := 0
	for _, fn := range p.LibFuncs() {
		if fn.Name() != "MarshalPacket" || (fn.Package() != p.Sshfx && fn.Package() != p.Ossh) || fn.Signature.Recv() == nil {
			continue
		}
		if len(fn.Params) < 2 {
			continue
		}
		id := fn.Params[1]
		if b, ok := id.Type().Underlying().(*types.Basic); !ok || b.Kind() != types.Uint32 {
			continue
		}
		ord := 0
		eachInstr(fn, func(in ssa.Instruction) {
			cc := callOf(in)
			if cc == nil {
				return
			}
			nm := calleeName(cc)
			if cc.IsInvoke() {
				nm = cc.Method.Name()
			}
			if nm != "MarshalPacket" && nm != "StartPacket" {
				return
			}
			var arg ssa.Value
			for _, a := range argsOf(cc) {
				if b, ok := a.Type().Underlying().(*types.Basic); ok && b.Kind() == types.Uint32 && namedOf(a.Type()) == nil {
					arg = a
					break
				}
			}
			if arg == nil {
				return
			}
			n++
			ord++
			c.check(arg == ssa.Value(id), rule, fmt.Sprintf("%s hands on the id it was given #%d", fnName(fn), ord), p.Pos(in.Pos()), nm+"(…, reqid)",
				"the id passed on is not the reqid parameter: the packet goes out under another id than the one it was marshalled under")
		})
	}
	c.check(n >= 10, rule, "MarshalPacket methods handing on an id", "?", fmt.Sprintf("%d sites", n), fmt.Sprintf("only %d sites found", n))
}

// checkExtendedFlagIffPairs (C06.R20): the attribute block announces its extended pairs with one flag bit, and the
// encoder writes the count and the pairs only under that bit.  Where a FileStat is filled from a FileInfo the bit is
// set under a test of the pair count: taken, the count is at least one; not taken, it is zero.  A boundary shifted
// by one drops a single pair from the wire without a trace.
func checkExtendedFlagIffPairs(c *Ctx, rule string) {
	p := c.P
	k := p.Sftp.Const("sshFileXferAttrExtended")
	if k == nil {
		c.missing(rule, "sshFileXferAttrExtended")
		return
	}
	bit, _ := constInt(k.Value)
	w := newZWorld(p)
	n := 0
	for _, fn := range p.LibFuncs() {
		if fn.Package() != p.Sftp {
			continue
		}
		eachInstr(fn, func(in ssa.Instruction) {
			or, ok := in.(*ssa.BinOp)
			if !ok || or.Op != token.OR {
				return
			}
			kv, ok := constInt(or.Y)
			if !ok || uint32(kv) != uint32(bit) {
				return
			}
			b := or.Block()
			id := b.Idom()
			if id == nil {
				return
			}
			iff, ok := id.Instrs[len(id.Instrs)-1].(*ssa.If)
			if !ok || len(id.Succs) != 2 {
				return
			}
			truth := id.Succs[0] == b
			if !truth && id.Succs[1] != b {
				return
			}
			cmp, ok := iff.Cond.(*ssa.BinOp)
			if !ok {
				return
			}
			var lenV ssa.Value
			for _, o := range []ssa.Value{cmp.X, cmp.Y} {
				if call, ok := o.(*ssa.Call); ok && builtinName(&call.Call) == "len" {
					lenV = o
				}
			}
			if lenV == nil {
				return
			}
			n++
			z := w.get(fn)
			lt := z.term(lenV)
			nonneg := leq(linConst(0), lt, 0)
			taken := append(z.condFacts(cmp, truth), nonneg)
			not := append(z.condFacts(cmp, !truth), nonneg)
			good := entails(taken, leq(linConst(1), lt, 0)) && entails(not, leq(lt, linConst(0), 0))
			c.check(good, rule, fnName(fn)+": EXTENDED is announced exactly when there are pairs", p.Pos(or.Pos()), "bit set: count >= 1; not set: count == 0",
				"the test under which the EXTENDED bit is set is not `count > 0`: some non-empty list of extended attributes is left out of the encoded block (or an empty one announced)")
		})
	}
	c.okT(rule, "places setting the EXTENDED bit under a count test", "?", fmt.Sprintf("%d", n))
}
