package main

import (
	"fmt"
	"strings"
	"go/types"

	"golang.org/x/tools/go/ssa"
)

// checkGuardedMaps: a map that sits in a struct next to a sync.Mutex/RWMutex is that mutex's: every lookup, update,
// delete and range of it in the library happens with a mutex of the same object held (a write lock for updates and
// deletes) — in the function itself, or at every static call site of the function (one level: the "…Locked" helper
// idiom).  Objects allocated in the same function (constructors) are not shared yet and are exempt.  An unsynchronised
// map access next to a concurrent writer is a fatal "concurrent map read and map write", which no recover() stops.
// `want` restricts the rule to some accesses (by the name of the struct type or, for anonymous structs of package
// variables, of the variable, and by the accessing function).
func checkGuardedMaps(c *Ctx, rule string, want func(owner string, fn *ssa.Function) bool, floor int) {
	p := c.P
	n := 0
	for _, fn := range p.LibFuncs() {
		eachInstr(fn, func(in ssa.Instruction) {
			fa, ok := in.(*ssa.FieldAddr)
			if !ok {
				return
			}
			st := derefStruct(fa.X.Type())
			if st == nil {
				return
			}
			fld := st.Field(fa.Field)
			if _, isMap := fld.Type().Underlying().(*types.Map); !isMap {
				return
			}
			var mutexes []string
			for i := 0; i < st.NumFields(); i++ {
				if isMutexType(st.Field(i).Type()) {
					mutexes = append(mutexes, st.Field(i).Name())
				}
			}
			if len(mutexes) == 0 {
				return
			}
			root, path := accessPath(fa)
			owner := typeName(derefType(fa.X.Type()))
			if g, isG := root.(*ssa.Global); isG && namedOf(derefType(fa.X.Type())) == nil {
				owner = g.Name()
			}
			if want != nil && !want(owner, fn) {
				return
			}
			if root == nil || isFreshRoot(root) {
				return
			}
			// uses of the map: through loads of the field
			write, used := false, false
			for _, r := range *fa.Referrers() {
				switch x := r.(type) {
				case *ssa.Store:
					if x.Addr == ssa.Value(fa) {
						write, used = true, true
					}
				case *ssa.UnOp:
					for _, rr := range *x.Referrers() {
						switch y := rr.(type) {
						case *ssa.MapUpdate:
							if y.Map == ssa.Value(x) {
								write, used = true, true
							}
						case *ssa.Lookup, *ssa.Range:
							used = true
						case *ssa.Call:
							switch builtinName(&y.Call) {
							case "delete", "clear":
								write, used = true, true
							case "len":
								used = true
							}
						}
					}
				}
			}
			if !used {
				return
			}
			// the mutex keys this access may be protected by: "<root type>.<path of the struct>.<mutex field>"
			prefix := path
			if i := len(prefix) - len(fld.Name()); i >= 0 {
				prefix = prefix[:i]
			}
			held := ""
			for _, m := range mutexes {
				k := typeName(root.Type()) + "." + prefix + m
				if h := heldAt(in, root, k); h == "Lock" || (h == "RLock" && held == "") {
					held = h
				}
			}
			if held == "" {
				// one level up: every static call site holds a mutex of the receiver it passes
				if callers := p.callersOfStatic(fn); len(callers) > 0 && len(p.refsAsValue(fn)) == 0 {
					if prm, isParam := rootParam(root).(*ssa.Parameter); isParam {
						idx := -1
						for i, q := range fn.Params {
							if q == prm {
								idx = i
							}
						}
						all := idx >= 0
						lvl := "Lock"
						for _, site := range callers {
							cc := callOf(site)
							args := cc.Args
							if !all || idx >= len(args) {
								all = false
								break
							}
							aroot, apath := accessPath(args[idx])
							if aroot == nil {
								all = false
								break
							}
							if isFreshRoot(aroot) {
								continue
							}
							h := ""
							for _, m := range mutexes {
								ap := apath
								if ap != "" {
									ap += "."
								}
								k := typeName(aroot.Type()) + "." + ap + prefix + m
								if x := heldAt(site, aroot, k); x == "Lock" || (x == "RLock" && h == "") {
									h = x
								}
							}
							if h == "" {
								all = false
								break
							}
							if h == "RLock" {
								lvl = "RLock"
							}
						}
						if all {
							held = lvl
						}
					}
				}
			}
			n++
			kind := "read"
			if write {
				kind = "written"
			}
			key := fmt.Sprintf("%s.%s %s in %s", owner, fld.Name(), kind, fnName(fn))
			good := held == "Lock" || (held == "RLock" && !write)
			c.check(good, rule, key, p.Pos(in.Pos()),
				"the map is touched with its struct's mutex held ("+held+")",
				"the map "+owner+"."+fld.Name()+" shares its struct with a mutex and is "+kind+" here without it (held: \""+held+"\"): next to a concurrent writer this is a fatal concurrent map access")
		})
	}
	c.floor(rule, floor)
}

// checkGuardedMapsCollect reports, for every access to a map that shares its struct with a mutex, the owner and the
// accessing function (the same enumeration as checkGuardedMaps, without deciding anything).
func checkGuardedMapsCollect(p *Program, f func(owner string, fn *ssa.Function)) {
	for _, fn := range p.LibFuncs() {
		eachInstr(fn, func(in ssa.Instruction) {
			fa, ok := in.(*ssa.FieldAddr)
			if !ok {
				return
			}
			st := derefStruct(fa.X.Type())
			if st == nil {
				return
			}
			if _, isMap := st.Field(fa.Field).Type().Underlying().(*types.Map); !isMap {
				return
			}
			hasMu := false
			for i := 0; i < st.NumFields(); i++ {
				if isMutexType(st.Field(i).Type()) {
					hasMu = true
				}
			}
			if !hasMu {
				return
			}
			root, _ := accessPath(fa)
			owner := typeName(derefType(fa.X.Type()))
			if g, isG := root.(*ssa.Global); isG && namedOf(derefType(fa.X.Type())) == nil {
				owner = g.Name()
			}
			f(owner, fn)
		})
	}
}

// checkFailedReadIsFinal: a read from the packet stream that failed is the last one.  Frames are delimited only by
// their length words, so after a read that failed part-way (a time-out in the middle of a frame, a short read) the
// stream position is unknown and the next bytes would be taken for a length word: whatever the peer put into a
// payload is then parsed as packets.  Decided on paths: behind every call that reads from the stream (io.ReadFull and
// the module functions with an error result that reach it) another such call is reachable only through the nil side
// of a test of the first call's error.
func checkFailedReadIsFinal(c *Ctx, rule string, floor int) {
	checkFailedStepIsFinal(c, rule, floor, false)
}

// checkDecodeLoopEndsOnError: in a loop that threads a byte cursor through a decoder of the module (a function that
// returns the rest of its input and an error), the next iteration is reachable only where the decoder's error was found
// nil.  A decoder that fails need not have consumed anything: going round again on its error is a loop that never ends
// on a truncated or damaged list (a reply of a few bytes wedges the caller for ever).
func checkDecodeLoopEndsOnError(c *Ctx, rule string, floor int) {
	checkFailedStepIsFinal(c, rule, floor, true)
}

func checkFailedStepIsFinal(c *Ctx, rule string, floor int, decodeLoops bool) {
	p := c.P
	prim := func(_ *ssa.Function, in ssa.Instruction) bool {
		cc := callOf(in)
		return cc != nil && callIs(cc, "io.ReadFull")
	}
	reach := p.reachSet(prim)
	hasErrResult := func(f *ssa.Function) int {
		res := f.Signature.Results()
		for i := 0; i < res.Len(); i++ {
			if isErrorType(res.At(i).Type()) {
				return i
			}
		}
		return -1
	}
	isRead := func(in ssa.Instruction) bool {
		if _, ok := in.(*ssa.Call); !ok {
			return false
		}
		if decodeLoops {
			f := callOf(in).StaticCallee()
			if f == nil || !inModule(f) || hasErrResult(f) < 0 || !inLoop(in) {
				return false
			}
			// cursor-threading: a []byte result of the call comes back as one of its []byte arguments in the next
			// iteration (through a phi of the loop, or through a local variable held in memory)
			call := in.(*ssa.Call)
			isBytes := func(t types.Type) bool {
				sl, ok := t.Underlying().(*types.Slice)
				if !ok {
					return false
				}
				b, ok := sl.Elem().Underlying().(*types.Basic)
				return ok && b.Kind() == types.Byte
			}
			var outs []ssa.Value
			if refs := call.Referrers(); refs != nil {
				for _, r := range *refs {
					if ex, ok := r.(*ssa.Extract); ok && isBytes(ex.Type()) {
						outs = append(outs, ex)
					}
				}
			}
			if len(outs) == 0 {
				return false
			}
			var from func(v ssa.Value, d int) bool
			from = func(v ssa.Value, d int) bool {
				if d > 12 {
					return false
				}
				for _, o := range outs {
					if v == o {
						return true
					}
				}
				switch x := v.(type) {
				case *ssa.Phi:
					for _, e := range x.Edges {
						if e != v && from(e, d+1) {
							return true
						}
					}
				case *ssa.Slice:
					return from(x.X, d+1)
				case *ssa.Extract:
					// the rest another decoder of the chain handed back
					if oc, ok := x.Tuple.(*ssa.Call); ok && oc != call && isBytes(x.Type()) {
						for _, a := range oc.Call.Args {
							if isBytes(a.Type()) && from(a, d+1) {
								return true
							}
						}
					}
				case *ssa.UnOp:
					if a, ok := x.X.(*ssa.Alloc); ok {
						for _, st := range storesTo(a.Parent(), a) {
							if from(st.Val, d+1) {
								return true
							}
						}
					}
				}
				return false
			}
			for _, a := range call.Call.Args {
				if isBytes(a.Type()) && from(a, 0) {
					return true
				}
			}
			return false
		}
		if prim(nil, in) {
			return true
		}
		f := callOf(in).StaticCallee()
		return f != nil && inModule(f) && reach[f] && hasErrResult(f) >= 0
	}
	n := 0
	for _, fn := range p.LibFuncs() {
		for _, site := range findInstrs(fn, isRead) {
			call := site.(*ssa.Call)
			// the error of this call, and the values it is copied to
			errIdx := 1
			if f := call.Call.StaticCallee(); f != nil && inModule(f) {
				errIdx = hasErrResult(f)
			}
			errVals := map[ssa.Value]bool{}
			var add func(v ssa.Value, d int)
			add = func(v ssa.Value, d int) {
				if v == nil || errVals[v] || d > 4 {
					return
				}
				errVals[v] = true
				if refs := v.Referrers(); refs != nil {
					for _, r := range *refs {
						switch x := r.(type) {
						case *ssa.Phi:
							add(x, d+1)
						case *ssa.Store:
							if x.Val == v {
								if a, ok := x.Addr.(*ssa.Alloc); ok {
									for _, rr := range *a.Referrers() {
										if u, ok := rr.(*ssa.UnOp); ok {
											add(u, d+1)
										}
									}
								}
							}
						case *ssa.ChangeInterface:
							add(x, d+1)
						case *ssa.MakeInterface:
							add(x, d+1)
						}
					}
				}
			}
			if call.Type() != nil {
				if tup, isTuple := call.Type().(*types.Tuple); isTuple {
					for _, r := range *call.Referrers() {
						if ex, ok := r.(*ssa.Extract); ok && ex.Index == errIdx && errIdx < tup.Len() {
							add(ex, 0)
						}
					}
				} else if isErrorType(call.Type()) {
					add(call, 0)
				}
			}
			nilEdge := map[[2]*ssa.BasicBlock]bool{}
			for v := range errVals {
				for _, t := range nilTests(v) {
					nilEdge[[2]*ssa.BasicBlock{t.iff.Block(), t.isNil}] = true
				}
			}
			again := reachCoreX(site.Block(), idxIn(site)+1, func(in ssa.Instruction) bool {
				if decodeLoops {
					return in == site
				}
				// another read — or, in the frame readers of the filexfer package, a decoder: what a failed read left in
				// the buffer is not a packet
				if isRead(in) {
					return true
				}
				if cc := callOf(in); cc != nil && outermost(fn).Package() != nil && outermost(fn).Package().Pkg.Path() == pkgSshfx {
					if f := cc.StaticCallee(); f != nil && inModule(f) && strings.HasPrefix(f.Name(), "Unmarshal") {
						_, isCall := in.(*ssa.Call)
						return isCall
					}
				}
				return false
			}, nil,
				func(a, b *ssa.BasicBlock, _ int) bool { return nilEdge[[2]*ssa.BasicBlock{a, b}] })
			n++
			what := "io.ReadFull"
			if f := call.Call.StaticCallee(); f != nil && inModule(f) {
				what = fnName(f)
			}
			if decodeLoops {
				c.check(!again, rule, fmt.Sprintf("%s in a loop of %s", what, fnName(fn)), p.Pos(site.Pos()),
					"the next iteration is reachable only where the decoder's error was found nil",
					"the loop goes round again without the decoder's error having been found nil: a decoder that fails need not consume anything, so a truncated or damaged list keeps the loop spinning for ever")
				continue
			}
			c.check(!again, rule, fmt.Sprintf("read by %s in %s", what, fnName(fn)), p.Pos(site.Pos()),
				"another read from the stream is reachable only where this one's error was found nil",
				"after this read another read from the stream is reachable without the first one's error having been found nil: a read that failed part-way (time-out, short read) is followed by a read that takes payload bytes for a frame header")
		}
	}
	c.floor(rule, floor)
}
