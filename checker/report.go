package main

import (
	"bufio"
	"encoding/json"
	"fmt"
	"os"
	"path/filepath"
	"sort"
	"strings"
	"time"
)

type Status int

const (
	Discharged Status = iota
	Violated
	Undecided
)

func (s Status) String() string {
	switch s {
	case Discharged:
		return "discharged"
	case Violated:
		return "violated"
	}
	return "undecided"
}

// Obligation is one decided (or undecidable) instance of a rule.
type Obligation struct {
	Rule   string `json:"rule"`   // e.g. "C14.R3"
	Key    string `json:"key"`    // stable construct key (function + construct), never a line number
	Pos    string `json:"pos"`    // file:line, for the reader only
	Status string `json:"status"` // discharged | violated | undecided | known-finding
	Detail string `json:"detail"`
	Config string `json:"config,omitempty"`
	status Status
	// trivial obligations are discharged by constant folding or type identity alone
	trivial bool
}

// Ctx collects the obligations of one property run.
type Ctx struct {
	only  string
	onlyKeys []string
	remap  string
	P      *Program
	Prop   string
	Tier   string
	obs    []*Obligation
	floors map[string]int // rule -> minimum instance count confirmed by hand
	seen   map[string]bool
	funcs  map[string]bool // functions looked at
	notes  []string
	assume []string
	trust  []string
}

func newCtx(p *Program, prop, tier string) *Ctx {
	return &Ctx{P: p, Prop: prop, Tier: tier, floors: map[string]int{}, seen: map[string]bool{}, funcs: map[string]bool{}}
}

// withRule runs f with every rule id it emits replaced by `rule` (and floors ignored): used to report a group of
// rules that was written for one property under another property that depends on the same facts.
func (c *Ctx) withRule(rule string, f func()) {
	if c.only != "" {
		return // inside withOnly: another property's shared rules are not the rule that was asked for
	}
	old := c.remap
	c.remap = rule
	defer func() { c.remap = old }()
	f()
}

// withOnly runs f (the rules of another property) keeping only the obligations it files under rule `orig`, reported as
// `rule` here.
func (c *Ctx) withOnly(orig, rule string, f func()) {
	if c.only != "" {
		return
	}
	oldRemap := c.remap
	c.only, c.remap = orig, rule
	defer func() { c.only, c.remap = "", oldRemap }()
	f()
}

// withOnlyKeys is withOnly restricted to obligations whose key contains one of the given substrings.
func (c *Ctx) withOnlyKeys(orig, rule string, keys []string, f func()) {
	if c.only != "" {
		return
	}
	c.onlyKeys = keys
	defer func() { c.onlyKeys = nil }()
	c.withOnly(orig, rule, f)
}

func (c *Ctx) add(rule, key, pos string, st Status, detail string, trivial bool) *Obligation {
	if c.only != "" && rule != c.only {
		return &Obligation{}
	}
	if c.only != "" && len(c.onlyKeys) > 0 {
		keep := false
		for _, k := range c.onlyKeys {
			if strings.Contains(key, k) {
				keep = true
			}
		}
		if !keep {
			return &Obligation{}
		}
	}
	if c.remap != "" {
		rule = c.remap
	}
	full := c.Prop + "." + rule
	k := full + "|" + key
	// keys must be unique: disambiguate repeated constructs by ordinal
	if c.seen[k] {
		for i := 2; ; i++ {
			k2 := fmt.Sprintf("%s#%d", key, i)
			if !c.seen[full+"|"+k2] {
				key = k2
				k = full + "|" + k2
				break
			}
		}
	}
	c.seen[k] = true
	o := &Obligation{Rule: full, Key: key, Pos: pos, Detail: detail, status: st, Status: st.String(), Config: c.P.Cfg.Name, trivial: trivial}
	c.obs = append(c.obs, o)
	return o
}

func (c *Ctx) ok(rule, key, pos, detail string)  { c.add(rule, key, pos, Discharged, detail, false) }
func (c *Ctx) okT(rule, key, pos, detail string) { c.add(rule, key, pos, Discharged, detail, true) }
func (c *Ctx) bad(rule, key, pos, detail string) { c.add(rule, key, pos, Violated, detail, false) }
func (c *Ctx) und(rule, key, pos, detail string) { c.add(rule, key, pos, Undecided, detail, false) }
func (c *Ctx) floor(rule string, n int) {
	if c.remap != "" {
		return
	}
	c.floors[c.Prop+"."+rule] = n
}
func (c *Ctx) note(format string, a ...any) { c.notes = append(c.notes, fmt.Sprintf(format, a...)) }
func (c *Ctx) assumes(s ...string)          { c.assume = append(c.assume, s...) }
func (c *Ctx) trusted(s ...string)          { c.trust = append(c.trust, s...) }
func (c *Ctx) looked(fn string)             { c.funcs[fn] = true }
func (c *Ctx) check(cond bool, rule, key, pos, okDetail, badDetail string) {
	if cond {
		c.ok(rule, key, pos, okDetail)
	} else {
		c.bad(rule, key, pos, badDetail)
	}
}

// missing reports an anchor that no longer resolves: undecided, hence failing.
func (c *Ctx) missing(rule, what string) {
	c.und(rule, "anchor:"+what, "?", "anchor "+what+" does not resolve in the current tree; the rule cannot be decided")
}

// ---- known findings ----

type knownFinding struct {
	Prop, Rule, Key, Text string
}

func loadKnown(path string) ([]knownFinding, error) {
	f, err := os.Open(path)
	if err != nil {
		if os.IsNotExist(err) {
			return nil, nil
		}
		return nil, err
	}
	defer f.Close()
	var out []knownFinding
	sc := bufio.NewScanner(f)
	for sc.Scan() {
		line := strings.TrimSpace(sc.Text())
		if !strings.HasPrefix(line, "finding:") {
			continue // comments and "fixed:" entries suppress nothing
		}
		rest := strings.TrimSpace(strings.TrimPrefix(line, "finding:"))
		text := ""
		if i := strings.Index(rest, " — "); i >= 0 {
			text = strings.TrimSpace(rest[i+len(" — "):])
			rest = rest[:i]
		}
		kf := knownFinding{Text: text}
		// fields: property=Cxx rule=Rn key=<rest of line>
		if i := strings.Index(rest, " key="); i >= 0 {
			kf.Key = strings.TrimSpace(rest[i+len(" key="):])
			rest = rest[:i]
		}
		for _, f := range strings.Fields(rest) {
			if strings.HasPrefix(f, "property=") {
				kf.Prop = strings.TrimPrefix(f, "property=")
			} else if strings.HasPrefix(f, "rule=") {
				kf.Rule = strings.TrimPrefix(f, "rule=")
			}
		}
		if kf.Prop == "" || kf.Rule == "" || kf.Key == "" {
			return nil, fmt.Errorf("known findings: malformed line %q", line)
		}
		out = append(out, kf)
	}
	return out, sc.Err()
}

// ---- evidence ----

type evidence struct {
	PropertyID  string         `json:"property_id"`
	Tier        string         `json:"tier"`
	Seed        int            `json:"seed"`
	Level       string         `json:"level"`
	Coverage    map[string]any `json:"coverage"`
	Assumptions []string       `json:"assumptions"`
	WallS       float64        `json:"wall_s"`
	Violations  int            `json:"violations"`
}

type runResult struct {
	obs       []*Obligation
	floors    map[string]int
	funcs     map[string]bool
	notes     []string
	assume    []string
	trust     []string
	configs   []string
	stats     map[string]any
	selftests []string
}

func (r *runResult) merge(c *Ctx) {
	r.obs = append(r.obs, c.obs...)
	if r.floors == nil {
		r.floors = map[string]int{}
		r.funcs = map[string]bool{}
	}
	for k, v := range c.floors {
		r.floors[k] = v
	}
	for k := range c.funcs {
		r.funcs[k] = true
	}
	r.notes = append(r.notes, c.notes...)
	for _, a := range c.assume {
		if !contains(r.assume, a) {
			r.assume = append(r.assume, a)
		}
	}
	for _, a := range c.trust {
		if !contains(r.trust, a) {
			r.trust = append(r.trust, a)
		}
	}
	r.configs = append(r.configs, c.P.Cfg.Name)
}

func contains(xs []string, s string) bool {
	for _, x := range xs {
		if x == s {
			return true
		}
	}
	return false
}

// finish applies floors and known findings, prints the report, writes evidence
// and returns the process exit code.
func finish(prop, tier, level, explanation string, seed int, r *runResult, known []knownFinding, outDir string, start time.Time, cmdline string) int {
	// instance floors, per configuration
	perCfg := map[string]map[string]int{}
	for _, o := range r.obs {
		if perCfg[o.Config] == nil {
			perCfg[o.Config] = map[string]int{}
		}
		perCfg[o.Config][o.Rule]++
	}
	for _, cfg := range r.configs {
		for rule, min := range r.floors {
			if got := perCfg[cfg][rule]; got < min {
				r.obs = append(r.obs, &Obligation{Rule: rule, Key: "instance-floor", Pos: "?", status: Undecided, Status: "undecided", Config: cfg,
					Detail: fmt.Sprintf("rule matched %d instances, fewer than the %d confirmed by hand: the rule may have lost its anchor", got, min)})
			}
		}
	}
	sort.SliceStable(r.obs, func(i, j int) bool {
		if r.obs[i].Rule != r.obs[j].Rule {
			return r.obs[i].Rule < r.obs[j].Rule
		}
		return r.obs[i].Key < r.obs[j].Key
	})

	violations := 0
	knownHit := map[string]bool{}
	var vio []*Obligation
	printedKF := map[string]bool{}
	for _, o := range r.obs {
		if o.status == Discharged {
			continue
		}
		matched := false
		for _, k := range known {
			if k.Prop == prop && prop+"."+k.Rule == o.Rule && k.Key == o.Key {
				matched = true
				o.Status = "known-finding"
				id := k.Prop + k.Rule + k.Key
				knownHit[id] = true
				if !printedKF[id] {
					printedKF[id] = true
					fmt.Printf("KNOWN-FINDING: property=%s rule=%s %s [%s] — %s\n", prop, k.Rule, o.Key, o.Pos, k.Text)
				}
				break
			}
		}
		if matched {
			continue
		}
		violations++
		vio = append(vio, o)
	}
	_ = os.MkdirAll(filepath.Join(outDir, "violations"), 0o755)
	// remove stale replay files of this property
	old, _ := filepath.Glob(filepath.Join(outDir, "violations", prop+"-*.json"))
	for _, f := range old {
		os.Remove(f)
	}
	for i, o := range vio {
		path := filepath.Join(outDir, "violations", fmt.Sprintf("%s-%d.json", prop, i+1))
		b, _ := json.MarshalIndent(map[string]any{"property": prop, "obligation": o, "cmd": cmdline}, "", " ")
		os.WriteFile(path, b, 0o644)
		fmt.Printf("%s: %s %s [%s]: %s: %s\n", o.Pos, o.Rule, o.Key, o.Config, o.Status, o.Detail)
		fmt.Printf("VIOLATION property=%s replay=%s\n", prop, path)
	}

	// coverage
	total, disch, nontrivial := 0, 0, 0
	distinct := map[string]bool{}
	perRule := map[string]int{}
	for _, o := range r.obs {
		total++
		perRule[o.Rule]++
		if o.status == Discharged {
			disch++
			if !o.trivial && !distinct[o.Rule+"|"+o.Key] {
				distinct[o.Rule+"|"+o.Key] = true
				nontrivial++
			}
		}
	}
	var samples []any
	seenRule := map[string]int{}
	for _, o := range r.obs {
		if seenRule[o.Rule] < 2 && len(samples) < 40 {
			seenRule[o.Rule]++
			samples = append(samples, o)
		}
	}
	var fnames []string
	for f := range r.funcs {
		fnames = append(fnames, f)
	}
	sort.Strings(fnames)
	if r.trust == nil {
		r.trust = []string{}
	}
	if r.notes == nil {
		r.notes = []string{}
	}
	if r.selftests == nil {
		r.selftests = []string{}
	}
	if samples == nil {
		samples = []any{}
	}
	cov := map[string]any{
		"evaluations":         total,
		"distinct_nontrivial": nontrivial,
		"rule":                "one obligation per (rule, function, construct) instance found in /repo's type-checked SSA/AST; distinct = distinct (rule,key); non-trivial = not discharged by constant folding or type identity alone",
		"samples":             samples,
		"obligations":         total,
		"discharged":          disch,
		"known_findings":      len(knownHit),
		"checker_cmd":         cmdline,
		"trusted_base":        r.trust,
		"explanation":         explanation,
		"per_rule_instances":  perRule,
		"functions_analysed":  fnames,
		"configs":             r.configs,
		"notes":               r.notes,
		"selftests":           r.selftests,
	}
	for k, v := range r.stats {
		cov[k] = v
	}
	ev := evidence{PropertyID: prop, Tier: tier, Seed: seed, Level: level, Coverage: cov, Assumptions: r.assume,
		WallS: time.Since(start).Seconds(), Violations: violations}
	if ev.Assumptions == nil {
		ev.Assumptions = []string{}
	}
	b, _ := json.MarshalIndent(ev, "", " ")
	if err := os.WriteFile(filepath.Join(outDir, prop+".json"), b, 0o644); err != nil {
		fmt.Printf("cannot write evidence: %v\n", err)
		return 2
	}
	fmt.Printf("%s %s: %d obligations, %d discharged, %d known findings, %d violations, %d rules, configs=%v, %.1fs\n",
		prop, tier, total, disch, len(knownHit), violations, len(perRule), r.configs, time.Since(start).Seconds())
	if violations > 0 {
		return 1
	}
	return 0
}
