package main

// De-extraction.
//
// "Extract function" is the commonest behaviour-preserving edit, and it moves the very instructions a rule looks for
// out of the function the rule is anchored in (into a new helper, a new method started with `go`, a small locked
// helper).  Rather than teach every rule to look through calls, the loader undoes the extraction before analysis: a
// function that the reference symbol table does not know (and that the rename matcher did not identify with a
// reference symbol) is inlined at each of its static call sites with the inliner of golang.org/x/tools
// (internal/refactor/inline, vendored unchanged under xt/ — the one gopls uses; it is semantics-preserving by
// construction and falls back to a function literal where a call cannot be reduced), in an in-memory overlay, one call
// per file and round, re-type-checking between rounds; once no call is left the declaration is dropped.  The rules then
// run on code that has the reference tree's shape.  Whatever cannot be inlined (a function used as a value, recursion,
// an inliner refusal) is left as it is, and the rules that trip over it report as before.  Like the rename overlay,
// this never makes a rule fire: it only gives rules the chance to recognise code they already know.

import (
	"bytes"
	"fmt"
	"go/ast"
	"go/parser"
	"go/printer"
	"go/token"
	"go/types"
	"io"
	"os"
	"sort"
	"strings"

	"golang.org/x/tools/go/packages"

	"sftpcheck/xt/x/refactor/inline"
)

const maxInlineRounds = 40

// lightBase is the full load (all dependencies type-checked from source) that the light loads below borrow their
// dependencies and file lists from; set by Load.
var lightBase map[string]*packages.Package

// loadLight parses and type-checks only the module's own packages, with the overlay's contents, against the
// dependencies of the full load.  Nothing is run: `go list -export` would compile every variant of the module into the
// user's build cache (about 12 MB per round), and the file lists do not change — the normaliser only rewrites files.
func loadLight(repo string, cfg BuildConfig, overlay map[string][]byte) (map[string]*packages.Package, error) {
	base := lightBase
	if base == nil {
		return nil, fmt.Errorf("no full load to borrow dependencies from")
	}
	var mod []*packages.Package
	for path, pk := range base {
		if path == pkgSftp || strings.HasPrefix(path, pkgSftp+"/") {
			mod = append(mod, pk)
		}
	}
	sort.Slice(mod, func(i, j int) bool { return mod[i].PkgPath < mod[j].PkgPath })
	out := map[string]*packages.Package{}
	fset := token.NewFileSet()
	var check func(pk *packages.Package, depth int) (*packages.Package, error)
	check = func(pk *packages.Package, depth int) (*packages.Package, error) {
		if np, ok := out[pk.PkgPath]; ok {
			if np == nil {
				return nil, fmt.Errorf("import cycle through %s", pk.PkgPath)
			}
			return np, nil
		}
		out[pk.PkgPath] = nil
		np := &packages.Package{ID: pk.ID, Name: pk.Name, PkgPath: pk.PkgPath, GoFiles: pk.GoFiles, CompiledGoFiles: pk.CompiledGoFiles,
			Fset: fset, TypesSizes: pk.TypesSizes, Module: pk.Module, Imports: map[string]*packages.Package{}}
		for ipath, ip := range pk.Imports {
			if ip.PkgPath == pkgSftp || strings.HasPrefix(ip.PkgPath, pkgSftp+"/") {
				d, err := check(ip, depth+1)
				if err != nil {
					return nil, err
				}
				np.Imports[ipath] = d
			} else {
				np.Imports[ipath] = ip
			}
		}
		var firstErr error
		for _, name := range pk.CompiledGoFiles {
			var src any
			if b, ok := overlay[name]; ok {
				src = b
			}
			f, err := parser.ParseFile(fset, name, src, parser.AllErrors|parser.ParseComments)
			if err != nil && firstErr == nil {
				firstErr = err
			}
			if f != nil {
				np.Syntax = append(np.Syntax, f)
			}
		}
		np.TypesInfo = &types.Info{
			Types: map[ast.Expr]types.TypeAndValue{}, Defs: map[*ast.Ident]types.Object{}, Uses: map[*ast.Ident]types.Object{},
			Implicits: map[ast.Node]types.Object{}, Instances: map[*ast.Ident]types.Instance{}, Scopes: map[ast.Node]*types.Scope{},
			Selections: map[*ast.SelectorExpr]*types.Selection{}, FileVersions: map[*ast.File]string{},
		}
		tc := &types.Config{
			Importer: importerFunc(func(path string) (*types.Package, error) {
				if path == "unsafe" {
					return types.Unsafe, nil
				}
				ip := np.Imports[path]
				if ip == nil || ip.Types == nil {
					return nil, fmt.Errorf("no package for import %q", path)
				}
				return ip.Types, nil
			}),
			Sizes: pk.TypesSizes,
			Error: func(err error) {
				if firstErr == nil {
					firstErr = err
				}
			},
		}
		if pk.Module != nil && pk.Module.GoVersion != "" {
			tc.GoVersion = "go" + pk.Module.GoVersion
		}
		np.Types = types.NewPackage(pk.PkgPath, pk.Name)
		types.NewChecker(tc, fset, np.Types, np.TypesInfo).Files(np.Syntax)
		if firstErr != nil {
			np.Errors = append(np.Errors, packages.Error{Msg: firstErr.Error(), Kind: packages.TypeError})
			if !strings.Contains(pk.PkgPath, "/examples/") {
				return nil, fmt.Errorf("%s: %v", pk.PkgPath, firstErr)
			}
		}
		out[pk.PkgPath] = np
		return np, nil
	}
	for _, pk := range mod {
		if _, err := check(pk, 0); err != nil {
			return nil, err
		}
	}
	return out, nil
}

type importerFunc func(path string) (*types.Package, error)

func (f importerFunc) Import(path string) (*types.Package, error) { return f(path) }

type freshFunc struct {
	pkg  *packages.Package
	decl *ast.FuncDecl
	obj  *types.Func
	file *ast.File
}

// freshFunctions lists the unexported functions and methods with bodies that the reference table lacks.
func freshFunctions(ref symTable, cfg string, pkgs map[string]*packages.Package) []freshFunc {
	var out []freshFunc
	// a reference function or method that is gone, and a new one of the same name with another home (a function that
	// became a method, a method moved to another receiver): the same code re-homed, not an extracted helper
	curKeys := map[string]bool{}
	for path, pk := range pkgs {
		if !strings.HasPrefix(path, pkgSftp) || pk.TypesInfo == nil {
			continue
		}
		for _, f := range pk.Syntax {
			for _, d := range f.Decls {
				if fd, ok := d.(*ast.FuncDecl); ok {
					key := path + "|" + fd.Name.Name
					if fd.Recv != nil && len(fd.Recv.List) == 1 {
						t := fd.Recv.List[0].Type
						if st, ok := t.(*ast.StarExpr); ok {
							t = st.X
						}
						if id, ok := t.(*ast.Ident); ok {
							key = path + "|" + id.Name + "." + fd.Name.Name
						}
					}
					curKeys[key] = true
				}
			}
		}
	}
	rehomed := map[string]bool{} // pkg|shortname
	for k, e := range ref {
		if (e.Kind == "func" || e.Kind == "method") && hasCfg(e, cfg) && !curKeys[k] {
			pkgPath, owner, name := splitKey(k)
			if oe := ref[pkgPath+"|"+owner]; owner != "" && oe != nil && oe.Sig == "interface" {
				continue // a method of an interface has no declaration to lose
			}
			rehomed[pkgPath+"|"+name] = true
			if os.Getenv("VERIF_DEBUG_NORMALIZE") != "" {
				fmt.Fprintln(os.Stderr, "re-homed candidate:", k)
			}
		}
	}
	for path, pk := range pkgs {
		if !strings.HasPrefix(path, pkgSftp) || strings.Contains(path, "/examples/") || strings.HasSuffix(path, "/server_standalone") || pk.TypesInfo == nil {
			continue
		}
		for _, f := range pk.Syntax {
			for _, d := range f.Decls {
				fd, ok := d.(*ast.FuncDecl)
				if !ok || fd.Body == nil || fd.Name.Name == "init" || fd.Name.Name == "main" || fd.Name.Name == "_" {
					continue
				}
				if fd.Name.IsExported() {
					// an exported name is API — except as a method of an unexported type the reference tree does not have
					// (the Truncate/Chmod/… of an adapter type introduced by the change)
					isFreshTypeMethod := false
					if fd.Recv != nil && len(fd.Recv.List) == 1 {
						t := fd.Recv.List[0].Type
						if st, ok := t.(*ast.StarExpr); ok {
							t = st.X
						}
						if id, ok := t.(*ast.Ident); ok && !id.IsExported() {
							if e := ref[path+"|"+id.Name]; e == nil || !hasCfg(e, cfg) {
								isFreshTypeMethod = true
							}
						}
					}
					if !isFreshTypeMethod {
						continue
					}
				}
				if fd.Type.TypeParams != nil {
					continue
				}
				obj, _ := pk.TypesInfo.Defs[fd.Name].(*types.Func)
				if obj == nil {
					continue
				}
				key := path + "|" + fd.Name.Name
				if fd.Recv != nil && len(fd.Recv.List) == 1 {
					t := fd.Recv.List[0].Type
					if st, ok := t.(*ast.StarExpr); ok {
						t = st.X
					}
					id, ok := t.(*ast.Ident)
					if !ok {
						continue
					}
					key = path + "|" + id.Name + "." + fd.Name.Name
				}
				if e := ref[key]; e != nil && hasCfg(e, cfg) {
					continue
				}
				if rehomed[path+"|"+fd.Name.Name] {
					continue
				}
				// a method that satisfies an interface of the module is not a helper
				out = append(out, freshFunc{pk, fd, obj, f})
			}
		}
	}
	sort.Slice(out, func(i, j int) bool { return out[i].obj.FullName() < out[j].obj.FullName() })
	return out
}

type callSite struct {
	pkg  *packages.Package
	file *ast.File
	call *ast.CallExpr
}

// usesOf finds the static calls of fn in the module and whether fn is referenced in any other way.
func usesOf(fn *types.Func, pkgs map[string]*packages.Package) (calls []callSite, other bool) {
	for path, pk := range pkgs {
		if !strings.HasPrefix(path, pkgSftp) || pk.TypesInfo == nil {
			continue
		}
		for _, f := range pk.Syntax {
			called := map[*ast.Ident]bool{}
			ast.Inspect(f, func(n ast.Node) bool {
				ce, ok := n.(*ast.CallExpr)
				if !ok {
					return true
				}
				var id *ast.Ident
				switch fun := ast.Unparen(ce.Fun).(type) {
				case *ast.Ident:
					id = fun
				case *ast.SelectorExpr:
					id = fun.Sel
				}
				if id != nil && pk.TypesInfo.Uses[id] == fn {
					called[id] = true
					calls = append(calls, callSite{pk, f, ce})
				}
				return true
			})
			ast.Inspect(f, func(n ast.Node) bool {
				if id, ok := n.(*ast.Ident); ok && pk.TypesInfo.Uses[id] == fn && !called[id] {
					other = true
				}
				return true
			})
		}
	}
	return
}

func callsItself(ff freshFunc) bool {
	rec := false
	ast.Inspect(ff.decl.Body, func(n ast.Node) bool {
		if id, ok := n.(*ast.Ident); ok && ff.pkg.TypesInfo.Uses[id] == ff.obj {
			rec = true
		}
		return true
	})
	return rec
}

func fileContent(fset *token.FileSet, f *ast.File, overlay map[string][]byte) (string, []byte, error) {
	name := fset.Position(f.FileStart).Filename
	if b, ok := overlay[name]; ok {
		return name, b, nil
	}
	b, err := os.ReadFile(name)
	return name, b, err
}

// deextract returns an overlay (extending `overlay`) in which the helpers unknown to the reference tree are inlined.
func deextract(repo string, cfg BuildConfig, ref symTable, overlay map[string][]byte, skip map[string]bool) (map[string][]byte, []string) {
	var notes []string
	ov := map[string][]byte{}
	for k, v := range overlay {
		ov[k] = v
	}
	gaveUp := map[string]bool{}
	inlinedOnce := map[string]bool{}
	changedAny := false
	var prev map[string][]byte // the overlay before the last round
	var lastRound []string     // the functions the last round worked on
	for round := 0; round < maxInlineRounds; round++ {
		pkgs, err := loadLight(repo, cfg, ov)
		if err != nil {
			if prev == nil {
				notes = append(notes, "de-extraction not attempted: the tree does not type-check in the light load: "+firstLine(err.Error()))
				return overlay, notes
			}
			// the last round broke the build (a dropped method that an interface needs, an inliner bug): undo it and
			// leave those functions alone
			notes = append(notes, "a de-extraction round was undone ("+firstLine(err.Error())+")")
			ov = prev
			prev = nil
			for _, n := range lastRound {
				gaveUp[n] = true
			}
			continue
		}
		prev = map[string][]byte{}
		for k, v := range ov {
			prev[k] = v
		}
		lastRound = nil
		fresh := freshFunctions(ref, cfg.Name, pkgs)
		progress := false
		touched := map[string]bool{}
		// statements inside a helper that is still going to be inlined are left as they are: rewriting them there and
		// copying the result to several call sites of one function would declare the same label or temporary twice;
		// they are rewritten where they end up
		type posRange struct{ s, e token.Pos }
		pending := map[*ast.File][]posRange{}
		for _, ff := range fresh {
			if name := ff.obj.FullName(); !gaveUp[name] && !skip[name] {
				pending[ff.file] = append(pending[ff.file], posRange{ff.decl.Pos(), ff.decl.End()})
			}
		}
		inPending := func(f *ast.File, p token.Pos) bool {
			for _, r := range pending[f] {
				if r.s <= p && p < r.e {
					return true
				}
			}
			return false
		}
		// literals the inliner had to leave are flattened first
		{
			// several statements of one file are rewritten in one round when their source ranges do not overlap
			type span struct {
				s, e int
				text []byte
			}
			perFile := map[string][]span{}
			overlaps := func(fname string, s0, e0 int) bool {
				for _, sp := range perFile[fname] {
					if s0 < sp.e && sp.s < e0 {
						return true
					}
				}
				return false
			}
			freshVars := freshClosureVars(ref, cfg.Name, pkgs)
			for _, site := range findClosureVars(pkgs, freshVars) {
				if !changedAny && !freshVars[closureVarObj(site)] {
					continue
				}
				if inPending(site.file, site.decl.Pos()) {
					continue
				}
				fname, content, err := fileContent(site.pkg.Fset, site.file, prev)
				if err != nil {
					continue
				}
				fset := site.pkg.Fset
				off := func(p token.Pos) int { return fset.Position(p).Offset }
				ds, de := off(site.decl.Pos()), off(site.decl.End())
				ls, le := off(site.lit.Pos()), off(site.lit.End())
				uses := append([]*ast.Ident{site.use}, site.more...)
				last := uses[len(uses)-1]
				if os.Getenv("VERIF_DEBUG_NORMALIZE") != "" {
					fmt.Fprintf(os.Stderr, "closure variable %s:%d uses=%d aliases=%d overlap=%v\n", fname, fset.Position(site.decl.Pos()).Line, len(uses), len(site.alias), overlaps(fname, ds, off(last.End())))
				}
				if ds < 0 || de > len(content) || off(site.use.Pos()) < de || off(last.End()) > len(content) || ls < ds || le > de || overlaps(fname, ds, off(last.End())) {
					continue
				}
				// the literal's text, captured variables that are hidden at a call reached through their pointer
				litText := append([]byte{}, content[ls:le]...)
				type rep struct {
					s, e int
					text string
				}
				var reps []rep
				var aliasDecl []byte
				for _, al := range site.alias {
					for _, id := range al.idents {
						reps = append(reps, rep{off(id.Pos()) - ls, off(id.End()) - ls, "(*" + al.name + ")"})
					}
					aliasDecl = append(aliasDecl, []byte(al.name+" := &"+al.target+"; _ = "+al.name+"; ")...)
				}
				sort.Slice(reps, func(i, j int) bool { return reps[i].s > reps[j].s })
				okReps := true
				for _, r := range reps {
					if r.s < 0 || r.e > len(litText) || r.s > r.e {
						okReps = false
						break
					}
					litText = append(append(append([]byte{}, litText[:r.s]...), []byte(r.text)...), litText[r.e:]...)
				}
				if !okReps {
					continue
				}
				lit := append([]byte("("), litText...)
				lit = append(lit, ')')
				// the edits: the declaration disappears (the pointers stay in its place), every call names the literal;
				// the text between them is reserved with the `_ = f` statements blanked
				type edit struct {
					s, e int
					text []byte
				}
				edits := []edit{{ds, de, aliasDecl}}
				for _, u := range uses {
					edits = append(edits, edit{off(u.Pos()), off(u.End()), lit})
				}
				sort.Slice(edits, func(i, j int) bool { return edits[i].s < edits[j].s })
				valid := true
				for i := 1; i < len(edits); i++ {
					if edits[i].s < edits[i-1].e {
						valid = false
					}
				}
				if !valid {
					continue
				}
				for i, e := range edits {
					if len(e.text) == 0 {
						perFile[fname] = append(perFile[fname], span{e.s, e.e, nil})
					} else {
						perFile[fname] = append(perFile[fname], span{e.s, e.e, e.text})
					}
					if i+1 < len(edits) {
						gs, ge := e.e, edits[i+1].s
						between := append([]byte{}, content[gs:ge]...)
						for _, st := range site.drop {
							bs, be := off(st.Pos()), off(st.End())
							if bs >= gs && be <= ge {
								for k := bs - gs; k < be-gs; k++ {
									between[k] = ' ' // the `_ = f` statement goes with the variable
								}
							}
						}
						perFile[fname] = append(perFile[fname], span{gs, ge, between})
					}
				}
			}
			for _, site := range findIIFEs(pkgs) {
				if !changedAny {
					break
				}
				if inPending(site.file, site.stmt.Pos()) {
					continue
				}
				fname, content, err := fileContent(site.pkg.Fset, site.file, prev)
				if err != nil {
					continue
				}
				so, eo := site.pkg.Fset.Position(site.stmt.Pos()).Offset, site.pkg.Fset.Position(site.stmt.End()).Offset
				if so < 0 || eo > len(content) || so >= eo || overlaps(fname, so, eo) {
					continue
				}
				text := flattenOne(site)
				if os.Getenv("VERIF_DEBUG_NORMALIZE") != "" {
					fmt.Fprintf(os.Stderr, "flatten %s:%d kw=%q args=%v -> %d bytes\n", fname, site.pkg.Fset.Position(site.stmt.Pos()).Line, site.spawnKw, site.spawn != nil, len(text))
				}
				if text == "" {
					continue
				}
				perFile[fname] = append(perFile[fname], span{so, eo, []byte(text)})
			}
			for _, ed := range findSmallRewrites(pkgs, fresh) {
				if ed.what == "hoist" && inPending(ed.file, ed.start) {
					continue
				}
				fname, content, err := fileContent(ed.pkg.Fset, ed.file, prev)
				if err != nil {
					continue
				}
				fset := ed.pkg.Fset
				off := func(p token.Pos) int { return fset.Position(p).Offset }
				so, eo := off(ed.start), off(ed.end)
				if so < 0 || eo > len(content) || so >= eo || overlaps(fname, so, eo) {
					continue
				}
				text := ed.text(content, off)
				if os.Getenv("VERIF_DEBUG_NORMALIZE") != "" {
					fmt.Fprintf(os.Stderr, "%s %s:%d -> %d bytes\n", ed.what, fname, fset.Position(ed.start).Line, len(text))
				}
				if text == nil {
					continue
				}
				perFile[fname] = append(perFile[fname], span{so, eo, text})
			}
			for fname, spans := range perFile {
				content := prev[fname]
				if content == nil {
					b, rerr := os.ReadFile(fname)
					if rerr != nil {
						continue
					}
					content = b
				}
				sort.Slice(spans, func(i, j int) bool { return spans[i].s > spans[j].s })
				out := append([]byte{}, content...)
				for _, sp := range spans {
					out = append(out[:sp.s:sp.s], append(append([]byte{}, sp.text...), out[sp.e:]...)...)
				}
				ov[fname] = out
				touched[fname] = true
				progress, changedAny = true, true
				lastRound = append(lastRound, "flatten")
			}
		}
		for _, ff := range fresh {
			name := ff.obj.FullName()
			if gaveUp[name] || skip[name] {
				continue
			}
			fset := ff.pkg.Fset
			if callsItself(ff) {
				gaveUp[name] = true
				notes = append(notes, name+": recursive, left as it is")
				continue
			}
			calls, other := usesOf(ff.obj, pkgs)
			if other {
				gaveUp[name] = true
				notes = append(notes, name+": used as a value, left as it is")
				continue
			}
			if len(calls) == 0 {
				if !inlinedOnce[name] {
					// not called statically (an interface method, dead code): not an extraction — unless a later
					// round turns a dynamic call into a static one, so it is looked at again then
					continue
				}
				lastRound = append(lastRound, name)
				// drop the declaration
				fname, content, err := fileContent(fset, ff.file, prev)
				if err != nil || touched[fname] {
					continue
				}
				start := ff.decl.Pos()
				if ff.decl.Doc != nil {
					start = ff.decl.Doc.Pos()
				}
				so, eo := fset.Position(start).Offset, fset.Position(ff.decl.End()).Offset
				if so < 0 || eo > len(content) || so >= eo {
					continue
				}
				nc := append(append([]byte{}, content[:so]...), content[eo:]...)
				ov[fname] = nc
				touched[fname] = true
				progress, changedAny = true, true
				notes = append(notes, name+": inlined at every call site, declaration dropped")
				continue
			}
			// the callee
			cfname, ccontent, err := fileContent(fset, ff.file, prev)
			if err != nil {
				continue
			}
			_ = cfname
			callee, err := inline.AnalyzeCallee(func(string, ...any) {}, fset, ff.pkg.Types, ff.pkg.TypesInfo, ff.decl, ccontent)
			if err != nil {
				gaveUp[name] = true
				notes = append(notes, name+": cannot be analysed for inlining ("+err.Error()+"), left as it is")
				continue
			}
			for _, cs := range calls {
				fname, content, err := fileContent(cs.pkg.Fset, cs.file, prev)
				if err != nil || touched[fname] {
					continue
				}
				// do not inline a call that sits inside another fresh function's body when that function will itself be
				// inlined later: innermost first keeps the rounds few — but correctness does not depend on the order
				res, err := inline.Inline(&inline.Caller{Fset: cs.pkg.Fset, Types: cs.pkg.Types, Info: cs.pkg.TypesInfo, File: cs.file, Call: cs.call}, callee, &inline.Options{Recover: true})
				if err != nil {
					gaveUp[name] = true
					notes = append(notes, name+": the inliner refused a call ("+firstLine(err.Error())+"), left as it is")
					break
				}
				nc, err := applyEdits(cs.pkg.Fset, content, res)
				if err != nil {
					gaveUp[name] = true
					notes = append(notes, name+": edits could not be applied ("+err.Error()+")")
					break
				}
				ov[fname] = nc
				touched[fname] = true
				progress, changedAny = true, true
				inlinedOnce[name] = true
				lastRound = append(lastRound, name)
			}
		}
		if !progress {
			break
		}
	}
	if !changedAny {
		return overlay, notes
	}
	return ov, notes
}

func firstLine(s string) string {
	if i := strings.IndexByte(s, '\n'); i >= 0 {
		return s[:i]
	}
	return s
}

func applyEdits(fset *token.FileSet, content []byte, res *inline.Result) ([]byte, error) {
	type ed struct {
		s, e int
		t    []byte
	}
	var eds []ed
	for _, e := range res.Edits {
		s := fset.Position(e.Pos).Offset
		en := s
		if e.End.IsValid() {
			en = fset.Position(e.End).Offset
		}
		if s < 0 || en > len(content) || s > en {
			return nil, fmt.Errorf("edit out of range")
		}
		eds = append(eds, ed{s, en, e.NewText})
	}
	sort.Slice(eds, func(i, j int) bool { return eds[i].s > eds[j].s })
	out := append([]byte{}, content...)
	last := len(out) + 1
	for _, e := range eds {
		if e.e > last {
			return nil, fmt.Errorf("overlapping edits")
		}
		out = append(out[:e.s:e.s], append(append([]byte{}, e.t...), out[e.e:]...)...)
		last = e.s
	}
	if bytes.Equal(out, content) {
		return nil, fmt.Errorf("no change")
	}
	return out, nil
}

// ---- flattening of immediately invoked function literals ----
//
// Where a call cannot be reduced to an expression or a block, the inliner leaves `x, y := func() (T, U) { … }()`.
// go/ssa does not inline that, so the rules would still look at a closure.  The reference tree contains no
// immediately invoked literal outside go/defer statements, so every one found in statement position is flattened:
//
//	var x T; var y U                       (only the names := newly defines)
//	{
//		var r1 T; var r2 U                  (the literal's results, renamed apart)
//	L:	switch { default: BODY }             (`return a, b` → `r1, r2 = a, b; break L`)
//		x, y = r1, r2
//	}
//
// which has the same meaning when BODY holds no defer, recover or goto and does not mention an outer variable that one
// of the hoisted names would shadow; otherwise the literal is left alone.

type iifeSite struct {
	pkg   *packages.Package
	file  *ast.File
	stmt  ast.Stmt
	lit   *ast.FuncLit
	lhs   []ast.Expr
	tok   token.Token // DEFINE, ASSIGN, or ILLEGAL for an expression statement / RETURN for a return statement
	isRet bool

	tail    bool          // nothing follows the statement in its function but a return of plain names
	ifInit  *ast.IfStmt   // the literal is called in the init statement of this if
	spawn   *ast.CallExpr // go/defer statement calling a literal with arguments
	spawnKw string
}

func findIIFEs(pkgs map[string]*packages.Package) []iifeSite {
	var out []iifeSite
	iife := func(e ast.Expr) *ast.FuncLit {
		ce, ok := ast.Unparen(e).(*ast.CallExpr)
		if !ok || len(ce.Args) != 0 {
			return nil
		}
		fl, _ := ast.Unparen(ce.Fun).(*ast.FuncLit)
		return fl
	}
	for path, pk := range pkgs {
		if !strings.HasPrefix(path, pkgSftp) || strings.Contains(path, "/examples/") || pk.TypesInfo == nil {
			continue
		}
		for _, f := range pk.Syntax {
			tailStmts := map[ast.Stmt]bool{}
			visit := func(list []ast.Stmt, top bool) {
				_ = top
				for i, st := range list {
					if ls, ok := st.(*ast.LabeledStmt); ok {
						st = ls.Stmt
					}
					// in tail position of its function: nothing follows but one return of plain names or constants
					// (directly, or through the blocks and `L: switch { default: … }` wrappers earlier flattening left)
					tail := tailStmts[list[i]]
					n0 := len(out)
					switch s := st.(type) {
					case *ast.AssignStmt:
						if len(s.Rhs) == 1 && (s.Tok == token.DEFINE || s.Tok == token.ASSIGN) {
							if fl := iife(s.Rhs[0]); fl != nil {
								out = append(out, iifeSite{pkg: pk, file: f, stmt: s, lit: fl, lhs: s.Lhs, tok: s.Tok})
							} else if ce, ok := ast.Unparen(s.Rhs[0]).(*ast.CallExpr); ok && len(ce.Args) > 0 {
								if fl, ok := ast.Unparen(ce.Fun).(*ast.FuncLit); ok {
									out = append(out, iifeSite{pkg: pk, file: f, stmt: s, lit: fl, lhs: s.Lhs, tok: s.Tok, spawn: ce, spawnKw: "="})
								}
							}
						}
					case *ast.ExprStmt:
						if fl := iife(s.X); fl != nil {
							out = append(out, iifeSite{pkg: pk, file: f, stmt: s, lit: fl})
						} else if ce, ok := ast.Unparen(s.X).(*ast.CallExpr); ok && len(ce.Args) > 0 {
							// func(p T){…}(a): the arguments are bound first, the bare literal call is flattened next round
							if fl, ok := ast.Unparen(ce.Fun).(*ast.FuncLit); ok {
								out = append(out, iifeSite{pkg: pk, file: f, stmt: s, lit: fl, spawn: ce, spawnKw: ""})
							}
						}
					case *ast.ReturnStmt:
						if len(s.Results) == 1 {
							if fl := iife(s.Results[0]); fl != nil {
								out = append(out, iifeSite{pkg: pk, file: f, stmt: s, lit: fl, isRet: true})
							} else if ce, ok := ast.Unparen(s.Results[0]).(*ast.CallExpr); ok && len(ce.Args) > 0 {
								// return func(p T) R {…}(a): the arguments are bound first
								if fl, ok := ast.Unparen(ce.Fun).(*ast.FuncLit); ok {
									out = append(out, iifeSite{pkg: pk, file: f, stmt: s, lit: fl, spawn: ce, spawnKw: "return"})
								}
							}
						}
					case *ast.IfStmt:
						// if x := func() T {…}(); cond { … }
						if as, ok := s.Init.(*ast.AssignStmt); ok && len(as.Rhs) == 1 && (as.Tok == token.DEFINE || as.Tok == token.ASSIGN) {
							if fl := iife(as.Rhs[0]); fl != nil {
								out = append(out, iifeSite{pkg: pk, file: f, stmt: s, lit: fl, lhs: as.Lhs, tok: as.Tok, ifInit: s})
							}
						}
					case *ast.GoStmt:
						if fl, ok := ast.Unparen(s.Call.Fun).(*ast.FuncLit); ok && len(s.Call.Args) > 0 {
							out = append(out, iifeSite{pkg: pk, file: f, stmt: s, lit: fl, spawn: s.Call, spawnKw: "go"})
						}
					case *ast.DeferStmt:
						if fl, ok := ast.Unparen(s.Call.Fun).(*ast.FuncLit); ok && len(s.Call.Args) > 0 {
							out = append(out, iifeSite{pkg: pk, file: f, stmt: s, lit: fl, spawn: s.Call, spawnKw: "defer"})
						}
					}
					for k := n0; k < len(out); k++ {
						out[k].tail = tail
					}
				}
			}
			topBodies := map[*ast.BlockStmt]bool{}
			ast.Inspect(f, func(n ast.Node) bool {
				switch x := n.(type) {
				case *ast.FuncDecl:
					if x.Body != nil {
						topBodies[x.Body] = true
						markTail(x.Body.List, true, tailStmts)
					}
				case *ast.BlockStmt:
					visit(x.List, topBodies[x])
				case *ast.CaseClause:
					visit(x.Body, false)
				case *ast.CommClause:
					visit(x.Body, false)
				}
				return true
			})
		}
	}
	return out
}

// markTail records the statements after which nothing happens in the function but the return of plain names: the
// last statement of the body, the one in front of such a return, and — through blocks and the `L: switch { default: }`
// wrappers that flattening leaves behind, where only `break L` and `_ = x` may follow — the same inside them.
func markTail(list []ast.Stmt, top bool, set map[ast.Stmt]bool) {
	trivial := func(rest []ast.Stmt) bool {
		for k, st := range rest {
			switch x := st.(type) {
			case *ast.EmptyStmt:
			case *ast.BranchStmt:
				if x.Tok != token.BREAK || x.Label == nil {
					return false
				}
			case *ast.AssignStmt:
				// `_ = x`, `a, b = r1, r2`: moves between plain names
				if len(x.Lhs) != len(x.Rhs) || x.Tok != token.ASSIGN {
					return false
				}
				for j := range x.Lhs {
					if _, ok := x.Lhs[j].(*ast.Ident); !ok {
						return false
					}
					if _, ok := x.Rhs[j].(*ast.Ident); !ok {
						return false
					}
				}
			case *ast.ReturnStmt:
				if !top || k != len(rest)-1 {
					return false
				}
				for _, e := range x.Results {
					switch ast.Unparen(e).(type) {
					case *ast.Ident, *ast.BasicLit:
					default:
						return false
					}
				}
			default:
				return false
			}
		}
		return true
	}
	for i, st := range list {
		if !trivial(list[i+1:]) {
			continue
		}
		set[st] = true
		inner := st
		if ls, ok := st.(*ast.LabeledStmt); ok {
			inner = ls.Stmt
			set[inner] = true
		}
		switch x := inner.(type) {
		case *ast.BlockStmt:
			markTail(x.List, false, set)
		case *ast.SwitchStmt:
			if x.Init == nil && x.Tag == nil && len(x.Body.List) == 1 {
				if cc, ok := x.Body.List[0].(*ast.CaseClause); ok && cc.List == nil {
					markTail(cc.Body, false, set)
				}
			}
		}
	}
}

// bindSpawnArgs turns `go func(p T){B}(a)` into `{ var p T = a; go func(){B}() }` (the arguments of a go or defer
// statement are evaluated when the statement executes, which is where the declarations now stand).
func bindSpawnArgs(site iifeSite) string {
	fset := site.pkg.Fset
	lit, call := site.lit, site.spawn
	if call.Ellipsis.IsValid() || lit.Type.Params == nil {
		return ""
	}
	type prm struct{ name, typ string }
	var params []prm
	for _, fld := range lit.Type.Params.List {
		if _, variadic := fld.Type.(*ast.Ellipsis); variadic {
			return ""
		}
		var tb bytes.Buffer
		if printNode(&tb, fset, fld.Type) != nil {
			return ""
		}
		if len(fld.Names) == 0 {
			params = append(params, prm{"_", tb.String()})
		}
		for _, nm := range fld.Names {
			params = append(params, prm{nm.Name, tb.String()})
		}
	}
	if len(params) != len(call.Args) {
		return ""
	}
	// a later argument must not mention the name of an earlier parameter (it would be captured by the new declaration)
	for i, a := range call.Args {
		clash := false
		ast.Inspect(a, func(n ast.Node) bool {
			if id, ok := n.(*ast.Ident); ok {
				for j := 0; j < i; j++ {
					if params[j].name == id.Name && id.Name != "_" {
						clash = true
					}
				}
			}
			return true
		})
		if clash {
			return ""
		}
	}
	if site.spawnKw == "=" {
		// x, y := func(p T) (R) { B }(a)   becomes   var tmp T = a; x, y := func() (R) { var p T = tmp; B }()
		flattenCounter++
		k := flattenCounter
		var out bytes.Buffer
		var inner bytes.Buffer
		for i, a := range call.Args {
			var ab bytes.Buffer
			if printNode(&ab, fset, a) != nil {
				return ""
			}
			tmp := fmt.Sprintf("__arg%d_%d", k, i)
			fmt.Fprintf(&out, "var %s %s = %s\n_ = %s\n", tmp, params[i].typ, ab.String(), tmp)
			if params[i].name != "_" {
				fmt.Fprintf(&inner, "var %s %s = %s\n_ = %s\n", params[i].name, params[i].typ, tmp, params[i].name)
			}
		}
		var lhs []string
		for _, e := range site.lhs {
			var eb bytes.Buffer
			if printNode(&eb, fset, e) != nil {
				return ""
			}
			lhs = append(lhs, eb.String())
		}
		res, okR := resultsText(fset, lit.Type.Results)
		if !okR {
			return ""
		}
		var bb bytes.Buffer
		for _, st := range lit.Body.List {
			if printNode(&bb, fset, st) != nil {
				return ""
			}
			bb.WriteString("\n")
		}
		tok := ":="
		if site.tok == token.ASSIGN {
			tok = "="
		}
		fmt.Fprintf(&out, "%s %s func() %s {\n%s%s}()\n", strings.Join(lhs, ", "), tok, res, inner.String(), bb.String())
		return out.String()
	}
	var out bytes.Buffer
	out.WriteString("{\n")
	for i, a := range call.Args {
		var ab bytes.Buffer
		if printNode(&ab, fset, a) != nil {
			return ""
		}
		if params[i].name == "_" {
			fmt.Fprintf(&out, "_ = %s\n", ab.String())
		} else {
			fmt.Fprintf(&out, "var %s %s = %s\n_ = %s\n", params[i].name, params[i].typ, ab.String(), params[i].name)
		}
	}
	var bb bytes.Buffer
	if printNode(&bb, fset, lit.Body) != nil {
		return ""
	}
	res, okR := resultsText(fset, lit.Type.Results)
	if !okR {
		return ""
	}
	if res != "" {
		res = " " + res
	}
	fmt.Fprintf(&out, "%s func()%s %s()\n}\n", site.spawnKw, res, bb.String())
	if site.spawnKw == "" && res != "" {
		return "" // a plain call statement that discards results: leave it
	}
	return out.String()
}

var flattenCounter int

// flattenOne returns the replacement text for the statement, or "" when the literal must be left alone.
func flattenOne(site iifeSite) string {
	if site.spawn != nil {
		return bindSpawnArgs(site)
	}
	info := site.pkg.TypesInfo
	fset := site.pkg.Fset
	lit := site.lit
	// statements only (a literal used as the init of an if/for/switch is a statement too, but its scope differs)
	bad := false
	ast.Inspect(lit.Body, func(n ast.Node) bool {
		switch x := n.(type) {
		case *ast.FuncLit:
			return false // its defers, returns and recovers are its own
		case *ast.DeferStmt:
			// a deferred call of the literal runs when the literal returns; flattened, when the enclosing function
			// returns — the same moment when nothing but a return of plain names follows the literal's call
			if !(site.tail && site.ifInit == nil) {
				bad = true
			}
		case *ast.BranchStmt:
			if x.Tok == token.GOTO {
				bad = true
			}
		case *ast.CallExpr:
			if id, ok := x.Fun.(*ast.Ident); ok && id.Name == "recover" {
				bad = true
			}
		}
		return !bad
	})
	if bad {
		return ""
	}
	flattenCounter++
	k := flattenCounter
	label := fmt.Sprintf("__ret%d", k)
	// result variables
	type res struct {
		name string
		typ  string
		obj  types.Object
	}
	var results []res
	if lit.Type.Results != nil {
		for _, fld := range lit.Type.Results.List {
			var tb bytes.Buffer
			if err := printNode(&tb, fset, fld.Type); err != nil {
				return ""
			}
			if len(fld.Names) == 0 {
				results = append(results, res{fmt.Sprintf("__r%d_%d", k, len(results)), tb.String(), nil})
				continue
			}
			for _, nm := range fld.Names {
				results = append(results, res{fmt.Sprintf("__r%d_%d", k, len(results)), tb.String(), info.Defs[nm]})
			}
		}
	}
	// rename uses of named results
	byObj := map[types.Object]string{}
	for _, r := range results {
		if r.obj != nil {
			byObj[r.obj] = r.name
		}
	}
	// names hoisted out by := must not capture a use inside BODY
	hoisted := map[string]string{} // name -> type
	if site.tok == token.DEFINE {
		if len(site.lhs) != len(results) {
			return ""
		}
		for i, l := range site.lhs {
			id, ok := l.(*ast.Ident)
			if !ok {
				return ""
			}
			if id.Name != "_" && info.Defs[id] != nil {
				hoisted[id.Name] = results[i].typ
			}
		}
	}
	clash := false
	selectors := map[*ast.Ident]bool{} // field and method names are not looked up in the scope
	ast.Inspect(lit.Body, func(n ast.Node) bool {
		switch x := n.(type) {
		case *ast.SelectorExpr:
			selectors[x.Sel] = true
		case *ast.KeyValueExpr:
			if id, ok := x.Key.(*ast.Ident); ok {
				if v, isVar := info.Uses[id].(*types.Var); isVar && v.IsField() {
					selectors[id] = true
				}
			}
		}
		return true
	})
	ast.Inspect(lit.Body, func(n ast.Node) bool {
		id, ok := n.(*ast.Ident)
		if !ok || selectors[id] {
			return true
		}
		if o := info.Uses[id]; o != nil {
			if _, ok := byObj[o]; ok {
				return true
			}
			if _, h := hoisted[id.Name]; h {
				// declared inside BODY itself (a local of the literal) is fine; anything else would be captured
				if o.Pos() < lit.Body.Pos() || o.Pos() > lit.Body.End() {
					clash = true
				}
			}
		}
		return true
	})
	// a multi-value `return f()` cannot be split into assignments
	multi := false
	ast.Inspect(lit.Body, func(n ast.Node) bool {
		if _, ok := n.(*ast.FuncLit); ok {
			return false
		}
		if r, ok := n.(*ast.ReturnStmt); ok && len(r.Results) == 1 && len(results) > 1 {
			multi = true
		}
		return true
	})
	// (`r1, r2 = f()` is as legal as `return f()`: the results are assignable to the variables by the same rule)
	_ = multi
	_ = clash // (the temporaries are declared under names of their own: nothing in BODY is captured)
	// from here on the syntax tree is modified (it is re-parsed before the next round)
	// `x, ok := f()` at the top level of a literal with a named result `ok` assigns to that result (same scope, one new
	// variable on the left).  The flattened body sits one block deeper, where the same statement would declare a new
	// `ok` and leave the result alone: such a statement becomes `var x T; x, ok = f()`.
	{
		qual := types.RelativeTo(site.pkg.Types)
		var nl []ast.Stmt
		for _, st := range lit.Body.List {
			as, ok := st.(*ast.AssignStmt)
			if !ok || as.Tok != token.DEFINE {
				nl = append(nl, st)
				continue
			}
			reuses := false
			for _, l := range as.Lhs {
				if id, ok := l.(*ast.Ident); ok && id.Name != "_" && info.Defs[id] == nil {
					if o := info.Uses[id]; o != nil {
						if _, isRes := byObj[o]; isRes {
							reuses = true
						}
					}
				}
			}
			if !reuses {
				nl = append(nl, st)
				continue
			}
			okAll := true
			for _, l := range as.Lhs {
				id, ok := l.(*ast.Ident)
				if !ok || id.Name == "_" || info.Defs[id] == nil {
					continue
				}
				te, err := parser.ParseExpr(types.TypeString(info.Defs[id].Type(), qual))
				if err != nil {
					okAll = false
					break
				}
				nl = append(nl, &ast.DeclStmt{Decl: &ast.GenDecl{Tok: token.VAR, Specs: []ast.Spec{&ast.ValueSpec{Names: []*ast.Ident{ast.NewIdent(id.Name)}, Type: te}}}},
					&ast.AssignStmt{Lhs: []ast.Expr{ast.NewIdent("_")}, Tok: token.ASSIGN, Rhs: []ast.Expr{ast.NewIdent(id.Name)}})
			}
			if !okAll {
				return ""
			}
			as.Tok = token.ASSIGN
			nl = append(nl, as)
		}
		lit.Body.List = nl
	}
	ast.Inspect(lit.Body, func(n ast.Node) bool {
		if id, ok := n.(*ast.Ident); ok {
			if o := info.Uses[id]; o != nil {
				if nn, ok := byObj[o]; ok {
					id.Name = nn
				}
			}
		}
		return true
	})
	// returns
	var rewrite func(list []ast.Stmt) []ast.Stmt
	var rewriteStmt func(s ast.Stmt) ast.Stmt
	mkReturn := func(r *ast.ReturnStmt) ast.Stmt {
		blk := &ast.BlockStmt{}
		if site.isRet {
			if len(r.Results) == 0 && len(results) > 0 {
				nr := &ast.ReturnStmt{}
				for _, x := range results {
					nr.Results = append(nr.Results, ast.NewIdent(x.name))
				}
				return nr
			}
			return r
		}
		if len(r.Results) > 0 && len(results) > 0 {
			as := &ast.AssignStmt{Tok: token.ASSIGN, Rhs: r.Results}
			for _, x := range results {
				as.Lhs = append(as.Lhs, ast.NewIdent(x.name))
			}
			blk.List = append(blk.List, as)
		}
		blk.List = append(blk.List, &ast.BranchStmt{Tok: token.BREAK, Label: ast.NewIdent(label)})
		return blk
	}
	rewriteStmt = func(s ast.Stmt) ast.Stmt {
		switch x := s.(type) {
		case *ast.ReturnStmt:
			return mkReturn(x)
		case *ast.BlockStmt:
			x.List = rewrite(x.List)
		case *ast.IfStmt:
			x.Body.List = rewrite(x.Body.List)
			if x.Else != nil {
				x.Else = rewriteStmt(x.Else)
			}
		case *ast.ForStmt:
			x.Body.List = rewrite(x.Body.List)
		case *ast.RangeStmt:
			x.Body.List = rewrite(x.Body.List)
		case *ast.SwitchStmt:
			x.Body.List = rewrite(x.Body.List)
		case *ast.TypeSwitchStmt:
			x.Body.List = rewrite(x.Body.List)
		case *ast.SelectStmt:
			x.Body.List = rewrite(x.Body.List)
		case *ast.CaseClause:
			x.Body = rewrite(x.Body)
		case *ast.CommClause:
			x.Body = rewrite(x.Body)
		case *ast.LabeledStmt:
			x.Stmt = rewriteStmt(x.Stmt)
		}
		return s
	}
	rewrite = func(list []ast.Stmt) []ast.Stmt {
		for i, s := range list {
			list[i] = rewriteStmt(s)
		}
		return list
	}
	body := rewrite(lit.Body.List)
	var bb bytes.Buffer
	for _, s := range body {
		if err := printNode(&bb, fset, s); err != nil {
			return ""
		}
		bb.WriteString("\n")
	}
	var out bytes.Buffer
	if site.isRet {
		out.WriteString("{\n")
		for _, r := range results {
			if r.obj != nil {
				fmt.Fprintf(&out, "var %s %s\n_ = %s\n", r.name, r.typ, r.name)
			}
		}
		out.WriteString(bb.String())
		out.WriteString("}\n")
		return out.String()
	}
	// the results go into temporaries declared in front of the block (their names are unique, so nothing in BODY can
	// be captured by them), and the original left-hand side is assigned — or defined, as it was — behind it
	for _, r := range results {
		fmt.Fprintf(&out, "var %s %s\n_ = %s\n", r.name, r.typ, r.name)
	}
	out.WriteString("{\n")
	fmt.Fprintf(&out, "%s:\nswitch {\ndefault:\n%s}\n", label, bb.String())
	out.WriteString("}\n")
	assignText := ""
	if len(site.lhs) > 0 {
		var l, r []string
		for i, e := range site.lhs {
			var eb bytes.Buffer
			if err := printNode(&eb, fset, e); err != nil {
				return ""
			}
			l = append(l, eb.String())
			r = append(r, results[i].name)
		}
		tok := "="
		if site.tok == token.DEFINE {
			tok = ":="
		}
		assignText = fmt.Sprintf("%s %s %s", strings.Join(l, ", "), tok, strings.Join(r, ", "))
		if site.ifInit == nil {
			out.WriteString(assignText + "\n")
		}
	}
	text := out.String()
	// the label must be used: if BODY never returns early add a break at its end
	if !strings.Contains(bb.String(), "break "+label) {
		text = strings.Replace(text, "default:\n"+bb.String(), "default:\n"+bb.String()+"break "+label+"\n", 1)
	}
	if site.ifInit != nil {
		site.ifInit.Init = nil
		var ib bytes.Buffer
		if printNode(&ib, fset, site.ifInit) != nil {
			return ""
		}
		ifText := ib.String()
		if assignText != "" && strings.HasPrefix(ifText, "if ") {
			ifText = "if " + assignText + "; " + ifText[3:]
		}
		text = "{\n" + text + ifText + "\n}\n"
	}
	return text
}

// resultsText renders a result list "(a, b T, err error)" (go/printer does not print a bare *ast.FieldList).
func resultsText(fset *token.FileSet, fl *ast.FieldList) (string, bool) {
	if fl == nil || len(fl.List) == 0 {
		return "", true
	}
	var parts []string
	for _, f := range fl.List {
		var tb bytes.Buffer
		if printNode(&tb, fset, f.Type) != nil {
			return "", false
		}
		if len(f.Names) == 0 {
			parts = append(parts, tb.String())
			continue
		}
		var ns []string
		for _, n := range f.Names {
			ns = append(ns, n.Name)
		}
		parts = append(parts, strings.Join(ns, ", ")+" "+tb.String())
	}
	return "(" + strings.Join(parts, ", ") + ")", true
}

func printNode(w io.Writer, fset *token.FileSet, n any) error {
	return (&printer.Config{Mode: printer.UseSpaces | printer.TabIndent, Tabwidth: 8}).Fprint(w, fset, n)
}

// ---- a function literal bound to a local variable that is called once ----
//
// `var f func() = func() {…}` … `f()` (what the inliner leaves of a function-valued parameter) is the call of the
// literal itself: the variable is dropped and the literal is called where the variable was.

type closureVarSite struct {
	pkg  *packages.Package
	file *ast.File
	decl ast.Stmt
	lit  ast.Expr // the function literal, or a method value / function name the variable was bound to
	use  *ast.Ident
	drop []ast.Stmt // `_ = f` statements (what the inliner adds to keep an unused binding legal)
	// a helper closure the reference tree does not have, called at several places: every call becomes a call of a copy
	// of the literal (more: the calls after the first)
	more []*ast.Ident
	// captured variables that another declaration of the same name hides at one of the calls (the packet of a type
	// switch): the copies reach them through a pointer taken where the literal stood
	alias []closureAlias
}

type closureAlias struct {
	name   string       // the pointer variable
	target string       // the captured variable
	idents []*ast.Ident // its occurrences in the literal
}

// freshClosureVars: the local variables bound to a function literal that the reference tree's version of the same
// function does not have (by name).
func freshClosureVars(ref symTable, cfg string, pkgs map[string]*packages.Package) map[types.Object]bool {
	out := map[types.Object]bool{}
	for path, pk := range pkgs {
		if !strings.HasPrefix(path, pkgSftp) || strings.Contains(path, "/examples/") || pk.TypesInfo == nil {
			continue
		}
		for _, f := range pk.Syntax {
			for _, d := range f.Decls {
				fd, ok := d.(*ast.FuncDecl)
				if !ok || fd.Body == nil {
					continue
				}
				key := path + "|" + fd.Name.Name
				if fd.Recv != nil && len(fd.Recv.List) == 1 {
					t := fd.Recv.List[0].Type
					if st, ok := t.(*ast.StarExpr); ok {
						t = st.X
					}
					if ix, ok := t.(*ast.IndexExpr); ok {
						t = ix.X
					}
					if id, ok := t.(*ast.Ident); ok {
						key = path + "|" + id.Name + "." + fd.Name.Name
					}
				}
				e := ref[key]
				if e == nil || !hasCfg(e, cfg) {
					continue
				}
				known := map[string]bool{}
				for _, n := range e.Closures {
					known[n] = true
				}
				for _, id := range closureVarIdents(fd.Body) {
					if !known[id.Name] {
						if o := pk.TypesInfo.Defs[id]; o != nil {
							out[o] = true
						}
					}
				}
			}
		}
	}
	return out
}

func findClosureVars(pkgs map[string]*packages.Package, freshVars map[types.Object]bool) []closureVarSite {
	var out []closureVarSite
	for path, pk := range pkgs {
		if !strings.HasPrefix(path, pkgSftp) || strings.Contains(path, "/examples/") || pk.TypesInfo == nil {
			continue
		}
		info := pk.TypesInfo
		for _, f := range pk.Syntax {
			// uses per object
			uses := map[types.Object][]*ast.Ident{}
			callFun := map[*ast.Ident]bool{}
			blankUse := map[*ast.Ident]ast.Stmt{}
			ast.Inspect(f, func(n ast.Node) bool {
				if as, ok := n.(*ast.AssignStmt); ok && as.Tok == token.ASSIGN && len(as.Lhs) == 1 && len(as.Rhs) == 1 {
					if l, ok := as.Lhs[0].(*ast.Ident); ok && l.Name == "_" {
						if r, ok := as.Rhs[0].(*ast.Ident); ok {
							blankUse[r] = as
						}
					}
				}
				return true
			})
			ast.Inspect(f, func(n ast.Node) bool {
				switch x := n.(type) {
				case *ast.Ident:
					if o := info.Uses[x]; o != nil {
						uses[o] = append(uses[o], x)
					}
				case *ast.CallExpr:
					if id, ok := ast.Unparen(x.Fun).(*ast.Ident); ok {
						callFun[id] = true
					}
				}
				return true
			})
			// identifiers that are assigned to or have their address taken somewhere in the file (by object)
			mutated := map[types.Object]bool{}
			ast.Inspect(f, func(n ast.Node) bool {
				switch x := n.(type) {
				case *ast.AssignStmt:
					if x.Tok != token.DEFINE {
						for _, l := range x.Lhs {
							if id, ok := ast.Unparen(l).(*ast.Ident); ok {
								if o := info.Uses[id]; o != nil {
									mutated[o] = true
								}
							}
						}
					}
				case *ast.UnaryExpr:
					if x.Op == token.AND {
						if id, ok := ast.Unparen(x.X).(*ast.Ident); ok {
							if o := info.Uses[id]; o != nil {
								mutated[o] = true
							}
						}
					}
				case *ast.IncDecStmt:
					if id, ok := ast.Unparen(x.X).(*ast.Ident); ok {
						if o := info.Uses[id]; o != nil {
							mutated[o] = true
						}
					}
				}
				return true
			})
			consider := func(st ast.Stmt, name *ast.Ident, val ast.Expr) {
				var lit ast.Expr
				switch x := ast.Unparen(val).(type) {
				case *ast.FuncLit:
					lit = x
				case *ast.SelectorExpr:
					// a method value of a variable that is never reassigned (x.m bound now or at the call is the same
					// call), or a function of another package
					if sel := info.Selections[x]; sel != nil && sel.Kind() == types.MethodVal {
						if id, ok := ast.Unparen(x.X).(*ast.Ident); ok {
							if o := info.Uses[id]; o != nil && !mutated[o] {
								if _, isVar := o.(*types.Var); isVar && !types.IsInterface(o.Type()) {
									lit = x
								}
							}
						}
					} else if sel == nil {
						if _, isFunc := info.Uses[x.Sel].(*types.Func); isFunc {
							lit = x
						}
					}
				case *ast.Ident:
					if _, isFunc := info.Uses[x].(*types.Func); isFunc {
						lit = x
					}
				}
				if lit == nil || name.Name == "_" {
					return
				}
				obj := info.Defs[name]
				if obj == nil {
					return
				}
				var us []*ast.Ident
				var drop []ast.Stmt
				for _, u := range uses[obj] {
					if st, isBlank := blankUse[u]; isBlank {
						drop = append(drop, st)
						continue
					}
					us = append(us, u)
				}
				if len(us) == 0 {
					return
				}
				if len(us) > 1 {
					if _, isLit := lit.(*ast.FuncLit); !isLit || !freshVars[obj] || mutated[obj] {
						return
					}
				}
				for _, u := range us {
					if !callFun[u] {
						return
					}
					if u.Pos() >= lit.Pos() && u.End() <= lit.End() {
						return // recursion through the variable
					}
					if u.Pos() < st.End() {
						return
					}
				}
				sort.Slice(us, func(i, j int) bool { return us[i].Pos() < us[j].Pos() })
				site := closureVarSite{pkg: pk, file: f, decl: st, lit: lit, use: us[0], drop: drop, more: us[1:]}
				if len(us) > 1 {
					// what the literal captures must mean the same thing at every call
					type occ struct {
						obj types.Object
						ids []*ast.Ident
					}
					var free []*occ
					byObj := map[types.Object]*occ{}
					bad := false
					ast.Inspect(lit, func(n ast.Node) bool {
						id, ok := n.(*ast.Ident)
						if !ok {
							return true
						}
						o := info.Uses[id]
						if o == nil || o.Pkg() == nil {
							return true
						}
						if v, ok := o.(*types.Var); ok && v.IsField() {
							return true
						}
						if _, ok := o.(*types.PkgName); ok {
							// an import hidden by a local name at the call would be another thing: checked like the rest
						}
						if o.Pos() >= lit.Pos() && o.Pos() < lit.End() {
							return true // the literal's own
						}
						if fn, ok := o.(*types.Func); ok && fn.Type().(*types.Signature).Recv() != nil {
							return true // a method name in a selector
						}
						oc := byObj[o]
						if oc == nil {
							oc = &occ{obj: o}
							byObj[o] = oc
							free = append(free, oc)
						}
						oc.ids = append(oc.ids, id)
						return true
					})
					for _, oc := range free {
						hidden := false
						for _, u := range us {
							inner := pk.Types.Scope().Innermost(u.Pos())
							if inner == nil {
								bad = true
								break
							}
							if _, found := inner.LookupParent(oc.obj.Name(), u.Pos()); found != oc.obj {
								hidden = true
							}
						}
						if !hidden {
							continue
						}
						v, isVar := oc.obj.(*types.Var)
						if !isVar || v.Parent() == nil || v.Parent() == pk.Types.Scope() {
							bad = true // a function, type, constant, import or package-level variable hidden at a call
							break
						}
						site.alias = append(site.alias, closureAlias{
							name:   fmt.Sprintf("__cv%d_%d", pk.Fset.Position(st.Pos()).Offset, len(site.alias)),
							target: oc.obj.Name(),
							idents: oc.ids,
						})
					}
					if bad {
						return
					}
				}
				out = append(out, site)
			}
			ast.Inspect(f, func(n ast.Node) bool {
				var list []ast.Stmt
				switch x := n.(type) {
				case *ast.BlockStmt:
					list = x.List
				case *ast.CaseClause:
					list = x.Body
				case *ast.CommClause:
					list = x.Body
				}
				for _, st := range list {
					switch x := st.(type) {
					case *ast.AssignStmt:
						if x.Tok == token.DEFINE && len(x.Lhs) == 1 && len(x.Rhs) == 1 {
							if id, ok := x.Lhs[0].(*ast.Ident); ok {
								consider(st, id, x.Rhs[0])
							}
						}
					case *ast.DeclStmt:
						if gd, ok := x.Decl.(*ast.GenDecl); ok && gd.Tok == token.VAR {
							for _, sp := range gd.Specs {
								vs, ok := sp.(*ast.ValueSpec)
								if !ok || len(vs.Names) != 1 || len(vs.Values) != 1 {
									continue
								}
								if len(gd.Specs) == 1 {
									consider(st, vs.Names[0], vs.Values[0])
								} else if gd.Lparen.IsValid() {
									// one line of a parenthesised group: only that line goes
									consider(&ast.DeclStmt{Decl: &ast.GenDecl{TokPos: vs.Pos(), Tok: token.VAR, Specs: []ast.Spec{vs}, Rparen: vs.End() - 1}}, vs.Names[0], vs.Values[0])
								}
							}
						}
					}
				}
				return true
			})
		}
	}
	return out
}

func closureVarObj(site closureVarSite) types.Object {
	var id *ast.Ident
	switch x := site.decl.(type) {
	case *ast.AssignStmt:
		if len(x.Lhs) == 1 {
			id, _ = x.Lhs[0].(*ast.Ident)
		}
	case *ast.DeclStmt:
		if gd, ok := x.Decl.(*ast.GenDecl); ok && len(gd.Specs) == 1 {
			if vs, ok := gd.Specs[0].(*ast.ValueSpec); ok && len(vs.Names) == 1 {
				id = vs.Names[0]
			}
		}
	}
	if id == nil || site.pkg.TypesInfo == nil {
		return nil
	}
	return site.pkg.TypesInfo.Defs[id]
}

// applyClosureVar returns the file content with the variable dropped and the literal called in its place.
func applyClosureVar(site closureVarSite, content []byte) []byte {
	fset := site.pkg.Fset
	ds, de := fset.Position(site.decl.Pos()).Offset, fset.Position(site.decl.End()).Offset
	us, ue := fset.Position(site.use.Pos()).Offset, fset.Position(site.use.End()).Offset
	ls, le := fset.Position(site.lit.Pos()).Offset, fset.Position(site.lit.End()).Offset
	if ds < 0 || de > len(content) || us < de || ue > len(content) || ls < ds || le > de {
		return nil
	}
	lit := append([]byte("("), content[ls:le]...)
	lit = append(lit, ')')
	out := append([]byte{}, content[:ds]...)
	out = append(out, content[de:us]...)
	out = append(out, lit...)
	out = append(out, content[ue:]...)
	return out
}
