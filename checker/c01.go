package main

import (
	"go/constant"
	"os"
	"fmt"
	"go/token"
	"go/types"
	"strings"

	"golang.org/x/tools/go/ssa"
)

func init() {
	register("C01", &propSpec{
		level:       "other",
		explanation: "Cursor coherence of every client transfer loop and argument agreement of every server read/write site, decided by symbolic (affine) comparison of SSA values: the offset sent is start+cursor, the buffer region handed over starts at the same cursor, the cursor advances by exactly the bytes the iteration covers, the length field equals the chunk's length, chunks are bounded by maxPacket; servers pass the packet's own offset and buffer to the backing object and answer with exactly the bytes it returned; the server clamps reads to its maximum. Necessary conditions of byte-exact transfer; equality of bytes after reordering is not decided.",
		run:         runC01,
		quickExtra:  []BuildConfig{cfg386},
		assumptions: []string{"the backing object's ReadAt/WriteAt honour their io contracts", "the client's packet size does not exceed the server's maximum (premise of the property)"},
	})
}

// expandAlts replaces atoms that are non-loop-header phis (branch merges) by each of
// their edges, giving the set of alternative terms. Loop-header phis stay atoms.
func expandAlts(t term, depth int) []term {
	if depth > 4 {
		return []term{t}
	}
	for a, v := range t.atoms {
		phi, ok := v.(*ssa.Phi)
		if !ok {
			continue
		}
		l := innermostLoop(loopsOf(phi.Parent()), phi.Block())
		if l != nil && l.head == phi.Block() {
			continue
		}
		var out []term
		for _, e := range phi.Edges {
			base := newTerm().add(t, 1)
			k := base.coef[a]
			delete(base.coef, a)
			delete(base.atoms, a)
			nt := base.add(affineOf(e), k)
			out = append(out, expandAlts(nt, depth+1)...)
		}
		return out
	}
	return []term{t}
}

// headerPhiSteps returns the alternative per-iteration increments of a loop-header phi.
func headerPhiSteps(phi *ssa.Phi) (inits, steps []term) {
	l := innermostLoop(loopsOf(phi.Parent()), phi.Block())
	self := atomTerm(valKey(phi), phi)
	for i, e := range phi.Edges {
		pred := phi.Block().Preds[i]
		if l != nil && l.head == phi.Block() && l.blocks[pred] {
			for _, alt := range expandAlts(affineOf(e), 0) {
				steps = append(steps, alt.add(self, -1))
			}
		} else {
			inits = append(inits, affineOf(e))
		}
	}
	return
}

// headerPhiIn finds the single loop-header phi atom of a term (coefficient 1).
func headerPhiIn(t term) (*ssa.Phi, string, int) {
	var phi *ssa.Phi
	key := ""
	n := 0
	for a, v := range t.atoms {
		if p, ok := v.(*ssa.Phi); ok {
			l := innermostLoop(loopsOf(p.Parent()), p.Block())
			if l != nil && l.head == p.Block() {
				n++
				phi, key = p, a
			}
		}
	}
	return phi, key, n
}

// chunkStart describes a slice value as base[lo:...]: the base buffer's key and the
// affine start index. Prefix reslices (x[:h]) keep the start; phis must agree.
func chunkStart(v ssa.Value, depth int) (base string, lo term, ok bool) {
	if depth > 8 {
		return "", term{}, false
	}
	switch x := v.(type) {
	case *ssa.Slice:
		b, l, ok := chunkStart(x.X, depth+1)
		if !ok {
			return "", term{}, false
		}
		if x.Low != nil {
			l = l.add(affineOf(x.Low), 1)
		}
		return b, l, true
	case *ssa.Phi:
		l := innermostLoop(loopsOf(x.Parent()), x.Block())
		if l != nil && l.head == x.Block() {
			// a buffer variable advanced by reslicing: its own start is symbolic
			return valKey(x), newTerm(), true
		}
		var b0 string
		var l0 term
		for i, e := range x.Edges {
			b, lo, ok := chunkStart(e, depth+1)
			if !ok {
				return "", term{}, false
			}
			if i == 0 {
				b0, l0 = b, lo
			} else if b != b0 || !lo.equal(l0) {
				return "", term{}, false
			}
		}
		return b0, l0, true
	case *ssa.UnOp:
		if x.Op == token.MUL {
			if a, isA := x.X.(*ssa.Alloc); isA {
				sts := reachingStores(x, a)
				if len(sts) == 1 && sts[0].Parent() == x.Parent() {
					return chunkStart(sts[0].Val, depth+1)
				}
			}
			if fv, isF := x.X.(*ssa.FreeVar); isF {
				if al, ok := resolveFreeVar(fv).(*ssa.Alloc); ok {
					sts := storesTo(al.Parent(), al)
					if len(sts) == 1 {
						return chunkStart(sts[0].Val, depth+1)
					}
				}
			}
		}
		return valKey(v), newTerm(), true
	}
	return valKey(v), newTerm(), true
}

// chunkLen gives the affine length of a slice value where it is structurally evident.
func chunkLen(v ssa.Value) term {
	if s, ok := v.(*ssa.Slice); ok && s.High != nil {
		t := affineOf(s.High)
		if s.Low != nil {
			t = t.add(affineOf(s.Low), -1)
		}
		return t
	}
	return atomTerm("len("+valKey(v)+")", v)
}

func termIn(t term, set []term) bool {
	for _, s := range set {
		if t.equal(s) {
			return true
		}
	}
	return false
}

func isZero(t term) bool { k, ok := t.isConst(); return ok && k == 0 }

// c01TransferSitesOnly: runC01 is asked for its R1 alone (the client's transfer sites), by C12.R13
var c01TransferSitesOnly bool

func runC01(c *Ctx) {
	p := c.P
	pos := func(in ssa.Instruction) string { return p.Pos(in.Pos()) }
	if !c01TransferSitesOnly {
		runC01Shared(c)
	}
	runC01TransferSites(c)
	if c01TransferSitesOnly {
		return
	}
	_ = pos
	runC01Rest(c)
}

func runC01Shared(c *Ctx) {
	p := c.P
	// R16 (shared with C12.R1): the calls that move the implicit position hold the File exclusively, so that two of them
	// on one File cannot both start at the same offset
	if fileT := p.NamedType(p.Sftp, "File"); fileT != nil {
		checkFileLockKind(c, "R16", exportedFileMethods(p, fileT), map[string]bool{"(*File).Read": true, "(*File).Write": true, "(*File).ReadFrom": true, "(*File).WriteTo": true})
		c.floor("R16", 4)
	}
	checkConcurrentCopyOnlyOfRegularFiles(c, "R17")
	// R18 (shared with C13.R4): a sequential chunk loop ends with the failing chunk's error and a count that includes
	// what that chunk still moved
	checkSequentialLoops(c, "R18")
}

func runC01TransferSites(c *Ctx) {
	p := c.P
	pos := func(in ssa.Instruction) string { return p.Pos(in.Pos()) }
	isOffsetField := func(key string) bool { return strings.HasPrefix(key, "fld:") && strings.HasSuffix(key, ".offset") }

	// start offset of a transfer: the `off` parameter of the enclosing File method, or a load of f.offset
	startOK := func(t term) bool {
		if len(t.coef) != 1 || t.c != 0 {
			return false
		}
		for a, k := range t.coef {
			if k != 1 {
				return false
			}
			if a == "param:off" || isOffsetField(a) {
				return true
			}
		}
		return false
	}

	n := 0
	for _, fn := range p.LibFuncs() {
		if !isClientFile(fn) {
			continue
		}
		c.looked(fnName(fn))
		// ---- packet literals ----
		for _, typ := range []string{"sshFxpReadPacket", "sshFxpWritePacket"} {
			for _, a := range literalsOf(fn, typ) {
				n++
				site := typ + " in " + fnName(fn)
				offV, handleV := litField(a, "Offset"), litField(a, "Handle")
				lenV := litField(a, "Len")
				if typ == "sshFxpWritePacket" {
					lenV = litField(a, "Length")
				}
				if offV == nil || lenV == nil || handleV == nil {
					c.bad("R1", site+" fields", pos(a), "the request literal does not set Offset, length and Handle")
					continue
				}
				hk := valKey(handleV)
				c.check(strings.HasSuffix(hk, ".handle") && strings.HasPrefix(hk, "fld:"), "R1", site+" handle", pos(a), "Handle is the File's handle", "Handle is not f.handle: "+hk)
				O, L := affineOf(offV), affineOf(lenV)
				loops := loopsOf(fn)
				lp := innermostLoop(loops, a.Block())
				// (vi) the offset is computed in 64 bits: no conversion on the way narrows it (int is 32 bits on 386)
				nar := narrowingIn(p, offV)
				c.check(nar == nil, "R1", site+" (vi) offset computed in 64 bits", pos(a), "no narrowing conversion in the offset expression", func() string {
					if nar == nil {
						return ""
					}
					return "the offset passes through " + nar.Type().String() + " (" + p.Pos(nar.Pos()) + "), which is narrower than the 64-bit position on this platform: a transfer at or beyond 2 GiB goes to another place in the file"
				}())

				// (v) length field equals the chunk length
				if typ == "sshFxpWritePacket" {
					dataV := litField(a, "Data")
					if dataV == nil {
						c.bad("R1", site+" Data", pos(a), "write request without Data")
						continue
					}
					dl := chunkLen(dataV)
					c.check(L.equal(dl), "R1", site+" (v) Length==len(Data)", pos(a), "Length = "+L.String(), "Length ("+L.String()+") is not the length of Data ("+dl.String()+")")
					// a slice b[:n] of a reused buffer must be filled by the call that produced n
					if s, ok := dataV.(*ssa.Slice); ok && s.Low == nil && s.High != nil && !isClampSlice(s) {
						filled := false
						for _, l := range leavesOf(s.High) {
							if l.Kind == leafCallResult && isFillCall(l.Call) && l.Idx == 0 && sameValue(l.Call.Args[1], s.X) {
								filled = true
							}
						}
						if !filled {
							// the fill loop written out in place
							for _, l := range leavesOfIface(s.High) {
								if buf, ok := accumulatedRead(l); ok && sameValue(buf, s.X) {
									filled = true
								}
							}
							if buf, ok := accumulatedRead(s.High); ok && sameValue(buf, s.X) {
								filled = true
							}
						}
						c.check(filled, "R1", site+" (ii) Data is what was just read", pos(a), "Data = buf[:n] with n from the fill of buf (io.ReadFull or the package's readFull)", "Data is not the prefix filled by this iteration's read of the source")
					}
				}
				if lp == nil {
					// single request helper: offset and buffer are the parameters themselves
					switch typ {
					case "sshFxpWritePacket":
						c.check(O.equal(atomTerm("param:off", nil)) && valKey(litField(a, "Data")) == "param:b", "R1", site+" (i) offset/buffer are the arguments", pos(a), "Offset = off, Data = b", "Offset is "+O.String()+", Data is "+valKey(litField(a, "Data")))
					default:
						c.und("R1", site+" shape", pos(a), "read request outside a loop: shape not understood")
					}
					continue
				}
				phi, pkey, nphi := headerPhiIn(O)
				if nphi != 1 || O.coef[pkey] != 1 {
					c.bad("R1", site+" (i) offset = start + cursor", pos(a), "Offset ("+O.String()+") does not advance with a loop cursor: every chunk is requested at the same offset")
					continue
				}
				inits, steps := headerPhiSteps(phi)
				base := newTerm().add(O, 1)
				delete(base.coef, pkey)
				// start = base + init(phi)
				goodStart := len(inits) > 0
				for _, in := range inits {
					st := base.add(in, 1)
					if !startOK(st) {
						goodStart = false
					}
				}
				c.check(goodStart, "R1", site+" (i) first offset is the transfer's start", pos(a), "start = "+base.String()+" + "+fmt.Sprint(inits), "the first offset requested is not the caller's off / the File offset: "+base.String()+" + "+fmt.Sprint(inits))
				// (iii) step == bytes covered
				var covered []term
				switch {
				case fnName(fn) == "(*File).readChunkAt":
					// sequential refill: the cursor advances by what copy() moved into b[n:]
					for _, st := range steps {
						okStep := false
						for _, v := range st.atoms {
							if call, isCall := v.(*ssa.Call); isCall && builtinName(&call.Call) == "copy" {
								b, lo, ok := chunkStart(call.Call.Args[0], 0)
								if ok && b == "param:b" && lo.equal(atomTerm(pkey, phi)) && len(st.coef) == 1 && st.c == 0 {
									okStep = true
								}
							}
						}
						c.check(okStep || isZero(st), "R1", site+" (iii) cursor += copy(b[cursor:], data)", pos(a), "cursor advances by the bytes copied at the cursor", "cursor step "+st.String()+" is not the count copied into b[cursor:]")
					}
					want := atomTerm("len(param:b)", nil).add(atomTerm(pkey, phi), -1)
					c.check(L.equal(want), "R1", site+" (v) Len = remaining", pos(a), "Len = len(b) - cursor", "Len ("+L.String()+") is not the remaining length len(b)-cursor")
					continue
				default:
					covered = []term{L}
				}
				goodStep := len(steps) > 0
				sawFull := false
				for _, st := range steps {
					if termIn(st, covered) {
						sawFull = true
					} else if !isZero(st) {
						goodStep = false
					}
				}
				c.check(goodStep && sawFull, "R1", site+" (iii) cursor advances by the chunk length", pos(a), "step = "+L.String(), "the cursor advances by "+fmt.Sprint(steps)+" per iteration but the request covers "+L.String()+" bytes")
				// (ii) buffer region starts at the cursor
				switch typ {
				case "sshFxpWritePacket":
					dataV := litField(a, "Data")
					b, lo, ok := chunkStart(dataV, 0)
					if s, isS := dataV.(*ssa.Slice); isS && s.Low == nil {
						_ = s // refilled buffer, checked above
					} else {
						// either an index cursor into the caller's buffer, or a buffer variable that is itself advanced by
						// the chunk each time round (b = b[len(chunk):], starting as the caller's buffer) with the chunk
						// its prefix — the offset advances by the same length (iii), so both name the same bytes
						advancing := ok && isZero(lo) && strings.HasPrefix(b, "phi:") && bufferAdvancesByChunk(fn) && bufferStartsAsParam(fn, "b")
						c.check((ok && b == "param:b" && lo.equal(atomTerm(pkey, phi))) || advancing, "R1", site+" (ii) data starts at the cursor", pos(a), "Data = b[cursor:…]", "Data does not start at the cursor: "+b+"["+lo.String()+":]")
					}
				case "sshFxpReadPacket":
					// the destination buffer is checked on the work item (R2) or pool size below
				}
				// (iv) chunk bounded by maxPacket
				bounded := false
				for _, alt := range expandAlts(L, 0) {
					for k := range alt.coef {
						if strings.HasSuffix(k, ".maxPacket") {
							bounded = true
						}
					}
				}
				if !bounded {
					// min(len(x), maxPacket): bounded by each of its arguments
					for _, v := range L.atoms {
						if call, ok := v.(*ssa.Call); ok && builtinName(&call.Call) == "min" {
							for _, a := range call.Call.Args {
								for k := range affineOf(a).coef {
									if strings.HasSuffix(k, ".maxPacket") {
										bounded = true
									}
								}
							}
						}
					}
				}
				if !bounded {
					// len(rb) with rb = phi(x, x[:chunkSize]) under len(x) > chunkSize
					for _, v := range L.atoms {
						if call, ok := v.(*ssa.Call); ok && builtinName(&call.Call) == "len" {
							if clampedBy(call.Call.Args[0], "maxPacket") {
								bounded = true
							}
						}
					}
					if lv, ok := lenV.(*ssa.Convert); ok {
						cnt := lv.X
						// uint32(len(b[:n])) is uint32(n)
						if lc, ok := cnt.(*ssa.Call); ok && builtinName(&lc.Call) == "len" {
							if sl, ok := lc.Call.Args[0].(*ssa.Slice); ok && sl.Low == nil && sl.High != nil {
								cnt = stripConv(sl.High)
							}
						}
						// n accumulated by a fill loop over b = make([]byte, maxPacket): never more than len(b)
						if buf, ok := accumulatedRead(cnt); ok && madeWith(buf, "maxPacket") {
							bounded = true
						}
						if ext, ok := cnt.(*ssa.Extract); ok {
							// n from io.ReadFull(r, b) with b = make([]byte, maxPacket)
							if call, ok := ext.Tuple.(*ssa.Call); ok && isFillCall(&call.Call) {
								if madeWith(call.Call.Args[1], "maxPacket") {
									bounded = true
								}
							}
						}
					}
				}
				c.check(bounded, "R1", site+" (iv) chunk bounded by maxPacket", pos(a), "length <= maxPacket", "the chunk length "+L.String()+" is not bounded by the client's maxPacket")
			}
		}
		// ---- sequential call sites of readChunkAt / writeChunkAt ----
		eachInstr(fn, func(in ssa.Instruction) {
			call, ok := in.(*ssa.Call)
			if !ok {
				return
			}
			nm := calleeName(&call.Call)
			if nm != "readChunkAt" && nm != "writeChunkAt" {
				return
			}
			n++
			site := nm + " call in " + fnName(fn)
			// the buffer and the offset among the arguments, whatever their order: the []byte and the int64
			var buf, off ssa.Value
			for _, a := range call.Call.Args[1:] {
				if buf == nil && isByteSlice(a.Type()) {
					buf = a
				}
				if off == nil && isBasicKind(types.Int64)(a.Type()) {
					off = a
				}
			}
			if buf == nil || off == nil {
				c.und("R1", nm+" call in "+fnName(fn), pos(in), "cannot tell the buffer and the offset among the arguments of "+nm)
				return
			}
			O := affineOf(off)
			lp := innermostLoop(loopsOf(fn), call.Block())
			if lp == nil {
				c.check(startOK(O) && valKey(buf) == "param:b", "R1", site+" (i) whole request", pos(in), "chunk helper called with the caller's buffer and offset", "called with offset "+O.String()+" and buffer "+valKey(buf))
				return
			}
			phi, pkey, nphi := headerPhiIn(O)
			if nphi == 0 {
				// offset is the File offset itself, which the loop advances by a store (checked by C12.R5)
				c.check(startOK(O) && isOffsetField(firstKey(O)), "R1", site+" (i) offset is the File offset", pos(in), "transfer at f.offset, advanced each iteration", "offset "+O.String()+" neither advances with a cursor nor is the File offset")
				// buffer: a read fills the whole scratch buffer; a write sends the prefix that this iteration's read of
				// the source filled, nothing of what the buffer held before
				if nm == "writeChunkAt" {
					filled := false
					if sl, ok := buf.(*ssa.Slice); ok && sl.Low == nil && sl.High != nil {
						for _, l := range leavesOf(sl.High) {
							if l.Kind == leafCallResult && isFillCall(l.Call) && l.Idx == 0 && sameValue(l.Call.Args[1], sl.X) {
								filled = true
							}
						}
						if !filled {
							for _, l := range leavesOfIface(sl.High) {
								if b2, ok := accumulatedRead(l); ok && sameValue(b2, sl.X) {
									filled = true
								}
							}
							if b2, ok := accumulatedRead(sl.High); ok && sameValue(b2, sl.X) {
								filled = true
							}
						}
					}
					c.check(filled, "R1", site+" (ii) the chunk is what was just read", pos(in), "chunk = buf[:n] with n from the fill of buf", "the chunk written is not the prefix filled by this iteration's read of the source: the last chunk carries stale bytes of the buffer, the file gets them appended")
				}
				return
			}
			if nphi != 1 || O.coef[pkey] != 1 {
				c.bad("R1", site+" (i) offset = start + cursor", pos(in), "offset "+O.String()+" has no single loop cursor")
				return
			}
			base := newTerm().add(O, 1)
			delete(base.coef, pkey)
			inits, steps := headerPhiSteps(phi)
			good := len(inits) > 0
			for _, it := range inits {
				if !startOK(base.add(it, 1)) {
					good = false
				}
			}
			c.check(good, "R1", site+" (i) first offset is the transfer's start", pos(in), "start = "+base.String(), "first offset is "+base.String()+" + "+fmt.Sprint(inits))
			// step == result #0 of this very call (or 0)
			resKey := fmt.Sprintf("%s#0", valKey(call))
			goodStep, saw := true, false
			for _, st := range steps {
				if len(st.coef) == 1 && st.coef[resKey] == 1 && st.c == 0 {
					saw = true
				} else if !isZero(st) {
					goodStep = false
				}
			}
			c.check(goodStep && saw, "R1", site+" (iii) cursor advances by the count returned", pos(in), "cursor += n returned by "+nm, "cursor advances by "+fmt.Sprint(steps)+", not by the count "+nm+" returned")
			b, lo, ok := chunkStart(buf, 0)
			c.check(ok && b == "param:b" && lo.equal(atomTerm(pkey, phi)), "R1", site+" (ii) buffer starts at the cursor", pos(in), "chunk = b[cursor:…]", "the chunk handed over is "+b+"["+lo.String()+":], not b[cursor:]")
			c.check(clampedBy(buf, "maxPacket") || clampedBy(buf, "chunkSize") || provablyBoundedByField(p, fn, in, buf, "maxPacket"), "R1", site+" (iv) chunk bounded by maxPacket", pos(in), "chunk resliced to maxPacket when longer", "the chunk handed to "+nm+" is not bounded by maxPacket")
		})
	}
	c.check(n >= 12, "R1", "transfer sites", "?", fmt.Sprintf("%d request literals and chunk-helper calls examined", n), fmt.Sprintf("only %d transfer sites found (12 expected)", n))
	c.floor("R1", 32)

	// buffer advance in the readAt slicer: b = b[len(rb):]  (the slicer is found by what it does: the function of
	// readAt that dispatches the READ literals; the chunk by being a prefix of the buffer variable, whatever its name)
	if ra := p.Func("(*File).readAt"); ra != nil {
		if f, _, _ := slicerOf(ra); f != nil {
			c.check(bufferAdvancesByChunk(f), "R1", "readAt slicer buffer advance", p.Pos(f.Pos()), "b = b[len(rb):] each iteration", "the slicer's buffer does not advance by the chunk it just handed out")
		} else {
			c.und("R1", "readAt slicer buffer advance", p.Pos(ra.Pos()), "cannot find the code that dispatches the chunk requests")
		}
	} else {
		c.missing("R1", "(*File).readAt")
	}
}

func runC01Rest(c *Ctx) {
	runC01R2(c)
	runC01Server(c)
	// R6: with the allocator, the page holding a request (and a WRITE's data) must be filed under that request's
	// order id, otherwise it is recycled while its bytes are still to be written to the file
	checkPageTagging(c, "R6")
	// R7: the count reported by the concurrent reader includes the bytes of a short last chunk
	checkWorkerErrorDelivery(c, "R7")
	// R8: a pooled buffer goes back to the pool only when nobody can still read it
	checkPoolDiscipline(c, "R8")
	// R9: the File offset after a transfer (shared with C12.R5): the next Read/Write starts where this one ended
	checkOffsetStores(c, "R9", nil)
	checkWriteToEndsAtEOF(c, "R10")
	checkSourceErrorsReturned(c, "R11")
	checkFillCountsEveryRead(c, "R19")
	checkReadReplyTruthTable(c, "R20")
	checkNilOnlyWhenComplete(c, "R21")
	// R22 (shared with C18.R3): with the allocator the page that holds a DATA reply is released only after the reply has
	// been written — released before, it is handed out again and the bytes on the wire are another packet's
	c.withOnly("R3", "R22", func() { runC18(c) })
	// round 8 shares: a failed write is latched (a torn DATA header swallows the next reply), the transfer methods hold
	// the File exclusively incl. ReadFromWithConcurrency, worker counts and packet sizes at least 1, the offset reported
	// with the source's error lies behind the chunk sent, the status a failing handler gets is not end-of-file
	checkWriteFailureLatched(c, "R27")
	c.withOnly("R1", "R28", func() { runC12(c) })
	checkWorkerCountBounded(c, "R29")
	checkSourceErrorBehindChunk(c, "R26")
	if goos := goosOf(c.P.Cfg); goos != "windows" && goos != "plan9" {
		c.withOnlyKeys("R3", "R30", []string{"EOF", "EIO"}, func() { runC05(c) })
	}
	checkMaxTxPacketOptions(c, "R23")
	checkWriteChunkCountsOnlyAcknowledged(c, "R24")
	checkAtMethodsUseTheirOffset(c, "R25")
	// R12: the count equals the bytes moved — not when the chunk offsets wrapped (shared with C12.R10)
	c.withRule("R12", func() { checkChunkOffsetsCannotWrap(c, "R10") })
	checkAppendStartsAtEnd(c, "R13")
	// R14: what is read is what the file contains — a short chunk ends the copy (shared with C13.R13)
	c.withRule("R14", func() { checkShortChunkEndsTransfer(c, "R13") })
}

// checkPoolDiscipline: chunks travel between the goroutines of a transfer in pooled buffers.  pool.Put(b) makes b
// available to every other worker at once, so at a Put (a) the same function must not use the buffer afterwards and
// (b) the buffer must not have been handed to another goroutine (sent over a channel, directly or inside a struct)
// on a path leading to the Put — the receiver would read bytes of a later chunk.
func checkPoolDiscipline(c *Ctx, rule string) {
	p := c.P
	n := 0
	for _, fn := range p.LibFuncs() {
		ord := 0
		eachInstr(fn, func(in ssa.Instruction) {
			call, ok := in.(*ssa.Call)
			if !ok {
				return
			}
			f := call.Call.StaticCallee()
			if f == nil || (fnName(f) != "(*bufPool).Put" && fnName(f) != "(resChanPool).Put") {
				return
			}
			n++
			ord++
			key := fmt.Sprintf("%s: %s #%d", fnName(fn), fnName(f), ord)
			buf := call.Call.Args[len(call.Call.Args)-1]
			// values sharing the buffer's backing store
			same := map[ssa.Value]bool{}
			var back func(v ssa.Value)
			back = func(v ssa.Value) {
				if v == nil || same[v] {
					return
				}
				same[v] = true
				switch x := v.(type) {
				case *ssa.Slice:
					back(x.X)
				case *ssa.Phi:
					for _, e := range x.Edges {
						back(e)
					}
				case *ssa.ChangeType:
					back(x.X)
				}
			}
			back(buf)
			for changed := true; changed; {
				changed = false
				for v := range same {
					refs := v.Referrers()
					if refs == nil {
						continue
					}
					for _, r := range *refs {
						switch x := r.(type) {
						case *ssa.Slice:
							if x.X == v && !same[x] {
								same[x] = true
								changed = true
							}
						case *ssa.Phi:
							if !same[x] {
								same[x] = true
								changed = true
							}
						}
					}
				}
			}
			// (b) handed to another goroutine before the Put
			handed := ""
			sentVals := func(x ssa.Instruction) []ssa.Value {
				switch s := x.(type) {
				case *ssa.Send:
					return []ssa.Value{s.X}
				case *ssa.Select:
					var out []ssa.Value
					for _, st := range s.States {
						if st.Dir == types.SendOnly && st.Send != nil {
							out = append(out, st.Send)
						}
					}
					return out
				}
				return nil
			}
			carries := func(sent ssa.Value) bool {
				if same[sent] {
					return true
				}
				// a struct loaded from a local whose field holds the buffer
				if ld, ok := sent.(*ssa.UnOp); ok && ld.Op == token.MUL {
					if a, ok := ld.X.(*ssa.Alloc); ok {
						for _, r := range *a.Referrers() {
							if fa, ok := r.(*ssa.FieldAddr); ok {
								for _, st := range storesTo(fn, fa) {
									if same[st.Val] {
										return true
									}
								}
							}
						}
					}
				}
				return false
			}
			eachInstr(fn, func(x ssa.Instruction) {
				for _, sv := range sentVals(x) {
					if carries(sv) && reachAvoiding(fn, x, func(y ssa.Instruction) bool { return y == in }, nil) {
						handed = p.Pos(x.Pos())
					}
				}
			})
			// (a) used after the Put (until the value is defined anew)
			usedAfter := ""
			for v := range same {
				refs := v.Referrers()
				if refs == nil {
					continue
				}
				def, _ := v.(ssa.Instruction)
				for _, r := range *refs {
					if r == in {
						continue
					}
					if _, isDbg := r.(*ssa.DebugRef); isDbg {
						continue
					}
					if vv, isV := r.(ssa.Value); isV && same[vv] {
						continue // an alias, its own uses are examined
					}
					if reachAvoiding(fn, in, func(y ssa.Instruction) bool { return y == r }, func(y ssa.Instruction) bool { return def != nil && y == def }) {
						usedAfter = p.Pos(r.Pos())
					}
				}
			}
			switch {
			case handed != "":
				c.bad(rule, key, p.Pos(in.Pos()), "the buffer is returned to the pool after it was sent to another goroutine (at "+handed+"): the next worker refills it while the receiver is still using it, and the transfer delivers bytes of the wrong chunk")
			case usedAfter != "":
				c.bad(rule, key, p.Pos(in.Pos()), "the buffer is used (at "+usedAfter+") after it was returned to the pool")
			default:
				c.ok(rule, key, p.Pos(in.Pos()), "not handed to another goroutine before, not used after")
			}
		})
	}
	c.check(n >= 4, rule, "pool release sites", "?", fmt.Sprintf("%d Put sites", n), fmt.Sprintf("only %d Put sites found", n))
}

func firstKey(t term) string {
	for k := range t.coef {
		return k
	}
	return ""
}

// clampedBy: v is phi(x, x[:K]) (or a load thereof) where K mentions field/variable `what`.
func clampedBy(v ssa.Value, what string) bool {
	for _, l := range leavesOfIface(v) {
		if s, ok := l.(*ssa.Slice); ok && s.High != nil && s.Low == nil {
			t := affineOf(s.High)
			for k := range t.coef {
				if strings.Contains(k, what) {
					return true
				}
			}
			if call, ok := stripConv(s.High).(*ssa.Call); ok && builtinName(&call.Call) == "min" {
				for _, a := range call.Call.Args {
					for k := range affineOf(a).coef {
						if strings.Contains(k, what) {
							return true
						}
					}
				}
			}
		}
	}
	return false
}

// madeWith: v was created by make([]byte, K) with K mentioning `what`.
func madeWith(v ssa.Value, what string) bool {
	for _, l := range leavesOfIface(v) {
		if m, ok := l.(*ssa.MakeSlice); ok {
			t := affineOf(m.Len)
			for k := range t.coef {
				if strings.Contains(k, what) {
					return true
				}
			}
		}
	}
	return false
}

// slicerOf finds, in a transfer function or one of its function literals, the code that cuts the transfer into
// requests: the function that calls dispatchRequest with a READ or WRITE packet literal.  Found by what it does, so
// that it does not matter which literal of the outer function it is or whether it is a literal at all.
func slicerOf(outer *ssa.Function) (fn *ssa.Function, lit *ssa.Alloc, disp *ssa.Call) {
	cands := append([]*ssa.Function{outer}, outer.AnonFuncs...)
	for _, f := range cands {
		var d *ssa.Call
		eachInstr(f, func(in ssa.Instruction) {
			if call, ok := in.(*ssa.Call); ok && calleeName(&call.Call) == "dispatchRequest" {
				d = call
			}
		})
		if d == nil {
			continue
		}
		for _, typ := range []string{"sshFxpReadPacket", "sshFxpWritePacket"} {
			for _, a := range literalsOf(f, typ) {
				return f, a, d
			}
		}
	}
	return nil, nil, nil
}

// litFieldWhere returns the value stored into the one field of the literal whose type satisfies pred (nil when no field
// or several fields do): the parts of a work item are told apart by their types, not by their names.
func litFieldWhere(a *ssa.Alloc, pred func(types.Type) bool) ssa.Value {
	st := derefStruct(a.Type())
	if st == nil {
		return nil
	}
	name, n := "", 0
	for i := 0; i < st.NumFields(); i++ {
		if pred(st.Field(i).Type()) {
			name = st.Field(i).Name()
			n++
		}
	}
	if n != 1 {
		return nil
	}
	return litField(a, name)
}

func hasFieldWhere(st *types.Struct, pred func(types.Type) bool) bool {
	if st == nil {
		return false
	}
	for i := 0; i < st.NumFields(); i++ {
		if pred(st.Field(i).Type()) {
			return true
		}
	}
	return false
}

func isBasicKind(k types.BasicKind) func(types.Type) bool {
	return func(t types.Type) bool {
		b, ok := t.Underlying().(*types.Basic)
		return ok && b.Kind() == k
	}
}

func isChanOf(elem string) func(types.Type) bool {
	return func(t types.Type) bool {
		ch, ok := t.Underlying().(*types.Chan)
		return ok && typeName(ch.Elem()) == elem
	}
}

func isByteSlice(t types.Type) bool {
	sl, ok := t.Underlying().(*types.Slice)
	if !ok {
		return false
	}
	b, ok := sl.Elem().Underlying().(*types.Basic)
	return ok && b.Kind() == types.Byte
}

// R2: the work item handed to the workers agrees with the request of the same iteration.
func runC01R2(c *Ctx) {
	p := c.P
	pos := func(in ssa.Instruction) string { return p.Pos(in.Pos()) }
	for _, outerName := range []string{"(*File).readAt", "(*File).WriteTo", "(*File).writeAtConcurrent", "(*File).readFromWithConcurrency"} {
		outer := p.Func(outerName)
		if outer == nil {
			c.missing("R2", outerName)
			continue
		}
		fn, lit, disp := slicerOf(outer)
		name := outerName + " slicer"
		if fn == nil {
			c.und("R2", name+" work item", p.Pos(outer.Pos()), "cannot find the code that dispatches the chunk requests")
			continue
		}
		c.looked(fnName(fn))
		// the work item: the struct value handed over on a channel in the slicer (the element type of a channel it
		// sends on), built in the slicer
		var work *ssa.Alloc
		sent := map[types.Type]bool{}
		eachInstr(fn, func(in ssa.Instruction) {
			switch x := in.(type) {
			case *ssa.Send:
				sent[x.X.Type()] = true
			case *ssa.Select:
				for _, st := range x.States {
					if st.Dir == types.SendOnly && st.Send != nil {
						sent[st.Send.Type()] = true
					}
				}
			}
		})
		eachInstr(fn, func(in ssa.Instruction) {
			if a, ok := in.(*ssa.Alloc); ok && a != lit {
				if _, isStruct := derefType(a.Type()).Underlying().(*types.Struct); isStruct {
					for t := range sent {
						// the work item is the one that carries the channel its reply arrives on
						if types.Identical(t, derefType(a.Type())) && hasFieldWhere(derefStruct(a.Type()), isChanOf("result")) {
							work = a
						}
					}
				}
			}
		})
		if work == nil {
			c.und("R2", name+" work item", p.Pos(fn.Pos()), "cannot find the work item that is handed to the workers")
			continue
		}
		// id
		idReq, idWork := litField(lit, "ID"), litFieldWhere(work, isBasicKind(types.Uint32))
		c.check(idReq != nil && idWork != nil && sameValue(idReq, idWork), "R2", name+" id", pos(work), "work item carries the id of the request just dispatched", "the work item's id is not the id of the dispatched request: the worker checks the reply against the wrong id")
		// offset
		offReq, offWork := litField(lit, "Offset"), litFieldWhere(work, isBasicKind(types.Int64))
		c.check(offReq != nil && offWork != nil && affineOf(offReq).equal(affineOf(offWork)), "R2", name+" offset", pos(work), "work item carries the request's offset", "the work item's offset differs from the request's: errors and data are attributed to the wrong position")
		// result channel: the one passed to dispatchRequest
		resWork := litFieldWhere(work, isChanOf("result"))
		c.check(disp != nil && resWork != nil && sameValue(disp.Call.Args[1], resWork), "R2", name+" result channel", pos(work), "work item waits on the channel the request was registered with", "the work item's channel is not the one registered for the request")
		// read destination buffer: same length as requested
		if bWork := litFieldWhere(work, isByteSlice); bWork != nil {
			lenV := litField(lit, "Len")
			if lenV == nil {
				lenV = litField(lit, "Length") // a work item shared with the writers carries the chunk written
			}
			c.check(lenV != nil && affineOf(lenV).equal(chunkLen(bWork)), "R2", name+" buffer", pos(work), "destination buffer has the requested length", "the destination buffer's length differs from the length requested")
		}
		// the hand-off follows the dispatch in the same iteration
		if disp != nil {
			var sel ssa.Instruction
			wt := derefType(work.Type())
			eachInstr(fn, func(in ssa.Instruction) {
				switch x := in.(type) {
				case *ssa.Select:
					for _, st := range x.States {
						if st.Dir == types.SendOnly && st.Send != nil && types.Identical(st.Send.Type(), wt) {
							sel = in
						}
					}
				case *ssa.Send:
					if types.Identical(x.X.Type(), wt) {
						sel = in
					}
				}
			})
			c.check(sel != nil && dominates(disp, sel), "R2", name+" dispatch before hand-off", pos(disp), "request is sent before its work item is queued", "a work item can be queued for a request that was not dispatched")
		}
	}
	// readAt worker copies into its item's buffer; WriteTo worker into a pool buffer of chunk size
	if ra := p.Func("(*File).readAt"); ra != nil {
		// the worker: the function literal of readAt that copies reply data
		n := 0
		for _, w := range ra.AnonFuncs {
			for _, in := range anyCallsWhere(w, func(cc *ssa.CallCommon) bool { return builtinName(cc) == "copy" }) {
				n++
				good := false
				for _, l := range leavesOf(callOf(in).Args[0]) {
					if l.Kind == leafFieldLoad && isByteSlice(l.V.Type()) && l.Base != nil && hasFieldWhere(derefStruct(l.Base.Type()), isChanOf("result")) {
						good = true
					}
				}
				c.check(good, "R2", "readAt worker destination", p.Pos(in.Pos()), "reply data is copied into the work item's own buffer", "the worker does not copy the reply into its work item's buffer")
			}
		}
		c.check(n >= 1, "R2", "readAt worker copies reply data", p.Pos(ra.Pos()), fmt.Sprintf("%d copies", n), "no worker of readAt copies reply data")
	} else {
		c.missing("R2", "(*File).readAt")
	}
	if wt := p.Func("(*File).WriteTo"); wt != nil {
		// pool := newBufPool(concurrency, chunkSize) with chunkSize == Len requested
		good := false
		eachInstr(wt, func(in ssa.Instruction) {
			if call, ok := in.(*ssa.Call); ok && calleeName(&call.Call) == "newBufPool" {
				t := affineOf(call.Call.Args[1])
				for k := range t.coef {
					if strings.HasSuffix(k, ".maxPacket") {
						good = true
					}
				}
			}
		})
		c.check(good, "R2", "WriteTo pool buffer size", p.Pos(wt.Pos()), "pool buffers have the requested chunk size", "WriteTo's buffers are not sized like the chunks it requests")
	} else {
		c.missing("R2", "(*File).WriteTo")
	}
}

// R3-R5: server-side argument agreement.
func runC01Server(c *Ctx) {
	p := c.P
	pos := func(in ssa.Instruction) string { return p.Pos(in.Pos()) }
	sites := 0
	usedPD := false // a site takes its buffer or offset from packetData: then packetData has to be looked at
	for _, name := range []string{"handlePacket", "fileget", "fileput", "fileputget"} {
		fn := p.Func(name)
		if fn == nil {
			c.missing("R3", name)
			continue
		}
		c.looked(name)
		eachInstr(fn, func(in ssa.Instruction) {
			call, ok := in.(*ssa.Call)
			if !ok || !call.Call.IsInvoke() {
				return
			}
			m := call.Call.Method.Name()
			if m != "ReadAt" && m != "WriteAt" {
				return
			}
			sites++
			site := m + " in " + name
			buf, off := call.Call.Args[0], call.Call.Args[1]
			// offset provenance
			offOK := false
			for _, l := range leavesOf(off) {
				if l.Kind == leafFieldLoad && l.Field == "Offset" && p.isRequestType(l.Base.Type()) {
					offOK = true
				}
				if l.Kind == leafCallResult && calleeName(l.Call) == "packetData" && l.Idx == 1 {
					offOK, usedPD = true, true
				}
			}
			t := affineOf(off)
			exact := len(t.coef) == 1 && t.c == 0
			c.check(offOK && exact, "R3", site+" offset", pos(in), "called at the packet's own offset", "the backing object is called at "+t.String()+", not at the request's Offset")
			// buffer provenance
			bufOK := false
			for _, l := range leavesOf(buf) {
				switch {
				case m == "ReadAt" && l.Kind == leafCallResult && calleeName(l.Call) == "getDataSlice":
					bufOK = true
				case l.Kind == leafCallResult && calleeName(l.Call) == "packetData" && l.Idx == 0:
					bufOK, usedPD = true, true
				case m == "WriteAt" && l.Kind == leafFieldLoad && l.Field == "Data" && p.isRequestType(l.Base.Type()):
					bufOK = true
				}
			}
			c.check(bufOK, "R3", site+" buffer", pos(in), "buffer is the request's own data/destination slice", "the buffer passed is not derived from this request")
			if m == "ReadAt" {
				// the reply: Data = buf[:n], Length = n with n this call's count
				var lit *ssa.Alloc
				for _, a := range literalsOf(fn, "sshFxpDataPacket") {
					if dominates(in, a) {
						lit = a
					}
				}
				if lit == nil {
					c.bad("R3", site+" reply", pos(in), "no DATA reply built after the read")
					return
				}
				nKey := fmt.Sprintf("%s#0", valKey(call))
				L := affineOf(litField(lit, "Length"))
				d := litField(lit, "Data")
				okL := len(L.coef) == 1 && L.coef[nKey] == 1 && L.c == 0
				okD := false
				if s, ok := d.(*ssa.Slice); ok && s.Low == nil && s.High != nil && sameValue(s.X, buf) {
					h := affineOf(s.High)
					okD = len(h.coef) == 1 && h.coef[nKey] == 1 && h.c == 0
				}
				c.check(okL, "R3", site+" reply length", pos(lit), "Length is the count ReadAt returned", "DATA Length is "+L.String()+", not the count returned by ReadAt")
				c.check(okD, "R3", site+" reply data", pos(lit), "Data = buf[:n]", "DATA payload is not buf[:n] of the buffer that was read into")
			}
		})
	}
	c.check(sites >= 6, "R3", "server read/write sites", "?", fmt.Sprintf("%d sites", sites), fmt.Sprintf("only %d ReadAt/WriteAt sites (6 expected)", sites))
	// packetData returns the packet's own fields
	if pd := p.Func("packetData"); pd == nil {
		if usedPD {
			c.missing("R3", "packetData")
		} else {
			c.okT("R3", "packetData result", "?", "no read or write site goes through packetData: buffer and offset are taken from the packet at the site")
		}
	} else {
		eachInstr(pd, func(in ssa.Instruction) {
			r, ok := in.(*ssa.Return)
			if !ok || !isReturn(in) || len(r.Results) != 3 {
				return
			}
			ls0, ls1 := leavesOf(r.Results[0]), leavesOf(r.Results[1])
			if len(ls0) == 1 && ls0[0].Kind == leafConst {
				return // the fall-through zero return
			}
			good0, good1 := false, false
			for _, l := range ls0 {
				if (l.Kind == leafCallResult && calleeName(l.Call) == "getDataSlice") || (l.Kind == leafFieldLoad && l.Field == "Data") {
					good0 = true
				}
			}
			for _, l := range ls1 {
				if l.Kind == leafFieldLoad && l.Field == "Offset" {
					good1 = true
				}
			}
			c.check(good0 && good1, "R3", "packetData result", pos(in), "returns the packet's data slice and Offset", "packetData returns something other than the packet's own data and offset")
		})
	}
	// R4 clamp in getDataSlice
	if g := p.Func("(*sshFxpReadPacket).getDataSlice"); g == nil {
		c.missing("R4", "(*sshFxpReadPacket).getDataSlice")
	} else {
		c.looked(fnName(g))
		clamp := false
		for _, b := range g.Blocks {
			iff, ok := b.Instrs[len(b.Instrs)-1].(*ssa.If)
			if !ok {
				continue
			}
			cmp, ok := iff.Cond.(*ssa.BinOp)
			if !ok || cmp.Op != token.GTR {
				continue
			}
			x := affineOf(cmp.X)
			if _, isLen := x.coef["fld:param:p.Len"]; isLen {
				// against one of its uint32 parameters, whatever it is called (which one it is at the call sites is
				// followed below)
				if pr, isPrm := stripConv(cmp.Y).(*ssa.Parameter); isPrm && isBasicKind(types.Uint32)(pr.Type()) {
					clamp = true
				}
			}
		}
		// and what it clamps to is, at every call, the server's configured maximum payload — not the other uint32 that
		// travels next to it (the request's order number): followed from the clamp parameter through the callers
		var clampPrm *ssa.Parameter
		for _, b := range g.Blocks {
			if iff, ok := b.Instrs[len(b.Instrs)-1].(*ssa.If); ok {
				if cmp, ok := iff.Cond.(*ssa.BinOp); ok && cmp.Op == token.GTR {
					if _, isLen := affineOf(cmp.X).coef["fld:param:p.Len"]; isLen {
						if pr, ok := stripConv(cmp.Y).(*ssa.Parameter); ok {
							clampPrm = pr
						}
					}
				}
			}
		}
		// the same two facts by proof, for a clamp that is not written as `if len > max`: every slice getDataSlice
		// returns is no longer than one of its uint32 parameters (that parameter is then the clamp) and than p.Len
		provedLen := map[ssa.Instruction]bool{}
		_ = clamp
		clamp = false // the comparison alone does not clamp (its arm may assign the wrong thing): always by proof
		{
			z := newZWorld(p).get(g)
			for _, prm := range g.Params {
				if !isBasicKind(types.Uint32)(prm.Type()) {
					continue
				}
				all, nret := true, 0
				eachInstr(g, func(in ssa.Instruction) {
					r, ok := in.(*ssa.Return)
					if !ok || !isReturn(in) || len(r.Results) != 1 {
						return
					}
					nret++
					L := z.lenOf(r.Results[0], 0)
					ok1, why1 := z.prove(in, []lin{leq(L, z.term(prm), 0)})
					if os.Getenv("ZDEBUG") == "clamp" {
						fmt.Fprintf(os.Stderr, "clamp: param %s at %s: len<=param %v (%s)\n", prm.Name(), p.Pos(in.Pos()), ok1, why1)
					}
					var lenT *lin
					eachInstr(g, func(x ssa.Instruction) {
						if u, isU := x.(*ssa.UnOp); isU && u.Op == token.MUL {
							if _, n, _, okF := fieldOf(u.X); okF && n == "Len" {
								t := z.term(u)
								lenT = &t
							}
						}
					})
					ok2 := false
					if lenT != nil {
						ok2, _ = z.prove(in, []lin{leq(L, *lenT, 0)})
					}
					if ok1 && ok2 {
						provedLen[in] = true
					} else {
						all = false
					}
				})
				if all && nret > 0 {
					clamp, clampPrm = true, prm
					break
				}
				provedLen = map[ssa.Instruction]bool{}
			}
		}
		if clampPrm != nil {
			nOrig := 0
			seenOrigin := map[string]bool{}
			for _, l := range p.originLeaves(clampPrm, 6) {
				nOrig++
				good := l.Kind == leafFieldLoad && l.Field == "maxTxPacket"
				what := "?"
				switch l.Kind {
				case leafFieldLoad:
					what = "field " + l.Field
				case leafCallResult:
					what = "the result of " + calleeName(l.Call)
				case leafParam:
					what = "parameter " + l.Param.Name() + " of " + fnName(l.Param.Parent())
				case leafConst:
					what = "a constant"
				}
				where, host := "?", "?"
				if in, ok := l.V.(ssa.Instruction); ok {
					where, host = p.Pos(in.Pos()), fnName(in.Parent())
				}
				k := "the clamp is the server's maxTxPacket: " + what + " in " + host
				if seenOrigin[k] {
					continue
				}
				seenOrigin[k] = true
				c.check(good, "R4", k, where, "maxTxPacket field of the server",
					"getDataSlice is handed "+what+" as the maximum payload: READ replies are cut to a length that has nothing to do with the configured packet size (short DATA replies, which the concurrent client paths take for the end of the file)")
			}
			c.check(nOrig >= 2, "R4", "origins of the clamp", p.Pos(g.Pos()), fmt.Sprintf("%d origins", nOrig), fmt.Sprintf("only %d origins of the clamp argument found (both servers expected)", nOrig))
		}
		c.check(clamp, "R4", "getDataSlice clamps to maxTxPacket", p.Pos(g.Pos()), "dataLen = min(p.Len, maxTxPacket)", "reads are no longer clamped to the server's maximum payload: a large Len allocates and returns arbitrarily large replies")
		// every returned slice has a length derived from the clamped value
		eachInstr(g, func(in ssa.Instruction) {
			r, ok := in.(*ssa.Return)
			if !ok || !isReturn(in) {
				return
			}
			var L term
			switch x := r.Results[0].(type) {
			case *ssa.MakeSlice:
				L = affineOf(x.Len)
			case *ssa.Slice:
				if x.High != nil {
					L = affineOf(x.High)
				}
			}
			usesPhi := false
			for _, v := range L.atoms {
				if _, ok := v.(*ssa.Phi); ok {
					usesPhi = true
				}
			}
			c.check(usesPhi || provedLen[in], "R4", "getDataSlice result length", pos(in), "length is the clamped value", "a returned slice is not sized by the clamped length")
		})
	}
	// R5 WRITE decode keeps Data = b[:Length]
	if u := p.Func("(*sshFxpWritePacket).UnmarshalBinary"); u == nil {
		c.missing("R5", "(*sshFxpWritePacket).UnmarshalBinary")
	} else {
		good := false
		eachInstr(u, func(in ssa.Instruction) {
			st, ok := in.(*ssa.Store)
			if !ok {
				return
			}
			if fa, ok := st.Addr.(*ssa.FieldAddr); ok {
				if _, n, _, _ := fieldOf(fa); n == "Data" {
					// b[:Length] with Length the field, or the very value that is stored into the field (the payload may
					// be cut before it is assigned, and reach the store through a variable)
					lenVals := map[ssa.Value]bool{}
					eachInstr(u, func(x ssa.Instruction) {
						if ls, ok := x.(*ssa.Store); ok {
							if _, ln, _, ok := fieldOf(ls.Addr); ok && ln == "Length" {
								for _, l := range leavesOfIface(ls.Val) {
									lenVals[stripConv(l)] = true
								}
								lenVals[stripConv(ls.Val)] = true
							}
						}
					})
					var cands []ssa.Value
					cands = append(cands, st.Val)
					cands = append(cands, leavesOfIface(st.Val)...)
					for _, cv := range cands {
						if s, ok := cv.(*ssa.Slice); ok && s.Low == nil && s.High != nil {
							h := affineOf(s.High)
							if _, ok := h.coef["fld:param:p.Length"]; ok && len(h.coef) == 1 {
								good = true
							}
							if lenVals[stripConv(s.High)] {
								good = true
							}
						}
					}
				}
			}
		})
		c.check(good, "R5", "WRITE decode Data = b[:Length]", p.Pos(u.Pos()), "payload is the declared number of bytes", "the decoded WRITE payload is not b[:Length]")
	}
}

// checkWriteToEndsAtEOF (C01.R10): WriteTo moves "whatever the served file contains": the size from (f)stat is only a
// hint for the number of workers, because it can be stale or simply wrong (procfs, a name re-used since the open).
// A nil error is therefore returned only when a read reported end of file (the reducer's `packet.err == io.EOF`), or
// by the sequential variant, which reads until EOF itself — never on the strength of the size alone.
func checkWriteToEndsAtEOF(c *Ctx, rule string) {
	p := c.P
	fn := p.Func("(*File).WriteTo")
	if fn == nil {
		c.missing(rule, "(*File).WriteTo")
		return
	}
	n := 0
	bad := ""
	// results handed through a second variable kept in memory (the body inlined into a locking wrapper) are looked
	// through only when the direct reading finds no nil result at all
	leaves := returnLeaves(fn, 1)
	hasNil := false
	for _, rl := range leaves {
		if isNilConst(rl.v) {
			hasNil = true
		}
	}
	if !hasNil {
		leaves = returnLeavesDeep(fn, 1)
	}
	for _, rl := range leaves {
		if !isNilConst(rl.v) {
			continue
		}
		n++
		atEOF := false
		for cv, truth := range edgeConds(rl.block, rl.pred) {
			b, ok := cv.(*ssa.BinOp)
			if !ok || !((b.Op == token.EQL && truth) || (b.Op == token.NEQ && !truth)) {
				continue
			}
			for _, side := range []ssa.Value{b.X, b.Y} {
				for _, l := range leavesOf(side) {
					if l.Kind == leafGlobal && l.V.Name() == "EOF" {
						atEOF = true
					}
				}
			}
		}
		if !atEOF {
			bad = p.Pos(rl.block.Instrs[len(rl.block.Instrs)-1].Pos())
		}
	}
	c.check(bad == "" && n >= 1, rule, "WriteTo reports success only after a read reported EOF", p.Pos(fn.Pos()), fmt.Sprintf("%d nil results, each under packet.err == io.EOF", n),
		"WriteTo can return a nil error (at "+bad+") without any read having reported end of file, e.g. because the stat size says so: a file whose attributes are stale or synthetic (procfs, a replaced name) is reported as copied although none or only part of it was")
}

// checkSourceErrorsReturned (C01.R11): ReadFrom follows io.ReaderFrom — "any error except EOF encountered during the
// read is also returned".  io.ReadFull manufactures io.ErrUnexpectedEOF for a source that ends inside a chunk, so code
// that treats ErrUnexpectedEOF as the end of the data also swallows an ErrUnexpectedEOF the source itself returned
// (a truncated HTTP body, a damaged gzip stream): the upload is cut short with a nil error.  Neither upload path may
// test for io.ErrUnexpectedEOF.
func checkSourceErrorsReturned(c *Ctx, rule string) {
	p := c.P
	for _, name := range []string{"(*File).ReadFrom", "(*File).readFromWithConcurrency"} {
		fn := p.Func(name)
		if fn == nil {
			c.missing(rule, name)
			continue
		}
		bad := ""
		eachInstrDeep(fn, func(g *ssa.Function, in ssa.Instruction) {
			var ops []ssa.Value
			switch x := in.(type) {
			case *ssa.BinOp:
				if x.Op == token.EQL || x.Op == token.NEQ {
					ops = []ssa.Value{x.X, x.Y}
				}
			case *ssa.Call:
				if callIs(&x.Call, "errors.Is") {
					ops = x.Call.Args
				}
			}
			for _, o := range ops {
				for _, l := range leavesOf(o) {
					if l.Kind == leafGlobal && l.V.Name() == "ErrUnexpectedEOF" {
						bad = p.Pos(in.Pos())
					}
				}
			}
		})
		c.check(bad == "", rule, name+" returns the source's errors", p.Pos(fn.Pos()), "only io.EOF ends the upload quietly",
			name+" treats io.ErrUnexpectedEOF as the end of the source (at "+bad+"): a source that itself fails with that error is uploaded short and the call reports success")
	}
}

// isFillCall: io.ReadFull(r, buf), or the module's own fill helper with the same contract (0 <= n <= len(buf), buf[:n]
// filled).  The helper is accepted only if its body is the canonical loop: it calls Read on buf[n:] where n is the
// count it accumulates from Read's results and returns that n.
// accumulatedRead: n counts what a fill loop written in place has read into buf — a phi that starts at a constant
// and grows by the count of each r.Read(buf[n:]) (the body of io.ReadFull / the package's readFull, inlined).  Returns
// the buffer that is filled.
func accumulatedRead(n ssa.Value) (buf ssa.Value, ok bool) {
	seen := map[ssa.Value]bool{}
	var find func(v ssa.Value, d int) (ssa.Value, bool)
	find = func(v ssa.Value, d int) (ssa.Value, bool) {
		if d > 4 || seen[v] {
			return nil, false
		}
		seen[v] = true
		ph, isPhi := v.(*ssa.Phi)
		if !isPhi {
			return nil, false
		}
		for _, e := range ph.Edges {
			if b, ok := e.(*ssa.BinOp); ok && b.Op == token.ADD {
				for _, pair := range [][2]ssa.Value{{b.X, b.Y}, {b.Y, b.X}} {
					acc, inc := pair[0], pair[1]
					accPhi, isP := acc.(*ssa.Phi)
					if !isP {
						continue
					}
					ex, isEx := inc.(*ssa.Extract)
					if !isEx || ex.Index != 0 {
						continue
					}
					call, isCall := ex.Tuple.(*ssa.Call)
					if !isCall || !call.Call.IsInvoke() || call.Call.Method.Name() != "Read" || len(call.Call.Args) != 1 {
						continue
					}
					if sl, ok := call.Call.Args[0].(*ssa.Slice); ok && sl.High == nil && sl.Low == ssa.Value(accPhi) {
						return sl.X, true
					}
				}
			}
			if b, ok := find(e, d+1); ok {
				return b, true
			}
		}
		return nil, false
	}
	return find(n, 0)
}

func isFillCall(cc *ssa.CallCommon) bool {
	if callIs(cc, "io.ReadFull") {
		return true
	}
	f := cc.StaticCallee()
	if f == nil || !inModule(f) || f.Name() != "readFull" || len(f.Params) != 2 {
		return false
	}
	ok1, ok2 := false, false
	eachInstr(f, func(in ssa.Instruction) {
		call, ok := in.(*ssa.Call)
		if !ok || !call.Call.IsInvoke() || call.Call.Method.Name() != "Read" {
			return
		}
		if sl, ok := call.Call.Args[0].(*ssa.Slice); ok && sl.X == ssa.Value(f.Params[1]) && sl.High == nil && sl.Low != nil {
			if ph, ok := sl.Low.(*ssa.Phi); ok {
				// n' = n + nn
				for _, e := range ph.Edges {
					if b, ok := e.(*ssa.BinOp); ok && b.Op == token.ADD && (b.X == ssa.Value(ph) || b.Y == ssa.Value(ph)) {
						ok1 = true
					}
				}
				eachInstr(f, func(y ssa.Instruction) {
					if r, ok := y.(*ssa.Return); ok && len(r.Results) == 2 && r.Results[0] == ssa.Value(ph) {
						ok2 = true
					}
				})
			}
		}
	})
	return ok1 && ok2
}

// checkAppendStartsAtEnd (R13): both servers of the package drop SSH_FXF_APPEND on purpose — O_APPEND cannot be
// combined with WriteAt — and serve every WRITE at the offset it carries ("the client sends the offsets").  The
// package's client therefore has to send the offsets an appending File means: a File opened with the append flag must
// start at the size the server reports for the new handle.  (*Client).open must test the flag and, where it is set,
// store the size obtained by fstat on the handle into File.offset before the File is returned; starting at 0, Write
// overwrites the head of the file and reports success.
func checkAppendStartsAtEnd(c *Ctx, rule string) {
	p := c.P
	fn := p.Func("(*Client).open")
	if fn == nil {
		c.missing(rule, "(*Client).open")
		return
	}
	c.looked("(*Client).open")
	k := p.Sftp.Const("sshFxfAppend")
	if k == nil {
		c.missing(rule, "sshFxfAppend")
		return
	}
	appendBit, _ := constInt(k.Value)
	var appendEdge *ssa.BasicBlock
	eachInstr(fn, func(in ssa.Instruction) {
		bo, ok := in.(*ssa.BinOp)
		if !ok || (bo.Op != token.NEQ && bo.Op != token.EQL) {
			return
		}
		and, ok := bo.X.(*ssa.BinOp)
		if !ok || and.Op != token.AND {
			return
		}
		m, isK := constInt(and.Y)
		if !isK {
			m, isK = constInt(and.X)
		}
		if !isK || m != appendBit {
			return
		}
		cmp, isK := constInt(bo.Y)
		if !isK {
			return
		}
		for _, r := range *bo.Referrers() {
			if iff, ok := r.(*ssa.If); ok {
				set := iff.Block().Succs[0]
				if (bo.Op == token.EQL) == (cmp != appendBit) {
					set = iff.Block().Succs[1]
				}
				appendEdge = set
			}
		}
	})
	key := "a File opened for appending starts at the end of the file"
	if appendEdge == nil {
		c.bad(rule, key, p.Pos(fn.Pos()), "(*Client).open does not look at the append flag: the File starts at offset 0 while both servers of the package write at the offsets the client sends, so OpenFile(O_WRONLY|O_APPEND) followed by Write overwrites the head of the file and reports success")
		return
	}
	// on the append side: fstat on the handle, and its size stored into File.offset before a File is returned
	isFstat := func(in ssa.Instruction) bool {
		cc := callOf(in)
		return cc != nil && (calleeName(cc) == "fstat" || calleeName(cc) == "Stat")
	}
	fromFstat := func(v ssa.Value) bool {
		for _, l := range leavesOf(v) {
			if l.Kind == leafCallResult && l.Call != nil && (calleeName(l.Call) == "fstat" || calleeName(l.Call) == "Stat") {
				return true
			}
			if l.Kind == leafFieldLoad && l.Field == "Size" {
				return true
			}
		}
		return false
	}
	isOffsetStore := func(in ssa.Instruction) bool {
		st, ok := in.(*ssa.Store)
		if !ok {
			return false
		}
		t, name, _, ok := fieldOf(st.Addr)
		return ok && typeName(t) == "File" && name == "offset" && fromFstat(st.Val)
	}
	asks := !reachFromBlock(appendEdge, func(in ssa.Instruction) bool {
		r, ok := in.(*ssa.Return)
		return ok && len(r.Results) == 2 && !isNilConst(r.Results[0])
	}, isFstat)
	stored := false
	eachInstr(fn, func(in ssa.Instruction) {
		if isOffsetStore(in) && appendEdge.Dominates(in.Block()) {
			stored = true
		}
	})
	c.check(asks && stored, rule, key, p.Pos(appendEdge.Instrs[0].Pos()), "fstat on the new handle, File.offset = its size",
		fmt.Sprintf("with the append flag set (*Client).open returns a File without starting it at the file's size (size asked on every path: %v, stored into File.offset: %v): Write then overwrites the head of the file", asks, stored))
}

// provablyBoundedByField: at instruction `at` of fn the length of the byte slice buf is at most the value of a load of
// the named field made in fn (the client's maxPacket), proved by the linear prover from the guards on the way — so
// that `hi := total; if hi-lo > max { hi = lo+max }; b[lo:hi]` is seen to be as bounded as `rb = rb[:max]`.
func provablyBoundedByField(p *Program, fn *ssa.Function, at ssa.Instruction, buf ssa.Value, field string) bool {
	z := newZWorld(p).get(fn)
	var bounds []ssa.Value
	eachInstr(fn, func(in ssa.Instruction) {
		if u, ok := in.(*ssa.UnOp); ok && u.Op == token.MUL {
			if _, n, _, ok := fieldOf(u.X); ok && n == field {
				bounds = append(bounds, u)
			}
		}
	})
	for _, m := range bounds {
		if ok, _ := z.prove(at, []lin{leq(z.lenOf(buf, 0), z.term(m), 0)}); ok {
			return true
		}
	}
	return false
}

// bufferAdvancesByChunk: fn has a loop whose buffer variable (a []byte phi at the loop head) is, on every way round the
// loop, resliced from the length of a chunk that is a prefix of that same variable: b = b[len(chunk):] with chunk = b
// or b[:k].
func bufferAdvancesByChunk(fn *ssa.Function) bool {
	okAdv := false
	eachInstr(fn, func(in ssa.Instruction) {
		phi, ok := in.(*ssa.Phi)
		if !ok || !isByteSlice(phi.Type()) {
			return
		}
		l := innermostLoop(loopsOf(fn), phi.Block())
		if l == nil || l.head != phi.Block() {
			return
		}
		all, any := true, false
		for i, e := range phi.Edges {
			if !l.blocks[phi.Block().Preds[i]] {
				continue
			}
			any = true
			good := false
			if s, ok := e.(*ssa.Slice); ok && s.X == ssa.Value(phi) && s.Low != nil && s.High == nil {
				if call, isCall := stripConv(s.Low).(*ssa.Call); isCall && builtinName(&call.Call) == "len" {
					if b, st, ok := chunkStart(call.Call.Args[0], 0); ok && b == valKey(phi) && isZero(st) {
						good = true
					}
				}
			}
			if !good {
				all = false
			}
		}
		if all && any {
			okAdv = true
		}
	})
	return okAdv
}

// bufferStartsAsParam: the []byte loop variable of fn's advancing buffer enters the loop as the named parameter of the
// enclosing method (directly, or as the captured / copied parameter).
func bufferStartsAsParam(fn *ssa.Function, name string) bool {
	found := false
	eachInstr(fn, func(in ssa.Instruction) {
		phi, ok := in.(*ssa.Phi)
		if !ok || !isByteSlice(phi.Type()) {
			return
		}
		l := innermostLoop(loopsOf(fn), phi.Block())
		if l == nil || l.head != phi.Block() {
			return
		}
		for i, e := range phi.Edges {
			if l.blocks[phi.Block().Preds[i]] {
				continue
			}
			for _, lf := range leavesOf(e) {
				if lf.Kind == leafParam && lf.Param.Name() == name {
					found = true
				}
			}
		}
	})
	return found
}

// narrowingIn: a conversion of an integer to a narrower integer type (under the sizes of the configuration analysed)
// in the expression that computes v (through arithmetic, conversions and joins).
func narrowingIn(p *Program, v ssa.Value) *ssa.Convert {
	sizes := types.SizesFor("gc", p.Cfg.GOARCH)
	if sizes == nil {
		return nil
	}
	isInt := func(t types.Type) bool {
		b, ok := t.Underlying().(*types.Basic)
		return ok && b.Info()&types.IsInteger != 0
	}
	seen := map[ssa.Value]bool{}
	var walk func(v ssa.Value, d int) *ssa.Convert
	walk = func(v ssa.Value, d int) *ssa.Convert {
		if v == nil || seen[v] || d > 12 {
			return nil
		}
		seen[v] = true
		switch x := v.(type) {
		case *ssa.Convert:
			if isInt(x.Type()) && isInt(x.X.Type()) && sizes.Sizeof(x.Type()) < sizes.Sizeof(x.X.Type()) {
				return x
			}
			return walk(x.X, d+1)
		case *ssa.ChangeType:
			return walk(x.X, d+1)
		case *ssa.BinOp:
			switch x.Op {
			case token.ADD, token.SUB, token.MUL:
				if r := walk(x.X, d+1); r != nil {
					return r
				}
				return walk(x.Y, d+1)
			}
		case *ssa.Phi:
			for _, e := range x.Edges {
				if r := walk(e, d+1); r != nil {
					return r
				}
			}
		}
		return nil
	}
	return walk(v, 0)
}

// checkFillCountsEveryRead (C01.R19 / C13.R15): the fill helper behind ReadFrom (readFull: Read into b[n:] until b is
// full or the source reports an error) adds the count of *every* Read to what it returns — io.Reader allows n > 0
// together with an error, and those bytes were consumed from the source.  No path from a Read to the return (or to the
// next Read) goes around the addition.
func checkFillCountsEveryRead(c *Ctx, rule string) {
	p := c.P
	// the helper, or the fill loops written in place where it was inlined: every Read of the source in the client's File code
	var hosts []*ssa.Function
	if fn := p.Func("readFull"); fn != nil {
		hosts = append(hosts, fn)
	}
	for _, fn := range fileFuncs(p) {
		hosts = append(hosts, fn)
	}
	total := 0
	for _, fn := range hosts {
		fn := fn
		reads := callsWhere(fn, func(cc *ssa.CallCommon) bool {
			return cc.IsInvoke() && cc.Method.Name() == "Read" && typeName(cc.Value.Type()) == "Reader"
		})
		for i, in := range reads {
			in := in
			call, ok := in.(*ssa.Call)
			if !ok {
				continue
			}
			total++
			var cnt *ssa.Extract
			for _, r := range *call.Referrers() {
				if ex, ok := r.(*ssa.Extract); ok && ex.Index == 0 {
					cnt = ex
				}
			}
			isAdd := func(x ssa.Instruction) bool {
				b, ok := x.(*ssa.BinOp)
				return ok && b.Op == token.ADD && cnt != nil && (b.X == ssa.Value(cnt) || b.Y == ssa.Value(cnt))
			}
			isEnd := func(x ssa.Instruction) bool { return isReturn(x) || x == in }
			c.check(cnt != nil && !reachAvoiding(fn, in, isEnd, isAdd), rule, fmt.Sprintf("%s counts the bytes of Read #%d on every path", fnName(fn), i+1), p.Pos(in.Pos()),
				"n += nn before the error is looked at", "the fill loop can return (or read again) without adding the count of a Read: bytes that the source delivered together with its error are consumed but not counted, and never sent")
		}
	}
	c.check(total >= 1, rule, "reads of the source", "?", fmt.Sprintf("%d Read calls", total), "no Read of the source found in readFull or the File methods")
}

// checkReadReplyTruthTable (C01.R20): a server's ReadAt may return bytes together with io.EOF (every file whose length is
// not a multiple of the request size ends that way).  At the three READ sites the reply is a STATUS exactly when there
// is an error and (it is not EOF or nothing was read) — evaluated for the six combinations of err {nil, EOF, other} x
// n {0, >0}; with "any error is a STATUS" the tail of the file is never delivered and the copy ends short with a nil error.
func checkReadReplyTruthTable(c *Ctx, rule string) {
	p := c.P
	n := 0
	for _, spec := range []struct {
		fn  string
		via bool
	}{{"handlePacket", true}, {"fileget", false}, {"fileputget", false}} {
		fn := p.Func(spec.fn)
		if fn == nil {
			c.missing(rule, spec.fn)
			continue
		}
		for _, in := range callsWhere(fn, func(cc *ssa.CallCommon) bool { return cc.IsInvoke() && cc.Method.Name() == "ReadAt" }) {
			call, ok := in.(*ssa.Call)
			if !ok {
				continue
			}
			n++
			checkEOFConditionX(c, fn, call, rule, "READ in "+spec.fn, spec.via, "answers the data", "the data")
		}
	}
	c.check(n >= 3, rule, "READ sites", "?", fmt.Sprintf("%d ReadAt sites", n), fmt.Sprintf("only %d ReadAt sites found in handlePacket, fileget and fileputget", n))
}

// isClampSlice: x[:min(len(x), K)] — the buffer cut to a maximum, not a prefix filled by a read.
func isClampSlice(s *ssa.Slice) bool {
	if s.Low != nil || s.High == nil {
		return false
	}
	call, ok := stripConv(s.High).(*ssa.Call)
	if !ok || builtinName(&call.Call) != "min" {
		return false
	}
	for _, a := range call.Call.Args {
		if lc, ok := stripConv(a).(*ssa.Call); ok && builtinName(&lc.Call) == "len" && lc.Call.Args[0] == s.X {
			return true
		}
	}
	return false
}

// checkMaxTxPacketOptions (C01.R23): the servers' maximum READ payload is what getDataSlice clamps to; it is set by
// WithMaxTxPacket / WithRSMaxTxPacket.  The option's body is run by the interpreter for sizes around the default: a size
// at or above the default is stored, a smaller one leaves the field alone.  With the guard inverted a raised limit is
// silently ignored and the client's larger reads come back short (which its concurrent paths take for end of file).
func checkMaxTxPacketOptions(c *Ctx, rule string) {
	p := c.P
	def, okDef := int64(32768), false
	if g := p.Sftp.Const("defaultMaxTxPacket"); g != nil {
		if k, ok := constant.Int64Val(constant.ToInt(g.Value.Value)); ok {
			def, okDef = k, true
		}
	}
	_ = okDef
	for _, name := range []string{"WithMaxTxPacket", "WithRSMaxTxPacket"} {
		ctor := p.Func(name)
		if ctor == nil {
			c.missing(rule, name)
			continue
		}
		var mc *ssa.MakeClosure
		for _, rl := range returnLeaves(ctor, 0) {
			v := rl.v
			if ct, ok := v.(*ssa.ChangeType); ok {
				v = ct.X
			}
			if m, ok := v.(*ssa.MakeClosure); ok {
				mc = m
			}
		}
		body, _ := func() (*ssa.Function, bool) {
			if mc == nil {
				return nil, false
			}
			f, ok := mc.Fn.(*ssa.Function)
			return f, ok
		}()
		if body == nil || len(mc.Bindings) != 1 || len(body.Params) != 1 {
			c.okT(rule, name+" stores sizes from the default upwards", p.Pos(ctor.Pos()), "the option is not a literal over its size parameter: not evaluated")
			continue
		}
		srvT := derefType(body.Params[0].Type())
		wrong, und := "", false
		for _, size := range []int64{def - 1, def, def + 1, 65536, 1 << 20} {
			const old = 7 // a marker for "the field as it was"
			obj := &evObj{typ: srvT, fields: map[string]evVal{"maxTxPacket": evInt(old, types.Typ[types.Uint32])}}
			ev := newEvaluator(p)
			cell := evInt(size, types.Typ[types.Uint32])
			ev.nextFree = []*evVal{&cell}
			res := ev.run(body, []evVal{{k: evObject, obj: obj}}, 0)
			if res.kind != "return" {
				und = true
				break
			}
			got := obj.fields["maxTxPacket"]
			if got.k != evConst {
				und = true
				break
			}
			g, _ := constant.Int64Val(constant.ToInt(got.c))
			want := int64(old)
			if size >= def {
				want = size
			}
			if g != want {
				if g == old {
					wrong = fmt.Sprintf("%s(%d) leaves the maximum payload as it was", name, size)
				} else {
					wrong = fmt.Sprintf("%s(%d) sets the maximum payload to %d", name, size, g)
				}
				break
			}
		}
		if und {
			c.okT(rule, name+" stores sizes from the default upwards", p.Pos(ctor.Pos()), "the option's body cannot be run by the interpreter: not evaluated")
			continue
		}
		c.check(wrong == "", rule, name+" stores sizes from the default upwards", p.Pos(ctor.Pos()), "evaluated below, at and above the default", wrong+": a raised limit is ignored (or a too small one accepted), READ replies are cut shorter than the client was told to expect")
	}
}
