package main

import (
	"fmt"
	"go/constant"
	"go/token"
	"go/types"
	"sort"
	"strings"

	"golang.org/x/tools/go/ssa"
)

func init() {
	register("C10", &propSpec{
		level:       "other",
		explanation: "The request server's adapter tables and provenance, decided from the code: request type → Method string (requestMethod, the synthesized requests, open/opendir) → wrapper (Request.call) → handler interface methods, compared with the documented API; every path stored in a Request is the result of cleanPathWithBase/cleanPath (documented exceptions: the symlink target text, a custom RealPath argument) and cleanPathWithBase itself is Clean+ToSlash then Join under !IsAbs, with the start directory itself cleaned; open flags and attribute flags/bytes are copied field to field; each wrapper invokes a handler method at most once per path; error translation preserves categories for the standard error shapes and keeps SFTP status codes.",
		run:         runC10,
		assumptions: []string{"path.Clean/path.Join/filepath.Clean semantics (a cleaned absolute path joined under a root cannot escape it)", "handlers are trusted code"},
	})
}

var methodOracle = map[string]string{
	"sshFxpReadPacket": "", "sshFxpWritePacket": "", "sshFxpOpenPacket": "", "sshFxpOpendirPacket": "", "sshFxpReaddirPacket": "",
	"sshFxpSetstatPacket": "Setstat", "sshFxpFsetstatPacket": "Setstat", "sshFxpRenamePacket": "Rename", "sshFxpSymlinkPacket": "Symlink",
	"sshFxpRemovePacket": "Remove", "sshFxpStatPacket": "Stat", "sshFxpFstatPacket": "Stat", "sshFxpLstatPacket": "Lstat", "sshFxpRmdirPacket": "Rmdir",
	"sshFxpReadlinkPacket": "Readlink", "sshFxpMkdirPacket": "Mkdir", "sshFxpExtendedPacketHardlink": "Link",
	"sshFxpClosePacket": "", "sshFxpRealpathPacket": "", "sshFxInitPacket": "", "sshFxpExtendedPacket": "",
	"sshFxpExtendedPacketPosixRename": "", "sshFxpExtendedPacketStatVFS": "",
}

var callOracle = map[string][]string{
	"Get": {"fileget"}, "Put": {"fileput"}, "Open": {"fileputget"},
	"Setstat": {"filecmd"}, "Rename": {"filecmd"}, "Rmdir": {"filecmd"}, "Mkdir": {"filecmd"}, "Link": {"filecmd"}, "Symlink": {"filecmd"},
	"Remove": {"filecmd"}, "PosixRename": {"filecmd"}, "StatVFS": {"filecmd"},
	"List": {"filelist"}, "Stat": {"filestat"}, "Lstat": {"filestat"}, "Readlink": {"readlink", "filestat"},
}

// methodHandlers: per method string of Request.call, the handler-interface methods its arm may reach and those it must
// (callOracle composed with wrapperOracle, from request-interfaces.go): independent of how the arm is cut into functions.
var methodHandlers = func() map[string]struct{ allowed, required []string } {
	out := map[string]struct{ allowed, required []string }{
		"Get":      {[]string{"ReadAt"}, []string{"ReadAt"}},
		"Put":      {[]string{"WriteAt"}, []string{"WriteAt"}},
		"Open":     {[]string{"ReadAt", "WriteAt"}, []string{"ReadAt", "WriteAt"}},
		"List":     {[]string{"ListAt", "LookupGroupName", "LookupUserName"}, []string{"ListAt"}},
		"Stat":     {[]string{"Filelist", "ListAt", "Lstat"}, []string{"Filelist", "ListAt"}},
		"Lstat":    {[]string{"Filelist", "ListAt", "Lstat"}, []string{"Filelist", "ListAt"}},
		"Readlink": {[]string{"Readlink", "Filelist", "ListAt", "Lstat"}, []string{"Readlink"}},
	}
	for _, m := range []string{"Setstat", "Rename", "Rmdir", "Mkdir", "Link", "Symlink", "Remove", "PosixRename", "StatVFS"} {
		out[m] = struct{ allowed, required []string }{[]string{"Filecmd", "PosixRename", "StatVFS"}, []string{"Filecmd"}}
	}
	return out
}()

// handlerInvokesDeep: the handler-interface methods invoked in fn or in module functions it calls statically.
func handlerInvokesDeep(fn *ssa.Function, depth int, seen map[*ssa.Function]bool) map[string]bool {
	out := map[string]bool{}
	if fn == nil || fn.Blocks == nil || depth > 3 || seen[fn] {
		return out
	}
	seen[fn] = true
	eachInstr(fn, func(in ssa.Instruction) {
		if m, ok := handlerInvoke(in); ok {
			out[m] = true
		}
		if cc := callOf(in); cc != nil && cc.StaticCallee() != nil && inModule(cc.StaticCallee()) {
			for m := range handlerInvokesDeep(cc.StaticCallee(), depth+1, seen) {
				out[m] = true
			}
		}
	})
	return out
}

var wrapperOracle = map[string][]string{
	"fileget":            {"ReadAt"},
	"fileput":            {"WriteAt"},
	"fileputget":         {"ReadAt", "WriteAt"},
	"filecmd":            {"Filecmd", "PosixRename", "StatVFS"},
	"filelist":           {"ListAt", "LookupGroupName", "LookupUserName"},
	"filestat":           {"Filelist", "ListAt", "Lstat"},
	"readlink":           {"Readlink"},
	"(*Request).open":    {"Fileread", "Filewrite", "OpenFile"},
	"(*Request).opendir": {"Filelist"},
}

var getPathOracle = map[string]string{
	"sshFxpLstatPacket": "Path", "sshFxpStatPacket": "Path", "sshFxpRmdirPacket": "Path", "sshFxpReadlinkPacket": "Path", "sshFxpRealpathPacket": "Path",
	"sshFxpMkdirPacket": "Path", "sshFxpSetstatPacket": "Path", "sshFxpStatvfsPacket": "Path", "sshFxpRemovePacket": "Filename", "sshFxpRenamePacket": "Oldpath",
	"sshFxpSymlinkPacket": "Targetpath", "sshFxpOpendirPacket": "Path", "sshFxpOpenPacket": "Path",
	"sshFxpExtendedPacketPosixRename": "Oldpath", "sshFxpExtendedPacketHardlink": "Oldpath",
}

var handlerMethodNames = map[string]bool{"ReadAt": true, "WriteAt": true, "Filecmd": true, "PosixRename": true, "StatVFS": true, "ListAt": true, "Filelist": true, "Lstat": true,
	"Readlink": true, "Fileread": true, "Filewrite": true, "OpenFile": true, "RealPath": true, "LookupUserName": true, "LookupGroupName": true}

func handlerInvoke(in ssa.Instruction) (string, bool) {
	cc := callOf(in)
	if cc == nil || !cc.IsInvoke() {
		return "", false
	}
	if handlerMethodNames[cc.Method.Name()] {
		return cc.Method.Name(), true
	}
	return "", false
}

// cleanProvenance describes how a string value was produced, for path confinement.
func cleanProvenance(p *Program, v ssa.Value, depth int) string {
	if depth > 5 {
		return "?"
	}
	ls := leavesOf(v)
	if len(ls) == 0 {
		return "?"
	}
	out := ""
	for _, l := range ls {
		d := "?"
		switch l.Kind {
		case leafCallResult:
			switch calleeName(l.Call) {
			case "cleanPathWithBase", "cleanPath":
				d = "clean"
			default:
				d = "call:" + calleeName(l.Call)
			}
		case leafFieldLoad:
			d = "field:" + typeName(l.Base.Type()) + "." + l.Field
		case leafConst:
			if s, ok := constString(l.V); ok {
				d = "const:" + s
			}
		case leafParam:
			ok, und := p.closedOverCallers(l.Param, func(arg ssa.Value, _ ssa.Instruction) bool {
				return cleanProvenance(p, arg, depth+1) == "clean"
			})
			if ok && !und {
				d = "clean"
			} else {
				d = "param:" + l.Param.Name()
			}
		}
		if out == "" {
			out = d
		} else if out != d {
			return "mixed(" + out + "," + d + ")"
		}
	}
	return out
}

func runC10(c *Ctx) {
	p := c.P
	checkErrnoWrappedOnce(c, "R17")
	checkOverrideInterfacesConsulted(c, "R18")
	// R19 (= C06.R2): an attribute block is framed by its flags word alone (a flag announced is a field encoded)
	c.withOnly("R2", "R19", func() { runC06(c) })
	checkCloseReportsFailure(c, "R20", func(fn *ssa.Function) bool { return !isClientSide(fn) }, 2)
	checkOneWrapperPerRequest(c, "R21")
	checkHandlersErrorIsTheOneReported(c, "R22")
	pos := func(in ssa.Instruction) string { return p.Pos(in.Pos()) }
	worker := p.Func("(*RequestServer).packetWorker")
	rfp := p.Func("requestFromPacket")
	rm := p.Func("requestMethod")
	call := p.Func("(*Request).call")
	for n, f := range map[string]*ssa.Function{"packetWorker": worker, "requestFromPacket": rfp, "requestMethod": rm, "(*Request).call": call} {
		if f == nil {
			c.missing("R1", n)
			return
		}
		c.looked(fnName(f))
	}
	top, specific := requestTypes(c, "R1")
	all := append(append([]types.Type{}, top...), specific...)

	// ---------- R1 (a) requestMethod ----------
	// by evaluation when requestMethod can be run on a value of each request type (a type switch, a method of the
	// packet types, a table keyed by something the packet reports); otherwise by simulating its type switch
	evalMethod := func(t types.Type) (string, bool) {
		arg := evVal{k: evIface, t: t, inner: &evVal{k: evObject, obj: &evObj{typ: derefType(t), fields: map[string]evVal{}}}}
		st := newEvaluator(p).run(rm, []evVal{arg}, 0)
		if st.kind == "return" && len(st.vals) == 1 && st.vals[0].k == evConst && st.vals[0].c.Kind() == constant.String {
			return constant.StringVal(st.vals[0].c), true
		}
		return "", false
	}
	evaluated := len(all) > 0
	for _, t := range all {
		if _, ok := evalMethod(t); !ok {
			evaluated = false
		}
	}
	if evaluated {
		for _, t := range all {
			tn := typeName(t)
			want, known := methodOracle[tn]
			if !known {
				c.und("R1", "method of "+tn, "?", "request type not in the oracle")
				continue
			}
			got, _ := evalMethod(t)
			c.check(got == want, "R1", "requestMethod("+tn+")", p.Pos(rm.Pos()), fmt.Sprintf("%q", got), fmt.Sprintf("requestMethod maps %s to %q, the documented method is %q", tn, got, want))
		}
	} else {
		var sw ssa.Value
		eachInstr(rm, func(in ssa.Instruction) {
			if ta, ok := in.(*ssa.TypeAssert); ok && ta.CommaOk && sw == nil {
				sw = ta.X
			}
		})
		if sw == nil {
			c.und("R1", "requestMethod switch", p.Pos(rm.Pos()), "no type switch")
		} else {
			head := switchHead(rm, sw)
			// the result: phi at the return
			var ret *ssa.Return
			eachInstr(rm, func(in ssa.Instruction) {
				if r, ok := in.(*ssa.Return); ok && isReturn(in) {
					ret = r
				}
			})
			for _, t := range all {
				tn := typeName(t)
				want, known := methodOracle[tn]
				if !known {
					c.und("R1", "method of "+tn, "?", "request type not in the oracle")
					continue
				}
				body, def, _, from := simulateFrom(head, t)
				got := "?"
				if ret != nil {
					if ph, ok := ret.Results[0].(*ssa.Phi); ok {
						for i, e := range ph.Edges {
							pred := ph.Block().Preds[i]
							match := false
							if body == ph.Block() {
								match = pred == from
							} else {
								match = body == pred || body.Dominates(pred)
							}
							if match {
								if s, ok := constString(e); ok {
									got = s
								}
							}
						}
					} else if s, ok := constString(ret.Results[0]); ok {
						got = s
					}
				}
				_ = def
				c.check(got == want, "R1", "requestMethod("+tn+")", p.Pos(rm.Pos()), fmt.Sprintf("%q", got), fmt.Sprintf("requestMethod maps %s to %q, the documented method is %q", tn, got, want))
			}
		}
	}
	// ---------- R1 (b) synthesized requests in packetWorker ----------
	wv := requestSwitchValue(worker)
	var wHead *ssa.TypeAssert
	if wv != nil {
		wHead = switchHead(worker, wv)
	}
	synth := map[string]string{"sshFxpFstatPacket": "Stat", "sshFxpFsetstatPacket": "Setstat", "sshFxpExtendedPacketPosixRename": "PosixRename", "sshFxpExtendedPacketStatVFS": "StatVFS"}
	if wHead == nil {
		c.und("R1", "packetWorker switch", p.Pos(worker.Pos()), "no type switch")
	} else {
		for _, t := range all {
			tn := typeName(t)
			want, isSynth := synth[tn]
			if !isSynth {
				continue
			}
			body, def, _ := simulate(wHead, t)
			if def {
				c.bad("R1", "synthesized request for "+tn, p.Pos(worker.Pos()), tn+" falls to the default arm")
				continue
			}
			region := regionOf(worker, body)
			got := "?"
			var lit *ssa.Alloc
			for _, a := range literalsOf(worker, "Request") {
				if region[a.Block()] {
					lit = a
					if s, ok := constString(litField(a, "Method")); ok {
						got = s
					}
				}
			}
			c.check(got == want, "R1", "synthesized request for "+tn, p.Pos(body.Instrs[0].Pos()), fmt.Sprintf("Method %q", got), fmt.Sprintf("%s is served with Method %q, documented %q", tn, got, want))
			if lit != nil {
				// R2/R3 for the literal's paths
				wantFields := map[string][]string{
					"sshFxpExtendedPacketPosixRename": {"Filepath", "Target"},
					"sshFxpExtendedPacketStatVFS":     {"Filepath"},
					"sshFxpFstatPacket":               {"Filepath"},
					"sshFxpFsetstatPacket":            {"Filepath"},
				}[tn]
				for _, f := range wantFields {
					// the field is set, and set on every path from the literal to the call that hands it to the handler
					// (a store under a condition — `if target != "" { … }` — leaves the handler with an empty path)
					lit, f := lit, f
					isStore := func(in ssa.Instruction) bool {
						st, ok := in.(*ssa.Store)
						if !ok {
							return false
						}
						fa, ok := st.Addr.(*ssa.FieldAddr)
						if !ok || fa.X != ssa.Value(lit) {
							return false
						}
						_, n, _, _ := fieldOf(fa)
						return n == f
					}
					isUse := func(in ssa.Instruction) bool {
						cc := callOf(in)
						if cc == nil {
							return false
						}
						all := append([]ssa.Value{}, argsOf(cc)...)
						if r := recvOf(cc); r != nil {
							all = append(all, r)
						}
						for _, a := range all {
							if a == ssa.Value(lit) {
								return true
							}
							if isPtrToNamed(a.Type(), "Request") {
								for _, l := range leavesOf(a) {
									if l.V == ssa.Value(lit) {
										return true
									}
								}
							}
						}
						return false
					}
					always := len(findInstrs(worker, isStore)) > 0 && !reachAvoiding(worker, lit, isUse, isStore)
					c.check(always, "R3", f+" of the synthesized request for "+tn+" is always set", pos(lit), "stored on every path to the handler call",
						"the "+tn+" request can reach the handler without its "+f+" having been set (the store is missing or under a condition): the handler gets an empty path instead of the resolved one")
				}
				for _, f := range []string{"Filepath", "Target"} {
					if v := litField(lit, f); v != nil {
						prov := cleanProvenance(p, v, 0)
						c.check(prov == "clean", "R2", "path "+f+" of synthesized request for "+tn, pos(lit), "cleanPathWithBase(startDirectory, …)", "the handler receives "+f+" that did not pass through cleanPathWithBase ("+prov+"): it may be relative or contain '..'")
						// which packet field
						var src string
						for _, l := range leavesOf(v) {
							if l.Kind == leafCallResult && len(argsOf(l.Call)) == 2 {
								for _, l2 := range leavesOf(argsOf(l.Call)[1]) {
									if l2.Kind == leafFieldLoad {
										src = l2.Field
									}
								}
							}
						}
						wantSrc := map[string]map[string]string{
							"sshFxpExtendedPacketPosixRename": {"Filepath": "Oldpath", "Target": "Newpath"},
							"sshFxpExtendedPacketStatVFS":     {"Filepath": "Path"},
							"sshFxpFstatPacket":               {"Filepath": "Filepath"},
							"sshFxpFsetstatPacket":            {"Filepath": "Filepath"},
						}[tn][f]
						c.check(src == wantSrc, "R3", f+" source for "+tn, pos(lit), f+" ← "+src, fmt.Sprintf("%s of the %s request is taken from %q, expected %q", f, tn, src, wantSrc))
					}
				}
			}
		}
	}
	// ---------- R1 (c) Request.call ----------
	{
		got := map[string][]string{}
		for _, b := range call.Blocks {
			iff, ok := b.Instrs[len(b.Instrs)-1].(*ssa.If)
			if !ok {
				continue
			}
			cmp, ok := iff.Cond.(*ssa.BinOp)
			if !ok || cmp.Op != token.EQL {
				continue
			}
			s, ok := constString(cmp.Y)
			if !ok {
				continue
			}
			// wrappers called in the region reached on the true edge before any other string comparison
			seen := map[*ssa.BasicBlock]bool{}
			var walk func(x *ssa.BasicBlock)
			walk = func(x *ssa.BasicBlock) {
				if seen[x] {
					return
				}
				seen[x] = true
				for _, in := range x.Instrs {
					// the handler methods this arm reaches: in the arm itself and in the module functions it calls
					// (the wrappers, whatever they are called and whether or not they still are separate functions)
					if m, ok := handlerInvoke(in); ok {
						got[s] = append(got[s], m)
					}
					if cc := callOf(in); cc != nil && cc.StaticCallee() != nil && inModule(cc.StaticCallee()) {
						for m := range handlerInvokesDeep(cc.StaticCallee(), 0, map[*ssa.Function]bool{}) {
							got[s] = append(got[s], m)
						}
					}
				}
				if iff2, ok := x.Instrs[len(x.Instrs)-1].(*ssa.If); ok {
					if cmp2, ok := iff2.Cond.(*ssa.BinOp); ok && cmp2.Op == token.EQL {
						if _, isStr := constString(cmp2.Y); isStr {
							return
						}
					}
				}
				for _, sc := range x.Succs {
					walk(sc)
				}
			}
			walk(b.Succs[0])
		}
		for m := range callOracle {
			have := map[string]bool{}
			for _, x := range got[m] {
				have[x] = true
			}
			var g []string
			for x := range have {
				g = append(g, x)
			}
			sort.Strings(g)
			spec := methodHandlers[m]
			var extra, lacking []string
			for _, x := range g {
				okX := false
				for _, a := range spec.allowed {
					if a == x {
						okX = true
					}
				}
				if !okX {
					extra = append(extra, x)
				}
			}
			for _, r := range spec.required {
				if !have[r] {
					lacking = append(lacking, r)
				}
			}
			c.check(len(extra) == 0 && len(lacking) == 0, "R1", "Request.call("+m+")", p.Pos(call.Pos()), "→ "+strings.Join(g, ","),
				fmt.Sprintf("method %q reaches the handler methods %v: not allowed %v, missing %v (documented: %v)", m, g, extra, lacking, spec.allowed))
		}
		for m := range got {
			if _, ok := callOracle[m]; !ok {
				c.bad("R1", "Request.call("+m+")", p.Pos(call.Pos()), "Request.call routes an undocumented method string "+m)
			}
		}
		// sibling check: every method string used as a tag is one that is assigned somewhere
		assigned := map[string]bool{}
		for _, fn := range p.LibFuncs() {
			if outermost(fn).Package() != p.Sftp || !isServerSide(fn) {
				continue
			}
			eachInstr(fn, func(in ssa.Instruction) {
				if st, ok := in.(*ssa.Store); ok {
					if fa, ok := st.Addr.(*ssa.FieldAddr); ok {
						if t, n, _, _ := fieldOf(fa); n == "Method" && typeName(t) == "Request" {
							if s, ok := constString(st.Val); ok {
								assigned[s] = true
							}
						}
					}
				}
			})
		}
		for _, m := range methodOracle {
			assigned[m] = true
		}
		for m := range callOracle {
			c.check(assigned[m], "R1", "method string "+m+" is produced", p.Pos(call.Pos()), "assigned somewhere", "the method string "+m+" is a case tag but is never assigned to a Request")
		}
	}
	// ---------- R1 (d) wrappers -> handler methods ----------
	for name, want := range wrapperOracle {
		fn := p.Func(name)
		if fn == nil {
			// folded into its caller: what it did is judged per method string above
			c.note("wrapper %s is not a separate function in this tree; its handler calls are checked per method in Request.call", name)
			continue
		}
		c.looked(name)
		set := map[string]bool{}
		eachInstr(fn, func(in ssa.Instruction) {
			if m, ok := handlerInvoke(in); ok {
				set[m] = true
			}
		})
		var got []string
		for m := range set {
			got = append(got, m)
		}
		sort.Strings(got)
		// the name-lookup methods live in runLs, not in filelist itself
		w := []string{}
		for _, x := range want {
			if x == "LookupGroupName" || x == "LookupUserName" {
				continue
			}
			w = append(w, x)
		}
		sort.Strings(w)
		c.check(strings.Join(got, ",") == strings.Join(w, ","), "R1", "handler methods of "+name, p.Pos(fn.Pos()), strings.Join(got, ","), fmt.Sprintf("%s invokes %v, documented %v", name, got, w))
	}
	// open(): method strings precede their handler calls; flag predicate
	if op := p.Func("(*Request).open"); op != nil {
		for _, pair := range [][2]string{{"OpenFile", "Open"}, {"Filewrite", "Put"}, {"Fileread", "Get"}} {
			var inv ssa.Instruction
			eachInstr(op, func(in ssa.Instruction) {
				if m, ok := handlerInvoke(in); ok && m == pair[0] {
					inv = in
				}
			})
			if inv == nil {
				continue
			}
			okM := false
			eachInstr(op, func(in ssa.Instruction) {
				if st, ok := in.(*ssa.Store); ok && dominates(in, inv) {
					if fa, ok := st.Addr.(*ssa.FieldAddr); ok {
						if _, n, _, _ := fieldOf(fa); n == "Method" {
							if s, ok := constString(st.Val); ok {
								// the last dominating store wins: require no other Method store between
								okM = s == pair[1]
							}
						}
					}
				}
			})
			c.check(okM, "R1", "open: Method "+pair[1]+" before "+pair[0], pos(inv), "r.Method = "+pair[1], "the handler "+pair[0]+" is called with a Method other than "+pair[1])
			// flag fields tested on the way
			fields := map[string]bool{}
			for _, b := range op.Blocks {
				iff, ok := b.Instrs[len(b.Instrs)-1].(*ssa.If)
				if !ok || !blockReaches(b, inv.Block()) {
					continue
				}
				for _, l := range leavesOf(iff.Cond) {
					if l.Kind == leafFieldLoad && typeName(l.Base.Type()) == "FileOpenFlags" {
						fields[l.Field] = true
					}
				}
			}
			var fs []string
			for f := range fields {
				fs = append(fs, f)
			}
			sort.Strings(fs)
			want := map[string]string{"OpenFile": "Append,Creat,Read,Trunc,Write", "Filewrite": "Append,Creat,Read,Trunc,Write", "Fileread": "Append,Creat,Read,Trunc,Write"}[pair[0]]
			c.check(strings.Join(fs, ",") == want, "R1", "open: flags deciding "+pair[0], pos(inv), strings.Join(fs, ","), "the choice of "+pair[0]+" depends on flags {"+strings.Join(fs, ",")+"}, documented {"+want+"}")
		}
		// Fileread only when no writing flag: its block is not dominated by the write arm
	} else {
		c.missing("R1", "(*Request).open")
	}
	if od := p.Func("(*Request).opendir"); od != nil {
		okM := false
		var inv ssa.Instruction
		eachInstr(od, func(in ssa.Instruction) {
			if m, ok := handlerInvoke(in); ok && m == "Filelist" {
				inv = in
			}
		})
		if inv != nil {
			eachInstr(od, func(in ssa.Instruction) {
				if st, ok := in.(*ssa.Store); ok && dominates(in, inv) {
					if fa, ok := st.Addr.(*ssa.FieldAddr); ok {
						if _, n, _, _ := fieldOf(fa); n == "Method" {
							if s, ok := constString(st.Val); ok && s == "List" {
								okM = true
							}
						}
					}
				}
			})
		}
		c.check(okM, "R1", "opendir: Method List before Filelist", p.Pos(od.Pos()), "r.Method = List", "Filelist is called for OPENDIR with a Method other than List")
	} else {
		c.missing("R1", "(*Request).opendir")
	}
	c.floor("R1", 55)

	// ---------- R2 path confinement ----------
	{
		n := 0
		for _, fn := range p.LibFuncs() {
			if outermost(fn).Package() != p.Sftp {
				continue
			}
			if typeName(recvTypeOf(outermost(fn))) == "root" {
				continue
			}
			eachInstr(fn, func(in ssa.Instruction) {
				st, ok := in.(*ssa.Store)
				if !ok {
					return
				}
				fa, ok := st.Addr.(*ssa.FieldAddr)
				if !ok {
					return
				}
				t, name, _, _ := fieldOf(fa)
				if typeName(t) != "Request" || (name != "Filepath" && name != "Target") {
					return
				}
				n++
				prov := cleanProvenance(p, st.Val, 0)
				key := "Request." + name + " in " + fnName(fn)
				switch {
				case prov == "clean":
					c.ok("R2", key, pos(in), "result of cleanPathWithBase/cleanPath")
				case prov == "field:Request."+name && fnName(fn) == "(*Request).copy":
					c.okT("R2", key, pos(in), "field-to-field copy of an existing Request")
				case name == "Filepath" && prov == "field:sshFxpSymlinkPacket.Targetpath":
					c.okT("R2", key, pos(in), "documented exception: the symlink target text is passed verbatim")
				default:
					c.bad("R2", key, pos(in), "a handler-visible path is stored without passing through cleanPathWithBase ("+prov+"): joined under a root it may escape it")
				}
			})
		}
		c.check(n >= 8, "R2", "path stores", "?", fmt.Sprintf("%d stores", n), fmt.Sprintf("only %d stores to Request.Filepath/Target found", n))
		// cleanPathWithBase's own shape
		if cp := p.Func("cleanPathWithBase"); cp == nil {
			c.missing("R2", "cleanPathWithBase")
		} else {
			c.looked("cleanPathWithBase")
			cleaned := func(v ssa.Value) bool {
				// ToSlash(Clean(param p))
				for _, l := range leavesOf(v) {
					if l.Kind == leafCallResult && callIs(l.Call, "path/filepath.ToSlash") {
						for _, l2 := range leavesOf(l.Call.Args[0]) {
							if l2.Kind == leafCallResult && callIs(l2.Call, "path/filepath.Clean", "path.Clean") {
								return true
							}
						}
					}
					if l.Kind == leafCallResult && callIs(l.Call, "path.Clean") {
						return true
					}
				}
				return false
			}
			okJoin, okAbs := false, false
			eachInstr(cp, func(in ssa.Instruction) {
				r, ok := in.(*ssa.Return)
				if !ok || !isReturn(in) {
					return
				}
				for _, l := range leavesOf(r.Results[0]) {
					if l.Kind == leafCallResult && callIs(l.Call, "path.Join") {
						// path.Join(base, cleaned)
						if len(l.Call.Args) == 1 {
							// variadic slice
							okJoin = true
						}
						// must be on the !IsAbs edge
						continue
					}
					if cleaned(l.V) || cleaned(r.Results[0]) {
						// returned unjoined: only under IsAbs
						for _, b := range cp.Blocks {
							iff, ok := b.Instrs[len(b.Instrs)-1].(*ssa.If)
							if !ok {
								continue
							}
							if ic, ok := iff.Cond.(*ssa.Call); ok && callIs(&ic.Call, "path.IsAbs") && cleaned(ic.Call.Args[0]) {
								if b.Succs[0].Dominates(in.Block()) || b.Succs[0] == in.Block() {
									okAbs = true
								}
							}
						}
					}
				}
			})
			// every return is either the join or the abs-guarded cleaned value
			nret := len(findInstrs(cp, isReturn))
			c.check(okJoin && okAbs && nret == 2, "R2", "cleanPathWithBase shape", p.Pos(cp.Pos()), "p = ToSlash(Clean(p)); IsAbs(p) ? p : Join(base, p)", "cleanPathWithBase no longer cleans its argument and joins relative paths onto the base (absolute ones returned as cleaned)")
			// the join's second element is the cleaned p and the first is base
			joinOK := false
			eachInstr(cp, func(in ssa.Instruction) {
				if call, ok := in.(*ssa.Call); ok && callIs(&call.Call, "path.Join") {
					// variadic: slice of alloc with two stores
					for _, l := range leavesOfIface(call.Call.Args[0]) {
						if s, ok := l.(*ssa.Slice); ok {
							if a, ok := s.X.(*ssa.Alloc); ok {
								var elems [2]ssa.Value
								for _, r := range *a.Referrers() {
									if ia, ok := r.(*ssa.IndexAddr); ok {
										k, _ := constInt(ia.Index)
										for _, rr := range *ia.Referrers() {
											if st, ok := rr.(*ssa.Store); ok && k >= 0 && k < 2 {
												elems[k] = st.Val
											}
										}
									}
								}
								if pr, ok := elems[0].(*ssa.Parameter); ok && pr == cp.Params[0] && elems[1] != nil && cleaned(elems[1]) {
									joinOK = true
								}
							}
						}
					}
				}
			})
			c.check(joinOK, "R2", "cleanPathWithBase joins base with the cleaned path", p.Pos(cp.Pos()), "path.Join(base, cleaned)", "the join does not combine the base with the cleaned path")
		}
		// startDirectory is "/" or a cleanPath result
		for _, a := range p.accessesOf("RequestServer", "startDirectory") {
			if !a.Write {
				continue
			}
			for _, r := range *a.In.(ssa.Value).Referrers() {
				st, ok := r.(*ssa.Store)
				if !ok {
					continue
				}
				prov := cleanProvenance(p, st.Val, 0)
				c.check(prov == "clean" || prov == "const:/", "R2", "startDirectory in "+fnName(a.Fn), pos(st), "\"/\" or cleanPath(…)", "the start directory is stored without being made absolute and clean ("+prov+"): relative handler paths, double joins on FSTAT, '..' escapes")
			}
		}
		// the default REALPATH answer
		if wHead != nil {
			rp := p.NamedType(p.Sftp, "sshFxpRealpathPacket")
			if rp != nil {
				body, _, _ := simulate(wHead, types.NewPointer(rp))
				region := regionOf(worker, body)
				okDef := false
				for b := range region {
					for _, in := range b.Instrs {
						if cc := callOf(in); cc != nil && calleeName(cc) == "cleanPathWithBase" {
							for _, l := range leavesOf(cc.Args[0]) {
								if l.Kind == leafFieldLoad && l.Field == "startDirectory" {
									okDef = true
								}
							}
						}
					}
				}
				c.check(okDef, "R2", "default REALPATH", p.Pos(body.Instrs[0].Pos()), "cleanPathWithBase(startDirectory, path)", "the built-in REALPATH answer is not cleaned relative to the start directory")
				// R16: what a custom resolver answers is the answer — its result is consumed, not overwritten by the
				// built-in cleaning
				nRes := 0
				for _, b := range worker.Blocks {
					if !region[b] {
						continue
					}
					for _, in := range b.Instrs {
						call, ok := in.(*ssa.Call)
						if !ok || !call.Call.IsInvoke() || call.Call.Method.Name() != "RealPath" {
							continue
						}
						nRes++
						var res ssa.Value = call
						if call.Call.Signature().Results().Len() > 1 {
							res = nil
							for _, r := range *call.Referrers() {
								if ex, ok := r.(*ssa.Extract); ok && ex.Index == 0 {
									res = ex
								}
							}
						}
						c.check(res != nil && valueLive(res, map[ssa.Value]bool{}), "R16", fmt.Sprintf("the answer of RealPath resolver #%d reaches the reply", nRes), p.Pos(call.Pos()), "consumed",
							"the path a custom RealPath resolver returns is consumed by nothing: the client gets the built-in answer instead of the handler's")
					}
				}
				c.okT("R16", "custom RealPath resolvers examined", "?", fmt.Sprintf("%d", nRes))
			}
		}
	}

	// ---------- R3 field to field ----------
	{
		var sw ssa.Value
		eachInstr(rfp, func(in ssa.Instruction) {
			if ta, ok := in.(*ssa.TypeAssert); ok && ta.CommaOk && sw == nil {
				sw = ta.X
			}
		})
		type want struct{ dst, src string }
		wants := map[string][]want{
			"sshFxpOpenPacket":             {{"Flags", "Pflags"}, {"Attrs", "Attrs"}},
			"sshFxpSetstatPacket":          {{"Flags", "Flags"}, {"Attrs", "Attrs"}},
			"sshFxpMkdirPacket":            {{"Flags", "Flags"}, {"Attrs", "Attrs"}},
			"sshFxpRenamePacket":           {{"Target", "Newpath"}},
			"sshFxpSymlinkPacket":          {{"Target", "Linkpath"}, {"Filepath", "Targetpath"}},
			"sshFxpExtendedPacketHardlink": {{"Target", "Newpath"}},
		}
		// by running requestFromPacket on a packet of each type whose fields are tokens (whatever way it is written);
		// by reading the arms of its type switch when it cannot be run
		evaluated := true
		evalFields := map[string]map[string]string{}
		for tn := range wants {
			f, ok := p.requestFieldsOf(tn)
			if !ok {
				evaluated = false
				break
			}
			evalFields[tn] = f
		}
		if evaluated {
			var tns []string
			for tn := range wants {
				tns = append(tns, tn)
			}
			sort.Strings(tns)
			for _, tn := range tns {
				got := evalFields[tn]
				for _, w := range wants[tn] {
					g := strings.TrimPrefix(strings.TrimPrefix(got[w.dst], "copy:"), "clean:")
					if g == "" {
						g = "?"
					}
					if w.dst == "Target" && !strings.HasPrefix(got[w.dst], "clean:") {
						g += " (not made absolute against the start directory)"
					}
					c.check(g == w.src, "R3", fmt.Sprintf("%s: Request.%s ← %s", tn, w.dst, w.src), p.Pos(rfp.Pos()), "copied from the packet's "+w.src, fmt.Sprintf("Request.%s of a %s is taken from %q, expected %q", w.dst, tn, g, w.src))
				}
				if tn == "sshFxpOpenPacket" {
					conveyed := false
					for _, l := range got {
						if l == "Flags" {
							conveyed = true
						}
					}
					c.check(conveyed, "R3", "sshFxpOpenPacket: attribute flags reach the handler", p.Pos(rfp.Pos()), "copied into the Request",
						"the attribute flags word of OPEN is not copied into the Request (Request.Flags holds pflags): AttrFlags() and Attributes() of an Open request interpret the open flags as attribute flags, so the handler cannot read the attributes the client sent")
				}
			}
		} else if sw == nil {
			c.und("R3", "requestFromPacket switch", p.Pos(rfp.Pos()), "no type switch")
		} else {
			head := switchHead(rfp, sw)
			for tn, ws := range wants {
				nt := p.NamedType(p.Sftp, tn)
				if nt == nil {
					c.missing("R3", tn)
					continue
				}
				body, def, _ := simulate(head, types.NewPointer(nt))
				if def {
					c.bad("R3", "requestFromPacket case "+tn, p.Pos(rfp.Pos()), tn+" has no case in requestFromPacket: its flags/attrs/target do not reach the handler")
					continue
				}
				region := regionOf(rfp, body)
				for _, w := range ws {
					got := "?"
					for b := range region {
						for _, in := range b.Instrs {
							st, ok := in.(*ssa.Store)
							if !ok {
								continue
							}
							fa, ok := st.Addr.(*ssa.FieldAddr)
							if !ok {
								continue
							}
							if t, n, _, _ := fieldOf(fa); typeName(t) == "Request" && n == w.dst {
								for _, l := range leavesOf(st.Val) {
									switch l.Kind {
									case leafFieldLoad:
										got = l.Field
									case leafCallResult:
										if len(argsOf(l.Call)) == 2 {
											for _, l2 := range leavesOf(argsOf(l.Call)[1]) {
												if l2.Kind == leafFieldLoad {
													got = l2.Field
												}
											}
										}
									}
								}
							}
						}
					}
					c.check(got == w.src, "R3", fmt.Sprintf("%s: Request.%s ← %s", tn, w.dst, w.src), p.Pos(body.Instrs[0].Pos()), "copied from the packet's "+w.src, fmt.Sprintf("Request.%s of a %s is taken from %q, expected %q", w.dst, tn, got, w.src))
				}
				if tn == "sshFxpOpenPacket" {
					// OPEN carries two flag words: pflags and the attribute flags that say how to read Attrs
					conveyed := false
					for b := range region {
						for _, in := range b.Instrs {
							st, ok := in.(*ssa.Store)
							if !ok {
								continue
							}
							if fa, ok := st.Addr.(*ssa.FieldAddr); ok {
								if t, _, _, _ := fieldOf(fa); typeName(t) == "Request" {
									for _, l := range leavesOf(st.Val) {
										if l.Kind == leafFieldLoad && l.Field == "Flags" {
											conveyed = true
										}
									}
								}
							}
						}
					}
					c.check(conveyed, "R3", "sshFxpOpenPacket: attribute flags reach the handler", p.Pos(body.Instrs[0].Pos()), "copied into the Request",
						"the attribute flags word of OPEN is not copied into the Request (Request.Flags holds pflags): AttrFlags() and Attributes() of an Open request interpret the open flags as attribute flags, so the handler cannot read the attributes the client sent")
				}
			}
		}
		// filecmd copies FSETSTAT's flags and attrs
		if fc := p.Func("filecmd"); fc != nil {
			for _, w := range []want{{"Flags", "Flags"}, {"Attrs", "Attrs"}} {
				got := "?"
				eachInstr(fc, func(in ssa.Instruction) {
					if st, ok := in.(*ssa.Store); ok {
						if fa, ok := st.Addr.(*ssa.FieldAddr); ok {
							if t, n, _, _ := fieldOf(fa); typeName(t) == "Request" && n == w.dst {
								for _, l := range leavesOf(st.Val) {
									if l.Kind == leafFieldLoad && typeName(l.Base.Type()) == "sshFxpFsetstatPacket" {
										got = l.Field
									}
								}
							}
						}
					}
				})
				c.check(got == w.src, "R3", "FSETSTAT: Request."+w.dst, p.Pos(fc.Pos()), "copied from the packet", fmt.Sprintf("FSETSTAT's %s reaches the handler from %q", w.dst, got))
			}
		} else {
			c.missing("R3", "filecmd")
		}
		// getPath / getHandle tables
		for _, t := range append(all, ptrNamed(p, "sshFxpStatvfsPacket")) {
			if t == nil {
				continue
			}
			tn := typeName(t)
			if want, ok := getPathOracle[tn]; ok {
				m := p.methodOf(t, "getPath")
				got := "?"
				if m != nil && m.Blocks != nil {
					eachInstr(m, func(in ssa.Instruction) {
						if r, ok := in.(*ssa.Return); ok {
							for _, l := range leavesOf(r.Results[0]) {
								if l.Kind == leafFieldLoad {
									got = l.Field
								}
							}
						}
					})
				}
				c.check(got == want, "R3", "getPath of "+tn, "packet-typing.go", "returns "+got, fmt.Sprintf("getPath() of %s returns field %q, expected %q", tn, got, want))
			}
			if m := p.methodOf(t, "getHandle"); m != nil && m.Blocks != nil {
				got := "?"
				eachInstr(m, func(in ssa.Instruction) {
					if r, ok := in.(*ssa.Return); ok {
						for _, l := range leavesOf(r.Results[0]) {
							if l.Kind == leafFieldLoad {
								got = l.Field
							}
						}
					}
				})
				c.check(got == "Handle", "R3", "getHandle of "+tn, "packet-typing.go", "returns Handle", "getHandle() of "+tn+" returns field "+got)
			}
		}
		// requestFromPacket: Filepath from getPath()
		fpOK := false
		for _, a := range literalsOf(rfp, "Request") {
			if v := litField(a, "Filepath"); v != nil {
				for _, l := range leavesOf(v) {
					if l.Kind == leafCallResult && len(argsOf(l.Call)) == 2 {
						for _, l2 := range leavesOf(argsOf(l.Call)[1]) {
							if l2.Kind == leafCallResult && calleeName(l2.Call) == "getPath" {
								fpOK = true
							}
						}
						if pr, ok := argsOf(l.Call)[0].(*ssa.Parameter); !ok || pr.Name() != "baseDir" {
							fpOK = false
						}
					}
				}
			}
			if v := litField(a, "Method"); v != nil {
				mOK := false
				for _, l := range leavesOf(v) {
					if l.Kind == leafCallResult && l.Call.StaticCallee() == rm {
						mOK = true
					}
				}
				c.check(mOK, "R1", "requestFromPacket Method", pos(a), "Method = requestMethod(pkt)", "the request's Method is not computed by requestMethod")
			}
		}
		c.check(fpOK, "R3", "requestFromPacket Filepath", p.Pos(rfp.Pos()), "cleanPathWithBase(baseDir, pkt.getPath())", "Filepath is not the packet's path cleaned relative to the start directory")
		// open flags decoding
		if nf := p.Func("newFileOpenFlags"); nf != nil {
			wantBits := map[string]int64{"Read": 1, "Write": 2, "Append": 4, "Creat": 8, "Trunc": 16, "Excl": 32}
			for _, a := range literalsOf(nf, "FileOpenFlags") {
				for f, bit := range wantBits {
					v := litField(a, f)
					got := int64(-1)
					if b, ok := v.(*ssa.BinOp); ok && b.Op == token.NEQ {
						if and, ok := b.X.(*ssa.BinOp); ok && and.Op == token.AND {
							got, _ = constInt(and.Y)
						}
					}
					c.check(got == bit, "R3", "FileOpenFlags."+f, pos(a), fmt.Sprintf("flags&%#x != 0", bit), fmt.Sprintf("FileOpenFlags.%s is decoded from bit %#x, expected %#x", f, got, bit))
				}
			}
		} else {
			c.missing("R3", "newFileOpenFlags")
		}
	}

	// ---------- R4 invocation counts ----------
	for name := range wrapperOracle {
		fn := p.Func(name)
		if fn == nil {
			continue
		}
		groups := [][]string{{"ReadAt"}, {"WriteAt"}, {"Filecmd", "PosixRename", "StatVFS"}, {"ListAt"}, {"Filelist", "Lstat"}, {"Readlink"}, {"Fileread", "Filewrite", "OpenFile"}}
		for _, g := range groups {
			in := func(x ssa.Instruction) bool {
				m, ok := handlerInvoke(x)
				if !ok {
					return false
				}
				for _, n := range g {
					if n == m {
						return true
					}
				}
				return false
			}
			if len(findInstrs(fn, in)) == 0 {
				continue
			}
			_, mx, n := countPaths(fn, nil, isReturn, in)
			loop := false
			for _, x := range findInstrs(fn, in) {
				if inLoop(x) {
					loop = true
				}
			}
			c.check(n > 0 && mx <= 1 && !loop, "R4", name+" invokes "+strings.Join(g, "|")+" at most once", p.Pos(fn.Pos()), "≤ 1 handler invocation per request path", fmt.Sprintf("%s can invoke %s %d times for one request", name, strings.Join(g, "|"), mx))
		}
	}
	if wHead != nil {
		isCall := func(in ssa.Instruction) bool {
			cc := callOf(in)
			if cc == nil || cc.StaticCallee() == nil {
				return false
			}
			switch fnName(cc.StaticCallee()) {
			case "(*Request).call", "(*Request).open", "(*Request).opendir":
				return true
			}
			return false
		}
		ls := rangeChanLoops(worker)
		if len(ls) == 1 {
			_, mx, ok := countLoopIter(ls[0], isCall)
			c.check(ok && mx <= 1, "R4", "packetWorker dispatches each request once", p.Pos(worker.Pos()), "≤ 1 call/open/opendir per request", fmt.Sprintf("a request can be handed to the handlers %d times", mx))
		}
	}

	// ---------- R5 results pass through ----------
	checkErrorShapes(c, "R5")
	c.floor("R5", 40)

	// ---------- R6 the handler that runs is the one the request names ----------
	checkHandleRequestMatch(c, "R6")

	// ---------- R7 EOF is recognised inside os's wrappers wherever it decides about data ----------
	checkEOFRecognition(c, "R7")

	// ---------- R8 Filecmd only sees methods it is documented for ----------
	checkFilecmdMethodNames(c, "R8")

	// ---------- R9 listings as given: the cursor protocol of filelist (shared with C16.R1) ----------
	c.withRule("R9", func() { checkListingCursor(c) })

	// ---------- R10 what the handler returned is what is sent: the library completes a copy of a handler's reply object
	// (shared with C02.R2) ----------
	c.withRule("R10", func() { checkResponseObjectsPrivate(c, "R2") })

	// ---------- R11 attributes as given: encoded when the handler returns, not when the reply is written ----------
	checkRepliesFixedWhenHandlerReturns(c, "R11")
	// R12 (shared with C17.R3): the attribute flags a handler reads through AttrFlags() are the bits the client sent
	checkAttrFlagBits(c, "R12")
	checkStartDirectoryIsTheBase(c, "R2")
	// R13 (shared with C11.R17): the error a handler object returns from Close is what the client's Close gets
	checkCloseErrorsKept(c, "R13")
	// R14 (shared with C01.R20): what a handler's ReadAt returned is what is sent — data while there is data, EOF at the end, the error otherwise
	c.withOnlyKeys("R20", "R14", []string{"fileget", "fileputget"}, func() { checkReadReplyTruthTable(c, "R20") })
	checkHandlerCountsBounded(c, "R15")
}

// checkRepliesFixedWhenHandlerReturns (R11): a reply is marshalled by the packet manager's controller after it was
// queued, and queuing it already lets the next request run.  A handler's os.FileInfo kept inside the reply object is
// therefore asked for Size/Mode/ModTime after later requests were served (the example backend's FileInfo is the live
// file: FSTAT, WRITE, FSTAT pipelined reports the size after the write twice).  So, in every function that asks a
// handler for a listing (invokes ListerAt.ListAt):
//   - no FileInfo value is converted to an empty interface (the []any{fi} of a NAME entry is marshalled later);
//   - every sshFxpStatResponse built there gets its encoded attributes stored (field attrs) from marshalFileInfo;
//
// and the marshaller of sshFxpStatResponse reads the FileInfo only where those bytes are absent.
func checkRepliesFixedWhenHandlerReturns(c *Ctx, rule string) {
	p := c.P
	isFileInfo := func(t types.Type) bool {
		n := namedOf(t)
		return n != nil && n.Obj().Name() == "FileInfo" && n.Obj().Pkg() != nil && (n.Obj().Pkg().Path() == "io/fs" || n.Obj().Pkg().Path() == "os")
	}
	nFn := 0
	for _, fn := range p.LibFuncs() {
		if outermost(fn).Package() != p.Sftp {
			continue
		}
		asks := false
		eachInstr(fn, func(in ssa.Instruction) {
			if cc := callOf(in); cc != nil && cc.IsInvoke() && cc.Method.Name() == "ListAt" {
				asks = true
			}
		})
		if !asks {
			continue
		}
		nFn++
		c.looked(fnName(fn))
		bad := ""
		eachInstr(fn, func(in ssa.Instruction) {
			switch x := in.(type) {
			case *ssa.ChangeInterface:
				if isFileInfo(x.X.Type()) {
					if it, ok := x.Type().Underlying().(*types.Interface); ok && it.NumMethods() == 0 {
						bad = p.Pos(x.Pos())
					}
				}
			case *ssa.MakeInterface:
				if isFileInfo(x.X.Type()) {
					bad = p.Pos(x.Pos())
				}
			}
		})
		c.check(bad == "", rule, fnName(fn)+": no handler FileInfo goes into a reply as an untyped value", p.Pos(fn.Pos()), "entries carry encoded attributes",
			"a FileInfo obtained from the handler is put into the reply as is (at "+bad+"): its attributes are read when the controller writes the reply, after later requests may have changed the file, and disagree with the long name formatted now")
		// stat responses built here
		eachInstr(fn, func(in ssa.Instruction) {
			a, ok := in.(*ssa.Alloc)
			if !ok || typeName(a.Type()) != "sshFxpStatResponse" {
				return
			}
			encoded := false
			for _, r := range *a.Referrers() {
				fa, ok := r.(*ssa.FieldAddr)
				if !ok {
					continue
				}
				if _, name, _, _ := fieldOf(fa); name != "attrs" {
					continue
				}
				for _, rr := range *fa.Referrers() {
					if st, ok := rr.(*ssa.Store); ok {
						if call, ok := st.Val.(*ssa.Call); ok && calleeName(&call.Call) == "marshalFileInfo" {
							encoded = true
						}
					}
				}
			}
			c.check(encoded, rule, fnName(fn)+": ATTRS reply carries attributes encoded now", p.Pos(a.Pos()), "attrs = marshalFileInfo(...)",
				"the ATTRS reply built from the handler's FileInfo holds only the FileInfo: its attributes are read when the controller writes the reply, after later requests (FSTAT, WRITE, FSTAT pipelined: the first FSTAT reports the size after the write)")
		})
	}
	c.check(nFn >= 2, rule, "functions that ask a handler for a listing", "?", fmt.Sprintf("%d functions", nFn), fmt.Sprintf("only %d found (filelist, filestat expected)", nFn))

	mp := p.Func("(*sshFxpStatResponse).marshalPacket")
	if mp == nil {
		c.missing(rule, "(*sshFxpStatResponse).marshalPacket")
		return
	}
	for _, in := range callsWhere(mp, func(cc *ssa.CallCommon) bool { return calleeName(cc) == "marshalFileInfo" }) {
		guarded := false
		for b := in.Block(); b != nil && !guarded; b = b.Idom() {
			for _, pred := range b.Preds {
				for cv, truth := range edgeConds(b, pred) {
					bo, ok := cv.(*ssa.BinOp)
					if !ok {
						continue
					}
					if u, ok := bo.X.(*ssa.UnOp); ok && isNilConst(bo.Y) {
						if _, name, _, ok := fieldOf(u.X); ok && name == "attrs" && ((bo.Op == token.EQL && truth) || (bo.Op == token.NEQ && !truth)) {
							guarded = true
						}
					}
				}
			}
		}
		c.check(guarded, rule, "(*sshFxpStatResponse).marshalPacket reads the FileInfo only without encoded attributes", p.Pos(in.Pos()), "under attrs == nil", "the marshaller asks the FileInfo although the response carries encoded attributes: the request server's ATTRS replies report the state at write time")
	}
}

func ptrNamed(p *Program, name string) types.Type {
	n := p.NamedType(p.Sftp, name)
	if n == nil {
		return nil
	}
	return types.NewPointer(n)
}

// checkHandleRequestMatch (C10.R6, shared as C02.R7): a handle-carrying READ, WRITE or READDIR is served through
// Request.call, which routes by the Method the handle was opened with, not by the packet.  For every packet type T
// and every Method M an open handle can have, the handler I/O reached must be T's own (READ→ReadAt, WRITE→WriteAt,
// READDIR→ListAt) or none, and the reply type must be legal for T; combinations for which that fails must be refused
// before Request.call — by a gate in packetWorker whose table is extracted here — and the gate must not refuse a
// matching combination.
func checkHandleRequestMatch(c *Ctx, rule string) {
	p := c.P
	call := p.Func("(*Request).call")
	worker := p.Func("(*RequestServer).packetWorker")
	if call == nil || worker == nil {
		c.missing(rule, "(*Request).call / packetWorker")
		return
	}
	// 1. Method string -> wrapper
	wrapperOf := map[string]*ssa.Function{}
	for _, b := range call.Blocks {
		iff, ok := b.Instrs[len(b.Instrs)-1].(*ssa.If)
		if !ok {
			continue
		}
		cmp, ok := iff.Cond.(*ssa.BinOp)
		if !ok || cmp.Op != token.EQL {
			continue
		}
		s, ok := constString(cmp.Y)
		if !ok {
			continue
		}
		// first module call returning a responsePacket on the way from the equal-edge
		seen := map[*ssa.BasicBlock]bool{}
		var walk func(x *ssa.BasicBlock)
		walk = func(x *ssa.BasicBlock) {
			if seen[x] || wrapperOf[s] != nil {
				return
			}
			seen[x] = true
			for _, in := range x.Instrs {
				if cl, ok := in.(*ssa.Call); ok {
					if f := cl.Call.StaticCallee(); f != nil && inModule(f) && f.Signature.Results().Len() == 1 && typeName(f.Signature.Results().At(0).Type()) == "responsePacket" {
						wrapperOf[s] = f
						return
					}
				}
			}
			if iff2, ok := x.Instrs[len(x.Instrs)-1].(*ssa.If); ok {
				if cmp2, ok := iff2.Cond.(*ssa.BinOp); ok && cmp2.Op == token.EQL {
					if _, isStr := constString(cmp2.Y); isStr {
						return
					}
				}
			}
			for _, sc := range x.Succs {
				walk(sc)
			}
		}
		walk(b.Succs[0])
	}
	// 2. handler I/O of a wrapper for packet type T
	ioNames := map[string]bool{"ReadAt": true, "WriteAt": true, "ListAt": true}
	pktParamOf := func(fn *ssa.Function) *ssa.Parameter {
		for _, pr := range fn.Params {
			if typeName(pr.Type()) == "requestPacket" {
				return pr
			}
		}
		return nil
	}
	ioFor := func(w *ssa.Function, tname string) (map[string]bool, map[string]bool) {
		io, replies := map[string]bool{}, map[string]bool{}
		var blocks map[*ssa.BasicBlock]bool
		if pp := pktParamOf(w); pp != nil {
			cases := typeCasesOn(w, pp)
			// only switches that decide the I/O count: a case body containing handler I/O
			deciding := false
			for _, tc := range cases {
				if tc.Body == nil {
					continue
				}
				for b := range regionOf(w, tc.Body) {
					for _, in := range b.Instrs {
						if cc := callOf(in); cc != nil && cc.IsInvoke() && ioNames[cc.Method.Name()] {
							deciding = true
						}
					}
				}
			}
			if deciding {
				blocks = map[*ssa.BasicBlock]bool{}
				for _, tc := range cases {
					if tc.Body != nil && typeName(tc.Asserted) == tname {
						for b := range regionOf(w, tc.Body) {
							blocks[b] = true
						}
					}
				}
			}
		}
		for _, b := range w.Blocks {
			if blocks != nil && !blocks[b] {
				continue
			}
			for _, in := range b.Instrs {
				if cc := callOf(in); cc != nil && cc.IsInvoke() && ioNames[cc.Method.Name()] {
					io[cc.Method.Name()] = true
				}
				if r, ok := in.(*ssa.Return); ok && len(r.Results) == 1 && blocks == nil {
					ts, _ := p.valueRespTypes(r.Results[0], 0, map[*ssa.Function]bool{})
					for t := range ts {
						replies[t] = true
					}
				}
			}
		}
		return io, replies
	}
	// 3. the gate in packetWorker: a bool method of the looked-up request applied to the packet, true on the way to call
	var gate *ssa.Function
	var site ssa.Instruction
	for _, s := range p.callersOfStatic(call) {
		if s.Parent() != worker {
			continue
		}
		cc := callOf(s)
		fromTable := false
		for _, l := range leavesOf(cc.Args[0]) {
			if l.Kind == leafCallResult && calleeName(l.Call) == "getRequest" {
				fromTable = true
			}
		}
		// the generic handle case passes the interface-typed packet on (FSTAT/FSETSTAT build their own Request)
		if fromTable {
			site = s
		}
	}
	if site == nil {
		c.und(rule, "handle requests reach Request.call", p.Pos(worker.Pos()), "cannot find the call of Request.call on a looked-up request")
		return
	}
	for cv, truth := range edgeConds(site.Block(), nil) {
		if cl, ok := cv.(*ssa.Call); ok && truth {
			if f := cl.Call.StaticCallee(); f != nil && inModule(f) && len(cl.Call.Args) == 2 {
				if b, ok := f.Signature.Results().At(0).Type().Underlying().(*types.Basic); ok && b.Kind() == types.Bool {
					gate = f
				}
			}
		}
	}
	// gate table: packet type -> methods it lets through (nil entry = everything)
	gateAllows := func(tname, m string) bool {
		if gate == nil {
			return true
		}
		pp := gate.Params[len(gate.Params)-1]
		for _, tc := range typeCasesOn(gate, pp) {
			if tc.Body == nil || typeName(tc.Asserted) != tname {
				continue
			}
			for b := range regionOf(gate, tc.Body) {
				for _, in := range b.Instrs {
					if bo, ok := in.(*ssa.BinOp); ok && bo.Op == token.EQL {
						if s, ok := constString(bo.Y); ok && s == m {
							return true
						}
					}
				}
			}
			return false
		}
		return true
	}
	if gate != nil {
		// the table extraction understands only positive string comparisons
		clean := true
		eachInstr(gate, func(in ssa.Instruction) {
			switch x := in.(type) {
			case *ssa.BinOp:
				if x.Op == token.NEQ {
					if _, ok := constString(x.Y); ok {
						clean = false
					}
				}
			case *ssa.UnOp:
				if x.Op == token.NOT {
					clean = false
				}
			}
		})
		if !clean {
			c.und(rule, "gate "+fnName(gate), p.Pos(gate.Pos()), "the gate uses negations; its table cannot be extracted")
			return
		}
	}
	want := map[string]string{"sshFxpReadPacket": "ReadAt", "sshFxpWritePacket": "WriteAt", "sshFxpReaddirPacket": "ListAt"}
	legal := map[string][]string{"sshFxpReadPacket": {"sshFxpDataPacket", "sshFxpStatusPacket"}, "sshFxpWritePacket": {"sshFxpStatusPacket"}, "sshFxpReaddirPacket": {"sshFxpNamePacket", "sshFxpStatusPacket"}}
	n := 0
	for _, tname := range []string{"sshFxpReadPacket", "sshFxpWritePacket", "sshFxpReaddirPacket"} {
		for _, m := range []string{"Get", "Put", "Open", "List"} {
			w := wrapperOf[m]
			key := fmt.Sprintf("%s on a handle opened as %s", strings.TrimSuffix(strings.TrimPrefix(tname, "sshFxp"), "Packet"), m)
			if w == nil {
				c.und(rule, key, p.Pos(call.Pos()), "Request.call has no wrapper for method "+m)
				continue
			}
			n++
			io, replies := ioFor(w, tname)
			var ios []string
			for k := range io {
				ios = append(ios, k)
			}
			sort.Strings(ios)
			matching := len(io) == 1 && io[want[tname]]
			allowed := gateAllows(tname, m)
			switch {
			case allowed && len(io) > 0 && !matching:
				c.bad(rule, key, p.Pos(w.Pos()), fmt.Sprintf("the request is routed to %s, which calls the handler object's %s: the wrong handler runs for this request and the reply has the wrong type or a false success (e.g. a READ on a file opened for writing writes the zeroed reply buffer into the file and is answered OK)", fnName(w), strings.Join(ios, ",")))
			case !allowed && matching:
				c.bad(rule, key, p.Pos(gate.Pos()), "the gate refuses a request that its handle serves")
			case allowed && len(subset(replies, legal[tname])) > 0:
				c.bad(rule, key, p.Pos(w.Pos()), fmt.Sprintf("the request may be answered with %s, which is not a legal reply to it", strings.Join(subset(replies, legal[tname]), ",")))
			case !allowed:
				c.ok(rule, key, p.Pos(gate.Pos()), "refused by "+fnName(gate)+" before Request.call")
			default:
				c.ok(rule, key, p.Pos(w.Pos()), "served by "+fnName(w)+" through "+strings.Join(ios, ",")+" (or answered with an error status)")
			}
		}
	}
	c.check(n == 12, rule, "packet type × open method combinations", "?", "12 combinations", fmt.Sprintf("%d combinations examined", n))
}

// checkEOFRecognition (C10.R7): end-of-file from a handler counts "bare or inside os's own error wrappers".  The reply
// path (statusFromError) recognises it with errors.Is; the wrappers that decide whether data or entries returned
// together with an EOF are delivered must use the same test — a `!= io.EOF` comparison sends a wrapped EOF down the
// error path and the data that came with it is dropped, while the status still says EOF.
func checkEOFRecognition(c *Ctx, rule string) {
	p := c.P
	n := 0
	for _, name := range []string{"fileget", "fileputget", "filelist", "filestat"} {
		fn := p.Func(name)
		if fn == nil {
			c.missing(rule, name)
			continue
		}
		ord := 0
		eachInstr(fn, func(in ssa.Instruction) {
			isEOF := func(v ssa.Value) bool {
				for _, l := range leavesOf(v) {
					if l.Kind == leafGlobal && l.V.Name() == "EOF" {
						return true
					}
				}
				return false
			}
			switch x := in.(type) {
			case *ssa.BinOp:
				if (x.Op == token.EQL || x.Op == token.NEQ) && (isEOF(x.X) || isEOF(x.Y)) {
					n++
					ord++
					c.bad(rule, fmt.Sprintf("%s EOF test #%d", name, ord), p.Pos(in.Pos()), "the handler's error is compared with io.EOF by identity: an EOF inside *os.PathError/*os.SyscallError is not recognised here although statusFromError reports it as EOF, and the bytes or entries returned with it are dropped")
				}
			case *ssa.Call:
				if callIs(&x.Call, "errors.Is") && len(x.Call.Args) == 2 && isEOF(x.Call.Args[1]) {
					n++
					ord++
					c.ok(rule, fmt.Sprintf("%s EOF test #%d", name, ord), p.Pos(in.Pos()), "errors.Is(err, io.EOF), as in statusFromError")
				}
			}
		})
	}
	c.check(n >= 3, rule, "EOF tests in the wrappers", "?", fmt.Sprintf("%d tests", n), fmt.Sprintf("only %d EOF tests found in the read/list wrappers", n))
}

// checkFilecmdMethodNames (C10.R8): FileCmder.Filecmd is documented for the methods Setstat, Rename, Rmdir, Mkdir, Link,
// Symlink and Remove.  PosixRename and StatVFS belong to optional interfaces; without them PosixRename "is handled in
// the same way as Rename".  On the branch of filecmd taken for such a method, Filecmd must not be reachable unless the
// method has been rewritten to one it knows.
func checkFilecmdMethodNames(c *Ctx, rule string) {
	p := c.P
	fn := p.Func("filecmd")
	if fn == nil {
		c.missing(rule, "filecmd")
		return
	}
	known := map[string]bool{"Setstat": true, "Rename": true, "Rmdir": true, "Mkdir": true, "Link": true, "Symlink": true, "Remove": true}
	isFilecmd := func(in ssa.Instruction) bool {
		cc := callOf(in)
		return cc != nil && cc.IsInvoke() && cc.Method.Name() == "Filecmd"
	}
	rewrites := func(in ssa.Instruction) bool {
		st, ok := in.(*ssa.Store)
		if !ok {
			return false
		}
		if _, name, _, ok := fieldOf(st.Addr); !ok || name != "Method" {
			return false
		}
		s, ok := constString(st.Val)
		return ok && known[s]
	}
	n := 0
	for _, b := range fn.Blocks {
		iff, ok := b.Instrs[len(b.Instrs)-1].(*ssa.If)
		if !ok {
			continue
		}
		cmp, ok := iff.Cond.(*ssa.BinOp)
		if !ok || cmp.Op != token.EQL {
			continue
		}
		s, ok := constString(cmp.Y)
		if !ok || known[s] {
			continue
		}
		n++
		leaks := reachFromBlock(b.Succs[0], isFilecmd, rewrites)
		c.check(!leaks, rule, "Filecmd is not called with method "+s, p.Pos(iff.Pos()), "served by the optional interface, refused, or rewritten to a method Filecmd knows",
			"a "+s+" request can reach FileCmder.Filecmd with Method == \""+s+"\", which the interface does not define: a handler without the optional interface answers \"unsupported\" (for PosixRename the documentation promises the behaviour of Rename)")
	}
	c.check(n >= 2, rule, "methods of optional interfaces in filecmd", p.Pos(fn.Pos()), fmt.Sprintf("%d branches", n), fmt.Sprintf("only %d such branches found (PosixRename, StatVFS expected)", n))
}

// checkStartDirectoryIsTheBase (C10.R2 / C16.R15): in the request server every request path is made absolute against the
// configured start directory — each call of requestFromPacket and of cleanPathWithBase in a method of RequestServer
// passes the startDirectory field as the base, not a constant.  With "/" in one arm (OPENDIR, say) a relative name
// lists or opens another directory than the same name does in every other request.
func checkStartDirectoryIsTheBase(c *Ctx, rule string) {
	p := c.P
	n := 0
	for _, fn := range p.LibFuncs() {
		of := outermost(fn)
		if of.Package() != p.Sftp || of.Signature.Recv() == nil || typeName(of.Signature.Recv().Type()) != "RequestServer" {
			continue
		}
		eachInstr(fn, func(in ssa.Instruction) {
			cc := callOf(in)
			if cc == nil || cc.StaticCallee() == nil {
				return
			}
			var base ssa.Value
			switch fnName(cc.StaticCallee()) {
			case "requestFromPacket":
				if len(cc.Args) == 3 {
					base = cc.Args[2]
				}
			case "cleanPathWithBase":
				if len(cc.Args) == 2 {
					base = cc.Args[0]
				}
			}
			if base == nil {
				return
			}
			n++
			ok := false
			for _, l := range leavesOf(base) {
				if l.Kind == leafFieldLoad && l.Field == "startDirectory" {
					ok = true
				} else {
					ok = false
					break
				}
			}
			c.check(ok, rule, "base directory of "+calleeName(cc)+" in "+fnName(fn), p.Pos(in.Pos()), "rs.startDirectory", "a request path is made absolute against something other than the configured start directory: relative names mean another place in this request than in the others")
		})
	}
	// the one handler method that takes a bare path besides RealPath (whose argument is verbatim by documentation):
	// Readlink gets the Request's cleaned Filepath, not the packet's wire path
	for _, fn := range p.LibFuncs() {
		if outermost(fn).Package() != p.Sftp {
			continue
		}
		eachInstr(fn, func(in ssa.Instruction) {
			cc := callOf(in)
			if cc == nil || !cc.IsInvoke() || cc.Method.Name() != "Readlink" || len(cc.Args) != 1 || typeName(cc.Value.Type()) != "ReadlinkFileLister" {
				return
			}
			ok := false
			for _, l := range leavesOf(cc.Args[0]) {
				if l.Kind == leafFieldLoad && l.Field == "Filepath" && typeName(l.Base.Type()) == "Request" {
					ok = true
				} else {
					ok = false
					break
				}
			}
			c.check(ok, rule, "path given to the Readlink handler in "+fnName(fn), p.Pos(in.Pos()), "the Request's Filepath (cleaned against the start directory)", "the Readlink handler is given a path that is not the Request's cleaned Filepath (the packet's wire path): it arrives unclean and relative, and is not confined to the served tree")
		})
	}
	c.check(n >= 8, rule, "path-cleaning calls in the request server", "?", fmt.Sprintf("%d calls", n), fmt.Sprintf("only %d calls of requestFromPacket/cleanPathWithBase found in RequestServer's methods", n))
}

// checkHandlerCountsBounded (C10.R15): a handler answers through counts — ListAt and ReadAt say how many entries or
// bytes they produced.  In the functions that take those counts, every index and slice expression is proved in
// range by the prover (facts from the dominating branches): an empty listing in reply to STAT is the handler's way
// of saying "no such file" and must come out as that status, not as an index out of range in the worker.
func checkHandlerCountsBounded(c *Ctx, rule string) {
	p := c.P
	w := newZWorld(p)
	ord := map[string]int{}
	lifted := map[*ssa.Function][]zreq{}
	n := 0
	for _, fn := range p.LibFuncs() {
		if outermost(fn).Package() != p.Sftp {
			continue
		}
		takes := false
		eachInstr(fn, func(in ssa.Instruction) {
			if cc := callOf(in); cc != nil && cc.IsInvoke() && (cc.Method.Name() == "ListAt" || cc.Method.Name() == "ReadAt") {
				takes = true
			}
		})
		if !takes || isClientSide(fn) {
			continue
		}
		z := w.get(fn)
		for _, o := range z.obligationsOf() {
			if o.Kind != "slice" && o.Kind != "index" {
				continue
			}
			n++
			decideObl(c, w, z, o, rule, oblKey(o, fn, ord), lifted)
		}
	}
	c.check(n >= 2, rule, "index and slice expressions beside handler counts", "?", fmt.Sprintf("%d", n), fmt.Sprintf("only %d found", n))
}


// checkErrnoWrappedOnce (C10.R17): statusFromError unwraps one *os.PathError and translates the errno inside; a
// handler's error that already is a *os.PathError (what os.Open returns) and is wrapped into a second one reaches the
// client as SSH_FX_FAILURE instead of NO_SUCH_FILE/PERMISSION_DENIED.  On the server side every os.PathError literal
// therefore wraps a value whose static type is syscall.Errno (a constant, or what a type assertion to Errno gave) —
// never a value of type error.
func checkErrnoWrappedOnce(c *Ctx, rule string) {
	p := c.P
	n := 0
	for _, fn := range p.LibFuncs() {
		if outermost(fn).Package() != p.Sftp || isClientSide(fn) {
			continue
		}
		if f := p.Fset.Position(fn.Pos()).Filename; strings.HasSuffix(f, "request-example.go") {
			continue
		}
		for _, a := range literalsOf(fn, "PathError") {
			if nn := namedOf(a.Type()); nn == nil || nn.Obj().Pkg() == nil || nn.Obj().Pkg().Path() != "io/fs" && nn.Obj().Pkg().Path() != "os" {
				continue
			}
			v := litField(a, "Err")
			if v == nil {
				continue
			}
			n++
			good := false
			switch x := v.(type) {
			case *ssa.MakeInterface:
				if nn := namedOf(x.X.Type()); nn != nil && nn.Obj().Name() == "Errno" {
					good = true
				}
			case *ssa.Const:
				good = true
			}
			c.check(good, rule, "os.PathError literal in "+fnName(fn), p.Pos(a.Pos()),
				"the wrapped value is an errno",
				"a *os.PathError is built around a value of type error: if that already is a *os.PathError (what os.Open and most handlers return) the status translation, which unwraps once, answers SSH_FX_FAILURE instead of the errno's code")
		}
	}
	c.floor(rule, 3)
}


// checkOverrideInterfacesConsulted (C10.R18, shared as C17.R13): the optional interfaces by which a handler's FileInfo
// overrides what the library derives itself (FileInfoUidGid, FileInfoExtendedData) are consulted for every FileInfo:
// the type assertion is on every path of its function (it dominates every return), not behind a test of what has been
// found so far — an entry that has both a Sys() owner and Uid()/Gid() must show the handler's answer, as its long name
// does.
func checkOverrideInterfacesConsulted(c *Ctx, rule string) {
	p := c.P
	n := 0
	for _, fn := range p.LibFuncs() {
		if outermost(fn).Package() != p.Sftp {
			continue
		}
		eachInstr(fn, func(in ssa.Instruction) {
			ta, ok := in.(*ssa.TypeAssert)
			if !ok {
				return
			}
			nn := namedOf(ta.AssertedType)
			if nn == nil || nn.Obj().Pkg() == nil || nn.Obj().Pkg().Path() != pkgSftp || !strings.HasPrefix(nn.Obj().Name(), "FileInfo") {
				return
			}
			if _, isIface := nn.Underlying().(*types.Interface); !isIface {
				return
			}
			if typeName(ta.X.Type()) != "FileInfo" {
				return
			}
			n++
			all := true
			for _, ret := range findInstrs(fn, isReturn) {
				if !dominates(ta, ret) {
					all = false
				}
			}
			c.check(all, rule, fmt.Sprintf("%s consulted in %s", nn.Obj().Name(), fnName(fn)), p.Pos(ta.Pos()),
				"the assertion is on every path to a return",
				"the FileInfo is asked for "+nn.Obj().Name()+" only on some paths: what the handler's FileInfo overrides is then taken from elsewhere for some entries (and disagrees with the long name, which always asks)")
		})
	}
	c.floor(rule, 2)
}
