package main

import (
	"fmt"
	"go/ast"
	"go/constant"
	"go/token"
	"go/types"
	"golang.org/x/tools/go/ssa/ssautil"
	"sort"
	"strings"

	"golang.org/x/tools/go/ssa"
)

func init() {
	register("C09", &propSpec{
		level:       "proof",
		explanation: "For every request type makePacket/UnmarshalBinary can build and for all 64 open-flag sets: a mutating file-system sink reachable in the request's handling cone implies that the read-only gate classifies the request as not read-only (dispatch simulation of the gate's own type switch on the type the worker sees); the gate dominates handlePacket, answers EPERM (mapped to PERMISSION_DENIED), and reading requests are not gated. Sufficient for 'no mutating sink executes when readOnly is set', modulo the trusted base.",
		run:         runC09,
		trusted: []string{
			"completeness of the sink classification: every function of os, syscall, io/ioutil, x/sys not on the reading allowlist counts as mutating",
			"VTA call graph soundness for the handling cones (no reflection, unsafe or cgo in them)",
			"OS semantics: an O_RDONLY open without O_CREATE/O_TRUNC does not modify the file system (atime excluded)",
			"the ReadOnly option is fixed at construction (readOnly is written only by the option)",
		},
		extra: []BuildConfig{cfg386},
	})
}

// ---- open flag tables, extracted from syntax ----

type flagRule struct {
	need  uint64 // wire bits that must all be set
	osBit int64  // os flag OR-ed in
}

type openTable struct {
	// bySSA, when set, is the table obtained by evaluating the function for every combination of the six wire flags
	// (eval.go): used when the code is not written as the ladder the syntactic extraction knows
	bySSA map[uint64]openResult

	chain       []flagRule // if / else-if ladder; first match wins
	chainElse   string     // "reject" when the final else returns
	singles     []flagRule
	unknown     []string
	osVar       types.Object
	reachesOpen bool
}

type openResult struct {
	flags    int64
	rejected bool
}

// extractOpenTable: the os flags (*sshFxpOpenPacket).respond opens with, per combination of wire flags.  First by
// recognising the if-ladder in the syntax (which also names the construct in reports); when the code has another
// shape — helpers, a lookup table, early returns — by evaluating its SSA for each of the 64 combinations with the
// attribute flags zero, up to the call of (*Server).openfile.
func extractOpenTable(p *Program) (*openTable, string) {
	t, why := extractOpenTableSyntax(p)
	if t != nil && len(t.unknown) == 0 {
		return t, why
	}
	fn := p.Func("(*sshFxpOpenPacket).respond")
	if fn == nil {
		return t, why
	}
	res := map[uint64]openResult{}
	for w := uint64(0); w < 64; w++ {
		ev := newEvaluator(p)
		ev.intercept = func(cc *ssa.CallCommon, args []evVal) bool { return calleeName(cc) == "openfile" }
		pkt := &evObj{typ: derefType(fn.Params[0].Type()), fields: map[string]evVal{
			"Pflags": evInt(int64(w), types.Typ[types.Uint32]),
			"Flags":  evInt(0, types.Typ[types.Uint32]),
		}}
		st := ev.run(fn, []evVal{{k: evObject, obj: pkt}, {}}, 0)
		switch st.kind {
		case "intercept":
			if len(st.vals) < 3 || st.vals[2].k != evConst {
				return t, "the flag argument of openfile is not determined by the wire flags (" + fmt.Sprint(st.vals) + ")"
			}
			f, _ := constant.Int64Val(constant.ToInt(st.vals[2].c))
			res[w] = openResult{flags: f}
		case "return":
			res[w] = openResult{rejected: true}
		default:
			if why == "" && t != nil {
				why = strings.Join(t.unknown, "; ")
			}
			return t, why + " (evaluation for wire flags " + fmt.Sprintf("%#x", w) + " stopped: " + st.why + ")"
		}
	}
	return &openTable{bySSA: res, reachesOpen: true}, ""
}

func constOf(info *types.Info, e ast.Expr) (int64, bool) {
	tv, ok := info.Types[e]
	if !ok || tv.Value == nil || tv.Value.Kind() != constant.Int {
		return 0, false
	}
	if v, ok := constant.Int64Val(tv.Value); ok {
		return v, true
	}
	if u, ok := constant.Uint64Val(tv.Value); ok {
		return int64(u), true
	}
	return 0, false
}

// hasPflagsCall recognises p.hasPflags(c1, c2, …) and returns the OR of the constants.
func hasPflagsCall(info *types.Info, e ast.Expr) (uint64, bool) {
	call, ok := ast.Unparen(e).(*ast.CallExpr)
	if !ok {
		return 0, false
	}
	sel, ok := call.Fun.(*ast.SelectorExpr)
	if !ok || sel.Sel.Name != "hasPflags" {
		return 0, false
	}
	var mask uint64
	for _, a := range call.Args {
		v, ok := constOf(info, a)
		if !ok {
			return 0, false
		}
		mask |= uint64(v)
	}
	return mask, len(call.Args) > 0
}

// orAssign recognises `v |= K` (single statement block) and returns K.
func orAssign(info *types.Info, blk *ast.BlockStmt) (types.Object, int64, bool) {
	if blk == nil || len(blk.List) != 1 {
		return nil, 0, false
	}
	as, ok := blk.List[0].(*ast.AssignStmt)
	if !ok || as.Tok != token.OR_ASSIGN || len(as.Lhs) != 1 {
		return nil, 0, false
	}
	id, ok := as.Lhs[0].(*ast.Ident)
	if !ok {
		return nil, 0, false
	}
	k, ok := constOf(info, as.Rhs[0])
	if !ok {
		return nil, 0, false
	}
	return info.ObjectOf(id), k, true
}

func extractOpenTableSyntax(p *Program) (*openTable, string) {
	fd, info := p.FuncDecl(pkgSftp, "sshFxpOpenPacket", "respond")
	if fd == nil {
		return nil, "(*sshFxpOpenPacket).respond not found"
	}
	t := &openTable{}
	for _, st := range fd.Body.List {
		iff, ok := st.(*ast.IfStmt)
		if !ok || iff.Init != nil {
			continue
		}
		mask, ok := hasPflagsCall(info, iff.Cond)
		if !ok {
			continue
		}
		obj, k, ok := orAssign(info, iff.Body)
		if !ok {
			t.unknown = append(t.unknown, "if hasPflags(...) with a body that is not `v |= CONST`")
			continue
		}
		if t.osVar == nil {
			t.osVar = obj
		} else if t.osVar != obj {
			t.unknown = append(t.unknown, "flag ladder assigns two different variables")
		}
		if iff.Else == nil {
			t.singles = append(t.singles, flagRule{mask, k})
			continue
		}
		// ladder
		if len(t.chain) > 0 {
			t.unknown = append(t.unknown, "two access-mode ladders")
		}
		t.chain = append(t.chain, flagRule{mask, k})
		cur := iff.Else
		for cur != nil {
			switch e := cur.(type) {
			case *ast.IfStmt:
				m, ok := hasPflagsCall(info, e.Cond)
				_, k2, ok2 := orAssign(info, e.Body)
				if !ok || !ok2 {
					t.unknown = append(t.unknown, "else-if arm not of the form hasPflags/|=")
				} else {
					t.chain = append(t.chain, flagRule{m, k2})
				}
				cur = e.Else
			case *ast.BlockStmt:
				if len(e.List) == 1 {
					if _, isRet := e.List[0].(*ast.ReturnStmt); isRet {
						t.chainElse = "reject"
					}
				}
				if t.chainElse == "" {
					t.unknown = append(t.unknown, "final else of the access-mode ladder does not return")
				}
				cur = nil
			default:
				cur = nil
			}
		}
	}
	if t.osVar == nil || len(t.chain) == 0 {
		return nil, "no open-flag ladder recognised in (*sshFxpOpenPacket).respond"
	}
	// every other write to the os-flag variable makes the table incomplete
	ast.Inspect(fd.Body, func(n ast.Node) bool {
		switch x := n.(type) {
		case *ast.AssignStmt:
			for _, l := range x.Lhs {
				if id, ok := l.(*ast.Ident); ok && info.ObjectOf(id) == t.osVar {
					if x.Tok != token.OR_ASSIGN {
						if x.Tok == token.DEFINE || x.Tok == token.ASSIGN {
							if v, ok := constOf(info, x.Rhs[0]); ok && v == 0 {
								continue
							}
						}
						t.unknown = append(t.unknown, "os flag variable assigned outside the recognised ladder")
					}
				}
			}
		case *ast.IncDecStmt:
			if id, ok := x.X.(*ast.Ident); ok && info.ObjectOf(id) == t.osVar {
				t.unknown = append(t.unknown, "os flag variable modified by ++/--")
			}
		case *ast.CallExpr:
			for i, a := range x.Args {
				if id, ok := ast.Unparen(a).(*ast.Ident); ok && info.ObjectOf(id) == t.osVar {
					if sel, ok := x.Fun.(*ast.SelectorExpr); ok && sel.Sel.Name == "openfile" && i == 1 {
						t.reachesOpen = true
					} else {
						t.unknown = append(t.unknown, "os flag variable passed to "+types.ExprString(x.Fun))
					}
				}
			}
		}
		return true
	})
	// count |= statements on the variable: must equal recognised ones
	nOr := 0
	ast.Inspect(fd.Body, func(n ast.Node) bool {
		if as, ok := n.(*ast.AssignStmt); ok && as.Tok == token.OR_ASSIGN {
			if id, ok := as.Lhs[0].(*ast.Ident); ok && info.ObjectOf(id) == t.osVar {
				nOr++
			}
		}
		return true
	})
	if nOr != len(t.chain)+len(t.singles) {
		t.unknown = append(t.unknown, fmt.Sprintf("%d `|=` on the os flag variable but %d recognised", nOr, len(t.chain)+len(t.singles)))
	}
	if !t.reachesOpen {
		t.unknown = append(t.unknown, "os flag variable is not the flag argument of svr.openfile")
	}
	return t, ""
}

// eval returns the os flags for a wire flag set, or rejected.
func (t *openTable) eval(w uint64) (osFlags int64, rejected bool) {
	if t.bySSA != nil {
		r := t.bySSA[w&0x3f]
		return r.flags, r.rejected
	}
	matched := false
	for _, r := range t.chain {
		if w&r.need == r.need {
			osFlags |= r.osBit
			matched = true
			break
		}
	}
	if !matched && t.chainElse == "reject" {
		return 0, true
	}
	for _, r := range t.singles {
		if w&r.need == r.need {
			osFlags |= r.osBit
		}
	}
	return osFlags, false
}

// readonlyPredicate extracts (*sshFxpOpenPacket).readonly as a predicate over wire flags.
func readonlyPredicate(p *Program) (func(uint64) bool, string, string) {
	fd, info := p.FuncDecl(pkgSftp, "sshFxpOpenPacket", "readonly")
	if fd == nil {
		return nil, "", "(*sshFxpOpenPacket).readonly not found"
	}
	if len(fd.Body.List) != 1 {
		return nil, "", "readonly() is not a single return statement"
	}
	ret, ok := fd.Body.List[0].(*ast.ReturnStmt)
	if !ok || len(ret.Results) != 1 {
		return nil, "", "readonly() is not a single return statement"
	}
	e := ast.Unparen(ret.Results[0])
	// !p.hasPflags(…)
	if u, ok := e.(*ast.UnaryExpr); ok && u.Op == token.NOT {
		if m, ok := hasPflagsCall(info, u.X); ok {
			return func(w uint64) bool { return w&m != m }, fmt.Sprintf("!hasPflags(%#x)", m), ""
		}
	}
	// p.Pflags & MASK == 0   |   p.Pflags & MASK != 0 negated etc.
	if b, ok := e.(*ast.BinaryExpr); ok && (b.Op == token.EQL) {
		if z, ok := constOf(info, b.Y); ok && z == 0 {
			if and, ok := ast.Unparen(b.X).(*ast.BinaryExpr); ok && and.Op == token.AND {
				if sel, ok := ast.Unparen(and.X).(*ast.SelectorExpr); ok && sel.Sel.Name == "Pflags" {
					if m, ok := constOf(info, and.Y); ok {
						mm := uint64(m)
						return func(w uint64) bool { return w&mm == 0 }, fmt.Sprintf("Pflags&%#x == 0", mm), ""
					}
				}
			}
		}
	}
	return nil, "", "readonly() has a shape the extractor does not understand: " + types.ExprString(e)
}

func hasPflagsIsConjunction(p *Program) bool {
	fn := p.Func("(*sshFxpOpenPacket).hasPflags")
	if fn == nil {
		return false
	}
	// SSA shape: loop over the variadic slice; return false when Pflags&f == 0; return true at the end
	retFalseUnderZero, retTrue := false, false
	eachInstr(fn, func(in ssa.Instruction) {
		r, ok := in.(*ssa.Return)
		if !ok || len(r.Results) != 1 {
			return
		}
		c, ok := r.Results[0].(*ssa.Const)
		if !ok {
			return
		}
		if constant.BoolVal(c.Value) {
			if !inLoop(in) {
				retTrue = true
			}
			return
		}
		// dominated by an If on (Pflags & f) == 0
		for _, b := range fn.Blocks {
			iff, ok := b.Instrs[len(b.Instrs)-1].(*ssa.If)
			if !ok {
				continue
			}
			cmp, ok := iff.Cond.(*ssa.BinOp)
			if !ok || cmp.Op != token.EQL {
				continue
			}
			z, isz := constInt(cmp.Y)
			and, isAnd := cmp.X.(*ssa.BinOp)
			if isz && z == 0 && isAnd && and.Op == token.AND && b.Succs[0] == in.Block() {
				retFalseUnderZero = true
			}
		}
	})
	n := 0
	eachInstr(fn, func(in ssa.Instruction) {
		if _, ok := in.(*ssa.Return); ok {
			n++
		}
	})
	return retFalseUnderZero && retTrue && n == 2
}

func osConst(p *Program, name string) int64 {
	pk := p.byPath["os"]
	if pk == nil {
		return -1
	}
	if c, ok := pk.Types.Scope().Lookup(name).(*types.Const); ok {
		v, _ := constant.Int64Val(c.Val())
		return v
	}
	return -1
}

func sinkNames(ss []sink) string {
	seen := map[string]bool{}
	var names []string
	for _, s := range ss {
		if !seen[s.ID] {
			seen[s.ID] = true
			names = append(names, s.ID)
		}
	}
	sort.Strings(names)
	return strings.Join(names, ", ")
}

func runC09(c *Ctx) {
	p := c.P
	checkWrapperNotTakenForPacket(c, "R7")
	checkStandaloneParsesFlagsFirst(c, "R8")
	// R9 (= C02.R18): the refusal is an object of its own, carrying the refused request's id
	checkRepliesAreFresh(c, "R9")
	checkOptionErrorRefusesConstruction(c, "R10")
	// the clause "purely reading requests keep working" at their end points: R11 (= C01.R20) a READ at the end of the
	// file is answered with EOF, R12 (= C16.R3) a READDIR behind the last entry likewise, R13 (= C05.R1) statvfs asks
	// the file system about the name it was given
	checkReadReplyTruthTable(c, "R11")
	c.withOnly("R3", "R12", func() { runC16(c) })
	c.withOnlyKeys("R1", "R13", []string{"StatVFS"}, func() { runC05(c) })
	// R9 (shared with C02.R11): the refusal of a modifying request is addressed by the packet's id()
	checkIDMethods(c, "R9")
	checkOpenfilePassthrough(c, "R2")
	pos := func(in ssa.Instruction) string { return p.Pos(in.Pos()) }
	handle := p.Func("handlePacket")
	worker := p.Func("(*Server).sftpServerWorker")
	if handle == nil || worker == nil {
		c.missing("R1", "handlePacket / sftpServerWorker")
		return
	}
	c.looked("handlePacket")
	c.looked("(*Server).sftpServerWorker")

	// ---------- R2 open flags ----------
	tab, why := extractOpenTable(p)
	ro, roDesc, why2 := readonlyPredicate(p)
	mutMask := osConst(p, "O_WRONLY") | osConst(p, "O_RDWR") | osConst(p, "O_CREATE") | osConst(p, "O_TRUNC") | osConst(p, "O_APPEND")
	openIsMutating := func(w uint64) (bool, bool) { // (mutating, decided)
		if tab == nil || len(tab.unknown) > 0 {
			return true, false
		}
		f, rej := tab.eval(w)
		if rej {
			return false, true
		}
		return f&mutMask != 0, true
	}
	switch {
	case tab == nil:
		c.und("R2", "open flag table", "?", why)
	case len(tab.unknown) > 0:
		c.und("R2", "open flag table", "?", "open-flag ladder not fully understood: "+strings.Join(tab.unknown, "; "))
	case ro == nil:
		c.und("R2", "readonly predicate", "?", why2)
	case !hasPflagsIsConjunction(p):
		c.und("R2", "hasPflags semantics", "?", "hasPflags is no longer 'all given bits are set'")
	default:
		c.note("open table: chain=%v else=%s singles=%v; readonly = %s", tab.chain, tab.chainElse, tab.singles, roDesc)
		for w := uint64(0); w < 64; w++ {
			mut, _ := openIsMutating(w)
			f, rej := tab.eval(w)
			key := fmt.Sprintf("open flags %#02x", w)
			if rej {
				c.okT("R2", key, "server.go", "rejected before any open (no access mode)")
				continue
			}
			if mut {
				c.check(!ro(w), "R2", key, "server.go", fmt.Sprintf("os flags %#x modify; readonly() is false", f),
					fmt.Sprintf("wire flags %#x open with os flags %#x (create/truncate/write) but readonly() reports true: a read-only server performs the open", w, f))
			} else {
				c.ok("R2", key, "server.go", fmt.Sprintf("os flags %#x do not modify", f))
			}
		}
		c.floor("R2", 64)
	}

	// ---------- gate extraction ----------
	gv := requestSwitchValue(worker)
	if gv == nil {
		c.bad("R3", "gate type switch", p.Pos(worker.Pos()), "the worker has no type switch classifying requests: nothing is gated")
		return
	}
	gHead := switchHead(worker, gv)
	// the If on svr.readOnly
	var roIf *ssa.If
	for _, b := range worker.Blocks {
		iff, ok := b.Instrs[len(b.Instrs)-1].(*ssa.If)
		if !ok {
			continue
		}
		for _, l := range leavesOf(iff.Cond) {
			if l.Kind == leafFieldLoad && l.Field == "readOnly" && typeName(l.Base.Type()) == "Server" {
				roIf = iff
			}
		}
	}
	if roIf == nil {
		c.bad("R3", "gate condition", p.Pos(worker.Pos()), "no branch on svr.readOnly in the worker: the read-only option has no effect")
		return
	}
	isHandle := func(in ssa.Instruction) bool {
		cc := callOf(in)
		return cc != nil && cc.StaticCallee() == handle
	}
	ls := rangeChanLoops(worker)
	var headStart func(ssa.Instruction) bool
	if len(ls) == 1 {
		headStart = isLoopHeadStart(ls[0])
	}
	// the If on the per-request classification: a boolean that joins constants and readonly() answers (a phi), tested
	// right before the readOnly test (`!readonly && svr.readOnly`) or under it (`if svr.readOnly { classify; if … }`)
	var clsIf *ssa.If
	var clsPhi *ssa.Phi
	clsNeg := false
	nested := false // the classification is tested under the readOnly test
	for _, b := range worker.Blocks {
		iff, ok := b.Instrs[len(b.Instrs)-1].(*ssa.If)
		if !ok || iff == roIf {
			continue
		}
		v := iff.Cond
		neg := false
		if u, ok := v.(*ssa.UnOp); ok && u.Op == token.NOT {
			v = u.X
			neg = true
		}
		ph, ok := v.(*ssa.Phi)
		if !ok || !isBasicKind(types.Bool)(ph.Type()) {
			continue
		}
		switch {
		case b.Succs[0] == roIf.Block() || b.Succs[1] == roIf.Block():
			clsIf, clsPhi, clsNeg, nested = iff, ph, neg, false
		case clsIf == nil && (roIf.Block().Succs[0] == b || roIf.Block().Succs[0].Dominates(b)) && edgeOnly(roIf.Block(), roIf.Block().Succs[0]):
			clsIf, clsPhi, clsNeg, nested = iff, ph, neg, true
		}
	}
	if clsIf == nil {
		c.und("R3", "gate classification", pos(roIf), "cannot find the branch on the per-request readonly classification next to the readOnly test")
		return
	}
	// the edge of the classification test on which a request can be refused, and the block that refuses
	var gateBody *ssa.BasicBlock
	gateEdge := -1
	if !nested {
		gateEdge = 0
		if clsIf.Block().Succs[1] == roIf.Block() {
			gateEdge = 1
		}
		gateBody = roIf.Block().Succs[0]
	} else {
		r0 := reachFromBlock(clsIf.Block().Succs[0], isHandle, headStart)
		r1 := reachFromBlock(clsIf.Block().Succs[1], isHandle, headStart)
		switch {
		case !r0 && r1:
			gateEdge = 0
		case r0 && !r1:
			gateEdge = 1
		default:
			c.bad("R3", "gate body skips handlePacket", pos(clsIf), "under the readOnly test both sides of the classification (or neither) reach handlePacket: nothing is refused")
			return
		}
		gateBody = clsIf.Block().Succs[gateEdge]
	}
	// what the classification value says: it is tested so that the refusing side is "not read-only"
	phiAtGate := gateEdge == 0
	if clsNeg {
		phiAtGate = !phiAtGate
	}
	phiMeansReadonly := !phiAtGate
	c.okT("R3", "gate polarity", pos(clsIf), fmt.Sprintf("a request is refused when the classification value is %v (and svr.readOnly): the value stands for %s; the per-type obligations of R1 check it against what the handling does", phiAtGate, map[bool]string{true: "read-only", false: "modifying"}[phiMeansReadonly]))
	c.check(!reachFromBlock(gateBody, isHandle, headStart), "R3", "gate body skips handlePacket", p.Pos(gateBody.Instrs[0].Pos()),
		"a gated request is answered and the iteration ends", "a gated request still reaches handlePacket")
	// all paths to handlePacket pass one of the two allowing edges
	{
		allowed := map[[2]*ssa.BasicBlock]bool{
			{clsIf.Block(), clsIf.Block().Succs[1-gateEdge]}: true, // classified read-only
			{roIf.Block(), roIf.Block().Succs[1]}:            true, // server not read-only
		}
		startB := clsIf.Block()
		if nested {
			startB = roIf.Block()
		}
		// from the first of the two tests, without the allowed edges: followed path by path, so that a refusal that is
		// first put into a variable ("denial") and acted upon behind a join is seen for what it is
		leak := reachStagedX(startB, len(startB.Instrs)-1, []func(ssa.Instruction) bool{isHandle}, nil, func(a, b *ssa.BasicBlock, _ int) bool {
			if allowed[[2]*ssa.BasicBlock{a, b}] {
				return true
			}
			return len(ls) == 1 && b == ls[0].head
		})
		c.check(!leak, "R3", "gate dominates handlePacket", pos(clsIf), "handlePacket is reachable only through 'classified read-only' or 'server not read-only'", "handlePacket is reachable on a path that bypasses the read-only gate")
		// the gate precedes every handlePacket call
		for _, h := range findInstrs(worker, isHandle) {
			c.check(startB.Dominates(h.Block()), "R3", "classification before handlePacket", pos(h), "the gate is evaluated before dispatch", "handlePacket can run before the read-only classification")
		}
	}
	// readOnly written only by the ReadOnly option
	for _, fn := range p.LibFuncs() {
		eachInstr(fn, func(in ssa.Instruction) {
			st, ok := in.(*ssa.Store)
			if !ok {
				return
			}
			if fa, ok := st.Addr.(*ssa.FieldAddr); ok {
				if t, n, _, _ := fieldOf(fa); n == "readOnly" && typeName(t) == "Server" {
					c.check(fnName(outermost(fn)) == "ReadOnly" || p.usedOnlyAsValueIn(fn, "ReadOnly"), "R3", "write of Server.readOnly in "+fnName(fn), pos(in), "set only by the ReadOnly option", "readOnly is written outside the ReadOnly option: the gate may be switched off during a session")
				}
			}
		})
	}
	for _, in := range p.callersOfStatic(handle) {
		c.check(in.Parent() == worker, "R3", "caller of handlePacket: "+fnName(in.Parent()), pos(in), "only the gated worker dispatches", "handlePacket is called from a function that has no read-only gate")
	}

	// ---------- R4 the gate's answer ----------
	{
		sfe := p.Func("statusFromError")
		found := false
		for _, b := range worker.Blocks {
			if !gateBody.Dominates(b) {
				continue
			}
			for _, in := range b.Instrs {
				cc := callOf(in)
				if cc == nil || cc.StaticCallee() != sfe {
					continue
				}
				found = true
				v, ok := constInt(cc.Args[1])
				eperm := int64(-1)
				if sp := p.byPath["syscall"]; sp != nil {
					if k, ok := sp.Types.Scope().Lookup("EPERM").(*types.Const); ok {
						eperm, _ = constant.Int64Val(k.Val())
					}
				}
				eacces := int64(-1)
				if sp := p.byPath["syscall"]; sp != nil {
					if k, ok := sp.Types.Scope().Lookup("EACCES").(*types.Const); ok {
						eacces, _ = constant.Int64Val(k.Val())
					}
				}
				isErrno := typeName(stripConv(cc.Args[1]).Type()) == "Errno"
				c.check(ok && isErrno && (v == eperm || v == eacces), "R4", "gate answers EPERM", pos(in), "the refusal is a permission error", "the gate refuses with something other than EPERM/EACCES: the client does not see permission-denied")
			}
		}
		if !found {
			c.bad("R4", "gate answers EPERM", p.Pos(gateBody.Instrs[0].Pos()), "the gate body builds no status reply")
		}
		// EPERM maps to PERMISSION_DENIED
		if tbl, msg := extractErrnoTable(p); tbl == nil {
			c.und("R4", "translateErrno table", "?", msg)
		} else {
			c.check(tbl["EPERM"] == 3 && tbl["EACCES"] == 3, "R4", "EPERM->PERMISSION_DENIED", "errno_posix.go", "translateErrno maps EPERM and EACCES to SSH_FX_PERMISSION_DENIED", fmt.Sprintf("translateErrno maps EPERM to %d, EACCES to %d (want 3)", tbl["EPERM"], tbl["EACCES"]))
		}
	}

	// ---------- R1 / R5 per request type ----------
	top, specific := requestTypes(c, "R1")
	hv := requestSwitchValue(handle)
	if hv == nil {
		c.und("R1", "handlePacket switch", p.Pos(handle.Pos()), "no type switch")
		return
	}
	hHead := switchHead(handle, hv)
	stop := map[*ssa.Function]bool{}
	if f := p.Func("statusFromError"); f != nil {
		stop[f] = true
	}

	// classification G(T) for the type the worker sees
	type gate struct {
		kind string // "false", "true", "flags", "specific", "?"
	}
	classify := func(t types.Type) (string, string) {
		body, def, _, from := simulateFrom(gHead, t)
		var val ssa.Value
		for i, pred := range clsPhi.Block().Preds {
			if body == clsPhi.Block() {
				if pred == from {
					val = clsPhi.Edges[i]
				}
			} else if body.Dominates(pred) {
				val = clsPhi.Edges[i]
			}
		}
		_ = def
		if val == nil {
			return "?", "cannot map the gate's arm to the classification value"
		}
		if k, ok := val.(*ssa.Const); ok && k.Value != nil && k.Value.Kind() == constant.Bool {
			if constant.BoolVal(k.Value) == phiMeansReadonly {
				return "true", "gate arm yields readonly = true"
			}
			return "false", "gate arm yields readonly = false"
		}
		// a value that stands for "modifies" carries the negation of readonly()
		if u, ok := val.(*ssa.UnOp); ok && u.Op == token.NOT {
			if phiMeansReadonly {
				return "?", "the gate arm negates readonly() although the classification value stands for read-only"
			}
			val = u.X
		} else if _, isCall := val.(*ssa.Call); isCall && !phiMeansReadonly {
			return "?", "the gate arm takes readonly() as it is although the classification value stands for modifying"
		}
		// asked through an interface every classifying packet implements: the answer is that of the packet's own method
		if call, ok := val.(*ssa.Call); ok && call.Call.IsInvoke() && call.Call.Method.Name() == "readonly" && types.IsInterface(call.Call.Value.Type()) {
			switch typeName(t) {
			case "sshFxpOpenPacket":
				return "flags", "the gate asks the packet's own readonly(): (*sshFxpOpenPacket).readonly()"
			case "sshFxpExtendedPacket":
				return "specific", "the gate asks the packet's own readonly(): the extended packet's"
			}
			if ro, ok := constReadonlyOf(p, t); ok {
				if ro {
					return "true", "the gate asks the packet's own readonly(), which returns true"
				}
				return "false", "the gate asks the packet's own readonly(), which returns false"
			}
			return "?", "the gate asks " + typeName(t) + ".readonly(), which is not a constant"
		}
		if call, ok := val.(*ssa.Call); ok && calleeName(&call.Call) == "readonly" {
			switch typeName(recvOf(&call.Call).Type()) {
			case "sshFxpOpenPacket":
				return "flags", "gate arm asks (*sshFxpOpenPacket).readonly()"
			case "sshFxpExtendedPacket":
				return "specific", "gate arm asks the extended packet's readonly()"
			}
		}
		// the extended packet's own classification folded into the arm: every value that can reach it is `true` or the
		// specific packet's readonly()
		if _, isPhi := val.(*ssa.Phi); isPhi || func() bool { cl, ok := val.(*ssa.Call); return ok && cl.Call.IsInvoke() }() {
			asks, other := false, false
			for _, l := range extendedArmLeaves(p, worker) {
				if k, ok := l.v.(*ssa.Const); ok && k.Value != nil && k.Value.Kind() == constant.Bool && constant.BoolVal(k.Value) {
					continue
				}
				if call, ok := l.v.(*ssa.Call); ok && call.Call.IsInvoke() && call.Call.Method.Name() == "readonly" {
					asks = true
					continue
				}
				other = true
			}
			if asks && !other {
				return "specific", "gate arm asks the specific packet's readonly()"
			}
		}
		return "?", "classification value not understood: " + val.String()
	}
	constReadonly := func(t types.Type) (bool, bool) {
		m := p.methodOf(t, "readonly")
		if m == nil || m.Blocks == nil {
			return false, false
		}
		var res []bool
		okAll := true
		eachInstr(m, func(in ssa.Instruction) {
			if r, ok := in.(*ssa.Return); ok {
				if k, ok := r.Results[0].(*ssa.Const); ok && k.Value != nil {
					res = append(res, constant.BoolVal(k.Value))
				} else {
					okAll = false
				}
			}
		})
		if !okAll || len(res) != 1 {
			return false, false
		}
		return res[0], true
	}
	// (*sshFxpExtendedPacket).readonly delegates to the specific packet
	checkExtendedReadonly(c, "C09")

	effectsOf := func(t types.Type) ([]sink, string) {
		tn := typeName(t)
		body, def, ta := simulateDeep(hHead, t)
		if def {
			return nil, "default"
		}
		_, isIface := ta.AssertedType.Underlying().(*types.Interface)
		if isIface {
			m := p.methodOf(t, "respond")
			if m == nil {
				return nil, "no respond"
			}
			ss := sinksIn(m, nil)
			for f := range p.coneStop(stop, p.moduleCalleesIn(m, nil)...) {
				ss = append(ss, sinksIn(f, nil)...)
			}
			return ss, tn + ".respond"
		}
		return p.coneSinks(handle, regionOf(handle, body), stop), "handlePacket case"
	}
	// where does an OpenFile sink get its flags in this region
	syntheticOpenFlags := func(t types.Type) (uint64, bool) {
		body, _, _ := simulateDeep(hHead, t)
		region := regionOf(handle, body)
		var val uint64
		found := false
		for b := range region {
			for _, in := range b.Instrs {
				st, ok := in.(*ssa.Store)
				if !ok {
					continue
				}
				if fa, ok := st.Addr.(*ssa.FieldAddr); ok {
					if tt, n, base, _ := fieldOf(fa); n == "Pflags" && typeName(tt) == "sshFxpOpenPacket" {
						if _, fresh := base.(*ssa.Alloc); fresh {
							if k, ok := constInt(st.Val); ok {
								val, found = uint64(k), true
							}
						}
					}
				}
			}
		}
		return val, found
	}

	decide := func(label string, t types.Type, seen types.Type, specificOf bool) {
		tn := typeName(t)
		var ss []sink
		var where string
		if specificOf {
			m := p.methodOf(t, "respond")
			if m == nil {
				c.und("R1", "effects of "+tn, "?", "no respond method")
				return
			}
			ss = sinksIn(m, nil)
			for f := range p.coneStop(stop, p.moduleCalleesIn(m, nil)...) {
				ss = append(ss, sinksIn(f, nil)...)
			}
			where = tn + ".respond"
		} else {
			ss, where = effectsOf(t)
		}
		var mut []sink
		openSeen := false
		for _, s := range ss {
			switch s.Eff {
			case effMutate:
				mut = append(mut, s)
			case effOpen:
				openSeen = true
			}
		}
		g, gwhy := classify(seen)
		if g == "specific" {
			if ro, ok := evalExtendedReadonly(p, t); ok {
				if ro {
					g = "true"
				} else {
					g = "false"
				}
				gwhy = "(*sshFxpExtendedPacket).readonly() evaluated with a " + tn
			} else if ro, ok := constReadonly(t); ok {
				if ro {
					g = "true"
				} else {
					g = "false"
				}
				gwhy = tn + ".readonly() returns a constant"
			} else {
				g = "?"
				gwhy = tn + ".readonly() is not a constant"
			}
		}
		posS := p.Pos(handle.Pos())
		if len(ss) > 0 {
			posS = pos(ss[0].In)
		}
		key := "request " + label
		if openSeen {
			if tn == "sshFxpOpenPacket" {
				// flag dependent: R2 decides; the gate must consult the flag predicate
				c.check(g == "flags" || g == "false", "R1", key, posS, "open is gated by its flag predicate (decided for all 64 sets under R2)", "OPEN reaches os.OpenFile but the gate does not consult the open flags: "+gwhy)
				if len(mut) > 0 {
					c.check(g == "false", "R1", key+" other sinks", pos(mut[0].In), "", "OPEN handling reaches "+sinkNames(mut)+" regardless of flags")
				}
				return
			}
			w, ok := syntheticOpenFlags(t)
			m, dec := openIsMutating(w)
			if !ok || !dec || m {
				mut = append(mut, sink{ID: "os.OpenFile(flags not provably read-only)", In: ss[0].In})
			}
		}
		switch {
		case g == "?":
			c.und("R1", key, posS, gwhy)
		case len(mut) > 0:
			c.check(g == "false", "R1", key, posS, "mutating ("+sinkNames(mut)+" via "+where+") and gated: "+gwhy,
				"handling reaches "+sinkNames(mut)+" (via "+where+") but the gate classifies the request read-only ("+gwhy+"): a read-only server performs it")
		default:
			c.check(g == "true" || g == "flags", "R5", key, posS, "no mutating sink in its cone; not gated", "request has no mutating effect but is refused on a read-only server ("+gwhy+")")
		}
	}
	for _, t := range top {
		if typeName(t) == "sshFxpExtendedPacket" {
			for _, s := range specific {
				decide("extended/"+typeName(s), s, t, true)
			}
			// and whatever form the extended request reaches the gate in: handed on as its specific packet (the request
			// server's worker unwraps it that way), the gate must classify it just the same
			if where := specificPacketQueued(p); where != "" {
				for _, s := range specific {
					decide("extended, queued as its specific packet ("+where+")/"+typeName(s), s, s, true)
				}
			}
			continue
		}
		decide(typeName(t), t, t, false)
	}
	c.floor("R1", 10)
	c.floor("R5", 8)

	// os.OpenFile is reached only through (*sshFxpOpenPacket).respond
	{
		of := p.Func("(*Server).openfile")
		if of == nil {
			c.missing("R1", "(*Server).openfile")
		} else {
			for _, in := range p.callersOfStatic(of) {
				c.check(fnName(in.Parent()) == "(*sshFxpOpenPacket).respond", "R1", "caller of Server.openfile: "+fnName(in.Parent()), pos(in), "files are opened only by the OPEN handler with the flag ladder", "a file is opened outside (*sshFxpOpenPacket).respond: its flags are not covered by the open-flag table")
			}
		}
		for _, fn := range p.LibFuncs() {
			if !isServerSide(fn) || outermost(fn).Package() != p.Sftp {
				continue
			}
			for _, s := range sinksIn(fn, nil) {
				if s.Eff == effOpen {
					c.check(fn == of, "R1", "os.OpenFile in "+fnName(fn), pos(s.In), "only Server.openfile calls os.OpenFile", "os.OpenFile is called outside Server.openfile")
				}
			}
		}
	}
}

// constReadonlyOf: t's readonly() method returns one constant.
func constReadonlyOf(p *Program, t types.Type) (bool, bool) {
	m := p.methodOf(t, "readonly")
	if m == nil || m.Blocks == nil {
		return false, false
	}
	var res []bool
	okAll := true
	eachInstr(m, func(in ssa.Instruction) {
		if r, ok := in.(*ssa.Return); ok {
			if k, ok := r.Results[0].(*ssa.Const); ok && k.Value != nil {
				res = append(res, constant.BoolVal(k.Value))
			} else {
				okAll = false
			}
		}
	})
	if !okAll || len(res) != 1 {
		return false, false
	}
	return res[0], true
}

// usedOnlyAsValueIn: fn is never called by name and is mentioned (itself, or through the wrapper go/ssa makes for a
// method expression or method value) only inside the function called `where`: it is that function's result or
// argument, like a literal written there would be.
func (p *Program) usedOnlyAsValueIn(fn *ssa.Function, where string) bool {
	if len(p.callersOfStatic(fn)) > 0 {
		return false
	}
	target := func(v ssa.Value) bool {
		f, ok := v.(*ssa.Function)
		if !ok {
			return false
		}
		if f == fn {
			return true
		}
		if f.Synthetic == "" || f.Blocks == nil {
			return false
		}
		hit, other := false, false
		eachInstr(f, func(in ssa.Instruction) {
			if cc := callOf(in); cc != nil {
				if cc.StaticCallee() == fn {
					hit = true
				} else {
					other = true
				}
			}
		})
		return hit && !other
	}
	n := 0
	okAll := true
	for _, f := range p.modFuncs {
		eachInstr(f, func(in ssa.Instruction) {
			for _, op := range in.Operands(nil) {
				if op == nil || *op == nil || !target(*op) {
					continue
				}
				n++
				if fnName(outermost(f)) != where {
					okAll = false
				}
			}
		})
	}
	return okAll && n > 0
}

// extractErrnoTable: errno constant name -> status code, as translateSyscallError answers for a bare syscall.Errno of
// that value (by evaluation of its SSA: the table may be a helper's switch, an inlined switch or a map).
func extractErrnoTable(p *Program) (map[string]int64, string) {
	out := map[string]int64{}
	ev := &errEval{p: p}
	for _, n := range []string{"0", "ENOENT", "EACCES", "EPERM", "EIO"} {
		k, ok := ev.evalTranslate(errShape{Name: "syscall.Errno(" + n + ")", Outer: "Errno", Errno: n})
		if ev.failed != "" {
			return nil, ev.failed
		}
		if !ok {
			return nil, "translateSyscallError does not translate a bare syscall.Errno (" + n + ")"
		}
		if n == "EIO" {
			n = "default"
		}
		out[n] = k
	}
	return out, ""
}

// evalExtendedReadonly runs (*sshFxpExtendedPacket).readonly() in the SSA interpreter for an extended packet whose
// SpecificPacket holds a value of dynamic type t (nil: no specific packet, i.e. an unknown extension name).
func evalExtendedReadonly(p *Program, t types.Type) (answer, ok bool) {
	m := p.Func("(*sshFxpExtendedPacket).readonly")
	if m == nil || m.Blocks == nil || len(m.Params) != 1 {
		return false, false
	}
	st := derefType(m.Params[0].Type())
	obj := &evObj{typ: st, fields: map[string]evVal{}}
	if t == nil {
		obj.fields["SpecificPacket"] = evVal{k: evNil}
	} else {
		obj.fields["SpecificPacket"] = evVal{k: evIface, t: t, inner: &evVal{k: evObject, obj: &evObj{typ: derefType(t), fields: map[string]evVal{}}}}
	}
	res := newEvaluator(p).run(m, []evVal{{k: evObject, obj: obj}}, 0)
	if res.kind != "return" || len(res.vals) != 1 || res.vals[0].k != evConst || res.vals[0].c.Kind() != constant.Bool {
		return false, false
	}
	return constant.BoolVal(res.vals[0].c), true
}

// checkExtendedReadonly evaluates (*sshFxpExtendedPacket).readonly() as a function of its SpecificPacket field:
// every possible result is classified by the nil-ness of SpecificPacket on the path that selects it.
//
//	C09: when a specific packet was decoded, the answer is that packet's own readonly() (or the safe `false`);
//	C19: when none was decoded (unknown extension name) the answer is `true`, so the read-only gate does not
//	     pre-empt the SSH_FX_OP_UNSUPPORTED reply.
func checkExtendedReadonly(c *Ctx, prop string) {
	p := c.P
	// where the classification of an extended request is computed: the method readonly of the extended packet, or —
	// when that method has been folded into the worker — the values that reach the worker's classification in the arm
	// of *sshFxpExtendedPacket
	m := p.Func("(*sshFxpExtendedPacket).readonly")
	// by evaluation, when the method can be run for every case: no specific packet, and each specific packet type the
	// decoder builds; what the answers have to be for the decoded ones is R1's business (each is compared with what
	// handling that packet does)
	if m != nil && m.Blocks != nil {
		_, specific := requestTypes(c, map[string]string{"C09": "R1", "C19": "R6"}[prop])
		nilAns, okAll := evalExtendedReadonly(p, nil)
		var answers []string
		for _, t := range specific {
			a, ok := evalExtendedReadonly(p, t)
			if !ok {
				okAll = false
			}
			answers = append(answers, fmt.Sprintf("%s→%v", typeName(t), a))
		}
		if okAll && len(specific) > 0 {
			switch prop {
			case "C09":
				c.ok("R1", "extended readonly delegates", p.Pos(m.Pos()), "readonly() evaluated for every specific packet type: "+strings.Join(answers, ", "))
			case "C19":
				c.check(nilAns, "R6", "unknown extension is not refused by the read-only gate", p.Pos(m.Pos()), "SpecificPacket == nil ⇒ readonly() is true, so the request reaches the op-unsupported reply",
					"an extended request with an unknown name is classified as a write: a read-only server answers SSH_FX_PERMISSION_DENIED instead of SSH_FX_OP_UNSUPPORTED")
			}
			return
		}
	}
	var leaves []retLeaf
	if m != nil && m.Blocks != nil {
		leaves = returnLeaves(m, 0)
	} else if worker := p.Func("(*Server).sftpServerWorker"); worker != nil {
		m = worker
		leaves = extendedArmLeaves(p, worker)
	}
	if m == nil || len(leaves) == 0 {
		c.missing("R1", "(*sshFxpExtendedPacket).readonly")
		return
	}
	isSP := func(v ssa.Value) bool {
		for _, l := range leavesOf(v) {
			if l.Kind == leafFieldLoad && l.Field == "SpecificPacket" {
				return true
			}
		}
		return false
	}
	// nil-ness of SpecificPacket under a set of branch conditions: +1 non-nil, -1 nil, 0 unknown
	state := func(conds map[ssa.Value]bool) int {
		st := 0
		for cv, truth := range conds {
			b, ok := cv.(*ssa.BinOp)
			if !ok || (b.Op != token.EQL && b.Op != token.NEQ) {
				continue
			}
			var other ssa.Value
			if isNilConst(b.X) {
				other = b.Y
			} else if isNilConst(b.Y) {
				other = b.X
			} else {
				continue
			}
			if !isSP(other) {
				continue
			}
			isNil := (b.Op == token.EQL) == truth
			if isNil {
				st = -1
			} else {
				st = 1
			}
		}
		return st
	}
	delegOK, unknownOK, sawNilCase := true, true, false
	var why09, why19 string
	for _, l := range leaves {
		st := state(edgeConds(l.block, l.pred))
		if k, ok := l.v.(*ssa.Const); ok && k.Value != nil && k.Value.Kind() == constant.Bool {
			if constant.BoolVal(k.Value) {
				if st == -1 {
					sawNilCase = true
				} else {
					delegOK = false
					why09 = "readonly() can answer true for an extended request whose specific packet was decoded, without asking it"
				}
			} else {
				if st != 1 {
					unknownOK = false
					why19 = "an extended request with an unknown name is classified as a write: a read-only server answers SSH_FX_PERMISSION_DENIED instead of SSH_FX_OP_UNSUPPORTED"
				}
			}
			continue
		}
		if call, ok := l.v.(*ssa.Call); ok && call.Call.IsInvoke() && call.Call.Method.Name() == "readonly" && isSP(call.Call.Value) {
			continue
		}
		delegOK, unknownOK = false, false
		why09 = "result of readonly() not understood: " + l.v.String()
		why19 = why09
	}
	if len(leaves) == 0 {
		delegOK, unknownOK = false, false
		why09, why19 = "no return found", "no return found"
	}
	if !sawNilCase && unknownOK {
		unknownOK = false
		why19 = "readonly() has no case for an extended request with an unknown name (SpecificPacket == nil)"
	}
	switch prop {
	case "C09":
		c.check(delegOK, "R1", "extended readonly delegates", p.Pos(m.Pos()), "with a decoded specific packet the answer is that packet's readonly()", why09)
	case "C19":
		c.check(unknownOK, "R6", "unknown extension is not refused by the read-only gate", p.Pos(m.Pos()), "SpecificPacket == nil ⇒ readonly() is true, so the request reaches the op-unsupported reply", why19)
	}
}

// checkOpenfilePassthrough (C09.R2 / C05.R2): the open-flag tables are extracted from sshFxpOpenPacket.respond, and
// the read-only gate classifies by the wire flags; both are sound only if the platform helper (*Server).openfile
// hands the flag word (and the path and mode) it was given to os.OpenFile unchanged.
func checkOpenfilePassthrough(c *Ctx, rule string) {
	p := c.P
	fn := p.Func("(*Server).openfile")
	if fn == nil {
		c.missing(rule, "(*Server).openfile")
		return
	}
	c.looked("(*Server).openfile")
	n := 0
	eachInstr(fn, func(in ssa.Instruction) {
		cc := callOf(in)
		if cc == nil || !callIs(cc, "os.OpenFile") {
			return
		}
		n++
		okArgs := len(cc.Args) == 3
		for i := 0; okArgs && i < 3; i++ {
			if cc.Args[i] != ssa.Value(fn.Params[i+1]) {
				okArgs = false
			}
		}
		c.check(okArgs, rule, "openfile hands its arguments to os.OpenFile unchanged", p.Pos(in.Pos()), "os.OpenFile(path, flag, mode)",
			"(*Server).openfile changes the path, flag word or mode on the way to os.OpenFile: the open-flag table and the read-only gate, which look at the wire flags, no longer describe what is opened (e.g. O_CREATE added behind the gate)")
	})
	c.check(n == 1, rule, "openfile opens with os.OpenFile", p.Pos(fn.Pos()), "one os.OpenFile call", fmt.Sprintf("%d os.OpenFile calls in (*Server).openfile", n))
}

// extendedArmLeaves: the values the worker's read-only classification can take for an *sshFxpExtendedPacket, each with
// the block and edge on which it is selected (for edgeConds), when no readonly() method of the extended packet exists.
func extendedArmLeaves(p *Program, worker *ssa.Function) []retLeaf {
	gv := requestSwitchValue(worker)
	if gv == nil {
		return nil
	}
	ext := p.NamedType(p.Sftp, "sshFxpExtendedPacket")
	if ext == nil {
		return nil
	}
	body, isDefault, _ := simulate(switchHead(worker, gv), types.NewPointer(ext))
	if body == nil || isDefault {
		return nil
	}
	// the classification: the bool phi that joins the arms (the one with the most edges whose block is dominated by no arm)
	var cls *ssa.Phi
	eachInstr(worker, func(in ssa.Instruction) {
		ph, ok := in.(*ssa.Phi)
		if !ok || !isBasicKind(types.Bool)(ph.Type()) || body.Dominates(ph.Block()) {
			return
		}
		reaches := false
		for _, pred := range ph.Block().Preds {
			if body == pred || body.Dominates(pred) {
				reaches = true
			}
		}
		if reaches && (cls == nil || len(ph.Edges) > len(cls.Edges)) {
			cls = ph
		}
	})
	if cls == nil {
		return nil
	}
	var out []retLeaf
	seen := map[*ssa.Phi]bool{}
	var expand func(v ssa.Value, b, pred *ssa.BasicBlock)
	expand = func(v ssa.Value, b, pred *ssa.BasicBlock) {
		if ph, ok := v.(*ssa.Phi); ok && !seen[ph] && (body == ph.Block() || body.Dominates(ph.Block())) {
			seen[ph] = true
			for k, e := range ph.Edges {
				expand(e, ph.Block(), ph.Block().Preds[k])
			}
			return
		}
		out = append(out, retLeaf{v, b, pred})
	}
	for k, pred := range cls.Block().Preds {
		if body == pred || body.Dominates(pred) {
			expand(cls.Edges[k], cls.Block(), pred)
		}
	}
	return out
}

// checkStandaloneParsesFlagsFirst (C09.R8): the stand-alone server (server_standalone, what `Subsystem sftp` runs) is
// read-only when started with -R.  In its main every read of a variable bound to a flag lies behind flag.Parse, and
// ReadOnly() is added under the test of such a variable: with the test in front of Parse the flag's default is read,
// `sftp-server -R` serves read-write, and every property of the read-only server is void for that process.
func checkStandaloneParsesFlagsFirst(c *Ctx, rule string) {
	p := c.P
	var pkg *ssa.Package
	for _, sp := range p.SSA.AllPackages() {
		if sp.Pkg.Path() == pkgSftp+"/server_standalone" {
			pkg = sp
		}
	}
	if pkg == nil {
		c.missing(rule, "server_standalone")
		return
	}
	mainFn := pkg.Func("main")
	if mainFn == nil || mainFn.Blocks == nil {
		c.missing(rule, "server_standalone.main")
		return
	}
	// the functions of the command: main, what it calls, methods of its types, literals
	var fns []*ssa.Function
	for fn := range ssautil.AllFunctions(p.SSA) {
		if o := outermost(fn); o != nil && o.Package() == pkg && fn.Blocks != nil {
			fns = append(fns, fn)
		}
	}
	sort.Slice(fns, func(i, j int) bool { return fns[i].Pos() < fns[j].Pos() })
	// a flag variable is a local or a field of a struct (`flag.BoolVar(&f.readOnly, …)`): keyed by the value for a local,
	// by type and field for a field, so that a read through a copy of the struct in another function is recognised
	keyOf := func(addr ssa.Value) string {
		if fa, ok := addr.(*ssa.FieldAddr); ok {
			if t, n, _, ok := fieldOf(fa); ok {
				return "field:" + typeName(t) + "." + n
			}
		}
		return fmt.Sprintf("val:%p", addr)
	}
	var parses []ssa.Instruction
	bound := map[string]bool{}
	flagName := map[string]string{}
	for _, fn := range fns {
		eachInstr(fn, func(in ssa.Instruction) {
			cc := callOf(in)
			if cc == nil || cc.StaticCallee() == nil || cc.StaticCallee().Pkg == nil || cc.StaticCallee().Pkg.Pkg.Path() != "flag" {
				return
			}
			name := cc.StaticCallee().Name()
			if name == "Parse" {
				parses = append(parses, in)
			}
			if strings.HasSuffix(name, "Var") && len(cc.Args) > 1 {
				k := keyOf(cc.Args[0])
				bound[k] = true
				flagName[k], _ = constString(cc.Args[1])
			}
			// flag.Bool / flag.String / …: the pointer they return is the variable
			switch name {
			case "Bool", "String", "Int", "Int64", "Uint", "Uint64", "Float64", "Duration":
				if v, ok := in.(ssa.Value); ok {
					k := keyOf(v)
					bound[k] = true
					if len(cc.Args) > 0 {
						flagName[k], _ = constString(cc.Args[0])
					}
				}
			}
		})
	}
	c.check(len(parses) >= 1 && len(bound) >= 1, rule, "the stand-alone server has flags and parses them", p.Pos(mainFn.Pos()), fmt.Sprintf("%d variables bound, %d calls of flag.Parse", len(bound), len(parses)), "server_standalone.main no longer binds flags or never calls flag.Parse: -R has no effect")
	// where main is when a function runs: the call in main through which fn is reached (fn itself for main)
	siteInMain := func(fn *ssa.Function) ssa.Instruction {
		var site ssa.Instruction
		eachInstr(mainFn, func(in ssa.Instruction) {
			if cc := callOf(in); cc != nil && cc.StaticCallee() != nil && site == nil {
				if cc.StaticCallee() == fn || p.cone(cc.StaticCallee())[fn] {
					site = in
				}
			}
		})
		return site
	}
	gated := false
	for _, fn := range fns {
		fn := fn
		eachInstr(fn, func(in ssa.Instruction) {
			var k string
			var val ssa.Value
			switch x := in.(type) {
			case *ssa.UnOp:
				if x.Op != token.MUL {
					return
				}
				k, val = keyOf(x.X), x
			case *ssa.Field:
				if st, ok := x.X.Type().Underlying().(*types.Struct); ok {
					k, val = "field:"+typeName(x.X.Type())+"."+st.Field(x.Field).Name(), x
				}
			default:
				return
			}
			if !bound[k] {
				return
			}
			after := false
			for _, ps := range parses {
				switch {
				case ps.Parent() == fn:
					after = after || dominates(ps, in)
				default:
					// the read and the parse are in different functions: ordered by where main is at either
					a, b := ssa.Instruction(ps), ssa.Instruction(in)
					if ps.Parent() != mainFn {
						a = siteInMain(ps.Parent())
					}
					if fn != mainFn {
						b = siteInMain(outermost(fn))
					}
					after = after || a == nil || b == nil || (a != b && dominates(a, b))
				}
			}
			c.check(after, rule, "flag variable read after flag.Parse", p.Pos(in.Pos()), "flag.Parse() dominates the read", "a flag variable is read before flag.Parse has run: the default is what is read, whatever the command line says (sftp-server -R serves read-write)")
			// the read-only option hangs on such a read
			for _, r := range *val.Referrers() {
				iff, ok := r.(*ssa.If)
				if !ok {
					continue
				}
				t := iff.Block().Succs[0]
				for _, b := range fn.Blocks {
					if b != t && !t.Dominates(b) {
						continue
					}
					for _, x := range b.Instrs {
						if cc := callOf(x); cc != nil && cc.StaticCallee() != nil && fnName(cc.StaticCallee()) == "ReadOnly" && flagName[k] == "R" {
							gated = true
						}
					}
				}
			}
		})
	}
	c.check(gated, rule, "-R adds the ReadOnly option", p.Pos(mainFn.Pos()), "sftp.ReadOnly() under the test of the variable bound to -R", "the ReadOnly option does not hang on the variable that -R sets (sftp-server's flag for a read-only server): -R serves read-write, or another flag makes the server read-only")
}


// specificPacketQueued: somewhere on the way to the os server's worker the specific packet of an extended request is
// put into the ordering wrapper in place of the request itself (a load of a SpecificPacket field flows into the
// requestPacket field of an orderedRequest) — the gate then sees the specific packet, not *sshFxpExtendedPacket.  The
// request server's own worker does this to its private copy behind the hand-off and is not on that way.
func specificPacketQueued(p *Program) string {
	where := ""
	for _, fn := range p.LibFuncs() {
		o := outermost(fn)
		if o.Package() != p.Sftp {
			continue
		}
		if o.Signature.Recv() != nil && typeName(o.Signature.Recv().Type()) == "RequestServer" {
			continue
		}
		eachInstr(fn, func(in ssa.Instruction) {
			st, ok := in.(*ssa.Store)
			if !ok {
				return
			}
			t, name, _, ok := fieldOf(st.Addr)
			if !ok || name != "requestPacket" || typeName(t) != "orderedRequest" {
				return
			}
			seen := map[ssa.Value]bool{}
			var from func(v ssa.Value, d int) bool
			from = func(v ssa.Value, d int) bool {
				if v == nil || seen[v] || d > 8 {
					return false
				}
				seen[v] = true
				switch x := v.(type) {
				case *ssa.Phi:
					for _, e := range x.Edges {
						if from(e, d+1) {
							return true
						}
					}
				case *ssa.ChangeInterface:
					return from(x.X, d+1)
				case *ssa.MakeInterface:
					return from(x.X, d+1)
				case *ssa.TypeAssert:
					return from(x.X, d+1)
				case *ssa.Extract:
					return from(x.Tuple, d+1)
				case *ssa.UnOp:
					if _, n, _, ok := fieldOf(x.X); ok && n == "SpecificPacket" {
						return true
					}
					if a, ok := x.X.(*ssa.Alloc); ok {
						for _, s2 := range storesTo(a.Parent(), a) {
							if from(s2.Val, d+1) {
								return true
							}
						}
					}
				case *ssa.Field:
					if _, n, _, ok := fieldOf(x); ok && n == "SpecificPacket" {
						return true
					}
				}
				return false
			}
			if from(st.Val, 0) {
				where = fnName(fn)
			}
		})
	}
	return where
}
