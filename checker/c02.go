package main

import (
	"fmt"
	"go/token"
	"go/types"
	"sort"
	"strings"

	"golang.org/x/tools/go/ssa"
)

func init() {
	register("C02", &propSpec{
		level:       "other",
		explanation: "Structural necessary conditions of 'one response per request, with its id, in arrival order', decided for every path of the receive loops, dispatcher, workers and controller: exhaustive dispatch of every packet type makePacket can build (dispatch simulation of the type switches); exactly one readyPacket per dispatched request on every CFG path; every response id and order id traces (value provenance, closed over call sites) to the request being answered; order-id counter, sort, head-match and single-sender discipline of the packet manager; reply types legal per request type; responses not abandoned at shutdown. Decides the shape of the mechanism, not a run of it.",
		run:         runC02,
		assumptions: []string{
			"fewer than 2^32 requests per connection (the 32-bit order counter wraps: a pre-wrap request still in flight is then overtaken; demonstrated only by presetting the counter)",
			"user handlers return (a handler that blocks forever withholds its response by definition)",
			"the transport's Write does not reorder bytes",
		},
	})
}

var legalReplies = map[string][]string{
	"sshFxInitPacket":                 {"sshFxVersionPacket"},
	"sshFxpOpenPacket":                {"sshFxpHandlePacket", "sshFxpStatusPacket"},
	"sshFxpOpendirPacket":             {"sshFxpHandlePacket", "sshFxpStatusPacket"},
	"sshFxpReadPacket":                {"sshFxpDataPacket", "sshFxpStatusPacket"},
	"sshFxpLstatPacket":               {"sshFxpStatResponse", "sshFxpStatusPacket"},
	"sshFxpStatPacket":                {"sshFxpStatResponse", "sshFxpStatusPacket"},
	"sshFxpFstatPacket":               {"sshFxpStatResponse", "sshFxpStatusPacket"},
	"sshFxpReaddirPacket":             {"sshFxpNamePacket", "sshFxpStatusPacket"},
	"sshFxpRealpathPacket":            {"sshFxpNamePacket", "sshFxpStatusPacket"},
	"sshFxpReadlinkPacket":            {"sshFxpNamePacket", "sshFxpStatusPacket"},
	"sshFxpExtendedPacketStatVFS":     {"StatVFS", "sshFxpStatusPacket"},
	"sshFxpExtendedPacket":            {"StatVFS", "sshFxpStatusPacket"},
	"sshFxpClosePacket":               {"sshFxpStatusPacket"},
	"sshFxpWritePacket":               {"sshFxpStatusPacket"},
	"sshFxpSetstatPacket":             {"sshFxpStatusPacket"},
	"sshFxpFsetstatPacket":            {"sshFxpStatusPacket"},
	"sshFxpRemovePacket":              {"sshFxpStatusPacket"},
	"sshFxpMkdirPacket":               {"sshFxpStatusPacket"},
	"sshFxpRmdirPacket":               {"sshFxpStatusPacket"},
	"sshFxpRenamePacket":              {"sshFxpStatusPacket"},
	"sshFxpSymlinkPacket":             {"sshFxpStatusPacket"},
	"sshFxpExtendedPacketPosixRename": {"sshFxpStatusPacket"},
	"sshFxpExtendedPacketHardlink":    {"sshFxpStatusPacket"},
}

// wrappers of the request server: which reply types each may produce
var wrapperReplies = map[string][]string{
	"fileget":            {"sshFxpDataPacket", "sshFxpStatusPacket"},
	"fileput":            {"sshFxpStatusPacket"},
	"fileputget":         {"sshFxpDataPacket", "sshFxpStatusPacket"},
	"filecmd":            {"sshFxpStatusPacket", "StatVFS"},
	"filelist":           {"sshFxpNamePacket", "sshFxpStatusPacket"},
	"filestat":           {"sshFxpStatResponse", "sshFxpNamePacket", "sshFxpStatusPacket"},
	"readlink":           {"sshFxpNamePacket", "sshFxpStatusPacket"},
	"(*Request).open":    {"sshFxpHandlePacket", "sshFxpStatusPacket"},
	"(*Request).opendir": {"sshFxpHandlePacket", "sshFxpStatusPacket"},
	"cleanPacketPath":    {"sshFxpNamePacket"},
}

func subset(got map[string]bool, allowed []string) (bad []string) {
	for g := range got {
		ok := false
		for _, a := range allowed {
			if a == g {
				ok = true
			}
		}
		if !ok {
			bad = append(bad, g)
		}
	}
	sort.Strings(bad)
	return
}

func runC02(c *Ctx) {
	p := c.P
	checkWrapperNotTakenForPacket(c, "R9")
	// R10 (shared with C07.R4): a worker that panics on request data answers neither that request nor the ones behind it
	c.withRule("R10", func() { checkServerPanicSites(c) })
	checkIDMethods(c, "R11")
	// R12 (shared with C07.R3): the controller is stopped only after the pending requests were answered
	c.withOnlyKeys("R3", "R12", []string{"packet manager stops after pending work", "response queued before the barrier"}, func() { runC07(c) })
	// R13 (shared with C19.R7): an extended request gets a specific packet only for a configured name — decoded for a
	// name that is switched off, it is answered under id 0 instead of its own
	checkDecodedOnlyIfConfigured(c, "R13")
	// R14 (shared with C03.R6): a reply whose Write failed must end the stream — later replies written behind a dropped
	// one are not a prefix of the correct replies
	checkWriteFailureLatched(c, "R14")
	checkResponsesAreNeverNil(c, "R15")
	checkReceivePathDoesNotClose(c, "R16")
	checkReplyEncodersDoNotRefuse(c, "R17")
	checkRepliesAreFresh(c, "R18")
	// R19/R20 (= C14.R1/R2): one FIFO dispatcher, every hand-off registered first — a request registered late is
	// answered out of order
	c.withOnly("R1", "R19", func() { runC14(c) })
	c.withOnly("R2", "R20", func() { runC14(c) })
	checkRepliesHoldNoPooledMemory(c, "R21")
	checkNoCloseBetweenEndOfInputAndJoin(c, "R22")
	pos := func(in ssa.Instruction) string { return p.Pos(in.Pos()) }
	handle := p.Func("handlePacket")
	worker := p.Func("(*RequestServer).packetWorker")
	osWorker := p.Func("(*Server).sftpServerWorker")
	ready := p.Func("(*packetManager).readyPacket")
	for n, f := range map[string]*ssa.Function{"handlePacket": handle, "(*RequestServer).packetWorker": worker, "(*Server).sftpServerWorker": osWorker, "(*packetManager).readyPacket": ready} {
		if f == nil {
			c.missing("R0", n)
			return
		}
		c.looked(n)
	}
	isReady := func(in ssa.Instruction) bool {
		cc := callOf(in)
		return cc != nil && cc.StaticCallee() == ready
	}
	isPlainReady := func(in ssa.Instruction) bool {
		_, plain := in.(*ssa.Call)
		return plain && isReady(in)
	}

	// ---------- R0 exhaustive dispatch ----------
	top, specific := requestTypes(c, "R0")
	c.check(len(top) >= 20, "R0", "makePacket type count", p.Pos(handle.Pos()), fmt.Sprintf("makePacket builds %d request types", len(top)), fmt.Sprintf("makePacket builds only %d request types (20 in SFTP v3 as served here)", len(top)))
	hv := requestSwitchValue(handle)
	wv := requestSwitchValue(worker)
	if hv == nil || wv == nil {
		c.und("R0", "type switch of worker functions", p.Pos(handle.Pos()), "cannot find the type switch on the request packet")
		return
	}
	hHead, wHead := switchHead(handle, hv), switchHead(worker, wv)
	caseOf := map[string]*ssa.BasicBlock{} // os server: request type -> case body
	for _, t := range top {
		body, def, _ := simulate(hHead, t)
		caseOf[typeName(t)] = body
		c.check(!def, "R0", "handlePacket dispatch of "+typeName(t), p.Pos(body.Instrs[0].Pos()),
			"lands in a case that builds a response", "falls into the default arm of handlePacket: the request is never answered and the worker exits")
	}
	// the request server sees the SpecificPacket instead of the outer extended packet
	for _, t := range append(append([]types.Type{}, top...), specific...) {
		body, def, _ := simulate(wHead, t)
		if typeName(t) == "sshFxpExtendedPacket" {
			// only reached for unknown extensions; default arm answers op-unsupported
			continue
		}
		c.check(!def, "R0", "packetWorker dispatch of "+typeName(t), p.Pos(body.Instrs[0].Pos()),
			"lands in a specific case", "falls into the default (operation unsupported) arm of packetWorker")
	}
	c.floor("R0", 40)

	// ---------- R1 exactly one response per dispatched request ----------
	{
		// handlePacket: nil return <=> exactly one readyPacket; error return => none
		nilRet := func(in ssa.Instruction) bool {
			r, ok := in.(*ssa.Return)
			return ok && len(r.Results) == 1 && isNilConst(r.Results[0])
		}
		errRet := func(in ssa.Instruction) bool {
			r, ok := in.(*ssa.Return)
			return ok && !(len(r.Results) == 1 && isNilConst(r.Results[0]))
		}
		mn, mx, n := countPaths(handle, nil, nilRet, isPlainReady)
		c.check(n > 0 && mn == 1 && mx == 1, "R1", "handlePacket success paths", p.Pos(handle.Pos()),
			"every path to `return nil` calls readyPacket exactly once", fmt.Sprintf("paths to `return nil` call readyPacket between %d and %d times", mn, mx))
		mn, mx, n = countPaths(handle, nil, errRet, isPlainReady)
		c.check(n == 0 || mx == 0, "R1", "handlePacket error paths", p.Pos(handle.Pos()),
			"error returns send nothing (the worker then closes the connection)", "a path returns an error after a response was queued")
		for _, in := range findInstrs(handle, isReady) {
			c.check(!inLoop(in), "R1", "handlePacket readyPacket not in loop", pos(in), "single call site outside loops", "readyPacket inside a loop")
			if _, plain := in.(*ssa.Call); !plain {
				c.bad("R1", "handlePacket readyPacket deferred/go", pos(in), "readyPacket is deferred or asynchronous")
			}
		}
		// callers of handlePacket
		for _, in := range p.callersOfStatic(handle) {
			c.check(in.Parent() == osWorker, "R1", "caller of handlePacket: "+fnName(in.Parent()), pos(in), "only the os-server worker dispatches", "handlePacket called from an unexpected place")
		}
		// worker loops
		type wl struct {
			fn   *ssa.Function
			name string
			isM  func(ssa.Instruction) bool
		}
		isHandle := func(in ssa.Instruction) bool {
			cc := callOf(in)
			_, plain := in.(*ssa.Call)
			return plain && cc != nil && cc.StaticCallee() == handle
		}
		for _, w := range []wl{
			{osWorker, "(*Server).sftpServerWorker", func(in ssa.Instruction) bool { return isPlainReady(in) || isHandle(in) }},
			{worker, "(*RequestServer).packetWorker", isPlainReady},
		} {
			ls := rangeChanLoops(w.fn)
			if len(ls) != 1 {
				c.und("R1", w.name+" loop", p.Pos(w.fn.Pos()), fmt.Sprintf("expected one `for pkt := range ch` loop, found %d", len(ls)))
				continue
			}
			l := ls[0]
			// body entry = successor of head inside loop
			var entry *ssa.BasicBlock
			for _, s := range l.head.Succs {
				if l.blocks[s] && s != l.head {
					entry = s
				}
			}
			if entry == nil {
				c.und("R1", w.name+" loop body", p.Pos(w.fn.Pos()), "no loop body")
				continue
			}
			first := entry.Instrs[0]
			// count from the first body instruction (exclusive start: use head's last instr)
			start := l.head.Instrs[len(l.head.Instrs)-1]
			_ = first
			atHead := isLoopHeadStart(l)
			// paths from the If in head go both into the body and to the exit; restrict to body by
			// treating exit-block instructions as non-ends: countPaths only ends at atHead.
			mn, mx, n := countPaths(w.fn, start, atHead, w.isM)
			c.check(n > 0 && mn == 1 && mx == 1, "R1", w.name+" iteration", p.Pos(first.Pos()),
				"every iteration answers (or dispatches) its request exactly once", fmt.Sprintf("an iteration answers its request between %d and %d times", mn, mx))
			// M must not sit in an inner loop
			for _, in := range findInstrs(w.fn, w.isM) {
				if il := innermostLoop(loopsOf(w.fn), in.Block()); il == nil || il.head != l.head {
					c.bad("R1", w.name+" response inside inner loop", pos(in), "response is produced inside a nested loop (or outside the request loop)")
				}
			}
			// leaving the loop body other than through the head: only allowed after handlePacket failed
			for b := range l.blocks {
				for _, s := range b.Succs {
					if !l.blocks[s] && b != l.head {
						// exit edge from inside the body
						okExit := false
						if w.fn == osWorker {
							// must be dominated by a handlePacket call (its error path)
							for _, h := range findInstrs(w.fn, isHandle) {
								if h.Block().Dominates(b) {
									okExit = true
								}
							}
						}
						// or the exit is the non-nil side of a test of a value that is handlePacket's error or nil (the
						// shape once the gate and the dispatch sit in one helper: `err` joins "refused, nil" and the
						// dispatcher's result)
						if iff, isIf := b.Instrs[len(b.Instrs)-1].(*ssa.If); !okExit && w.fn == osWorker && isIf {
							if bo, isBin := iff.Cond.(*ssa.BinOp); isBin && isNilConst(bo.Y) && (bo.Op == token.NEQ || bo.Op == token.EQL) {
								nonNilSide := b.Succs[0]
								if bo.Op == token.EQL {
									nonNilSide = b.Succs[1]
								}
								only := nonNilSide == s
								if only {
									ls := leavesOf(bo.X)
									hasCall := false
									for _, l := range ls {
										switch {
										case l.Kind == leafConst && isNilConst(l.V):
										case l.Kind == leafCallResult && l.CallIn != nil && isHandle(l.CallIn):
											hasCall = true
										default:
											only = false
										}
									}
									okExit = only && hasCall
								}
							}
						}
						c.check(okExit, "R1", w.name+" early exit", p.Pos(b.Instrs[len(b.Instrs)-1].Pos()),
							"the only early exit follows a failed handlePacket", "the worker loop can be left while requests are still queued: they are never answered")
					}
				}
			}
		}
		// receive loops: every packet that was received and not rejected is handed to the dispatcher
		for _, name := range []string{"(*Server).Serve", "(*RequestServer).serveLoop"} {
			fn := p.Func(name)
			if fn == nil {
				c.missing("R1", name)
				continue
			}
			c.looked(name)
			mks := callsWhere(fn, func(cc *ssa.CallCommon) bool { return calleeName(cc) == "makePacket" })
			if len(mks) != 1 {
				c.und("R1", name+" makePacket call", p.Pos(fn.Pos()), fmt.Sprintf("expected one makePacket call, found %d", len(mks)))
				continue
			}
			l := innermostLoop(loopsOf(fn), mks[0].Block())
			if l == nil {
				c.bad("R1", name+" receive loop", pos(mks[0]), "makePacket is not called in a loop")
				continue
			}
			isSend := func(in ssa.Instruction) bool { _, ok := in.(*ssa.Send); return ok }
			skipped := reachAvoiding(fn, mks[0], isLoopHeadStart(l), isSend)
			c.check(!skipped, "R1", name+" dispatches every received packet", pos(mks[0]),
				"after makePacket every path either hands the packet to the dispatcher or leaves the loop",
				"a received request can be skipped (the loop continues without handing it to the dispatcher): it is never answered")
		}
		c.floor("R1", 8)
	}

	// ---------- R2 id provenance ----------
	{
		var okID func(v ssa.Value, depth int) (bool, string)
		okID = func(v ssa.Value, depth int) (bool, string) {
			if depth > 5 {
				return false, "provenance too deep"
			}
			ls := leavesOf(v)
			if len(ls) == 0 {
				return false, "no provenance"
			}
			for _, l := range ls {
				switch l.Kind {
				case leafFieldLoad:
					if l.Field == "ID" && p.isRequestType(l.Base.Type()) {
						continue
					}
					if l.Field == "RequestID" {
						continue
					}
					return false, "field " + l.Field + " of " + typeName(l.Base.Type())
				case leafCallResult:
					if calleeName(l.Call) == "id" {
						if r := recvOf(l.Call); r != nil && p.isRequestType(r.Type()) {
							continue
						}
					}
					return false, "result of " + calleeName(l.Call)
				case leafParam:
					ok, und := p.closedOverCallers(l.Param, func(arg ssa.Value, _ ssa.Instruction) bool {
						good, _ := okID(arg, depth+1)
						return good
					})
					if und {
						return false, "parameter " + l.Param.Name() + " of " + fnName(l.Param.Parent()) + " (callers not enumerable)"
					}
					if !ok {
						return false, "parameter " + l.Param.Name() + " of " + fnName(l.Param.Parent()) + " is not a request id at some call site"
					}
				case leafConst:
					return false, "constant " + l.V.String()
				default:
					return false, "value " + l.V.String()
				}
			}
			return true, ""
		}
		sfe := p.Func("statusFromError")
		if sfe == nil {
			c.missing("R2", "statusFromError")
		} else {
			for _, in := range p.callersOfStatic(sfe) {
				fn := in.Parent()
				if !isServerSide(fn) || outermost(fn).Package() != p.Sftp {
					continue
				}
				if fnName(outermost(fn)) == "(*serverConn).sendError" {
					continue // dead code, checked under R3
				}
				ok, why := okID(callOf(in).Args[0], 0)
				c.check(ok, "R2", "statusFromError id in "+fnName(fn), pos(in), "id is the id of the request being answered", "status reply carries an id that is not the request's: "+why)
			}
			c.floor("R2", 50)
		}
		// stores to the ID field of response packet types
		respNames := map[string]bool{"sshFxpStatusPacket": true, "sshFxpHandlePacket": true, "sshFxpDataPacket": true, "sshFxpNamePacket": true, "sshFxpStatResponse": true, "StatVFS": true}
		for _, fn := range p.LibFuncs() {
			if !isServerSide(fn) || outermost(fn).Package() != p.Sftp {
				continue
			}
			eachInstr(fn, func(in ssa.Instruction) {
				switch x := in.(type) {
				case *ssa.Store:
					fa, ok := x.Addr.(*ssa.FieldAddr)
					if !ok {
						return
					}
					st, name, _, ok := fieldOf(fa)
					if !ok || name != "ID" || !respNames[typeName(st)] {
						return
					}
					if fn == sfe || strings.HasPrefix(fn.Name(), "Unmarshal") || strings.HasPrefix(fn.Name(), "unmarshal") {
						// statusFromError's own parameter is closed over its callers above; decoders are not response builders
						return
					}
					good, why := okID(x.Val, 0)
					c.check(good, "R2", typeName(st)+".ID in "+fnName(fn), pos(in), "response id is the request's id", "response id is not the request's: "+why)
				case *ssa.Alloc:
					// a response literal must set its ID
					t := derefType(x.Type())
					if !respNames[typeName(t)] || typeName(t) == "StatVFS" {
						return
					}
					has := false
					for _, r := range *x.Referrers() {
						if fa, ok := r.(*ssa.FieldAddr); ok {
							if _, n, _, _ := fieldOf(fa); n == "ID" {
								for _, rr := range *fa.Referrers() {
									if _, ok := rr.(*ssa.Store); ok {
										has = true
									}
								}
							}
						}
					}
					c.check(has, "R2", typeName(t)+" literal sets ID in "+fnName(fn), pos(in), "literal sets ID", "response literal leaves ID zero")
				}
			})
		}
		// a *StatVFS that becomes a responsePacket must have had its ID stored on that path
		for _, fn := range p.LibFuncs() {
			if !isServerSide(fn) {
				continue
			}
			eachInstr(fn, func(in ssa.Instruction) {
				mi, ok := in.(*ssa.MakeInterface)
				if !ok || typeName(mi.Type()) != "responsePacket" || typeName(mi.X.Type()) != "StatVFS" {
					return
				}
				stored := false
				eachInstr(fn, func(s ssa.Instruction) {
					st, ok := s.(*ssa.Store)
					if !ok {
						return
					}
					if fa, ok := st.Addr.(*ssa.FieldAddr); ok && fa.X == mi.X {
						if _, n, _, _ := fieldOf(fa); n == "ID" && dominates(s, in) {
							stored = true
						}
					}
				})
				c.check(stored, "R2", "StatVFS reply id in "+fnName(fn), pos(in), "ID is stored before the value is used as a response", "a StatVFS reply is returned without its ID being set on this path")
			})
		}
	}

	// ---------- R3 order-id discipline ----------
	runC02R3(c)

	// ---------- R4 reply type legality ----------
	{
		// os server: per case of handlePacket, via the phi feeding the response that is handed to the packet manager
		rpktVal := p.responseValueIn(handle)
		if rpktVal == nil {
			c.und("R4", "handlePacket response value", p.Pos(handle.Pos()), "cannot find the response value that handlePacket hands to the packet manager")
		} else {
			// edges of the phi grouped by case body
			perCase := map[*ssa.BasicBlock]map[string]bool{}
			unknownCase := map[*ssa.BasicBlock]bool{}
			var collect func(v ssa.Value, at *ssa.BasicBlock)
			bodies := map[*ssa.BasicBlock]bool{}
			for _, b := range caseOf {
				bodies[b] = true
			}
			caseFor := func(b *ssa.BasicBlock) *ssa.BasicBlock {
				var best *ssa.BasicBlock
				for body := range bodies {
					if body.Dominates(b) && (best == nil || best.Dominates(body)) {
						best = body
					}
				}
				return best
			}
			collect = func(v ssa.Value, at *ssa.BasicBlock) {
				if phi, ok := v.(*ssa.Phi); ok {
					for i, e := range phi.Edges {
						collect(e, phi.Block().Preds[i])
					}
					return
				}
				cb := caseFor(at)
				if cb == nil {
					if cst, ok := v.(*ssa.Const); ok && isNilConst(cst) {
						return
					}
					return
				}
				ts, unk := p.valueRespTypes(v, 0, map[*ssa.Function]bool{})
				if perCase[cb] == nil {
					perCase[cb] = map[string]bool{}
				}
				for t := range ts {
					perCase[cb][t] = true
				}
				if unk {
					unknownCase[cb] = true
				}
			}
			collect(rpktVal, handle.Blocks[0])
			for _, t := range top {
				tn := typeName(t)
				body := caseOf[tn]
				allowed, known := legalReplies[tn]
				if !known {
					c.und("R4", "reply types of "+tn, p.Pos(body.Instrs[0].Pos()), "request type not in the oracle table of legal replies")
					continue
				}
				got := perCase[body]
				// the generic serverRespondablePacket case: resolve respond() for this concrete type
				if m := p.methodOf(t, "respond"); m != nil {
					if _, def, ta := simulate(hHead, t); !def && ta != nil {
						if _, isIface := ta.AssertedType.Underlying().(*types.Interface); isIface || tn == "sshFxpExtendedPacket" {
							got = map[string]bool{}
							unk := false
							if tn != "sshFxpExtendedPacket" {
								var ts map[string]bool
								ts, unk = p.respTypes(m, 0, map[*ssa.Function]bool{})
								for k := range ts {
									got[k] = true
								}
							}
							if tn == "sshFxpExtendedPacket" {
								for k := range perCase[body] {
									if k != "responsePacket" {
										got[k] = true
									}
								}
								// (*sshFxpExtendedPacket).respond dispatches to the specific packets
								for _, st := range specific {
									if sm := p.methodOf(st, "respond"); sm != nil {
										sts, _ := p.respTypes(sm, 0, map[*ssa.Function]bool{})
										for k := range sts {
											got[k] = true
										}
										bad := subset(sts, legalReplies[typeName(st)])
										c.check(len(bad) == 0, "R4", "os server reply types of "+typeName(st), p.Pos(sm.Pos()),
											"replies ⊆ "+strings.Join(legalReplies[typeName(st)], "|"), "may answer with "+strings.Join(bad, ",")+", illegal for this request")
									}
								}
							}
							if unk {
								unknownCase[body] = true
							}
						}
					}
				}
				if len(got) == 0 {
					c.und("R4", "os server reply types of "+tn, p.Pos(body.Instrs[0].Pos()), "no reply value found for this case")
					continue
				}
				bad := subset(got, allowed)
				c.check(len(bad) == 0, "R4", "os server reply types of "+tn, p.Pos(body.Instrs[0].Pos()),
					"replies ⊆ "+strings.Join(allowed, "|"), "may answer with "+strings.Join(bad, ",")+", illegal for this request")
			}
		}
		// request server: wrappers
		for name, allowed := range wrapperReplies {
			fn := p.Func(name)
			if fn == nil {
				// folded into its caller: its replies are judged per method string by the call table below
				c.note("wrapper %s is not a separate function in this tree; its replies are checked per method in Request.call", name)
				continue
			}
			c.looked(name)
			ts, _ := p.respTypes(fn, 0, map[*ssa.Function]bool{})
			bad := subset(ts, allowed)
			c.check(len(bad) == 0 && len(ts) > 0, "R4", "request server reply types of "+name, p.Pos(fn.Pos()),
				"replies ⊆ "+strings.Join(allowed, "|"), "may answer with "+strings.Join(bad, ",")+", illegal for the requests this wrapper serves")
		}
		// Request.call routes each method string to a wrapper whose replies are legal for it
		runC02CallTable(c)
		c.floor("R4", 28)
	}

	// ---------- R5 no response abandoned at shutdown ----------
	runC02R5(c)
}

func runC02R3(c *Ctx) {
	p := c.P
	pos := func(in ssa.Instruction) string { return p.Pos(in.Pos()) }
	pm := p.NamedType(p.Sftp, "packetManager")
	if pm == nil {
		c.missing("R3", "packetManager")
		return
	}
	ctrl := p.Func("(*packetManager).controller")
	maybe := p.Func("(*packetManager).maybeSendPackets")
	for n, f := range map[string]*ssa.Function{"controller": ctrl, "maybeSendPackets": maybe} {
		if f == nil {
			c.missing("R3", "(*packetManager)."+n)
			return
		}
		c.looked(fnName(f))
	}
	w := p.oid()
	// the counter only ever advances by one
	for _, st := range w.advances {
		b, ok := st.Val.(*ssa.BinOp)
		one, isOne := int64(0), false
		if ok {
			one, isOne = constInt(b.Y)
		}
		good := ok && b.Op == token.ADD && isOne && one == 1
		c.looked(fnName(st.Parent()))
		c.check(good, "R3", "write of packetCount in "+fnName(st.Parent()), pos(st), "order counter only advances by one", "order counter is not advanced by +1: order ids may repeat or go backwards")
	}
	if len(w.advances) == 0 {
		c.bad("R3", "write of packetCount", "?", "the order counter is never advanced: every request gets the same order id")
	}
	for _, st := range w.copyAdvances {
		c.bad("R3", "order counter advanced on a copy in "+fnName(st.Parent()), pos(st), "the increment is made on a by-value copy of the counter (a method with a value receiver) and is lost when the method returns: every request gets the same order id and responses leave in completion order")
	}
	// the order id of a request is the advanced counter itself (not a reduction of it): pairwise distinct and increasing
	nReq := 0
	for _, a := range p.literalsOfType("orderedRequest") {
		v := litFieldWhere(a, isBasicKind(types.Uint32))
		if v == nil {
			continue
		}
		nReq++
		c.check(w.issuedValue(v, 0), "R3", "order id of a request built in "+fnName(a.Parent())+" is the advanced counter", pos(a), "the issued id is the advanced counter",
			"a request is given an order id that is not the freshly advanced counter ("+affineOf(v).String()+"): order ids can repeat, and the sort by order id no longer reflects arrival order")
	}
	c.check(nReq >= 1, "R3", "requests are numbered", "?", fmt.Sprintf("%d literals", nReq), "no orderedRequest is built with an order id")
	// the counter is advanced only by the receive loops, once the packet has been received: a function that advances it
	// is called only by another such function or by a receive loop, in the loop, after recvPacket
	isRecvLoop := func(fn *ssa.Function) bool {
		n := fnName(fn)
		return (n == "(*Server).Serve" || n == "(*RequestServer).serveLoop") && fn.Parent() == nil
	}
	nIssue := 0
	for f := range w.advFns {
		if len(p.refsAsValue(f)) > 0 {
			c.bad("R3", "callers of "+fnName(f), p.Pos(f.Pos()), "a function that advances the order counter is used as a value: its callers cannot be enumerated")
		}
		for _, in := range p.callersOfStatic(f) {
			fn := in.Parent()
			if w.advFns[fn] {
				continue
			}
			nIssue++
			ok := isRecvLoop(fn) && inLoop(in)
			if ok {
				dom := false
				for _, r := range callsWhere(fn, func(cc *ssa.CallCommon) bool { return calleeName(cc) == "recvPacket" }) {
					lr, li := innermostLoop(loopsOf(fn), r.Block()), innermostLoop(loopsOf(fn), in.Block())
					if dominates(r, in) && lr != nil && li != nil && lr.head == li.head {
						dom = true
					}
				}
				ok = dom
			}
			c.check(ok, "R3", "order id issued in "+fnName(fn), pos(in), "order id is taken in the single receive loop, right after the packet was received", "order id is taken outside the sequential receive loop: it no longer reflects arrival order")
		}
	}
	for _, st := range w.advances {
		if fn := st.Parent(); isRecvLoop(fn) {
			nIssue++
			dom := false
			for _, r := range callsWhere(fn, func(cc *ssa.CallCommon) bool { return calleeName(cc) == "recvPacket" }) {
				lr, li := innermostLoop(loopsOf(fn), r.Block()), innermostLoop(loopsOf(fn), st.Block())
				if dominates(r, st) && lr != nil && li != nil && lr.head == li.head {
					dom = true
				}
			}
			c.check(dom, "R3", "order id issued in "+fnName(fn), pos(st), "advanced in the receive loop, after the packet was received", "the order counter is advanced outside the receive loop")
		}
	}
	c.check(nIssue >= 2, "R3", "places where order ids are issued", "?", fmt.Sprintf("%d sites", nIssue), fmt.Sprintf("only %d sites issue order ids (the two receive loops expected)", nIssue))
	// the order id of a response is its request's orderID()
	var okOID func(v ssa.Value, depth int) (bool, string)
	okOID = func(v ssa.Value, depth int) (bool, string) {
		if depth > 5 {
			return false, "too deep"
		}
		for _, l := range leavesOf(v) {
			switch l.Kind {
			case leafCallResult:
				if calleeName(l.Call) == "orderID" {
					if r := recvOf(l.Call); r != nil && typeName(r.Type()) == "orderedRequest" {
						continue
					}
				}
				return false, "result of " + calleeName(l.Call)
			case leafParam:
				ok, und := p.closedOverCallers(l.Param, func(arg ssa.Value, _ ssa.Instruction) bool {
					g, _ := okOID(arg, depth+1)
					return g
				})
				if und || !ok {
					return false, "parameter " + l.Param.Name() + " of " + fnName(l.Param.Parent())
				}
			case leafFieldLoad:
				// orderedRequest.orderid read directly
				if l.Field == "orderid" && l.Base != nil && typeName(l.Base.Type()) == "orderedRequest" {
					continue
				}
				return false, "field " + l.Field
			default:
				return false, l.V.String()
			}
		}
		return true, ""
	}
	nResp := 0
	for _, a := range p.literalsOfType("orderedResponse") {
		v := litFieldWhere(a, isBasicKind(types.Uint32))
		if v == nil {
			continue
		}
		nResp++
		ok, why := okOID(v, 0)
		c.check(ok, "R3", "order id of a response built in "+fnName(a.Parent()), pos(a), "response carries the order id of the request it answers", "response is filed under an order id that is not its request's: "+why)
	}
	c.check(nResp >= 1, "R3", "responses are numbered", "?", fmt.Sprintf("%d literals", nResp), "no orderedResponse is built with an order id")
	for _, name := range []string{"(orderedRequest).orderID", "(orderedResponse).orderID"} {
		fn := p.Func(name)
		if fn == nil {
			c.missing("R3", name)
			continue
		}
		good := false
		eachInstr(fn, func(in ssa.Instruction) {
			if r, ok := in.(*ssa.Return); ok && len(r.Results) == 1 {
				ls := leavesOf(r.Results[0])
				good = len(ls) == 1 && (ls[0].Kind == leafFieldLoad && ls[0].Field == "orderid")
			}
		})
		c.check(good, "R3", name+" returns orderid", p.Pos(fn.Pos()), "accessor returns the stored order id", "orderID() does not return the stored order id")
	}
	// controller: each append to incoming/outgoing is followed by a Sort of that list before maybeSendPackets
	isMaybe := func(in ssa.Instruction) bool {
		cc := callOf(in)
		return cc != nil && cc.StaticCallee() == maybe
	}
	nStores := 0
	eachInstr(ctrl, func(in ssa.Instruction) {
		st, ok := in.(*ssa.Store)
		if !ok {
			return
		}
		fa, ok := st.Addr.(*ssa.FieldAddr)
		if !ok {
			return
		}
		_, field, _, ok := fieldOf(fa)
		if !ok || (field != "incoming" && field != "outgoing") {
			return
		}
		nStores++
		isSort := func(x ssa.Instruction) bool {
			cc := callOf(x)
			if cc == nil || calleeName(cc) != "Sort" {
				return false
			}
			if _, plain := x.(*ssa.Call); !plain {
				return false
			}
			r := recvOf(cc)
			if r == nil {
				return false
			}
			_, path := accessPath(r)
			return path == field
		}
		unsorted := reachAvoiding(ctrl, in, isMaybe, isSort)
		c.check(!unsorted, "R3", "controller sorts "+field, pos(in), "list is sorted by order id before sending is attempted", "the "+field+" list can reach maybeSendPackets unsorted: heads no longer are the oldest request/response")
	})
	c.check(nStores == 2, "R3", "controller appends", p.Pos(ctrl.Pos()), "controller files requests and responses", fmt.Sprintf("controller has %d stores to incoming/outgoing, expected 2", nStores))
	// every arm that files a packet is followed by maybeSendPackets before the next select
	{
		var sel ssa.Instruction
		eachInstr(ctrl, func(in ssa.Instruction) {
			if _, ok := in.(*ssa.Select); ok {
				sel = in
			}
		})
		if sel == nil {
			c.und("R3", "controller select", p.Pos(ctrl.Pos()), "no select found")
		} else {
			eachInstr(ctrl, func(in ssa.Instruction) {
				st, ok := in.(*ssa.Store)
				if !ok {
					return
				}
				if fa, ok := st.Addr.(*ssa.FieldAddr); ok {
					if _, f, _, _ := fieldOf(fa); f == "incoming" || f == "outgoing" {
						skipped := reachAvoiding(ctrl, in, func(x ssa.Instruction) bool { return x == sel }, isMaybe)
						c.check(!skipped, "R3", "controller sends after filing "+f, pos(in), "maybeSendPackets runs after every filing", "a filed packet may wait for the next event before being sent")
					}
				}
			})
		}
	}
	// Sort's less function: o[i].orderID() < o[j].orderID()
	if srt := p.Func("(orderedPackets).Sort"); srt == nil {
		c.missing("R3", "(orderedPackets).Sort")
	} else if len(srt.AnonFuncs) != 1 {
		c.und("R3", "Sort less function", p.Pos(srt.Pos()), "expected one closure")
	} else {
		less := srt.AnonFuncs[0]
		good := false
		why := "less function does not compare order ids with <"
		eachInstr(less, func(in ssa.Instruction) {
			r, ok := in.(*ssa.Return)
			if !ok || len(r.Results) != 1 {
				return
			}
			b, ok := r.Results[0].(*ssa.BinOp)
			if !ok {
				return
			}
			idxOf := func(v ssa.Value) string {
				call, ok := v.(*ssa.Call)
				if !ok || calleeName(&call.Call) != "orderID" {
					return ""
				}
				// receiver: load of IndexAddr(o, param)
				recv := recvOf(&call.Call)
				if u, ok := recv.(*ssa.UnOp); ok {
					if ia, ok := u.X.(*ssa.IndexAddr); ok {
						if pr, ok := ia.Index.(*ssa.Parameter); ok {
							return pr.Name()
						}
					}
				}
				return ""
			}
			x, y := idxOf(b.X), idxOf(b.Y)
			params := less.Params
			if len(params) == 2 && ((b.Op == token.LSS && x == params[0].Name() && y == params[1].Name()) || (b.Op == token.GTR && x == params[1].Name() && y == params[0].Name())) {
				good = true
			} else {
				why = fmt.Sprintf("less(i,j) returns orderID(%s) %s orderID(%s): not ascending order", x, b.Op, y)
			}
		})
		c.check(good, "R3", "Sort less function", p.Pos(less.Pos()), "ascending by order id", why)
		// Sort uses sort.Slice on the receiver
		usesSlice := len(callsWhere(srt, func(cc *ssa.CallCommon) bool { return callIs(cc, "sort.Slice", "sort.SliceStable") })) == 1
		c.check(usesSlice, "R3", "Sort sorts", p.Pos(srt.Pos()), "delegates to sort.Slice", "Sort no longer sorts")
	}
	// maybeSendPackets: send only when heads match; pop both; send the outgoing head
	{
		var send ssa.Instruction
		eachInstr(maybe, func(in ssa.Instruction) {
			if cc := callOf(in); cc != nil && cc.IsInvoke() && cc.Method.Name() == "sendPacket" {
				send = in
			}
		})
		if send == nil {
			c.bad("R3", "maybeSendPackets sends", p.Pos(maybe.Pos()), "no sender.sendPacket call: responses are never written")
		} else {
			headOf := func(v ssa.Value) string {
				// value is load of IndexAddr(load field X, 0)
				for _, l := range leavesOfIface(v) {
					if u, ok := l.(*ssa.UnOp); ok {
						if ia, ok := u.X.(*ssa.IndexAddr); ok {
							if k, ok := constInt(ia.Index); ok && k == 0 {
								_, path := accessPath(ia.X)
								return path
							}
						}
					}
				}
				return ""
			}
			// guarding condition
			guarded := false
			for _, b := range maybe.Blocks {
				iff, ok := b.Instrs[len(b.Instrs)-1].(*ssa.If)
				if !ok {
					continue
				}
				cmp, ok := iff.Cond.(*ssa.BinOp)
				if !ok || (cmp.Op != token.EQL && cmp.Op != token.NEQ) {
					continue
				}
				// `if a == b { send } else { break }` and `if a != b { break }; send` are the same guard
				eqSide, neSide := 0, 1
				if cmp.Op == token.NEQ {
					eqSide, neSide = 1, 0
				}
				cx, okx := cmp.X.(*ssa.Call)
				cy, oky := cmp.Y.(*ssa.Call)
				if !okx || !oky || calleeName(&cx.Call) != "orderID" || calleeName(&cy.Call) != "orderID" {
					continue
				}
				hx, hy := headOf(recvOf(&cx.Call)), headOf(recvOf(&cy.Call))
				if (hx == "incoming" && hy == "outgoing") || (hx == "outgoing" && hy == "incoming") {
					// the send is reached only through the "equal" edge
					if onlyViaEdge(maybe, b, eqSide, func(in ssa.Instruction) bool { return in == send }) && !b.Succs[neSide].Dominates(send.Block()) {
						guarded = true
					}
				}
			}
			c.check(guarded, "R3", "maybeSendPackets head match", pos(send), "a response is written only when it answers the oldest unanswered request", "sendPacket is not guarded by incoming[0].orderID() == outgoing[0].orderID(): responses can leave out of order")
			arg := callOf(send).Args[0]
			c.check(headOf(arg) == "outgoing", "R3", "maybeSendPackets sends outgoing head", pos(send), "the packet written is outgoing[0]", "the packet written is not the head of the outgoing list")
			// both lists shrink before the loop continues
			loops := loopsOf(maybe)
			l := innermostLoop(loops, send.Block())
			if l == nil {
				c.bad("R3", "maybeSendPackets loop", pos(send), "send is not in the drain loop: only one packet per event is sent")
			} else {
				for _, f := range []string{"incoming", "outgoing"} {
					isPop := func(x ssa.Instruction) bool {
						st, ok := x.(*ssa.Store)
						if !ok {
							return false
						}
						fa, ok := st.Addr.(*ssa.FieldAddr)
						if !ok {
							return false
						}
						_, n, _, _ := fieldOf(fa)
						if n != f {
							return false
						}
						// slices.Delete(l, 0, 1): the standard library's removal of the first element
						if call, ok := st.Val.(*ssa.Call); ok {
							tf := calleeFunc(&call.Call)
							if tf == nil {
								if sc := call.Call.StaticCallee(); sc != nil && sc.Origin() != nil {
									tf, _ = sc.Origin().Object().(*types.Func)
								}
							}
							if tf != nil && tf.Pkg() != nil && tf.Pkg().Path() == "slices" && tf.Name() == "Delete" && len(call.Call.Args) == 3 {
								lo, ok1 := constInt(call.Call.Args[1])
								hi, ok2 := constInt(call.Call.Args[2])
								isList := false
								for _, l := range leavesOf(call.Call.Args[0]) {
									if l.Kind == leafFieldLoad && l.Field == f {
										isList = true
									}
								}
								return ok1 && ok2 && lo == 0 && hi == 1 && isList
							}
						}
						sl, isSlice := st.Val.(*ssa.Slice)
						if !isSlice {
							return false
						}
						// l[1:] drops the head; l[:len(l)-1] does only after copy(l, l[1:]) has shifted the list left
						if k, ok := constInt(sl.Low); sl.Low != nil && ok && k == 1 && sl.High == nil {
							return true
						}
						if sl.Low == nil && sl.High != nil {
							shifted := false
							eachInstr(maybe, func(y ssa.Instruction) {
								cc := callOf(y)
								if cc == nil || builtinName(cc) != "copy" || !dominates(y, x) || y.Block() != x.Block() {
									return
								}
								src, ok := cc.Args[1].(*ssa.Slice)
								if !ok || src.Low == nil {
									return
								}
								if k, ok := constInt(src.Low); !ok || k != 1 {
									return
								}
								dstIs, srcIs := false, false
								for _, l := range leavesOf(cc.Args[0]) {
									if l.Kind == leafFieldLoad && l.Field == f {
										dstIs = true
									}
								}
								for _, l := range leavesOf(src.X) {
									if l.Kind == leafFieldLoad && l.Field == f {
										srcIs = true
									}
								}
								if dstIs && srcIs {
									shifted = true
								}
							})
							return shifted
						}
						return false
					}
					miss := reachAvoiding(maybe, send, isLoopHeadStart(l), isPop)
					c.check(!miss, "R3", "maybeSendPackets pops "+f, pos(send), "head is removed after sending (l[1:], or copy(l, l[1:]) and truncation)", "the head of "+f+" is not removed after a send (the list is not shifted, or something other than the head is dropped): the same packet is matched and written again")
				}
			}
		}
	}
	// single sender: nothing on the server side writes packets except maybeSendPackets
	{
		connSend := p.Func("(*conn).sendPacket")
		if connSend == nil {
			c.missing("R3", "(*conn).sendPacket")
		} else {
			// the client's side of the shared conn type is not the packet manager's business: told by whose code it is
			// (a method of Client / clientConn / File, or the client's constructor), not by a list of names
			var allowed func(fn *ssa.Function) bool
			depth := 0
			allowed = func(fn *ssa.Function) bool {
				if isClientSide(fn) || fnName(fn) == "(*serverConn).sendError" {
					return true
				}
				// a plain function of the client's: every caller of it is the client's
				sites := p.callersOfStatic(fn)
				if len(sites) == 0 || depth > 2 || len(p.refsAsValue(fn)) > 0 {
					return false
				}
				depth++
				defer func() { depth-- }()
				for _, s := range sites {
					if !allowed(outermost(s.Parent())) {
						return false
					}
				}
				return true
			}
			for _, in := range p.callersOfStatic(connSend) {
				c.check(allowed(outermost(in.Parent())), "R3", "caller of conn.sendPacket: "+fnName(in.Parent()), pos(in),
					"not a server-side bypass of the packet manager", "a server-side function writes a packet directly, bypassing the ordering of the packet manager")
			}
			if se := p.Func("(*serverConn).sendError"); se != nil {
				n := len(p.callersOfStatic(se)) + len(p.refsAsValue(se))
				c.check(n == 0, "R3", "sendError unused", p.Pos(se.Pos()), "serverConn.sendError has no caller", "serverConn.sendError is called: that response bypasses the packet manager's ordering")
			}
			// package-level sendPacket(w, m)
			if ps := p.Func("sendPacket"); ps != nil {
				for _, in := range p.callersOfStatic(ps) {
					c.check(in.Parent() == connSend, "R3", "caller of sendPacket: "+fnName(in.Parent()), pos(in), "only conn.sendPacket frames packets", "packet framed outside conn.sendPacket (no write lock, no ordering)")
				}
			} else {
				c.missing("R3", "sendPacket")
			}
		}
	}
	c.floor("R3", 20)
}

// runC02CallTable: Request.call maps each Method string to a wrapper; the wrapper's reply
// set must be legal for every request type that can carry that method.
func runC02CallTable(c *Ctx) {
	p := c.P
	call := p.Func("(*Request).call")
	if call == nil {
		c.missing("R4", "(*Request).call")
		return
	}
	c.looked("(*Request).call")
	// methods -> union of legal reply types over request types that produce the method
	methodLegal := map[string][]string{
		"Get": {"sshFxpDataPacket", "sshFxpStatusPacket"}, "Put": {"sshFxpStatusPacket"}, "Open": {"sshFxpDataPacket", "sshFxpStatusPacket"},
		"Setstat": {"sshFxpStatusPacket"}, "Rename": {"sshFxpStatusPacket"}, "Rmdir": {"sshFxpStatusPacket"}, "Mkdir": {"sshFxpStatusPacket"},
		"Link": {"sshFxpStatusPacket"}, "Symlink": {"sshFxpStatusPacket"}, "Remove": {"sshFxpStatusPacket"}, "PosixRename": {"sshFxpStatusPacket"},
		"StatVFS": {"StatVFS", "sshFxpStatusPacket"}, "List": {"sshFxpNamePacket", "sshFxpStatusPacket"},
		"Stat": {"sshFxpStatResponse", "sshFxpStatusPacket"}, "Lstat": {"sshFxpStatResponse", "sshFxpStatusPacket"},
		"Readlink": {"sshFxpNamePacket", "sshFxpStatusPacket"},
	}
	// find string comparisons r.Method == "X" and the block taken when equal
	n := 0
	for _, b := range call.Blocks {
		iff, ok := b.Instrs[len(b.Instrs)-1].(*ssa.If)
		if !ok {
			continue
		}
		cmp, ok := iff.Cond.(*ssa.BinOp)
		if !ok || cmp.Op != token.EQL {
			continue
		}
		s, ok := constString(cmp.Y)
		if !ok {
			if s, ok = constString(cmp.X); !ok {
				continue
			}
		}
		legal, known := methodLegal[s]
		if !known {
			c.und("R4", "Request.call method "+s, p.Pos(iff.Pos()), "method string not in the oracle table")
			continue
		}
		// the body: follow the true successor until a Return; collect reply types of returned calls
		body := b.Succs[0]
		got := map[string]bool{}
		seenB := map[*ssa.BasicBlock]bool{}
		var walk func(x *ssa.BasicBlock)
		walk = func(x *ssa.BasicBlock) {
			if seenB[x] {
				return
			}
			seenB[x] = true
			for _, in := range x.Instrs {
				if r, ok := in.(*ssa.Return); ok && len(r.Results) == 1 {
					ts, _ := p.valueRespTypes(r.Results[0], 0, map[*ssa.Function]bool{})
					for t := range ts {
						got[t] = true
					}
					return
				}
			}
			// multi-value cases chain: the body block is shared; stop at other comparisons
			if iff2, ok := x.Instrs[len(x.Instrs)-1].(*ssa.If); ok {
				if cmp2, ok := iff2.Cond.(*ssa.BinOp); ok && cmp2.Op == token.EQL {
					if _, isStr := constString(cmp2.Y); isStr {
						return
					}
				}
			}
			for _, s := range x.Succs {
				walk(s)
			}
		}
		walk(body)
		n++
		// Stat/Lstat/Readlink share filestat whose union is wider; legality per method is then
		// decided by filestat's own `switch r.Method` (checked by respTypes of the wrapper) — accept the wrapper union
		// only when the method's own legal set plus the wrapper's documented union cover it.
		allowed := append([]string{}, legal...)
		if s == "Stat" || s == "Lstat" || s == "Readlink" {
			allowed = append(allowed, wrapperReplies["filestat"]...)
		}
		switch s {
		case "Setstat", "Rename", "Rmdir", "Mkdir", "Link", "Symlink", "Remove", "PosixRename":
			// share filecmd with StatVFS; the StatVFS reply is tied to its method string inside filecmd (checked below)
			allowed = append(allowed, "StatVFS")
		}
		bad := subset(got, allowed)
		c.check(len(bad) == 0 && len(got) > 0, "R4", "Request.call method "+s, p.Pos(iff.Pos()),
			"routed to a wrapper whose replies are legal for "+s, "method "+s+" may be answered with "+strings.Join(bad, ","))
	}
	// inside the shared wrappers, a non-status reply is control dependent on its own method string
	for _, w := range []struct {
		fn, reply string
		methods   []string
	}{
		{"filecmd", "StatVFS", []string{"StatVFS"}},
		{"filestat", "sshFxpNamePacket", []string{"Readlink"}},
		{"filestat", "sshFxpStatResponse", []string{"Stat", "Lstat"}},
		{"filelist", "sshFxpNamePacket", []string{"List"}},
	} {
		fn := p.Func(w.fn)
		if fn == nil {
			continue
		}
		eachInstr(fn, func(in ssa.Instruction) {
			r, ok := in.(*ssa.Return)
			if !ok || len(r.Results) != 1 {
				return
			}
			ts, _ := p.valueRespTypes(r.Results[0], 0, map[*ssa.Function]bool{})
			if !ts[w.reply] {
				return
			}
			// The method string is touched only through comparisons with constants, so it is decided exactly: for every
			// constant the function compares it with, and for "none of them", the blocks reachable when each such
			// comparison has the outcome that string gives it.  The reply must be reachable only for its own methods.
			universe := map[string]bool{"\x00none of the constants": true}
			isMethodCmp := func(v ssa.Value) (string, bool, bool) {
				cmp, ok := v.(*ssa.BinOp)
				if !ok || (cmp.Op != token.EQL && cmp.Op != token.NEQ) {
					return "", false, false
				}
				x, y := cmp.X, cmp.Y
				if _, isK := x.(*ssa.Const); isK {
					x, y = y, x
				}
				str, ok := constString(y)
				if !ok {
					return "", false, false
				}
				isMethod := false
				for _, l := range leavesOf(x) {
					if l.Kind == leafFieldLoad && l.Field == "Method" {
						isMethod = true
					}
				}
				return str, cmp.Op == token.EQL, isMethod
			}
			for _, b := range fn.Blocks {
				if iff, ok := b.Instrs[len(b.Instrs)-1].(*ssa.If); ok {
					if str, _, isM := isMethodCmp(iff.Cond); isM {
						universe[str] = true
					}
				}
			}
			guard := true
			for m := range universe {
				m := m
				seen := reachWithFlagsX(fn.Blocks[0], func(cond ssa.Value) (bool, bool) {
					if str, eq, isM := isMethodCmp(cond); isM {
						return (str == m) == eq, true
					}
					return false, false
				})
				own := false
				for _, wm := range w.methods {
					if wm == m {
						own = true
					}
				}
				if seen[in.Block()] && !own {
					guard = false
				}
			}
			c.check(guard, "R4", w.fn+" reply "+w.reply+" tied to its method", p.Pos(in.Pos()),
				"this reply type is produced only under Method == "+strings.Join(w.methods, "|"), "a "+w.reply+" reply can be produced for a request whose method is not "+strings.Join(w.methods, "|"))
		})
	}
	c.check(n >= 16, "R4", "Request.call method count", p.Pos(call.Pos()), fmt.Sprintf("%d method strings routed", n), fmt.Sprintf("only %d method strings routed, expected 16", n))
}

func runC02R5(c *Ctx) {
	p := c.P
	ctrl := p.Func("(*packetManager).controller")
	maybe := p.Func("(*packetManager).maybeSendPackets")
	if ctrl == nil || maybe == nil {
		c.missing("R5", "(*packetManager).controller")
		return
	}
	// (a) the fini arm may return only after the responses channel was drained and sending attempted
	var sel *ssa.Select
	eachInstr(ctrl, func(in ssa.Instruction) {
		if s, ok := in.(*ssa.Select); ok {
			sel = s
		}
	})
	if sel == nil {
		c.und("R5", "controller select", p.Pos(ctrl.Pos()), "no select")
		return
	}
	for _, r := range findInstrs(ctrl, isReturn) {
		// some receive from `responses` in a draining construct must dominate the return:
		// a select with a default arm (non-blocking) or a len()==0 test on the channel, after the fini receive.
		drained := false
		eachInstr(ctrl, func(in ssa.Instruction) {
			s2, ok := in.(*ssa.Select)
			if !ok || s2 == sel || s2.Blocking {
				return
			}
			for _, st := range s2.States {
				if _, path := accessPath(st.Chan); path == "responses" && dominates(in, r) {
					drained = true
				}
			}
		})
		eachInstr(ctrl, func(in ssa.Instruction) {
			if cc := callOf(in); cc != nil && builtinName(cc) == "len" {
				if _, path := accessPath(cc.Args[0]); path == "responses" && dominates(in, r) {
					drained = true
				}
			}
		})
		c.check(drained, "R5", "controller drains responses before exit", p.Pos(r.Pos()),
			"queued responses are drained and sent before the controller stops",
			"the controller returns on `fini` while responses may still sit in the `responses` channel (select picks ready arms at random): answered requests lose their response at shutdown")
	}
	// (b) Serve joins the controller before returning
	for _, name := range []string{"(*Server).Serve", "(*RequestServer).Serve"} {
		fn := p.Func(name)
		if fn == nil {
			c.missing("R5", name)
			continue
		}
		// a join is any blocking operation on something the controller/dispatcher signals at exit:
		// conservatively accept a call into the packet manager (other than workerChan/getNextOrderID/newOrderedRequest)
		// or a channel receive, located after wg.Wait() on every return path.
		joined := false
		eachInstr(fn, func(in ssa.Instruction) {
			if cc := callOf(in); cc != nil {
				if _, plain := in.(*ssa.Call); !plain {
					return
				}
				if f := cc.StaticCallee(); f != nil && f.Signature.Recv() != nil && typeName(f.Signature.Recv().Type()) == "packetManager" {
					switch f.Name() {
					case "workerChan", "getNextOrderID", "newOrderedRequest":
					default:
						for _, r := range findInstrs(fn, isReturn) {
							if dominates(in, r) {
								joined = true
							}
						}
					}
				}
			}
		})
		c.check(joined, "R5", "Serve joins the controller: "+name, p.Pos(fn.Pos()),
			"Serve waits for the packet manager to finish sending",
			"Serve returns without waiting for the packet manager's controller and dispatcher goroutines: responses still queued are written after Serve returned, or never")
	}

	// ---------- R6 no lock is leaked on the request path ----------
	// a request that returns with the handle-table (or any server) lock held is itself answered, but every later
	// request needing the lock is not
	checkLockBalance(c, "R6", func(fn *ssa.Function) bool { return isServerSide(fn) && outermost(fn).Package() == p.Sftp }, 12)

	// ---------- R7 a handle request is answered with a reply legal for *it*, whatever the handle was opened for ----------
	checkHandleRequestMatch(c, "R7")

	// ---------- R8 a response handed to the sender is written unless the transport is dead ----------
	checkSendFailsOnlyWithTransport(c, "R8")
	// ---------- R2 (extension) response objects are private to their request ----------
	checkResponseObjectsPrivate(c, "R2")
}

// checkSendFailsOnlyWithTransport (C02.R8): maybeSendPackets pops the request/response pair whether or not the send
// succeeded, which is right as long as a failed send means a dead transport.  sendPacket must therefore fail only when
// the marshaller or the transport's Write failed: every non-nil error it returns is selected under `err != nil` of one
// of those calls.  A refusal of its own (a size check, say) would make a reply vanish while later ones keep flowing.
func checkSendFailsOnlyWithTransport(c *Ctx, rule string) {
	p := c.P
	fn := p.Func("sendPacket")
	if fn == nil {
		c.missing(rule, "sendPacket")
		return
	}
	bad := ""
	n := 0
	for _, rl := range returnLeaves(fn, 0) {
		if isNilConst(rl.v) {
			continue
		}
		n++
		justified := false
		for cv, truth := range edgeConds(rl.block, rl.pred) {
			b, ok := cv.(*ssa.BinOp)
			if !ok || !isNilConst(b.Y) || !((b.Op == token.NEQ && truth) || (b.Op == token.EQL && !truth)) {
				continue
			}
			for _, l := range leavesOf(b.X) {
				if l.Kind == leafCallResult {
					nm := calleeName(l.Call)
					if nm == "marshalPacket" || nm == "MarshalBinary" || nm == "Write" {
						justified = true
					}
				}
			}
		}
		if !justified {
			bad = p.Pos(rl.block.Instrs[len(rl.block.Instrs)-1].Pos())
		}
	}
	c.check(bad == "" && n >= 2, rule, "sendPacket fails only when marshalling or the transport fails", p.Pos(fn.Pos()), fmt.Sprintf("%d error returns, each under a failed marshal or Write", n),
		"sendPacket can refuse a packet for a reason of its own (at "+bad+"): the packet manager drops the response and carries on, so that request is never answered while later ones are")
}

// freshResult: does every successful return of fn hand out an object allocated during that call (directly or by a
// callee with the same property)?
func (p *Program) freshResult(fn *ssa.Function, idx, depth int) bool {
	if fn == nil || fn.Blocks == nil || depth > 4 {
		return false
	}
	leaves := returnLeaves(fn, idx)
	if len(leaves) == 0 {
		return false
	}
	for _, rl := range leaves {
		v := rl.v
		if mi, ok := v.(*ssa.MakeInterface); ok {
			v = mi.X
		}
		switch x := v.(type) {
		case *ssa.Const:
			if x.Value == nil {
				continue
			}
			return false
		case *ssa.Alloc:
			continue
		case *ssa.Call:
			if !p.freshResult(x.Call.StaticCallee(), 0, depth+1) {
				return false
			}
		case *ssa.Extract:
			call, ok := x.Tuple.(*ssa.Call)
			if !ok || !p.freshResult(call.Call.StaticCallee(), x.Index, depth+1) {
				return false
			}
		default:
			return false
		}
	}
	return true
}

// checkResponseObjectsPrivate (C02.R2, extension): a response whose ID field is filled in after the object was obtained
// from a helper is marshalled later, by the controller.  If the helper can hand the same object to two requests (a
// cache), the second request's id overwrites the first's before it is written: the object must be allocated per call.
func checkResponseObjectsPrivate(c *Ctx, rule string) {
	p := c.P
	n := 0
	for _, fn := range p.LibFuncs() {
		if outermost(fn).Package() != p.Sftp || !isServerSide(fn) {
			continue
		}
		eachInstr(fn, func(in ssa.Instruction) {
			st, ok := in.(*ssa.Store)
			if !ok {
				return
			}
			_, name, base, ok := fieldOf(st.Addr)
			if !ok || name != "ID" {
				return
			}
			var call *ssa.Call
			idx := 0
			switch x := base.(type) {
			case *ssa.Call:
				call = x
			case *ssa.Extract:
				call, _ = x.Tuple.(*ssa.Call)
				idx = x.Index
			}
			if call == nil {
				return
			}
			var callees []*ssa.Function
			if f := call.Call.StaticCallee(); f != nil {
				callees = []*ssa.Function{f}
			} else {
				callees = p.calleesAt(call)
			}
			for _, f := range callees {
				if !inModule(f) {
					continue
				}
				n++
				c.check(p.freshResult(f, idx, 0), rule, "response object of "+fnName(f)+" is private to the request (id set in "+fnName(fn)+")", p.Pos(in.Pos()), "allocated during the call",
					fnName(f)+" can return an object that was not allocated during the call (a cached or shared one); "+fnName(fn)+" writes the request id into it and the controller marshals it later: two requests sharing the object are both answered with the second id")
			}
		})
	}
	// objects a *handler* returns: the implementation is the user's, so nothing can be assumed about who else holds the
	// pointer (a constant, a cache).  The library may read through it and must build its own response.
	for _, fn := range p.LibFuncs() {
		if outermost(fn).Package() != p.Sftp || !isServerSide(fn) {
			continue
		}
		eachInstr(fn, func(in ssa.Instruction) {
			call, ok := in.(*ssa.Call)
			if !ok || !call.Call.IsInvoke() || !call.Call.Method.Exported() {
				return
			}
			recvT := namedOf(call.Call.Value.Type())
			if recvT == nil || !recvT.Obj().Exported() || recvT.Obj().Pkg() == nil || recvT.Obj().Pkg().Path() != pkgSftp {
				return
			}
			isResp := func(t types.Type) bool {
				pt, ok := t.(*types.Pointer)
				if !ok {
					return false
				}
				nt := namedOf(pt.Elem())
				if nt == nil || nt.Obj().Pkg() == nil || nt.Obj().Pkg().Path() != pkgSftp {
					return false
				}
				if _, isStruct := nt.Underlying().(*types.Struct); !isStruct {
					return false
				}
				return p.SSA.MethodSets.MethodSet(pt).Lookup(p.Sftp.Pkg, "id") != nil
			}
			var vals []ssa.Value
			if tup, ok := call.Type().(*types.Tuple); ok {
				for _, r := range *call.Referrers() {
					if ex, ok := r.(*ssa.Extract); ok && isResp(tup.At(ex.Index).Type()) {
						vals = append(vals, ex)
					}
				}
			} else if isResp(call.Type()) {
				vals = append(vals, call)
			}
			for _, v := range vals {
				n++
				bad := ""
				for _, r := range *v.Referrers() {
					switch x := r.(type) {
					case *ssa.DebugRef:
					case *ssa.UnOp:
						if x.Op != token.MUL {
							bad = p.Pos(x.Pos())
						}
					case *ssa.BinOp:
						if !isNilConst(x.X) && !isNilConst(x.Y) {
							bad = p.Pos(x.Pos())
						}
					default:
						bad = p.Pos(r.Pos())
						if bad == "?" {
							bad = p.Pos(call.Pos())
						}
					}
				}
				key := "response object returned by handler method " + recvT.Obj().Name() + "." + call.Call.Method.Name() + " is only read (in " + fnName(fn) + ")"
				c.check(bad == "", rule, key, p.Pos(call.Pos()), "the library copies it and completes its own response",
					"the object the handler returned is written to or sent as the response itself (at "+bad+"): the request id is stored into the handler's object and the controller marshals it later, so a handler that returns the same object twice (a constant, a cache) gets both requests answered with the second id")
			}
		})
	}
	// (the os-backed server's own statvfs helper exists only where the platform has statvfs; the handler path always does)
	c.check(n >= 1, rule, "responses completed after a helper or handler built them", "?", fmt.Sprintf("%d sites", n), "no such site found (the statvfs reply of the request server expected)")
}

// checkIDMethods (C02.R11; shared as C03.R7 and C09.R9): id() is how every layer learns which request a packet belongs to —
// the client's dispatcher files the reply channel under it, both servers copy it into the reply (the read-only refusal
// of the os server has nothing else).  For every type of package sftp that has an ID field, id() returns that field.
func checkIDMethods(c *Ctx, rule string) {
	p := c.P
	n := 0
	for _, mem := range p.Sftp.Members {
		t, ok := mem.(*ssa.Type)
		if !ok {
			continue
		}
		st, ok := t.Type().Underlying().(*types.Struct)
		if !ok {
			continue
		}
		hasID := false
		for i := 0; i < st.NumFields(); i++ {
			if st.Field(i).Name() == "ID" && !st.Field(i).Embedded() {
				hasID = true
			}
		}
		if !hasID {
			continue
		}
		fn := p.methodOf(types.NewPointer(t.Type()), "id")
		if fn == nil || fn.Blocks == nil || fn.Synthetic != "" {
			continue
		}
		n++
		good := true
		got := ""
		for _, rl := range returnLeaves(fn, 0) {
			u, isLoad := rl.v.(*ssa.UnOp)
			if !isLoad || u.Op != token.MUL {
				good, got = false, rl.v.String()
				continue
			}
			if _, name, _, ok := fieldOf(u.X); !ok || name != "ID" {
				good, got = false, name
			}
		}
		c.check(good, rule, "id() of "+t.Name()+" is its ID", p.Pos(fn.Pos()), "return p.ID", "id() of "+t.Name()+" returns "+got+", not the ID field: replies built from id() (the read-only refusal, every error status) go out under another request's id, and the client files the request under an id the reply will not carry")
	}
	c.check(n >= 25, rule, "id methods", "?", fmt.Sprintf("%d types with an ID field and an id method", n), fmt.Sprintf("only %d id methods found", n))
}

// checkResponsesAreNeverNil (C02.R15): every function of the servers that produces a responsePacket produces one.
// A nil response reaches the packet manager as "nothing to send": the worker that hands it on dereferences it (the
// session dies) or the request simply stays unanswered, and every reply ordered behind it waits.
func checkResponsesAreNeverNil(c *Ctx, rule string) {
	p := c.P
	n := 0
	for _, fn := range p.LibFuncs() {
		if fn.Package() != p.Sftp || fn.Blocks == nil {
			continue
		}
		res := fn.Signature.Results()
		if res.Len() != 1 || typeName(res.At(0).Type()) != "responsePacket" {
			continue
		}
		ord := 0
		for _, rl := range returnLeaves(fn, 0) {
			n++
			ord++
			at := p.Pos(rl.v.Pos())
			if at == "?" && rl.block != nil && len(rl.block.Instrs) > 0 {
				at = p.Pos(rl.block.Instrs[len(rl.block.Instrs)-1].Pos())
			}
			if at == "?" {
				at = p.Pos(fn.Pos())
			}
			c.check(!isNilConst(rl.v), rule, fmt.Sprintf("%s: response #%d is not nil", fnName(fn), ord), at, "a packet",
				"this function can return a nil responsePacket: the request is never answered (or the worker panics on it) and the replies ordered behind it are held back")
		}
	}
	c.check(n >= 20, rule, "responses produced by the servers", "?", fmt.Sprintf("%d", n), fmt.Sprintf("only %d found", n))
}
