package main

import (
	"os"
	"fmt"
	"go/ast"
	"go/constant"
	"go/token"
	"go/types"
	"sort"
	"strings"

	"golang.org/x/tools/go/ssa"
)

func init() {
	register("C17", &propSpec{
		level:       "other",
		explanation: "Attribute and mode conversions decided from extracted tables and provenance: toFileMode and fromFileMode (permission mask, 7-way type switch, three special-bit ladders) equal the POSIX↔os oracle and are mutually inverse on every type constant, special bit and the permission mask (exhaustive over the extracted tables); toChmodPerm, isRegular and the sshfx constants and type letters agree; the attributes reported for a file come from the FileInfo's own Size/Mode/ModTime/owner (uid/gid override guarded by the type assertion only); both set-attribute handlers apply exactly SIZE→Truncate, PERMISSIONS→Chmod, UIDGID→Chown, ACMODTIME→Chtimes(atime, mtime) under their own flag; client setters pair flag and payload; the long name is built from the same FileInfo.",
		quickExtra:  []BuildConfig{cfg386},
		run:         runC17,
		assumptions: []string{"what the host file system reports is out of scope"},
	})
}

type modeTable struct {
	mask     int64
	tagMask  int64
	cases    map[int64]int64 // switch case constant -> OR-ed constant
	specials map[int64]int64 // tested bit -> OR-ed bit
	problems []string
}

func constOfAny(info *types.Info, e ast.Expr) (int64, bool) {
	tv, ok := info.Types[e]
	if !ok || tv.Value == nil {
		return 0, false
	}
	v := constant.ToInt(tv.Value)
	if v.Kind() != constant.Int {
		return 0, false
	}
	if i, ok := constant.Int64Val(v); ok {
		return i, true
	}
	if u, ok := constant.Uint64Val(v); ok {
		return int64(u), true
	}
	return 0, false
}

// andWithConst recognises `X & C` (through conversions and parens) and returns C.
func andWithConst(info *types.Info, e ast.Expr) (int64, bool) {
	e = ast.Unparen(e)
	if call, ok := e.(*ast.CallExpr); ok && len(call.Args) == 1 {
		if tv, ok := info.Types[call.Fun]; ok && tv.IsType() {
			return andWithConst(info, call.Args[0])
		}
	}
	b, ok := e.(*ast.BinaryExpr)
	if !ok || b.Op != token.AND {
		return 0, false
	}
	if c, ok := constOfAny(info, b.Y); ok {
		return c, true
	}
	if c, ok := constOfAny(info, b.X); ok {
		return c, true
	}
	return 0, false
}

// isPlainAlias: e is an identifier or a type conversion of one (no arithmetic).
func isPlainAlias(info *types.Info, e ast.Expr) bool {
	e = ast.Unparen(e)
	if _, ok := e.(*ast.Ident); ok {
		return true
	}
	if call, ok := e.(*ast.CallExpr); ok && len(call.Args) == 1 {
		if tv, ok := info.Types[call.Fun]; ok && tv.IsType() {
			return isPlainAlias(info, call.Args[0])
		}
	}
	return false
}

func extractModeFunc(p *Program, name string) (*modeTable, string) {
	fd, info := p.FuncDecl(pkgSftp, "", name)
	if fd == nil {
		return nil, name + " not found"
	}
	t := &modeTable{cases: map[int64]int64{}, specials: map[int64]int64{}}
	orRHS := func(stmts []ast.Stmt) (int64, bool) {
		if len(stmts) == 0 {
			return 0, true // "nothing to do"
		}
		if len(stmts) != 1 {
			return 0, false
		}
		as, ok := stmts[0].(*ast.AssignStmt)
		if !ok || as.Tok != token.OR_ASSIGN {
			return 0, false
		}
		return constOfAny(info, as.Rhs[0])
	}
	maskSeen := false
	for i, st := range fd.Body.List {
		switch x := st.(type) {
		case *ast.DeclStmt, *ast.AssignStmt:
			// the masked initial value
			var rhs ast.Expr
			if as, ok := x.(*ast.AssignStmt); ok && len(as.Rhs) == 1 {
				rhs = as.Rhs[0]
			}
			if ds, ok := x.(*ast.DeclStmt); ok {
				if gd, ok := ds.Decl.(*ast.GenDecl); ok && len(gd.Specs) == 1 {
					if vs, ok := gd.Specs[0].(*ast.ValueSpec); ok && len(vs.Values) == 1 {
						rhs = vs.Values[0]
					}
				}
			}
			if rhs != nil && !maskSeen {
				if m, ok := andWithConst(info, rhs); ok {
					t.mask = m
					maskSeen = true
				} else if isPlainAlias(info, rhs) {
					// `m := T(mode)`: another name for the argument, not the masked initial value
				} else {
					t.problems = append(t.problems, "initial value is not `mode & MASK`")
					maskSeen = true
				}
			}
			_ = i
		case *ast.SwitchStmt:
			m, ok := andWithConst(info, x.Tag)
			if !ok {
				t.problems = append(t.problems, "switch tag is not `mode & TYPEMASK`")
			}
			t.tagMask = m
			for _, cl := range x.Body.List {
				cc := cl.(*ast.CaseClause)
				v, ok := orRHS(cc.Body)
				if !ok {
					t.problems = append(t.problems, "case body is not `x |= CONST`")
					continue
				}
				if cc.List == nil {
					t.problems = append(t.problems, "type switch has a default arm")
				}
				for _, e := range cc.List {
					k, ok := constOfAny(info, e)
					if !ok {
						t.problems = append(t.problems, "non-constant case")
						continue
					}
					if _, dup := t.cases[k]; dup {
						t.problems = append(t.problems, "duplicate case")
					}
					t.cases[k] = v
				}
			}
		case *ast.IfStmt:
			b, ok := ast.Unparen(x.Cond).(*ast.BinaryExpr)
			if !ok || b.Op != token.NEQ {
				t.problems = append(t.problems, "special-bit test is not `x&BIT != 0`")
				continue
			}
			bit, ok := andWithConst(info, b.X)
			z, okz := constOfAny(info, b.Y)
			if !ok || !okz || z != 0 {
				t.problems = append(t.problems, "special-bit test is not `x&BIT != 0`")
				continue
			}
			v, ok := orRHS(x.Body.List)
			if !ok || x.Else != nil {
				t.problems = append(t.problems, "special-bit body is not `x |= CONST`")
				continue
			}
			t.specials[bit] = v
		case *ast.ReturnStmt:
		default:
			t.problems = append(t.problems, fmt.Sprintf("unexpected statement %T", st))
		}
	}
	return t, ""
}

func osModeConst(p *Program, name string) int64 {
	pk := p.byPath["os"]
	if pk == nil {
		return -1
	}
	if c, ok := pk.Types.Scope().Lookup(name).(*types.Const); ok {
		v, _ := constant.Uint64Val(constant.ToInt(c.Val()))
		return int64(v)
	}
	return -1
}

func runC17(c *Ctx) {
	p := c.P
	pos := func(in ssa.Instruction) string { return p.Pos(in.Pos()) }
	checkSpecialBitsCombine(c, "R1")
	checkTimesAreUnsigned32(c, "R8")
	checkLongNameOwnerPairs(c, "R11")
	checkFileInfoIsDirAgreesWithMode(c, "R12")
	// R13 (= C10.R18): the handler's FileInfo overrides are consulted for every entry
	checkOverrideInterfacesConsulted(c, "R13")
	checkUnresolvedIDShownAsNumber(c, "R14")
	// R15 (= C06.R6): the attribute decoder threads its cursor; R16 (= C10.R11): an entry's attributes are encoded when
	// the handler returned them, together with its long name
	c.withOnly("R6", "R15", func() { runC06(c) })
	c.withOnly("R11", "R16", func() { runC10(c) })
	// R9 (shared with C07.R6): the attribute bytes a set-attributes request hands to the server or to the handler are
	// the bytes its decoder validated against the flags word
	checkAttrsValidatedAtDecode(c, "R9")
	// R10 (shared with C05.R1): what is reported for a served file is what the file system reports for *that* name —
	// LSTAT asks os.Lstat, STAT os.Stat, FSTAT the open file
	c.withOnlyKeys("R1", "R10", []string{"sshFxpLstatPacket", "sshFxpStatPacket", "sshFxpFstatPacket"}, func() { runC05(c) })

	// ---------- R1 mode tables ----------
	{
		M := func(n string) int64 { return osModeConst(p, n) }
		oracleType := map[int64]int64{
			0x1000: M("ModeNamedPipe"), 0x2000: M("ModeDevice") | M("ModeCharDevice"), 0x4000: M("ModeDir"), 0x6000: M("ModeDevice"),
			0x8000: 0, 0xA000: M("ModeSymlink"), 0xC000: M("ModeSocket"),
		}
		oracleSpecial := map[int64]int64{0o4000: M("ModeSetuid"), 0o2000: M("ModeSetgid"), 0o1000: M("ModeSticky")}
		// the sshfx constants themselves
		want := map[string]int64{"ModePerm": 0o777, "ModeSetUID": 0o4000, "ModeSetGID": 0o2000, "ModeSticky": 0o1000, "ModeType": 0xF000, "ModeNamedPipe": 0x1000,
			"ModeCharDevice": 0x2000, "ModeDir": 0x4000, "ModeDevice": 0x6000, "ModeRegular": 0x8000, "ModeSymlink": 0xA000, "ModeSocket": 0xC000}
		for n, w := range want {
			got := int64(-1)
			if k, ok := p.Sshfx.Pkg.Scope().Lookup(n).(*types.Const); ok {
				got, _ = constant.Int64Val(constant.ToInt(k.Val()))
			}
			c.check(got == w, "R1", "sshfx."+n, "permissions.go", fmt.Sprintf("%#o", got), fmt.Sprintf("sshfx.%s is %#o, POSIX says %#o", n, got, w))
		}
		to, why := extractModeFunc(p, "toFileMode")
		from, why2 := extractModeFunc(p, "fromFileMode")
		// not written as mask + switch + three ifs (a lookup table, helpers, another order): the same table is read
		// off the function by evaluating it (eval.go) on one word per entry
		if to == nil || len(to.problems) > 0 {
			if t2, w2 := evalModeFunc(p, "toFileMode", true); t2 != nil {
				to, why = t2, ""
			} else if to == nil {
				why += "; " + w2
			} else {
				to.problems = append(to.problems, "evaluation: "+w2)
			}
		}
		if from == nil || len(from.problems) > 0 {
			if f2, w2 := evalModeFunc(p, "fromFileMode", false); f2 != nil {
				from, why2 = f2, ""
			} else if from == nil {
				why2 += "; " + w2
			} else {
				from.problems = append(from.problems, "evaluation: "+w2)
			}
		}
		switch {
		case to == nil:
			c.und("R1", "toFileMode table", "stat.go", why)
		case len(to.problems) > 0:
			c.und("R1", "toFileMode table", "stat.go", "shape not understood: "+strings.Join(to.problems, "; "))
		default:
			c.check(to.mask == 0o777, "R1", "toFileMode permission mask", "stat.go", "0777", fmt.Sprintf("toFileMode keeps permission bits %#o, expected 0777", to.mask))
			c.check(to.tagMask == 0xF000, "R1", "toFileMode type mask", "stat.go", "ModeType", fmt.Sprintf("toFileMode switches on mode&%#x, expected 0xF000", to.tagMask))
			for w, o := range oracleType {
				got, ok := to.cases[w]
				c.check(ok && got == o, "R1", fmt.Sprintf("toFileMode type %#x", w), "stat.go", fmt.Sprintf("→ os %#x", got), fmt.Sprintf("wire type %#x converts to os mode bits %#x, expected %#x (the file kind changes across the wire)", w, got, o))
			}
			for k := range to.cases {
				if _, ok := oracleType[k]; !ok {
					c.bad("R1", fmt.Sprintf("toFileMode extra type %#x", k), "stat.go", "a type constant outside POSIX is converted")
				}
			}
			for w, o := range oracleSpecial {
				got, ok := to.specials[w]
				c.check(ok && got == o, "R1", fmt.Sprintf("toFileMode special %#o", w), "stat.go", fmt.Sprintf("→ os %#x", got), fmt.Sprintf("wire bit %#o converts to os bits %#x, expected %#x", w, got, o))
			}
		}
		switch {
		case from == nil:
			c.und("R1", "fromFileMode table", "stat.go", why2)
		case len(from.problems) > 0:
			c.und("R1", "fromFileMode table", "stat.go", "shape not understood: "+strings.Join(from.problems, "; "))
		default:
			c.check(from.mask == M("ModePerm"), "R1", "fromFileMode permission mask", "stat.go", "os.ModePerm", fmt.Sprintf("fromFileMode keeps permission bits %#o, expected 0777", from.mask))
			c.check(from.tagMask == M("ModeType"), "R1", "fromFileMode type mask", "stat.go", "os.ModeType", fmt.Sprintf("fromFileMode switches on mode&%#x, expected os.ModeType", from.tagMask))
			for w, o := range oracleType {
				got, ok := from.cases[o]
				c.check(ok && got == w, "R1", fmt.Sprintf("fromFileMode type of os %#x", o), "stat.go", fmt.Sprintf("→ wire %#x", got), fmt.Sprintf("os mode bits %#x convert to wire type %#x, expected %#x", o, got, w))
			}
			for w, o := range oracleSpecial {
				got, ok := from.specials[o]
				c.check(ok && got == w, "R1", fmt.Sprintf("fromFileMode special of os %#x", o), "stat.go", fmt.Sprintf("→ wire %#o", got), fmt.Sprintf("os bit %#x converts to wire bits %#o, expected %#o", o, got, w))
			}
		}
		// mutual inverse on the extracted tables (independent of the oracle)
		if to != nil && from != nil && len(to.problems) == 0 && len(from.problems) == 0 {
			n := 0
			for w, o := range to.cases {
				n++
				back, ok := from.cases[o]
				c.check(ok && back == w, "R1", fmt.Sprintf("round trip wire type %#x", w), "stat.go", "from(to(x)) = x", fmt.Sprintf("wire type %#x → os %#x → wire %#x", w, o, back))
			}
			for w, o := range to.specials {
				back, ok := from.specials[o]
				c.check(ok && back == w, "R1", fmt.Sprintf("round trip special %#o", w), "stat.go", "from(to(x)) = x", fmt.Sprintf("wire bit %#o → os %#x → wire %#o", w, o, back))
			}
			c.check(n == 7, "R1", "seven file types", "stat.go", "7 cases", fmt.Sprintf("%d type cases", n))
		}
		// toChmodPerm: what it keeps and what it sends for each special bit, by running it (whatever its constants and
		// helpers are called)
		if fn := p.Func("toChmodPerm"); fn == nil || len(fn.Params) != 1 {
			c.missing("R1", "toChmodPerm")
		} else {
			call := func(v int64) (int64, bool) {
				st := newEvaluator(p).run(fn, []evVal{evInt(v, fn.Params[0].Type())}, 0)
				if st.kind != "return" || len(st.vals) != 1 || st.vals[0].k != evConst || st.vals[0].c.Kind() != constant.Int {
					return 0, false
				}
				u, ok := constant.Uint64Val(constant.ToInt(st.vals[0].c))
				return int64(u), ok
			}
			low, ok1 := call(0o7777)
			typeBits := M("ModeDir") | M("ModeSymlink") | M("ModeNamedPipe") | M("ModeSocket") | M("ModeDevice") | M("ModeCharDevice") | M("ModeAppend") | M("ModeExclusive") | M("ModeTemporary") | M("ModeIrregular")
			high, ok2 := call(typeBits)
			if !ok1 || !ok2 {
				c.und("R1", "toChmodPerm mask", "client.go", "toChmodPerm cannot be evaluated")
			} else {
				c.check(low == 0o7777 && high == 0, "R1", "toChmodPerm mask", "client.go", "ModePerm | POSIX special bits", fmt.Sprintf("toChmodPerm keeps %#o of the low twelve bits and sends %#o for the type bits", low, high))
			}
			for w, o := range oracleSpecial {
				got, ok := call(o)
				if !ok {
					c.und("R1", fmt.Sprintf("toChmodPerm special of os %#x", o), "client.go", "toChmodPerm cannot be evaluated")
					continue
				}
				c.check(got == w, "R1", fmt.Sprintf("toChmodPerm special of os %#x", o), "client.go", fmt.Sprintf("→ %#o", got), fmt.Sprintf("os bit %#x is sent as %#o, expected %#o", o, got, w))
			}
		}
		// isRegular: true for S_IFREG alone, by running it for the 16 values of the type field
		if ir := p.Func("isRegular"); ir != nil && len(ir.Params) == 1 {
			okR, und := true, false
			for t := int64(0); t < 16; t++ {
				for _, perm := range []int64{0, 0o644, 0o7777} {
					res := newEvaluator(p).run(ir, []evVal{evInt(t<<12|perm, ir.Params[0].Type())}, 0)
					if res.kind != "return" || len(res.vals) != 1 || res.vals[0].k != evConst || res.vals[0].c.Kind() != constant.Bool {
						und = true
						continue
					}
					if constant.BoolVal(res.vals[0].c) != (t == 8) {
						okR = false
					}
				}
			}
			if und {
				c.und("R1", "isRegular", "stat.go", "isRegular cannot be evaluated")
			} else {
				c.check(okR, "R1", "isRegular", "stat.go", "mode&S_IFMT == S_IFREG", "isRegular no longer tests the type field against S_IFREG")
			}
		}
		// type letters of the long name
		if fd, info := p.FuncDeclIn(pkgSshfx, "FileMode", "String"); fd != nil {
			letters := map[int64]string{}
			ast.Inspect(fd.Body, func(n ast.Node) bool {
				cc, ok := n.(*ast.CaseClause)
				if !ok || len(cc.Body) != 1 {
					return true
				}
				as, ok := cc.Body[0].(*ast.AssignStmt)
				if !ok || len(as.Rhs) != 1 {
					return true
				}
				lit, ok := as.Rhs[0].(*ast.BasicLit)
				if !ok || lit.Kind != token.CHAR {
					return true
				}
				for _, e := range cc.List {
					if k, ok := constOfAny(info, e); ok {
						letters[k] = strings.Trim(lit.Value, "'")
					}
				}
				return true
			})
			want := map[int64]string{0x8000: "-", 0x4000: "d", 0xA000: "l", 0x6000: "b", 0x2000: "c", 0x1000: "p", 0xC000: "s"}
			for k, w := range want {
				c.check(letters[k] == w, "R1", fmt.Sprintf("long-name letter of type %#x", k), "permissions.go", letters[k], fmt.Sprintf("type %#x is shown as %q in the long name, ls uses %q", k, letters[k], w))
			}
		}
		// special bits and permission letters of the long name, on SSA
		if fn := p.FuncIn(p.Sshfx, "(FileMode).String"); fn == nil {
			c.missing("R1", "sshfx (FileMode).String")
		} else {
			idxOf := func(addr ssa.Value) (int64, bool) {
				ia, ok := addr.(*ssa.IndexAddr)
				if !ok {
					return 0, false
				}
				return constInt(ia.Index)
			}
			// buf[i] = 'c' stores of a block (following plain jumps is not needed: the arms are single blocks)
			storesIn := func(b *ssa.BasicBlock) map[int64]int64 {
				out := map[int64]int64{}
				for _, in := range b.Instrs {
					if st, ok := in.(*ssa.Store); ok {
						if i, ok := idxOf(st.Addr); ok {
							if v, ok := constInt(st.Val); ok {
								out[i] = v
							}
						}
					}
				}
				return out
			}
			type spec struct {
				pos          int64
				lower, upper byte
			}
			want := map[int64]spec{0o4000: {3, 's', 'S'}, 0o2000: {6, 's', 'S'}, 0o1000: {9, 't', 'T'}}
			seen := map[int64]bool{}
			for _, b := range fn.Blocks {
				iff, ok := b.Instrs[len(b.Instrs)-1].(*ssa.If)
				if !ok {
					continue
				}
				cmp, ok := iff.Cond.(*ssa.BinOp)
				if !ok || cmp.Op != token.NEQ {
					continue
				}
				and, ok := cmp.X.(*ssa.BinOp)
				if !ok || and.Op != token.AND {
					continue
				}
				k, ok := constInt(and.Y)
				if !ok {
					continue
				}
				w, isSpecial := want[k]
				if !isSpecial {
					continue
				}
				seen[k] = true
				key := fmt.Sprintf("long-name special bit %#o", k)
				body := b.Succs[0]
				iff2, ok := body.Instrs[len(body.Instrs)-1].(*ssa.If)
				if !ok {
					c.und("R1", key, p.Pos(iff.Pos()), "no test of the execute letter under the special bit")
					continue
				}
				cmp2, ok := iff2.Cond.(*ssa.BinOp)
				tested, okT := int64(-1), false
				var letter int64
				if ok && cmp2.Op == token.EQL {
					if ld, isLd := cmp2.X.(*ssa.UnOp); isLd && ld.Op == token.MUL {
						tested, okT = idxOf(ld.X)
					}
					letter, _ = constInt(cmp2.Y)
				}
				if !okT || letter != 'x' {
					c.und("R1", key, p.Pos(iff2.Pos()), "the test under the special bit is not buf[i] == 'x'")
					continue
				}
				lo, up := storesIn(body.Succs[0]), storesIn(body.Succs[1])
				good := tested == w.pos && len(lo) == 1 && len(up) == 1 && lo[w.pos] == int64(w.lower) && up[w.pos] == int64(w.upper)
				c.check(good, "R1", key, p.Pos(iff2.Pos()), fmt.Sprintf("position %d: %q when executable, %q otherwise", w.pos, w.lower, w.upper),
					fmt.Sprintf("special bit %#o: tests position %d, writes %v when it holds 'x' and %v otherwise; ls shows %q/%q at position %d according to the execute bit at that same position", k, tested, lo, up, w.lower, w.upper, w.pos))
			}
			for k := range want {
				if !seen[k] {
					c.bad("R1", fmt.Sprintf("long-name special bit %#o", k), p.Pos(fn.Pos()), "the long name no longer shows this bit")
				}
			}
			// permission letters: bit (8-i) selects "rwxrwxrwx"[i] at position i+1
			okPerm := false
			why := "no permission loop found"
			eachInstr(fn, func(in ssa.Instruction) {
				sh, ok := in.(*ssa.BinOp)
				if !ok || sh.Op != token.SHL {
					return
				}
				if one, ok := constInt(sh.X); !ok || one != 1 {
					return
				}
				amt := affineOf(sh.Y)
				if len(amt.coef) != 1 || amt.c != 8 {
					why = "shift amount is " + amt.String() + ", expected 8 - i"
					return
				}
				var ik string
				for k2, v := range amt.coef {
					if v != -1 {
						why = "shift amount is " + amt.String() + ", expected 8 - i"
						return
					}
					ik = k2
				}
				// the stores controlled by the test of this bit
				var iff *ssa.If
				for _, r := range *sh.Referrers() {
					if and, ok := r.(*ssa.BinOp); ok && and.Op == token.AND {
						for _, r2 := range *and.Referrers() {
							if cmp, ok := r2.(*ssa.BinOp); ok && cmp.Op == token.NEQ {
								for _, r3 := range *cmp.Referrers() {
									if x, ok := r3.(*ssa.If); ok {
										iff = x
									}
								}
							}
						}
					}
				}
				if iff == nil {
					why = "the permission bit is not tested with != 0"
					return
				}
				set, clr := iff.Block().Succs[0], iff.Block().Succs[1]
				check := func(b *ssa.BasicBlock, dash bool) bool {
					for _, x := range b.Instrs {
						st, ok := x.(*ssa.Store)
						if !ok {
							continue
						}
						ia, ok := st.Addr.(*ssa.IndexAddr)
						if !ok {
							continue
						}
						it := affineOf(ia.Index)
						if len(it.coef) != 1 || it.coef[ik] != 1 || it.c != 1 {
							why = "letter stored at position " + it.String() + ", expected i + 1"
							return false
						}
						if dash {
							v, ok := constInt(st.Val)
							return ok && v == '-'
						}
						return true
					}
					return false
				}
				if check(set, false) && check(clr, true) {
					okPerm = true
				}
			})
			rwx := false
			eachInstr(fn, func(in ssa.Instruction) {
				if r, ok := in.(*ssa.Range); ok {
					if s, ok := constString(r.X); ok && s == "rwxrwxrwx" {
						rwx = true
					}
				}
			})
			c.check(okPerm && rwx, "R1", "long-name permission letters", p.Pos(fn.Pos()), "bit 8-i shows \"rwxrwxrwx\"[i] at position i+1, '-' when clear", "the permission letters of the long name do not follow the mode bits: "+why)
		}
		c.floor("R1", 45)
	}

	// ---------- R2 stat provenance ----------
	if fs := p.Func("fileStatFromInfo"); fs == nil {
		c.missing("R2", "fileStatFromInfo")
	} else {
		c.looked("fileStatFromInfo")
		lits := literalsOf(fs, "FileStat")
		if len(lits) != 1 {
			c.und("R2", "fileStatFromInfo literal", p.Pos(fs.Pos()), fmt.Sprintf("%d FileStat literals", len(lits)))
		} else {
			a := lits[0]
			via := func(v ssa.Value, methods ...string) bool {
				// v = conv(fi.M1().M2()…)
				cur := stripConv(v)
				for i := len(methods) - 1; i >= 0; i-- {
					var call *ssa.Call
					for _, l := range leavesOf(cur) {
						if l.Kind == leafCallResult {
							call, _ = l.CallIn.(*ssa.Call)
						}
					}
					if call == nil || calleeName(&call.Call) != methods[i] {
						return false
					}
					if i > 0 {
						cur = recvOf(&call.Call)
						if cur == nil && len(call.Call.Args) > 0 {
							cur = call.Call.Args[0]
						}
					} else {
						r := recvOf(&call.Call)
						if r == nil {
							r = call.Call.Args[0]
						}
						pr, ok := r.(*ssa.Parameter)
						return ok && pr == fs.Params[0]
					}
				}
				return false
			}
			c.check(via(litField(a, "Size"), "Size"), "R2", "Size ← fi.Size()", pos(a), "from the FileInfo", "the reported size is not fi.Size()")
			c.check(via(litField(a, "Mode"), "Mode", "fromFileMode") || func() bool {
				for _, l := range leavesOf(litField(a, "Mode")) {
					if l.Kind == leafCallResult && calleeName(l.Call) == "fromFileMode" {
						return via(l.Call.Args[0], "Mode")
					}
				}
				return false
			}(), "R2", "Mode ← fromFileMode(fi.Mode())", pos(a), "from the FileInfo", "the reported mode is not fromFileMode(fi.Mode())")
			c.check(via(litField(a, "Mtime"), "ModTime", "Unix"), "R2", "Mtime ← fi.ModTime().Unix()", pos(a), "from the FileInfo", "the reported mtime is not fi.ModTime().Unix()")
			c.check(via(litField(a, "Atime"), "ModTime", "Unix"), "R2", "Atime ← fi.ModTime().Unix()", pos(a), "the access time defaults to the modification time", "the reported atime is not derived from the FileInfo")
		}
		// base flags
		flagsOK := false
		// the constant reaches the flags through a store when their address
		// is handed to the per-OS helper, and as a plain operand (of the OR
		// with the owner bit, of the phi after it, or of the return) when
		// they stay in a register
		eachInstr(fs, func(in ssa.Instruction) {
			for _, op := range in.Operands(nil) {
				if op == nil || *op == nil {
					continue
				}
				if k, ok := constInt(*op); ok && k == 0xD {
					if b, isBin := in.(*ssa.BinOp); isBin && b.Op != token.OR {
						continue
					}
					flagsOK = true
				}
			}
		})
		c.check(flagsOK, "R2", "base attribute flags", p.Pos(fs.Pos()), "SIZE|PERMISSIONS|ACMODTIME", "the attribute flags no longer announce size, permissions and times")
		// FileInfoUidGid override guarded by the assertion only
		found := false
		eachInstr(fs, func(in ssa.Instruction) {
			ta, ok := in.(*ssa.TypeAssert)
			if !ok || !ta.CommaOk || typeName(ta.AssertedType) != "FileInfoUidGid" {
				return
			}
			found = true
			var okEx *ssa.Extract
			for _, r := range *ta.Referrers() {
				if ex, ok := r.(*ssa.Extract); ok && ex.Index == 1 {
					okEx = ex
				}
			}
			var body *ssa.BasicBlock
			if okEx != nil {
				for _, r := range *okEx.Referrers() {
					if iff, ok := r.(*ssa.If); ok {
						body = iff.Block().Succs[0]
					}
				}
			}
			direct := false
			if body != nil {
				for _, x := range body.Instrs {
					if cc := callOf(x); cc != nil && cc.IsInvoke() && cc.Method.Name() == "Uid" {
						direct = true
					}
				}
			}
			c.check(direct, "R2", "Uid()/Gid() override", pos(ta), "taken whenever the FileInfo implements FileInfoUidGid", "the FileInfoUidGid owner is used only under an additional condition: listings and attributes can disagree on the owner")
			// stores UID ← Uid(), GID ← Gid()
			pairs := map[string]string{}
			if body != nil {
				for _, x := range body.Instrs {
					if st, ok := x.(*ssa.Store); ok {
						if fa, ok := st.Addr.(*ssa.FieldAddr); ok {
							_, n, _, _ := fieldOf(fa)
							for _, l := range leavesOf(st.Val) {
								if l.Kind == leafCallResult {
									pairs[n] = calleeName(l.Call)
								}
							}
						}
					}
				}
			}
			c.check(pairs["UID"] == "Uid" && pairs["GID"] == "Gid", "R2", "UID ← Uid(), GID ← Gid()", pos(ta), "owner fields paired", fmt.Sprintf("owner fields are filled as %v", pairs))
		})
		c.check(found, "R2", "FileInfoUidGid supported", p.Pos(fs.Pos()), "override present", "the FileInfoUidGid override was removed")
	}
	// the owner out of the operating system's stat structure: in the per-OS helper, or in fileStatFromInfo itself when
	// the helper only hands the two numbers back; not on the systems whose helper is a stub
	if goos := goosOf(p.Cfg); goos == "windows" || goos == "plan9" {
		c.note("Stat_t owner: not looked for under %s (the per-OS helper is a stub there)", goos)
	} else if fs := p.Func("fileStatFromInfo"); fs == nil {
		c.missing("R2", "fileStatFromInfo")
	} else {
		pairs := map[string]string{}
		var fo *ssa.Function = fs
		for f := range p.cone(fs) {
			if f != fs && fnName(f) != "fileStatFromInfoOs" {
				continue
			}
			if fnName(f) == "fileStatFromInfoOs" {
				fo = f
			}
			eachInstr(f, func(in ssa.Instruction) {
				if st, ok := in.(*ssa.Store); ok {
					if fa, ok := st.Addr.(*ssa.FieldAddr); ok {
						_, n, _, _ := fieldOf(fa)
						for _, l := range leavesOf(st.Val) {
							if l.Kind == leafFieldLoad && typeName(l.Base.Type()) == "Stat_t" {
								pairs[n] = l.Field
							}
						}
					}
				}
			})
		}
		c.check(pairs["UID"] == "Uid" && pairs["GID"] == "Gid", "R2", "Stat_t owner", p.Pos(fo.Pos()), "UID ← Stat_t.Uid, GID ← Stat_t.Gid", fmt.Sprintf("owner fields are filled as %v", pairs))
		// whatever the source of the owner is (Stat_t, the sibling codec's Attributes, another FileStat, the
		// FileInfoUidGid methods): UID comes from something called uid, GID from something called gid
		nOwner := 0
		for f := range p.cone(fs) {
			if f != fs && fnName(f) != "fileStatFromInfoOs" {
				continue
			}
			f := f
			eachInstr(f, func(in ssa.Instruction) {
				st, ok := in.(*ssa.Store)
				if !ok {
					return
				}
				t, n, _, ok := fieldOf(st.Addr)
				if !ok || typeName(t) != "FileStat" || (n != "UID" && n != "GID") {
					return
				}
				for _, l := range leavesOf(st.Val) {
					src := ""
					switch l.Kind {
					case leafFieldLoad:
						src = l.Field
					case leafCallResult:
						src = calleeName(l.Call)
					default:
						continue
					}
					nOwner++
					c.check(strings.EqualFold(src, n), "R2", fmt.Sprintf("FileStat.%s in %s comes from a %s", n, fnName(f), strings.ToLower(n)), pos(in), "← "+src,
						fmt.Sprintf("FileStat.%s is filled from %s: the owner and the group of the reported attributes are mixed up", n, src))
				}
			})
		}
		c.check(nOwner >= 4, "R2", "owner sources", p.Pos(fs.Pos()), fmt.Sprintf("%d sources", nOwner), fmt.Sprintf("only %d sources of FileStat.UID/GID found", nOwner))
		// what the FileInfo itself says about its owner (FileInfoUidGid, the attributes in Sys()) wins over what the
		// operating system's structure says: the per-OS helper fills the owner first, so no store of the owner made
		// here is followed by the helper's
		if fo != fs {
			late := ""
			eachInstr(fs, func(in ssa.Instruction) {
				st, ok := in.(*ssa.Store)
				if !ok {
					return
				}
				t, n, _, ok := fieldOf(st.Addr)
				if !ok || typeName(t) != "FileStat" || (n != "UID" && n != "GID") {
					return
				}
				if reachAvoiding(fs, in, func(y ssa.Instruction) bool {
					cc := callOf(y)
					return cc != nil && cc.StaticCallee() == fo
				}, func(ssa.Instruction) bool { return false }) {
					late = pos(in)
				}
			})
			c.check(late == "", "R2", "the FileInfo's own owner is not overwritten by the per-OS helper", p.Pos(fs.Pos()), "the helper runs before the owner is taken from the FileInfo",
				"the per-OS helper runs after the owner was stored at "+late+": on unix it overwrites what FileInfoUidGid (or the attributes in Sys()) said with the numbers of the process's stat structure, or leaves a mix")
		}
	}
	// accessors
	for _, acc := range []struct{ fn, want string }{
		{"(*fileInfo).Size", "Size"}, {"(*FileStat).ModTime", "Mtime"}, {"(*FileStat).AccessTime", "Atime"}, {"(*FileStat).FileMode", "Mode"},
	} {
		fn := p.Func(acc.fn)
		if fn == nil {
			c.missing("R2", acc.fn)
			continue
		}
		got := ""
		eachInstrDeep(fn, func(_ *ssa.Function, in ssa.Instruction) {
			if u, ok := in.(*ssa.UnOp); ok {
				if fa, ok := u.X.(*ssa.FieldAddr); ok {
					if t, n, _, _ := fieldOf(fa); typeName(t) == "FileStat" {
						got = n
					}
				}
			}
		})
		c.check(got == acc.want, "R2", acc.fn+" reads "+acc.want, p.Pos(fn.Pos()), "reads FileStat."+got, fmt.Sprintf("%s reads FileStat.%s, expected %s", acc.fn, got, acc.want))
	}
	for _, acc := range []struct{ fn, callee string }{{"(*fileInfo).Mode", "FileMode"}, {"(*fileInfo).ModTime", "ModTime"}, {"(*FileStat).FileMode", "toFileMode"}} {
		fn := p.Func(acc.fn)
		if fn == nil {
			continue
		}
		okc := len(callsWhere(fn, func(cc *ssa.CallCommon) bool { return calleeName(cc) == acc.callee })) == 1
		c.check(okc, "R2", acc.fn+" delegates to "+acc.callee, p.Pos(fn.Pos()), "delegates", acc.fn+" no longer delegates to "+acc.callee)
	}

	// ---------- R3 setstat application ----------
	checkSetstatApplication(c, true)
	checkAttrFlagBits(c, "R3")

	// ---------- R4 client setters ----------
	for _, s := range []struct {
		fn     string
		callee string
		flag   int64
		what   string
	}{
		{"(*Client).Chmod", "setstat", 4, "perm"}, {"(*Client).Chown", "setstat", 2, "owner"}, {"(*Client).Chtimes", "setstat", 8, "times"}, {"(*Client).Truncate", "setstat", 1, "size"},
		{"(*File).Chmod", "fsetstat", 4, "perm"}, {"(*File).Chown", "fsetstat", 2, "ownerFS"}, {"(*File).Truncate", "fsetstat", 1, "size"},
	} {
		fn := p.Func(s.fn)
		if fn == nil {
			c.missing("R4", s.fn)
			continue
		}
		calls := callsWhere(fn, func(cc *ssa.CallCommon) bool { return calleeName(cc) == s.callee })
		if len(calls) != 1 {
			c.bad("R4", s.fn+" request", p.Pos(fn.Pos()), fmt.Sprintf("%d %s calls", len(calls), s.callee))
			continue
		}
		args := argsOf(callOf(calls[0]))
		k, _ := constInt(args[1])
		c.check(k == s.flag, "R4", s.fn+" flag", pos(calls[0]), fmt.Sprintf("flag %#x", k), fmt.Sprintf("%s sends attribute flag %#x, expected %#x", s.fn, k, s.flag))
		payload := args[2]
		switch s.what {
		case "perm":
			okp := false
			for _, l := range leavesOf(payload) {
				if l.Kind == leafCallResult && calleeName(l.Call) == "toChmodPerm" {
					okp = true
				}
			}
			c.check(okp, "R4", s.fn+" payload", pos(calls[0]), "toChmodPerm(mode)", "the permission payload is not toChmodPerm(mode)")
		case "size":
			okp := false
			for _, l := range leavesOf(payload) {
				if l.Kind == leafParam && l.Param.Name() == "size" {
					okp = true
				}
			}
			b, isB := stripConv(payload).Type().Underlying().(*types.Basic)
			c.check(okp && isB && b.Kind() == types.Int64 || okp, "R4", s.fn+" payload", pos(calls[0]), "uint64(size)", "the size payload is not the size argument")
			if mi, ok := payload.(*ssa.MakeInterface); ok {
				bt, _ := mi.X.Type().Underlying().(*types.Basic)
				c.check(bt != nil && bt.Kind() == types.Uint64, "R4", s.fn+" payload width", pos(calls[0]), "uint64", "the size is not marshalled as a uint64")
			}
		case "owner", "times":
			// a local struct literal with two uint32 fields in wire order
			var lit *ssa.Alloc
			for _, l := range leavesOfIface(payload) {
				if mi, ok := l.(*ssa.MakeInterface); ok {
					if u, ok := mi.X.(*ssa.UnOp); ok {
						if a, ok := u.X.(*ssa.Alloc); ok {
							lit = a
						}
					}
					for _, l2 := range leavesOfIface(mi.X) {
						if u, ok := l2.(*ssa.UnOp); ok && lit == nil {
							lit, _ = u.X.(*ssa.Alloc)
						}
					}
				}
			}
			if lit == nil {
				c.und("R4", s.fn+" payload", pos(calls[0]), "payload is not a local struct literal")
				continue
			}
			st, _ := derefType(lit.Type()).Underlying().(*types.Struct)
			wantNames := map[string][2]string{"owner": {"uid", "gid"}, "times": {"atime", "mtime"}}[s.what]
			okOrder := st != nil && st.NumFields() == 2
			if okOrder {
				for i := 0; i < 2; i++ {
					bt, _ := st.Field(i).Type().Underlying().(*types.Basic)
					if bt == nil || bt.Kind() != types.Uint32 {
						okOrder = false
					}
					v := litField(lit, st.Field(i).Name())
					src := ""
					for _, l := range leavesOf(v) {
						if l.Kind == leafParam {
							src = l.Param.Name()
						}
						if l.Kind == leafCallResult && calleeName(l.Call) == "Unix" {
							for _, l2 := range leavesOf(l.Call.Args[0]) {
								if l2.Kind == leafParam {
									src = l2.Param.Name()
								}
							}
						}
					}
					if src != wantNames[i] {
						okOrder = false
					}
				}
			}
			c.check(okOrder, "R4", s.fn+" payload order", pos(calls[0]), "two uint32 in wire order ("+wantNames[0]+", "+wantNames[1]+")", "the payload's fields are not ("+wantNames[0]+", "+wantNames[1]+") as uint32 in wire order")
		case "ownerFS":
			var lit *ssa.Alloc
			for _, l := range leavesOfIface(payload) {
				if mi, ok := l.(*ssa.MakeInterface); ok {
					lit, _ = mi.X.(*ssa.Alloc)
				}
			}
			okp := lit != nil
			if okp {
				for f, w := range map[string]string{"UID": "uid", "GID": "gid"} {
					src := ""
					for _, l := range leavesOf(litField(lit, f)) {
						if l.Kind == leafParam {
							src = l.Param.Name()
						}
					}
					if src != w {
						okp = false
					}
				}
			}
			c.check(okp, "R4", s.fn+" payload", pos(calls[0]), "&FileStat{UID: uid, GID: gid}", "the owner payload does not pair UID with uid and GID with gid")
		}
	}

	// ---------- R5 long name from the same FileInfo ----------
	if rl := p.Func("runLs"); rl == nil {
		c.missing("R5", "runLs")
	} else {
		dirent := rl.Params[1]
		fromDirent := func(v ssa.Value, method string) bool {
			for _, l := range leavesOf(v) {
				if l.Kind == leafCallResult && calleeName(l.Call) == method {
					r := recvOf(l.Call)
					if r == ssa.Value(dirent) {
						return true
					}
				}
			}
			return false
		}
		modeOK := false
		eachInstr(rl, func(in ssa.Instruction) {
			if cc := callOf(in); cc != nil && calleeName(cc) == "fromFileMode" {
				if fromDirent(cc.Args[0], "Mode") {
					modeOK = true
				}
			}
		})
		c.check(modeOK, "R5", "long name mode", p.Pos(rl.Pos()), "fromFileMode(dirent.Mode())", "the long name's mode string is not derived from the entry's own mode")
		sizeOK, nameOK := false, false
		eachInstr(rl, func(in ssa.Instruction) {
			if cc := callOf(in); cc != nil && cc.IsInvoke() && cc.Value == ssa.Value(dirent) {
				switch cc.Method.Name() {
				case "Size":
					sizeOK = true
				case "Name":
					nameOK = true
				}
			}
		})
		c.check(sizeOK && nameOK, "R5", "long name size and name", p.Pos(rl.Pos()), "dirent.Size(), dirent.Name()", "the long name's size or name does not come from the entry")
		checkOwnerSourcesAgree(c, "R6")
		checkLongNameInstant(c, "R7")
		checkLongNameClock(c, "R5")
	}
}

// FuncDeclIn finds a method declaration by receiver type in any module package.
func (p *Program) FuncDeclIn(pkgPath, recv, name string) (*ast.FuncDecl, *types.Info) {
	return p.FuncDecl(pkgPath, recv, name)
}

// checkOwnerSourcesAgree (C17.R6): the long name and the attribute block of one entry are built by two functions
// (runLs, fileStatFromInfo).  For "the long name agrees with the structured attributes" they must take the owner from
// the same places with the same precedence: every concrete type of FileInfo.Sys() that one of them recognises the other
// recognises too, and FileInfoUidGid is consulted before Sys() in the long name (in the attributes it overrides).
func checkOwnerSourcesAgree(c *Ctx, rule string) {
	p := c.P
	sysTypes := func(names ...string) (map[string]bool, bool) {
		out := map[string]bool{}
		found := false
		for _, n := range names {
			fn := p.Func(n)
			if fn == nil {
				continue
			}
			found = true
			eachInstr(fn, func(in ssa.Instruction) {
				ta, ok := in.(*ssa.TypeAssert)
				if !ok {
					return
				}
				if call, ok := ta.X.(*ssa.Call); ok && call.Call.IsInvoke() && call.Call.Method.Name() == "Sys" {
					out[typeName(ta.AssertedType)] = true
				}
			})
		}
		return out, found
	}
	ls, ok1 := sysTypes("runLs", "lsLinksUIDGID")
	at, ok2 := sysTypes("fileStatFromInfo", "fileStatFromInfoOs")
	if !ok1 || !ok2 {
		c.missing(rule, "runLs / fileStatFromInfo")
		return
	}
	keys := func(m map[string]bool) string {
		var ks []string
		for k := range m {
			ks = append(ks, k)
		}
		sort.Strings(ks)
		return strings.Join(ks, ", ")
	}
	same := len(ls) == len(at)
	for k := range ls {
		if !at[k] {
			same = false
		}
	}
	c.check(same && len(ls) > 0, rule, "owner sources of long name and attributes", "ls_formatting.go", "Sys() types {"+keys(ls)+"} in both",
		"the long name takes the owner from Sys() of type {"+keys(ls)+"}, the attribute block from {"+keys(at)+"}: for a FileInfo whose Sys() is one of the others (e.g. *FileStat, what this package's Client returns) the long name shows an owner that the attributes of the same entry do not carry")
	// precedence in runLs: FileInfoUidGid first
	if rl := p.Func("runLs"); rl != nil {
		var ug *ssa.TypeAssert
		var sysAsserts []*ssa.TypeAssert
		eachInstr(rl, func(in ssa.Instruction) {
			ta, ok := in.(*ssa.TypeAssert)
			if !ok {
				return
			}
			if typeName(ta.AssertedType) == "FileInfoUidGid" {
				ug = ta
			}
			if call, ok := ta.X.(*ssa.Call); ok && call.Call.IsInvoke() && call.Call.Method.Name() == "Sys" {
				sysAsserts = append(sysAsserts, ta)
			}
		})
		first := ug != nil
		for _, sa := range sysAsserts {
			if ug == nil || !dominates(ug, sa) {
				first = false
			}
		}
		c.check(first, rule, "FileInfoUidGid precedes Sys() in the long name", p.Pos(rl.Pos()), "as in fileStatFromInfo, where it overrides",
			"runLs looks at Sys() before FileInfoUidGid while fileStatFromInfo lets FileInfoUidGid override: an entry that has both shows one owner in the long name and another in its attributes")
	} else {
		c.missing(rule, "runLs")
	}
}

// checkSetstatTargetsAndOrder (C17.R3, two more obligations per handler): FSETSTAT names an open file, so each change
// goes through the file object, not through a path that may meanwhile name something else; and ownership is changed
// before the mode, because chown(2) clears the set-user-ID and set-group-ID bits of a regular file — a request that
// carries both would otherwise lose the special bits it asked for.
func checkSetstatTargetsAndOrder(c *Ctx, rule string) {
	p := c.P
	for _, name := range []string{"(*sshFxpSetstatPacket).respond", "(*sshFxpFsetstatPacket).respond"} {
		fn := p.Func(name)
		if fn == nil {
			c.missing(rule, name)
			continue
		}
		short := map[bool]string{true: "FSETSTAT", false: "SETSTAT"}[strings.Contains(name, "Fsetstat")]
		var chown, chmod []ssa.Instruction
		byName := ""
		eachInstr(fn, func(in ssa.Instruction) {
			cc := callOf(in)
			if cc == nil {
				return
			}
			nm := calleeName(cc)
			switch nm {
			case "Chown":
				chown = append(chown, in)
			case "Chmod":
				chmod = append(chmod, in)
			}
			if short == "FSETSTAT" {
				if f := calleeFunc(cc); f != nil && f.Pkg() != nil && f.Pkg().Path() == "os" {
					switch nm {
					case "Truncate", "Chmod", "Chown", "Chtimes", "Lchown":
						byName = "os." + nm
					}
				}
			}
		})
		if short == "FSETSTAT" {
			c.check(byName == "", rule, "FSETSTAT changes the open file, not a name", p.Pos(fn.Pos()), "every change goes through the file object of the handle",
				"FSETSTAT applies "+byName+" to the name the file was opened under: after open(a); rename(a, b); create(a) the handle's file keeps its times and the new, unrelated a is changed (after a remove the request fails although the handle is valid)")
		}
		okOrder := len(chown) > 0 && len(chmod) > 0
		for _, o := range chown {
			for _, m := range chmod {
				if !(blockReaches(o.Block(), m.Block()) && !blockReaches(m.Block(), o.Block())) {
					okOrder = false
				}
			}
		}
		c.check(okOrder, rule, short+" sets the owner before the mode", p.Pos(fn.Pos()), "Chown, then Chmod",
			short+" applies Chmod before Chown: chown(2) clears set-user-ID/set-group-ID on a regular file, so a request carrying PERMISSIONS 04755 together with UIDGID ends with mode 0755 although the status is OK")
	}
}

// checkLongNameClock (C17.R5): the time column of the long name is built with time.Format layouts; the structured
// mtime is a 24-hour instant, so a layout with a 12-hour clock ("03", "3", "PM") shows another time of day for every
// file modified after noon.
func checkLongNameClock(c *Ctx, rule string) {
	p := c.P
	fn := p.Func("runLs")
	if fn == nil {
		c.missing(rule, "runLs")
		return
	}
	n := 0
	var consts []string
	eachInstr(fn, func(in ssa.Instruction) {
		cc := callOf(in)
		if cc == nil || calleeName(cc) != "Format" {
			return
		}
		n++
		for _, a := range cc.Args {
			for _, l := range leavesOf(a) {
				if s, ok := constString(l.V); ok {
					consts = append(consts, s)
				}
			}
		}
	})
	bad := ""
	hasClock := false
	for _, s := range consts {
		if strings.Contains(s, "15") {
			hasClock = true
		}
		t := strings.ReplaceAll(s, "2006", "")
		if strings.Contains(t, "03") || strings.Contains(t, "PM") || strings.Contains(t, "pm") || strings.Contains(t, "3:04") && !strings.Contains(t, "15:04") {
			bad = s
		}
	}
	c.check(n >= 1 && bad == "" && hasClock, rule, "long name shows the modification time on a 24-hour clock", p.Pos(fn.Pos()), "layouts use 15:04",
		fmt.Sprintf("the long name formats the modification time with layout %q (12-hour clock, or no hour at all): entries modified after noon show a time that differs from their mtime attribute", bad))
}

// checkLongNameInstant (C17.R7): the attribute block carries the modification time as uint32(ModTime().Unix()), which
// is another instant whenever the time lies outside [1970, 2106) — a handler's zero time.Time, a file dated 1969, on
// 32-bit builds anything after 2038.  The long name of the same entry must show the instant the attributes carry, so
// every time value that runLs formats is either built from the 32-bit value (time.Unix of a value that passed through a
// uint32 conversion) or is selected on an edge where the time was compared with its own 32-bit reduction.
func checkLongNameInstant(c *Ctx, rule string) {
	p := c.P
	fn := p.Func("runLs")
	if fn == nil {
		c.missing(rule, "runLs")
		return
	}
	// values that went through uint32
	reduced := map[ssa.Value]bool{}
	eachInstr(fn, func(in ssa.Instruction) {
		cv, ok := in.(*ssa.Convert)
		if !ok {
			return
		}
		if b, ok := cv.Type().Underlying().(*types.Basic); ok && b.Kind() == types.Uint32 {
			if call, ok := cv.X.(*ssa.Call); ok && calleeName(&call.Call) == "Unix" {
				reduced[cv] = true
			}
		}
	})
	for changed := true; changed; {
		changed = false
		eachInstr(fn, func(in ssa.Instruction) {
			if cv, ok := in.(*ssa.Convert); ok && reduced[cv.X] && !reduced[cv] {
				reduced[cv] = true
				changed = true
			}
		})
	}
	var fromReduced func(v ssa.Value, d int) bool
	fromReduced = func(v ssa.Value, d int) bool {
		if d > 6 || v == nil {
			return false
		}
		if reduced[v] {
			return true
		}
		if call, ok := v.(*ssa.Call); ok {
			switch calleeName(&call.Call) {
			case "Unix", "In", "UTC", "Local":
				for _, a := range call.Call.Args {
					if fromReduced(a, d+1) {
						return true
					}
				}
			}
		}
		return false
	}
	n := 0
	for _, in := range callsWhere(fn, func(cc *ssa.CallCommon) bool { return calleeName(cc) == "Format" && len(cc.Args) == 2 }) {
		n++
		recv := in.(*ssa.Call).Call.Args[0]
		bad := ""
		var walk func(v ssa.Value, b, pred *ssa.BasicBlock, d int)
		walk = func(v ssa.Value, b, pred *ssa.BasicBlock, d int) {
			if ph, ok := v.(*ssa.Phi); ok && d < 6 {
				for k, e := range ph.Edges {
					walk(e, ph.Block(), ph.Block().Preds[k], d+1)
				}
				return
			}
			if fromReduced(v, 0) {
				return
			}
			// selected where the time equals its reduction
			if pred != nil {
				for cv, truth := range edgeConds(b, pred) {
					bo, ok := cv.(*ssa.BinOp)
					if !ok || !(bo.Op == token.EQL && truth || bo.Op == token.NEQ && !truth) {
						continue
					}
					if reduced[bo.X] || reduced[bo.Y] {
						return
					}
				}
			}
			bad = p.Pos(v.Pos())
		}
		walk(recv, in.Block(), nil, 0)
		c.check(bad == "", rule, fmt.Sprintf("long name formats the instant the attributes carry (Format #%d)", n), p.Pos(in.Pos()), "the 32-bit mtime, or a time tested equal to it",
			"the long name formats ModTime() as the handler or the file system reports it, while the attribute block of the same entry carries uint32(ModTime().Unix()): for a time before 1970 or after 2106 (a zero time.Time, on 386 anything after 2038) the two show different dates")
	}
	c.check(n >= 1, rule, "time columns of the long name", p.Pos(fn.Pos()), fmt.Sprintf("%d Format calls", n), "no Format call in runLs")
}

// evalModeFunc reads the mode table off toFileMode (wire -> os) or fromFileMode (os -> wire) by evaluating the
// function: the permission mask from the word with all low bits set, one case per value of the type field, one entry
// per special bit, each relative to the plain regular file.
func evalModeFunc(p *Program, name string, wireToOS bool) (*modeTable, string) {
	fn := p.Func(name)
	if fn == nil {
		return nil, name + " not found"
	}
	M := func(n string) int64 { return osModeConst(p, n) }
	call := func(arg int64) (int64, bool) {
		ev := newEvaluator(p)
		argT := fn.Params[0].Type()
		st := ev.run(fn, []evVal{evInt(arg, argT)}, 0)
		if st.kind != "return" || len(st.vals) != 1 || st.vals[0].k != evConst {
			if debugEval {
				fmt.Fprintf(os.Stderr, "eval: %s(%#x) ended %s %s vals=%v\n", name, arg, st.kind, st.why, st.vals)
			}
			return 0, false
		}
		u, ok := constant.Uint64Val(constant.ToInt(st.vals[0].c))
		return int64(u), ok
	}
	t := &modeTable{cases: map[int64]int64{}, specials: map[int64]int64{}}
	if wireToOS {
		base, ok := call(0x8000)
		if !ok {
			return nil, "cannot evaluate " + name + "(0x8000)"
		}
		all, ok := call(0x8000 | 0o777)
		if !ok {
			return nil, "cannot evaluate " + name
		}
		t.mask = (all &^ base) & 0xFFFFFFFF
		t.tagMask = 0xF000
		for nib := int64(0); nib < 16; nib++ {
			w := nib << 12
			got, ok := call(w)
			if !ok {
				return nil, fmt.Sprintf("cannot evaluate %s(%#x)", name, w)
			}
			zero, _ := call(0)
			if w == 0x8000 || got != zero || w == 0 {
				if w == 0 {
					continue
				}
				t.cases[w] = got
			}
		}
		// a type value that converts like "no type at all" is not a case, except the regular file
		for _, bit := range []int64{0o4000, 0o2000, 0o1000} {
			got, ok := call(0x8000 | bit)
			if !ok {
				return nil, "cannot evaluate " + name
			}
			t.specials[bit] = got &^ base
		}
		// bits outside the type field, the special bits and the permissions must not matter
		return t, ""
	}
	base, ok := call(0)
	if !ok {
		return nil, "cannot evaluate " + name + "(0)"
	}
	all, ok := call(M("ModePerm"))
	if !ok {
		return nil, "cannot evaluate " + name
	}
	t.mask = 0
	if all&^base == 0o777 {
		t.mask = M("ModePerm")
	} else {
		t.mask = all &^ base
	}
	t.tagMask = M("ModeType")
	for _, o := range []int64{M("ModeNamedPipe"), M("ModeDevice") | M("ModeCharDevice"), M("ModeDir"), M("ModeDevice"), 0, M("ModeSymlink"), M("ModeSocket")} {
		got, ok := call(o)
		if !ok {
			return nil, fmt.Sprintf("cannot evaluate %s(%#x)", name, o)
		}
		t.cases[o] = got & 0xF000
	}
	for _, o := range []int64{M("ModeSetuid"), M("ModeSetgid"), M("ModeSticky")} {
		got, ok := call(o)
		if !ok {
			return nil, "cannot evaluate " + name
		}
		t.specials[o] = got &^ base
	}
	return t, ""
}

// checkSpecialBitsCombine (C17.R1): the three special bits are independent — a mode with several of them converts to
// the union of what each converts to.  Evaluated for every subset, in the three conversion functions (a ladder of
// else-ifs, or an early return after the first bit found, passes every single-bit test and loses bits of 2048 of the
// 4096 permission+special modes).
func checkSpecialBitsCombine(c *Ctx, rule string) {
	p := c.P
	M := func(n string) int64 { return osModeConst(p, n) }
	for _, spec := range []struct {
		fn   string
		bits []int64
		base int64
	}{
		{"toChmodPerm", []int64{M("ModeSetuid"), M("ModeSetgid"), M("ModeSticky")}, 0o750},
		{"fromFileMode", []int64{M("ModeSetuid"), M("ModeSetgid"), M("ModeSticky")}, 0o750},
		{"toFileMode", []int64{0o4000, 0o2000, 0o1000}, 0x8000 | 0o750},
	} {
		fn := p.Func(spec.fn)
		if fn == nil {
			c.missing(rule, spec.fn)
			continue
		}
		if len(fn.Params) != 1 {
			c.und(rule, spec.fn+" special bits combine", p.Pos(fn.Pos()), "not a function of one mode word")
			continue
		}
		call := func(v int64) (int64, bool) {
			st := newEvaluator(p).run(fn, []evVal{evInt(v, fn.Params[0].Type())}, 0)
			if st.kind != "return" || len(st.vals) != 1 || st.vals[0].k != evConst || st.vals[0].c.Kind() != constant.Int {
				return 0, false
			}
			u, ok := constant.Uint64Val(constant.ToInt(st.vals[0].c))
			return int64(u), ok
		}
		single := make([]int64, len(spec.bits))
		okAll := true
		for i, b := range spec.bits {
			v, ok := call(spec.base | b)
			if !ok {
				okAll = false
			}
			single[i] = v
		}
		if !okAll {
			c.und(rule, spec.fn+" special bits combine", p.Pos(fn.Pos()), spec.fn+" cannot be evaluated")
			continue
		}
		wrong := ""
		for sub := 0; sub < 1<<len(spec.bits) && wrong == ""; sub++ {
			in, want := spec.base, int64(0)
			n := 0
			for i, b := range spec.bits {
				if sub&(1<<i) != 0 {
					in |= b
					want |= single[i]
					n++
				}
			}
			if n < 2 {
				continue
			}
			got, ok := call(in)
			if !ok || got != want {
				wrong = fmt.Sprintf("%s(%#o) = %#o, the union of its bits' conversions is %#o", spec.fn, in, got, want)
			}
		}
		c.check(wrong == "", rule, spec.fn+" special bits combine", p.Pos(fn.Pos()), "every subset of setuid/setgid/sticky converts to the union of its members' conversions", wrong+": modes with more than one special bit lose bits")
	}
}

// checkTimesAreUnsigned32 (C17.R8): the wire carries times as unsigned 32-bit seconds.  FileStat.ModTime/AccessTime are
// run by the interpreter with Mtime/Atime at the edges of the range (time.Unix is taken as the identity on its
// seconds): what comes out is the number that went in — no sign extension through int32 (times from 2038 on would come
// back 136 years early), no truncation.
func checkTimesAreUnsigned32(c *Ctx, rule string) {
	p := c.P
	fsT := p.NamedType(p.Sftp, "FileStat")
	if fsT == nil {
		c.missing(rule, "FileStat")
		return
	}
	for _, spec := range []struct{ method, field string }{{"ModTime", "Mtime"}, {"AccessTime", "Atime"}} {
		fn := p.methodOf(types.NewPointer(fsT), spec.method)
		if fn == nil {
			c.missing(rule, "(*FileStat)."+spec.method)
			continue
		}
		wrong, und := "", false
		for _, v := range []int64{0, 1, 0x7fffffff, 0x80000000, 0xfffffffe, 0xffffffff} {
			ev := newEvaluator(p)
			ev.opaque = func(callee *ssa.Function, args []evVal) (evVal, bool) {
				if callee.Pkg != nil && callee.Pkg.Pkg.Path() == "time" && callee.Name() == "Unix" && len(args) == 2 {
					return args[0], true
				}
				return evVal{}, false
			}
			obj := &evObj{typ: fsT, fields: map[string]evVal{spec.field: evInt(v, types.Typ[types.Uint32])}}
			st := ev.run(fn, []evVal{{k: evObject, obj: obj}}, 0)
			if st.kind != "return" || len(st.vals) != 1 || st.vals[0].k != evConst || st.vals[0].c.Kind() != constant.Int {
				und = true
				break
			}
			got, exact := constant.Int64Val(st.vals[0].c)
			if !exact || got != v {
				wrong = fmt.Sprintf("%s of %s = %#x is %d seconds, expected %d", spec.method, spec.field, v, got, v)
				break
			}
		}
		if und {
			c.und(rule, "(*FileStat)."+spec.method+" is the unsigned 32-bit instant", p.Pos(fn.Pos()), "cannot be evaluated")
			continue
		}
		c.check(wrong == "", rule, "(*FileStat)."+spec.method+" is the unsigned 32-bit instant", p.Pos(fn.Pos()), "time.Unix(int64(uint32 seconds), 0) over the whole range", wrong+": the time a peer sent is not the time reported")
	}
}

// checkAttrFlagBits (C17.R3; shared as C10.R12): the four booleans a handler sees in FileAttrFlags are decoded from the
// four attribute flag bits of the draft.
func checkAttrFlagBits(c *Ctx, rule string) {
	p := c.P
	pos := func(in ssa.Instruction) string { return p.Pos(in.Pos()) }
	if nf := p.Func("newFileAttrFlags"); nf != nil {
		wantBits := map[string]int64{"Size": 1, "UidGid": 2, "Permissions": 4, "Acmodtime": 8}
		for _, a := range literalsOf(nf, "FileAttrFlags") {
			for f, bit := range wantBits {
				got := int64(-1)
				if b, ok := litField(a, f).(*ssa.BinOp); ok && b.Op == token.NEQ {
					if and, ok := b.X.(*ssa.BinOp); ok && and.Op == token.AND {
						got, _ = constInt(and.Y)
					}
				}
				c.check(got == bit, rule, "FileAttrFlags."+f, pos(a), fmt.Sprintf("flags&%#x", bit), fmt.Sprintf("FileAttrFlags.%s is decoded from bit %#x, expected %#x", f, got, bit))
			}
		}
	} else {
		c.missing(rule, "newFileAttrFlags")
	}
}

// checkSetstatApplication (C17.R3; shared as C05.R15): what each attribute flag of SETSTAT/FSETSTAT makes the os server do.
func checkSetstatApplication(c *Ctx, withTargetsAndOrder bool) {
	p := c.P
	pos := func(in ssa.Instruction) string { return p.Pos(in.Pos()) }
	_ = pos
	type app struct {
		callee string
		args   []string // field names of FileStat (or accessor names) in order
	}
	wantApp := map[int64]app{
		1: {"Truncate", []string{"Size"}},
		4: {"Chmod", []string{"FileMode"}},
		2: {"Chown", []string{"UID", "GID"}},
		8: {"Chtimes", []string{"AccessTime", "ModTime"}},
	}
	tables := map[string]map[int64]string{}
	for _, name := range []string{"(*sshFxpSetstatPacket).respond", "(*sshFxpFsetstatPacket).respond"} {
		fn := p.Func(name)
		if fn == nil {
			c.missing("R3", name)
			continue
		}
		c.looked(name)
		tables[name] = map[int64]string{}
		for _, b := range fn.Blocks {
			iff, ok := b.Instrs[len(b.Instrs)-1].(*ssa.If)
			if !ok {
				continue
			}
			cmp, ok := iff.Cond.(*ssa.BinOp)
			if !ok || (cmp.Op != token.NEQ && cmp.Op != token.EQL) {
				continue
			}
			if z, isZ := constInt(cmp.Y); !isZ || z != 0 {
				continue
			}
			// the side on which the flag is set: the true edge of `!= 0`, the false edge of `== 0` (an early exit when
			// the flag is absent)
			setSide := b.Succs[0]
			if cmp.Op == token.EQL {
				setSide = b.Succs[1]
			}
			and, ok := cmp.X.(*ssa.BinOp)
			if !ok || and.Op != token.AND {
				continue
			}
			k, ok := constInt(and.Y)
			if !ok {
				continue
			}
			isFlags := false
			for _, l := range leavesOf(and.X) {
				if l.Kind == leafFieldLoad && l.Field == "Flags" {
					isFlags = true
				}
			}
			if !isFlags {
				continue
			}
			// calls in the region of the true edge (up to the next flag test)
			region := regionOf(fn, setSide)
			var descr []string
			for rb := range region {
				// stop at blocks that test another flag: those are dominated too only if nested; the ladder is sequential so they are not
				for _, in := range rb.Instrs {
					cc := callOf(in)
					if cc == nil {
						continue
					}
					nm := calleeName(cc)
					switch nm {
					case "Truncate", "Chmod", "Chown", "Chtimes":
					default:
						continue
					}
					var args []string
					for _, a := range argsOf(cc) {
						d := "?"
						for _, l := range leavesOf(a) {
							switch l.Kind {
							case leafFieldLoad:
								if typeName(l.Base.Type()) == "FileStat" {
									d = l.Field
								}
							case leafCallResult:
								switch calleeName(l.Call) {
								case "FileMode", "AccessTime", "ModTime":
									d = calleeName(l.Call)
								case "toLocalPath", "Name":
									d = "path"
								}
							case leafParam:
								d = "path"
							}
						}
						if d == "?" && isBasicKind(types.String)(a.Type()) {
							d = "path" // no attribute is a string: the name of the file, wherever it is kept
						}
						if d == "path" || d == "?" {
							// the path/handle argument is not part of the attribute pairing
							if d == "?" {
								args = append(args, d)
							}
							continue
						}
						args = append(args, d)
					}
					descr = append(descr, nm+"("+strings.Join(args, ",")+")")
				}
			}
			sort.Strings(descr)
			// dedupe (Fsetstat has two Chtimes alternatives)
			uniq := []string{}
			for _, d := range descr {
				if len(uniq) == 0 || uniq[len(uniq)-1] != d {
					uniq = append(uniq, d)
				}
			}
			tables[name][k] = strings.Join(uniq, ";")
			// applied only while nothing before it has failed: for every earlier fallible step (the attribute decode, the
			// other setters) that can be followed by this one, its error is tested on the way here and the side on which
			// it is not nil does not come here — whether that is written `err == nil && flag…` or as early returns
			okErr := true
			isStep := func(cc *ssa.CallCommon) bool {
				switch calleeName(cc) {
				case "Truncate", "Chmod", "Chown", "Chtimes", "unmarshalFileStat":
					return true
				}
				return false
			}
			var mine []ssa.Instruction
			for rb := range region {
				for _, in := range rb.Instrs {
					if cc := callOf(in); cc != nil && isStep(cc) && calleeName(cc) != "unmarshalFileStat" {
						mine = append(mine, in)
					}
				}
			}
			for _, s := range mine {
				for _, e := range callsWhere(fn, isStep) {
					if e == s || !reachAvoiding(fn, e, func(x ssa.Instruction) bool { return x == s }, nil) {
						continue
					}
					// the error of e and the variables it flows into
					vals := map[ssa.Value]bool{}
					ev := e.(ssa.Value)
					if _, isTuple := ev.Type().(*types.Tuple); isTuple {
						for _, r := range *ev.Referrers() {
							if ex, ok := r.(*ssa.Extract); ok && ex.Type().String() == "error" {
								vals[ex] = true
							}
						}
					} else {
						vals[ev] = true
					}
					for changed := true; changed; {
						changed = false
						for v := range vals {
							for _, r := range *v.Referrers() {
								if ph, ok := r.(*ssa.Phi); ok && !vals[ph] {
									vals[ph] = true
									changed = true
								}
							}
						}
					}
					var tests []nilTest
					for v := range vals {
						tests = append(tests, nilTests(v)...)
					}
					isTest := func(x ssa.Instruction) bool {
						for _, t := range tests {
							if ssa.Instruction(t.iff) == x {
								return true
							}
						}
						return false
					}
					if reachAvoiding(fn, e, func(x ssa.Instruction) bool { return x == s }, isTest) {
						okErr = false // a path from the earlier step to this one that never looks at its error
					}
					for _, t := range tests {
						if blockReaches(e.Block(), t.iff.Block()) && reachFromNilSide(t, true, func(x ssa.Instruction) bool { return x == s }, nil) {
							// the failing side comes here — unless that test lies after this step (a later iteration has none here)
							if !reachAvoiding(fn, s, func(x ssa.Instruction) bool { return x == ssa.Instruction(t.iff) }, nil) || dominates(t.iff, s) {
								okErr = false
							}
						}
					}
				}
			}
			c.check(okErr, "R3", fmt.Sprintf("%s flag %#x applied only while err == nil", name, k), pos(iff), "earlier failure stops the ladder", "an attribute is applied although an earlier step failed (its error is then overwritten)")
		}
		for k, w := range wantApp {
			want := w.callee + "(" + strings.Join(w.args, ",") + ")"
			got := tables[name][k]
			c.check(got == want, "R3", fmt.Sprintf("%s flag %#x", name, k), p.Pos(fn.Pos()), got, fmt.Sprintf("under attribute flag %#x the server performs %q, expected %s: a set-attributes request changes the wrong attribute", k, got, want))
		}
		for k := range tables[name] {
			if _, ok := wantApp[k]; !ok {
				c.bad("R3", fmt.Sprintf("%s flag %#x", name, k), p.Pos(fn.Pos()), "an attribute flag outside SIZE/UIDGID/PERMISSIONS/ACMODTIME triggers a change")
			}
		}
	}
	if len(tables) == 2 {
		a, b := tables["(*sshFxpSetstatPacket).respond"], tables["(*sshFxpFsetstatPacket).respond"]
		same := len(a) == len(b)
		for k, v := range a {
			if b[k] != v {
				same = false
			}
		}
		c.check(same, "R3", "SETSTAT and FSETSTAT agree", "server.go", "sibling handlers apply the same table", fmt.Sprintf("SETSTAT applies %v but FSETSTAT applies %v", a, b))
		if withTargetsAndOrder {
			checkSetstatTargetsAndOrder(c, "R3")
		}
	}
}

// checkLongNameOwnerPairs (C17.R11): the long name's owner and group columns.  In lsLinksUIDGID (the per-OS helper) the
// second result is formatted from a field called uid and the third from one called gid; lsFormatID formats all 32 bits
// of the id without a detour through a narrower or signed type (int is 32 bits on 386: ids from 2^31 up would come out
// negative while the attribute block carries the real number).
func checkLongNameOwnerPairs(c *Ctx, rule string) {
	p := c.P
	if goos := goosOf(p.Cfg); goos == "windows" || goos == "plan9" {
		c.okT(rule, "long name owner columns", "?", "the per-OS helper is a stub under "+goos)
	} else if fn := p.Func("lsLinksUIDGID"); fn == nil {
		c.missing(rule, "lsLinksUIDGID")
	} else {
		for idx, want := range map[int]string{1: "uid", 2: "gid"} {
			srcs := map[string]bool{}
			for _, rl := range returnLeaves(fn, idx) {
				for _, l := range leavesOf(rl.v) {
					if l.Kind == leafCallResult {
						for _, a := range argsOf(l.Call) {
							for _, l2 := range leavesOf(a) {
								if l2.Kind == leafFieldLoad {
									srcs[strings.ToLower(l2.Field)] = true
								}
							}
						}
					}
					if l.Kind == leafFieldLoad {
						srcs[strings.ToLower(l.Field)] = true
					}
				}
			}
			okSrc := len(srcs) >= 1
			var names []string
			for s := range srcs {
				names = append(names, s)
				if s != want {
					okSrc = false
				}
			}
			sort.Strings(names)
			c.check(okSrc, rule, "long name "+want+" column comes from the "+want, p.Pos(fn.Pos()), "← Stat_t."+want, fmt.Sprintf("the %s column of the long name is formatted from %v: the long name and the attribute block disagree about the owner", want, names))
		}
	}
	if f := p.Func("lsFormatID"); f == nil {
		c.okT(rule, "lsFormatID formats all 32 bits", "?", "no lsFormatID helper in this tree: the ids are formatted where they are used")
	} else if len(f.Params) == 1 {
		var bad *ssa.Convert
		sizes := types.SizesFor("gc", p.Cfg.GOARCH)
		eachInstr(f, func(in ssa.Instruction) {
			cv, ok := in.(*ssa.Convert)
			if !ok || sizes == nil {
				return
			}
			from, okF := cv.X.Type().Underlying().(*types.Basic)
			to, okT := cv.Type().Underlying().(*types.Basic)
			if !okF || !okT || from.Info()&types.IsInteger == 0 || to.Info()&types.IsInteger == 0 {
				return
			}
			// from the unsigned 32-bit id to something that cannot hold all of its values
			if from.Info()&types.IsUnsigned != 0 {
				if sizes.Sizeof(cv.Type()) < sizes.Sizeof(cv.X.Type()) || (to.Info()&types.IsUnsigned == 0 && sizes.Sizeof(cv.Type()) <= sizes.Sizeof(cv.X.Type())) {
					bad = cv
				}
			}
		})
		c.check(bad == nil, rule, "lsFormatID formats all 32 bits", p.Pos(f.Pos()), "no conversion that loses values of the id", func() string {
			if bad == nil {
				return ""
			}
			return "the id is converted to " + bad.Type().String() + " before it is formatted: ids from 2^31 up print as negative numbers (on this configuration) while the attributes carry the real value"
		}())
	}
}

// checkFileInfoIsDirAgreesWithMode (C17.R12): the os.FileInfo the client hands out answers IsDir() the way its Mode()
// does — true for S_IFDIR alone.  Both methods are run by the interpreter for the 16 values of the wire type field
// (os.FileMode.IsDir is taken for what it is: m&ModeDir != 0).  A bit test in place of the type comparison makes sockets
// and block devices directories (their type values contain the directory bit).
func checkFileInfoIsDirAgreesWithMode(c *Ctx, rule string) {
	p := c.P
	fiT := p.NamedType(p.Sftp, "fileInfo")
	fsT := p.NamedType(p.Sftp, "FileStat")
	if fiT == nil || fsT == nil {
		c.missing(rule, "fileInfo / FileStat")
		return
	}
	isDir := p.methodOf(types.NewPointer(fiT), "IsDir")
	if isDir == nil {
		c.missing(rule, "(*fileInfo).IsDir")
		return
	}
	modeDir := osModeConst(p, "ModeDir")
	wrong, und := "", false
	for t := int64(0); t < 16 && wrong == "" && !und; t++ {
		for _, perm := range []int64{0, 0o644} {
			ev := newEvaluator(p)
			ev.opaque = func(callee *ssa.Function, args []evVal) (evVal, bool) {
				if callee.Pkg != nil && callee.Pkg.Pkg.Path() == "io/fs" && callee.Name() == "IsDir" && len(args) == 1 && args[0].k == evConst {
					if m, ok := constant.Int64Val(constant.ToInt(args[0].c)); ok {
						return evBool(m&modeDir != 0), true
					}
				}
				return evVal{}, false
			}
			stat := &evObj{typ: fsT, fields: map[string]evVal{"Mode": evInt(t<<12|perm, types.Typ[types.Uint32])}}
			fi := &evObj{typ: fiT, fields: map[string]evVal{"stat": {k: evObject, obj: stat}}}
			res := ev.run(isDir, []evVal{{k: evObject, obj: fi}}, 0)
			if res.kind != "return" || len(res.vals) != 1 || res.vals[0].k != evConst || res.vals[0].c.Kind() != constant.Bool {
				und = true
				break
			}
			if got := constant.BoolVal(res.vals[0].c); got != (t == 4) {
				wrong = fmt.Sprintf("IsDir() of mode %#o is %v", t<<12|perm, got)
				break
			}
		}
	}
	if und {
		c.und(rule, "fileInfo.IsDir is true for directories alone", p.Pos(isDir.Pos()), "(*fileInfo).IsDir cannot be evaluated")
		return
	}
	c.check(wrong == "", rule, "fileInfo.IsDir is true for directories alone", p.Pos(isDir.Pos()), "evaluated for the 16 values of the type field", wrong+": the entry's IsDir() disagrees with its Mode() (Walk, RemoveAll and Glob descend into things that are not directories, or skip directories)")
}


// checkUnresolvedIDShownAsNumber (C17.R14): the long name of an entry shows the owner the attributes carry.  The
// built-in name lookup answers with the name it found or, when the id has no entry, with the id it was given (as ls -n
// does) — every result of LookupUserName/LookupGroupName is its parameter or a field of what the lookup returned, never
// a constant placeholder (looked for through one level of helper).
func checkUnresolvedIDShownAsNumber(c *Ctx, rule string) {
	p := c.P
	n := 0
	var leafOK func(fn *ssa.Function, d int) (bool, string)
	leafOK = func(fn *ssa.Function, d int) (bool, string) {
		for _, lf := range returnLeavesDeep(fn, 0) {
			switch x := lf.v.(type) {
			case *ssa.Parameter:
				continue
			case *ssa.UnOp:
				if _, ok := x.X.(*ssa.FieldAddr); ok {
					continue
				}
			case *ssa.Field:
				continue
			case *ssa.Call:
				if f := x.Call.StaticCallee(); f != nil && inModule(f) && d < 2 {
					if ok, why := leafOK(f, d+1); ok {
						continue
					} else {
						return false, why
					}
				}
			case *ssa.Const:
				return false, "the constant " + x.String()
			}
			return false, lf.v.String()
		}
		return true, ""
	}
	for _, fn := range p.LibFuncs() {
		if outermost(fn) != fn || fn.Signature.Recv() == nil || fn.Package() != p.Sftp {
			continue
		}
		if fn.Name() != "LookupUserName" && fn.Name() != "LookupGroupName" {
			continue
		}
		if fn.Signature.Params().Len() != 1 || len(fn.Blocks) == 0 {
			continue
		}
		n++
		ok, why := leafOK(fn, 0)
		c.check(ok, rule, "results of "+fnName(fn), p.Pos(fn.Pos()), "the name found, or the id that was asked for",
			"a result is neither the id asked for nor a field of what the lookup found ("+why+"): an owner without an entry in the user database is shown as something else than the number its attributes carry")
	}
	c.floor(rule, 2)
}
