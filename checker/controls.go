package main

import (
	"crypto/sha256"
	_ "embed"
	"encoding/hex"
	"fmt"
	"io"
	"os"
	"os/exec"
	"path/filepath"
	"sort"
	"strings"
)

// Positive controls (thorough tier): every seeded fault kept under /verif/seeded/<property>-<x>/ is applied to a
// scratch copy of the tree under analysis and the property's own rules are run on the copy, in a child process.
// A control that applies must be reported (child exit 1).  A control whose patch does not apply to this tree (the
// tree has drifted, or is itself a modified tree) is skipped and listed as such.  The scratch copy lives outside
// /repo and /verif and is removed before the next one is made.
func runControls(id, repo, knownPath, seedsDir string) (lines []string, applied, missed int) {
	patches, _ := filepath.Glob(filepath.Join(seedsDir, id+"-*", "patch.diff"))
	sort.Strings(patches)
	for _, pf := range patches {
		name := filepath.Base(filepath.Dir(pf))
		base := "/var/tmp"
		if st, err := os.Stat(base); err != nil || !st.IsDir() {
			base = os.TempDir()
		}
		tmp, err := os.MkdirTemp(base, "sftpcheck-ctl-")
		if err != nil {
			lines = append(lines, name+": skipped (no scratch directory: "+err.Error()+")")
			continue
		}
		func() {
			defer os.RemoveAll(tmp)
			if err := copyTree(repo, tmp); err != nil {
				lines = append(lines, name+": skipped (copy failed: "+err.Error()+")")
				return
			}
			if out, err := exec.Command("patch", "-p1", "-s", "--dry-run", "-d", tmp, "-i", pf).CombinedOutput(); err != nil {
				_ = out
				lines = append(lines, name+": skipped (the change does not apply to this tree)")
				return
			}
			if out, err := exec.Command("patch", "-p1", "-s", "-d", tmp, "-i", pf).CombinedOutput(); err != nil {
				lines = append(lines, name+": skipped (patch failed: "+strings.TrimSpace(string(out))+")")
				return
			}
			applied++
			cmd := exec.Command(os.Args[0], "-property", id, "-tier", "quick", "-repo", tmp, "-out", filepath.Join(tmp, ".evidence"), "-known", knownPath)
			out, err := cmd.CombinedOutput()
			code := 0
			if ee, ok := err.(*exec.ExitError); ok {
				code = ee.ExitCode()
			} else if err != nil {
				code = -1
			}
			switch code {
			case 1:
				// name the rules that fired
				rules := map[string]bool{}
				for _, l := range strings.Split(string(out), "\n") {
					if i := strings.Index(l, ": "+id+"."); i >= 0 && (strings.Contains(l, "violated") || strings.Contains(l, "undecided")) {
						f := strings.Fields(l[i+2:])
						if len(f) > 0 {
							rules[f[0]] = true
						}
					}
				}
				var rs []string
				for r := range rules {
					rs = append(rs, r)
				}
				sort.Strings(rs)
				lines = append(lines, name+": detected by "+strings.Join(rs, ", "))
			case 0:
				missed++
				lines = append(lines, name+": MISSED (the seeded fault applies to this tree and the rules of "+id+" stay silent)")
			default:
				missed++ // a checker that falls over has not reported the fault
				lines = append(lines, fmt.Sprintf("%s: MISSED (control run failed with exit code %d)", name, code))
			}
		}()
	}
	return
}

func copyTree(src, dst string) error {
	return filepath.Walk(src, func(path string, info os.FileInfo, err error) error {
		if err != nil {
			return err
		}
		rel, _ := filepath.Rel(src, path)
		if rel == "." {
			return nil
		}
		if info.IsDir() {
			if info.Name() == ".git" {
				return filepath.SkipDir
			}
			return os.MkdirAll(filepath.Join(dst, rel), 0o755)
		}
		if !info.Mode().IsRegular() {
			return nil
		}
		in, err := os.Open(path)
		if err != nil {
			return err
		}
		defer in.Close()
		out, err := os.OpenFile(filepath.Join(dst, rel), os.O_CREATE|os.O_WRONLY|os.O_TRUNC, 0o644)
		if err != nil {
			return err
		}
		defer out.Close()
		_, err = io.Copy(out, in)
		return err
	})
}

// ---- negative controls and the reference digest ----

//go:embed refdigest.txt
var refDigest string

// treeDigest hashes the non-test Go sources of the module under repo (paths and contents).
func treeDigest(repo string) string {
	var files []string
	filepath.Walk(repo, func(path string, info os.FileInfo, err error) error {
		if err != nil {
			return nil
		}
		if info.IsDir() {
			if n := info.Name(); n == ".git" || n == "examples" || n == "testdata" {
				return filepath.SkipDir
			}
			return nil
		}
		if strings.HasSuffix(path, ".go") && !strings.HasSuffix(path, "_test.go") {
			files = append(files, path)
		}
		return nil
	})
	sort.Strings(files)
	h := sha256.New()
	for _, f := range files {
		rel, _ := filepath.Rel(repo, f)
		b, err := os.ReadFile(f)
		if err != nil {
			continue
		}
		sum := sha256.Sum256(b)
		fmt.Fprintf(h, "%s %s\n", rel, hex.EncodeToString(sum[:]))
	}
	return hex.EncodeToString(h.Sum(nil))
}

// isReferenceTree: the tree under analysis is, file for file, the tree the controls were confirmed on.  Only then does
// a control that misbehaves fail the run: on any other tree a control (a patch written against the reference tree,
// applied on top of somebody else's change) is informative but proves nothing about the property of that tree.
func isReferenceTree(repo string) bool {
	return strings.TrimSpace(refDigest) != "" && strings.TrimSpace(refDigest) == treeDigest(repo)
}

// runNegativeControls (thorough tier): every behaviour-preserving refactoring kept under <dir>/<property>-<n>/ is
// applied to a scratch copy and the property's rules are run on the copy: they must stay silent (child exit 0).
func runNegativeControls(id, repo, knownPath, dir string) (lines []string, applied, alarms int) {
	patches, _ := filepath.Glob(filepath.Join(dir, id+"-*", "patch.diff"))
	sort.Strings(patches)
	for _, pf := range patches {
		name := "refactoring " + filepath.Base(filepath.Dir(pf))
		base := "/var/tmp"
		if st, err := os.Stat(base); err != nil || !st.IsDir() {
			base = os.TempDir()
		}
		tmp, err := os.MkdirTemp(base, "sftpcheck-neg-")
		if err != nil {
			lines = append(lines, name+": skipped (no scratch directory: "+err.Error()+")")
			continue
		}
		func() {
			defer os.RemoveAll(tmp)
			if err := copyTree(repo, tmp); err != nil {
				lines = append(lines, name+": skipped (copy failed: "+err.Error()+")")
				return
			}
			if _, err := exec.Command("patch", "-p1", "-s", "--dry-run", "-d", tmp, "-i", pf).CombinedOutput(); err != nil {
				lines = append(lines, name+": skipped (the change does not apply to this tree)")
				return
			}
			if out, err := exec.Command("patch", "-p1", "-s", "-d", tmp, "-i", pf).CombinedOutput(); err != nil {
				lines = append(lines, name+": skipped (patch failed: "+strings.TrimSpace(string(out))+")")
				return
			}
			applied++
			cmd := exec.Command(os.Args[0], "-property", id, "-tier", "quick", "-repo", tmp, "-out", filepath.Join(tmp, ".evidence"), "-known", knownPath)
			out, err := cmd.CombinedOutput()
			code := 0
			if ee, ok := err.(*exec.ExitError); ok {
				code = ee.ExitCode()
			} else if err != nil {
				code = -1
			}
			switch code {
			case 0:
				lines = append(lines, name+": silent")
			case 1:
				alarms++
				first := ""
				for _, l := range strings.Split(string(out), "\n") {
					if strings.Contains(l, ": violated: ") || strings.Contains(l, ": undecided: ") {
						first = l
						break
					}
				}
				if len(first) > 200 {
					first = first[:200]
				}
				lines = append(lines, name+": FALSE ALARM (behaviour-preserving change reported: "+first+")")
			default:
				alarms++ // a checker that falls over on a behaviour-preserving change is not silent on it
				lines = append(lines, fmt.Sprintf("%s: FALSE ALARM (control run failed with exit code %d)", name, code))
			}
		}()
	}
	return
}
