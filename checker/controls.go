package main

import (
	"fmt"
	"io"
	"os"
	"os/exec"
	"path/filepath"
	"sort"
	"strings"
)

// Positive controls (thorough tier): every seeded fault kept under /verif/seeded/<property>-<x>/ is applied to a
// scratch copy of the tree under analysis and the property's own rules are run on the copy, in a child process.
// A control that applies must be reported (child exit 1).  A control whose patch does not apply to this tree (the
// tree has drifted, or is itself a modified tree) is skipped and listed as such.  The scratch copy lives outside
// /repo and /verif and is removed before the next one is made.
func runControls(id, repo, knownPath, seedsDir string) (lines []string, applied, missed int) {
	patches, _ := filepath.Glob(filepath.Join(seedsDir, id+"-*", "patch.diff"))
	sort.Strings(patches)
	for _, pf := range patches {
		name := filepath.Base(filepath.Dir(pf))
		base := "/var/tmp"
		if st, err := os.Stat(base); err != nil || !st.IsDir() {
			base = os.TempDir()
		}
		tmp, err := os.MkdirTemp(base, "sftpcheck-ctl-")
		if err != nil {
			lines = append(lines, name+": skipped (no scratch directory: "+err.Error()+")")
			continue
		}
		func() {
			defer os.RemoveAll(tmp)
			if err := copyTree(repo, tmp); err != nil {
				lines = append(lines, name+": skipped (copy failed: "+err.Error()+")")
				return
			}
			if out, err := exec.Command("patch", "-p1", "-s", "--dry-run", "-d", tmp, "-i", pf).CombinedOutput(); err != nil {
				_ = out
				lines = append(lines, name+": skipped (the change does not apply to this tree)")
				return
			}
			if out, err := exec.Command("patch", "-p1", "-s", "-d", tmp, "-i", pf).CombinedOutput(); err != nil {
				lines = append(lines, name+": skipped (patch failed: "+strings.TrimSpace(string(out))+")")
				return
			}
			applied++
			cmd := exec.Command(os.Args[0], "-property", id, "-tier", "quick", "-repo", tmp, "-out", filepath.Join(tmp, ".evidence"), "-known", knownPath)
			out, err := cmd.CombinedOutput()
			code := 0
			if ee, ok := err.(*exec.ExitError); ok {
				code = ee.ExitCode()
			} else if err != nil {
				code = -1
			}
			switch code {
			case 1:
				// name the rules that fired
				rules := map[string]bool{}
				for _, l := range strings.Split(string(out), "\n") {
					if i := strings.Index(l, ": "+id+"."); i >= 0 && (strings.Contains(l, "violated") || strings.Contains(l, "undecided")) {
						f := strings.Fields(l[i+2:])
						if len(f) > 0 {
							rules[f[0]] = true
						}
					}
				}
				var rs []string
				for r := range rules {
					rs = append(rs, r)
				}
				sort.Strings(rs)
				lines = append(lines, name+": detected by "+strings.Join(rs, ", "))
			case 0:
				missed++
				lines = append(lines, name+": MISSED (the seeded fault applies to this tree and the rules of "+id+" stay silent)")
			default:
				lines = append(lines, fmt.Sprintf("%s: control run failed with exit code %d", name, code))
			}
		}()
	}
	return
}

func copyTree(src, dst string) error {
	return filepath.Walk(src, func(path string, info os.FileInfo, err error) error {
		if err != nil {
			return err
		}
		rel, _ := filepath.Rel(src, path)
		if rel == "." {
			return nil
		}
		if info.IsDir() {
			if info.Name() == ".git" {
				return filepath.SkipDir
			}
			return os.MkdirAll(filepath.Join(dst, rel), 0o755)
		}
		if !info.Mode().IsRegular() {
			return nil
		}
		in, err := os.Open(path)
		if err != nil {
			return err
		}
		defer in.Close()
		out, err := os.OpenFile(filepath.Join(dst, rel), os.O_CREATE|os.O_WRONLY|os.O_TRUNC, 0o644)
		if err != nil {
			return err
		}
		defer out.Close()
		_, err = io.Copy(out, in)
		return err
	})
}
