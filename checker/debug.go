package main

import (
	"fmt"

	"golang.org/x/tools/go/ssa"
)

func init() {
	register("DBG", &propSpec{level: "other", explanation: "debug", run: func(c *Ctx) {
		p := c.P
		for _, fn := range p.LibFuncs() {
			if outermost(fn).Package() != p.Sftp {
				continue
			}
			for _, typ := range []string{"sshFxpReadPacket", "sshFxpWritePacket"} {
				for _, a := range literalsOf(fn, typ) {
					fmt.Printf("%s %s in %s [%s]\n", typ, a.Name(), fnName(fn), p.Pos(a.Pos()))
					for _, f := range []string{"Offset", "Len", "Length", "Data", "Handle"} {
						if v := litField(a, f); v != nil {
							if isIntType(v.Type()) {
								fmt.Printf("   %s = %s\n", f, affineOf(v))
							} else {
								fmt.Printf("   %s : %s\n", f, valKey(v))
							}
						}
					}
				}
			}
			eachInstr(fn, func(in ssa.Instruction) {
				if phi, ok := in.(*ssa.Phi); ok && isIntType(phi.Type()) && isClientFile(fn) {
					ini, st := phiSteps(phi)
					fmt.Printf("   phi %s in %s: init=%v step=%v\n", valKey(phi), fnName(fn), ini, st)
				}
				if cc := callOf(in); cc != nil && (calleeName(cc) == "readChunkAt" || calleeName(cc) == "writeChunkAt") {
					fmt.Printf("call %s in %s: buf=%s off=%s\n", calleeName(cc), fnName(fn), valKey(cc.Args[2]), affineOf(cc.Args[3]))
				}
			})
		}
	}})
}

func isClientFile(fn *ssa.Function) bool {
	o := outermost(fn)
	return o.Signature.Recv() != nil && typeName(o.Signature.Recv().Type()) == "File"
}
