package main

import (
	"fmt"
	"go/constant"
	"go/types"

	"golang.org/x/tools/go/ssa"
)

// Shared facts about the packet manager's dispatcher, used by C02, C14, C16, C18.
type dispatcherFacts struct {
	workerChan *ssa.Function
	disp       *ssa.Function // the goroutine body ranging over pktChan
	sends      []*ssa.Send   // hand-offs in disp
	rwCell     ssa.Value     // allocation holding the read/write channel
	cmdCell    ssa.Value     // allocation holding the sequential channel
	pktVal     ssa.Value     // the interface value switched on (pkt.requestPacket)
}

func isWGCall(cc *ssa.CallCommon, meth string) bool {
	return methodCallOn(cc, "sync", "WaitGroup", meth)
}

// wgPath returns the access path of the WaitGroup a Wait/Add/Done call is applied to.
func wgPath(cc *ssa.CallCommon) string {
	r := recvOf(cc)
	if r == nil {
		return ""
	}
	_, p := accessPath(r)
	return p
}

func getDispatcher(c *Ctx, rule string) *dispatcherFacts {
	p := c.P
	wc := p.Func("(*packetManager).workerChan")
	if wc == nil {
		c.missing(rule, "(*packetManager).workerChan")
		return nil
	}
	c.looked(fnName(wc))
	d := &dispatcherFacts{workerChan: wc}
	var gos []*ssa.Go
	eachInstr(wc, func(in ssa.Instruction) {
		if g, ok := in.(*ssa.Go); ok {
			gos = append(gos, g)
		}
	})
	if len(gos) != 1 {
		c.bad(rule, "workerChan go-statements", p.Pos(wc.Pos()), fmt.Sprintf("expected exactly one dispatcher goroutine, found %d", len(gos)))
		return nil
	}
	mc, ok := gos[0].Call.Value.(*ssa.MakeClosure)
	if !ok {
		c.und(rule, "workerChan dispatcher", p.Pos(gos[0].Pos()), "dispatcher is not a closure literal; shape not understood")
		return nil
	}
	d.disp = mc.Fn.(*ssa.Function)
	c.looked(fnName(d.disp))
	eachInstr(d.disp, func(in ssa.Instruction) {
		if s, ok := in.(*ssa.Send); ok {
			d.sends = append(d.sends, s)
		}
		if ta, ok := in.(*ssa.TypeAssert); ok && ta.CommaOk && d.pktVal == nil {
			d.pktVal = ta.X
		}
	})
	return d
}

// caseRecognises: a case of a type switch picks out packets of the named type — it names the type itself, or an
// interface of the module that the type implements and the `other` type does not (a marker interface that groups the
// packet types the dispatcher treats alike).
func caseRecognises(p *Program, asserted types.Type, name, other string) bool {
	if isPtrToNamed(asserted, name) {
		return true
	}
	it, ok := asserted.Underlying().(*types.Interface)
	if !ok {
		return false
	}
	n := namedOf(asserted)
	if n == nil || n.Obj().Pkg() == nil || n.Obj().Pkg().Path() != pkgSftp {
		return false
	}
	t, o := p.NamedType(p.Sftp, name), p.NamedType(p.Sftp, other)
	if t == nil || o == nil {
		return false
	}
	return types.Implements(types.NewPointer(t), it) && !types.Implements(types.NewPointer(o), it)
}

func isPtrToNamed(t types.Type, name string) bool {
	p, ok := t.(*types.Pointer)
	if !ok {
		return false
	}
	n, ok := p.Elem().(*types.Named)
	return ok && n.Obj().Name() == name && n.Obj().Pkg() != nil && n.Obj().Pkg().Path() == pkgSftp
}

func init() {
	register("C14", &propSpec{
		level: "proof",
		explanation: "Happens-before chain from every read/write handler call to the close of its backing object, decided link by link on the SSA control-flow graphs of the dispatcher, incomingPacket, readyPacket and both worker functions: " +
			"single FIFO dispatcher; WaitGroup.Add before the hand-off of a READ/WRITE; WaitGroup.Wait before a CLOSE is registered or handed off, on every path; Done only in readyPacket after the response was queued and after every backing-object call of that request; backing objects closed only by the CLOSE branch or by the end-of-Serve sweep after all workers were joined; CLOSE handled by the single sequential worker.",
		run: runC14,
		trusted: []string{
			"Go memory model: channel send/receive and sync.WaitGroup Add/Done/Wait establish happens-before",
			"go/ssa control-flow graphs and dominator tree (x/tools v0.50.0)",
			"static call resolution inside the module; handlers return only after their I/O is complete (the property's own premise)",
		},
		assumptions: []string{"user handlers' ReadAt/WriteAt return only when the operation is complete"},
	})
}

func runC14(c *Ctx) {
	p := c.P
	checkWrapperNotTakenForPacket(c, "R8")
	checkHandleValidityFromTable(c, "R7")
	// R9 (shared with C01.R6 / C18.R1): with the allocator the page that holds a pipelined WRITE's data is filed under
	// that request's order id — filed under its predecessor's, it is recycled when the predecessor is answered and a
	// later packet overwrites the bytes the slower WRITE is still to store
	checkPageTagging(c, "R9")
	checkHandleObjectsClosedOnlyByClose(c, "R10")
	checkWorkersAccountedFor(c, "R11")
	// R12 (shared with C18.R3): the pages of a READ's reply are released after the reply was written
	c.withOnly("R3", "R12", func() { runC18(c) })
	d := getDispatcher(c, "R1")
	if d == nil {
		return
	}
	disp := d.disp
	pos := func(in ssa.Instruction) string { return p.Pos(in.Pos()) }

	incoming := p.Func("(*packetManager).incomingPacket")
	ready := p.Func("(*packetManager).readyPacket")
	if incoming == nil {
		c.missing("R2", "(*packetManager).incomingPacket")
		return
	}
	if ready == nil {
		c.missing("R4", "(*packetManager).readyPacket")
		return
	}
	c.looked(fnName(incoming))
	c.looked(fnName(ready))

	// ---- R1: one dispatcher ranging one channel fed only by the receive loops ----
	{
		// the dispatcher's loop receives from exactly one channel
		var recvs []ssa.Instruction
		eachInstr(disp, func(in ssa.Instruction) {
			if u, ok := in.(*ssa.UnOp); ok && u.Op.String() == "<-" {
				recvs = append(recvs, in)
			}
			if _, ok := in.(*ssa.Select); ok {
				recvs = append(recvs, in)
			}
		})
		c.check(len(recvs) == 1 && inLoop(recvs[0]), "R1", "dispatcher receive", p.Pos(disp.Pos()),
			"dispatcher receives from a single channel in its loop", fmt.Sprintf("dispatcher has %d receive/select sites; FIFO argument needs exactly one in the loop", len(recvs)))
		// senders of orderedRequest channels in the library
		allowed := map[string]bool{fnName(disp): true, "(*Server).Serve": true, "(*RequestServer).serveLoop": true}
		n := 0
		for _, fn := range p.LibFuncs() {
			eachInstr(fn, func(in ssa.Instruction) {
				s, ok := in.(*ssa.Send)
				if !ok {
					return
				}
				ch, ok := s.Chan.Type().Underlying().(*types.Chan)
				if !ok || typeName(ch.Elem()) != "orderedRequest" {
					return
				}
				n++
				c.check(allowed[fnName(fn)], "R1", "send orderedRequest in "+fnName(fn), pos(in),
					"request hand-off happens in the single receive loop or the dispatcher", "request is sent to a worker channel from "+fnName(fn)+", outside the single-threaded receive/dispatch chain: arrival order is no longer preserved")
			})
		}
		c.floor("R1", 5)
	}

	// ---- R2: Add before the hand-off; incomingPacket only called by the dispatcher ----
	isIncoming := func(in ssa.Instruction) bool {
		cc := callOf(in)
		return cc != nil && cc.StaticCallee() == incoming
	}
	for i, s := range d.sends {
		key := fmt.Sprintf("dispatcher hand-off #%d", i+1)
		okDom := false
		for _, in := range findInstrs(disp, isIncoming) {
			if dominates(in, s) && inLoop(in) {
				if _, isCall := in.(*ssa.Call); isCall {
					okDom = true
				}
			}
		}
		c.check(okDom, "R2", key, pos(s), "incomingPacket (working.Add) precedes the hand-off on every path",
			"a request is handed to a worker on a path that has not registered it with incomingPacket (working.Add): a later CLOSE's Wait cannot see it")
	}
	for _, in := range p.callersOfStatic(incoming) {
		c.check(in.Parent() == disp, "R2", "caller of incomingPacket: "+fnName(in.Parent()), pos(in),
			"incomingPacket is called from the dispatcher only, so Add never races Wait", "incomingPacket called outside the dispatcher goroutine: Add may race the dispatcher's Wait")
	}
	for _, in := range p.refsAsValue(incoming) {
		c.bad("R2", "incomingPacket used as value in "+fnName(in.Parent()), pos(in), "callers can no longer be enumerated")
	}
	{
		// inside incomingPacket: Add(1) on s.working precedes the send on s.requests
		var add, snd ssa.Instruction
		eachInstr(incoming, func(in ssa.Instruction) {
			if cc := callOf(in); cc != nil && isWGCall(cc, "Add") && wgPath(cc) == "working" {
				if _, ok := in.(*ssa.Call); ok {
					add = in
				}
			}
			if s, ok := in.(*ssa.Send); ok {
				snd = s
			}
		})
		// … and before anything else that hands the packet on: a select with the send in an arm, a goroutine that does
		// the registration later — and on every path (the count must be there when the dispatcher's Wait looks)
		early := add != nil
		if add != nil {
			eachInstr(incoming, func(in ssa.Instruction) {
				switch in.(type) {
				case *ssa.Select, *ssa.Go, *ssa.Send:
					if !dominates(add, in) {
						early = false
					}
				case *ssa.Return:
					if isReturn(in) && !dominates(add, in) {
						early = false
					}
				}
			})
			for _, a := range incoming.AnonFuncs {
				eachInstr(a, func(in ssa.Instruction) {
					if cc := callOf(in); cc != nil && isWGCall(cc, "Add") {
						early = false // the count is raised by a goroutine, some time later
					}
				})
			}
		}
		c.check(add != nil && early && (snd == nil || dominates(add, snd)), "R2", "incomingPacket Add", p.Pos(incoming.Pos()),
			"working.Add precedes the registration send", "incomingPacket does not call working.Add before everything else")
		if add != nil {
			if v, ok := constInt(argsOf(callOf(add))[0]); !ok || v != 1 {
				c.bad("R2", "incomingPacket Add delta", pos(add), "working.Add is not Add(1): Done in readyPacket no longer balances it")
			}
		}
	}
	c.floor("R2", 4)

	// ---- R3: Wait precedes registration and hand-off of a CLOSE ----
	{
		var closeCases []typeCase
		if d.pktVal != nil {
			for _, tc := range typeCasesOn(disp, d.pktVal) {
				if caseRecognises(p, tc.Asserted, "sshFxpClosePacket", "sshFxpReadPacket") {
					closeCases = append(closeCases, tc)
				}
			}
		}
		if len(closeCases) == 0 {
			c.bad("R3", "dispatcher CLOSE case", p.Pos(disp.Pos()), "the dispatcher has no branch that recognises *sshFxpClosePacket: nothing waits for pending reads/writes before a close")
		}
		isWait := func(in ssa.Instruction) bool {
			cc := callOf(in)
			if cc == nil {
				return false
			}
			if _, ok := in.(*ssa.Call); !ok {
				return false
			}
			return isWGCall(cc, "Wait") && wgPath(cc) == "working"
		}
		for _, tc := range closeCases {
			tgt := func(in ssa.Instruction) bool {
				if isIncoming(in) {
					return true
				}
				_, ok := in.(*ssa.Send)
				return ok
			}
			var escapes bool
			if tc.Body == nil {
				// the case has no branch of its own (empty body): continue from the assertion
				escapes = reachAvoiding(disp, tc.TA, tgt, isWait)
			} else {
				escapes = reachFromBlock(tc.Body, tgt, isWait)
			}
			c.check(!escapes, "R3", "dispatcher CLOSE case", pos(tc.TA),
				"on every path of the CLOSE branch working.Wait() runs before incomingPacket and the hand-off",
				"a path of the CLOSE branch reaches incomingPacket or the hand-off without working.Wait(): the file can be closed while earlier reads/writes are still running")
		}
	}

	// ---- R4: Done only in readyPacket, after the response is queued; handler calls precede readyPacket ----
	{
		n := 0
		for _, fn := range p.LibFuncs() {
			eachInstr(fn, func(in ssa.Instruction) {
				cc := callOf(in)
				if cc == nil || !isWGCall(cc, "Done") || wgPath(cc) != "working" {
					return
				}
				n++
				c.check(fn == ready, "R4", "working.Done in "+fnName(fn), pos(in), "Done is called by readyPacket only", "working.Done called outside readyPacket: Wait may return before the request's handler has finished")
			})
		}
		if n == 0 {
			c.bad("R4", "working.Done", p.Pos(ready.Pos()), "no working.Done found")
		}
		var snd, done ssa.Instruction
		eachInstr(ready, func(in ssa.Instruction) {
			if s, ok := in.(*ssa.Send); ok {
				snd = s
			}
			if cc := callOf(in); cc != nil && isWGCall(cc, "Done") {
				done = in
			}
		})
		if snd != nil && done != nil {
			_, plain := done.(*ssa.Call)
			c.check(plain && dominates(snd, done), "R4", "readyPacket order", pos(done), "response is queued before Done", "working.Done runs before the response is queued (or is deferred/asynchronous)")
		} else {
			c.bad("R4", "readyPacket order", p.Pos(ready.Pos()), "readyPacket lacks the send to responses or the Done")
		}

		// backing-object calls: ReadAt/WriteAt on interfaces, and handler interface methods
		backing := func(fn *ssa.Function, in ssa.Instruction) bool {
			cc := callOf(in)
			if cc == nil || !cc.IsInvoke() {
				return false
			}
			switch cc.Method.Name() {
			case "ReadAt", "WriteAt":
				return true
			}
			return false
		}
		reach := p.reachSet(backing)
		isReady := func(in ssa.Instruction) bool {
			cc := callOf(in)
			return cc != nil && cc.StaticCallee() == ready
		}
		mayBack := func(in ssa.Instruction) bool {
			cc := callOf(in)
			if cc == nil {
				return false
			}
			if backing(nil, in) {
				return true
			}
			if f := cc.StaticCallee(); f != nil && reach[f] {
				return true
			}
			if mc, ok := cc.Value.(*ssa.MakeClosure); ok && reach[mc.Fn.(*ssa.Function)] {
				return true
			}
			return false
		}
		for _, name := range []string{"handlePacket", "(*RequestServer).packetWorker", "(*Server).sftpServerWorker"} {
			fn := p.Func(name)
			if fn == nil {
				c.missing("R4", name)
				continue
			}
			c.looked(name)
			loops := loopsOf(fn)
			for _, rc := range findInstrs(fn, isReady) {
				// after readyPacket, until the loop head (or return), no backing call may run
				var head *ssa.BasicBlock
				if l := innermostLoop(loops, rc.Block()); l != nil {
					head = l.head
				}
				leak := reachAvoiding(fn, rc, mayBack, func(in ssa.Instruction) bool {
					return head != nil && in.Block() == head && idxIn(in) == 0
				})
				c.check(!leak, "R4", "after readyPacket in "+name, pos(rc), "no backing-object call can run after this request's readyPacket",
					"a read/write on the backing object is reachable after readyPacket (Done) of the same request")
			}
		}
		wk := []*ssa.Function{}
		for _, name := range []string{"handlePacket", "(*RequestServer).packetWorker"} {
			if f := p.Func(name); f != nil {
				wk = append(wk, f)
			}
		}
		for fn := range p.cone(wk...) {
			eachInstr(fn, func(in ssa.Instruction) {
				if g, ok := in.(*ssa.Go); ok && mayBack(g) {
					c.bad("R4", "go with backing call in "+fnName(fn), pos(in), "a backing-object operation is started in a goroutine: it may outlive readyPacket")
				}
			})
		}
		c.floor("R4", 5)
	}

	// ---- R5: backing objects are closed only by the CLOSE branch or by the end sweep after the join ----
	checkCloseSites(c, "R5")

	// ---- R6: CLOSE (and every non-READ/WRITE) goes to the single sequential worker ----
	{
		wc := d.workerChan
		// classify hand-offs: those in the READ/WRITE branch vs the rest
		var rwBodies []*ssa.BasicBlock
		if d.pktVal != nil {
			for _, tc := range typeCasesOn(disp, d.pktVal) {
				if caseRecognises(p, tc.Asserted, "sshFxpReadPacket", "sshFxpClosePacket") || caseRecognises(p, tc.Asserted, "sshFxpWritePacket", "sshFxpClosePacket") {
					if tc.Body != nil {
						rwBodies = append(rwBodies, tc.Body)
					}
				}
			}
		}
		// a hand-off belongs to the READ/WRITE branch when it is reached from those arms of the switch on the packet
		// type and from no other arm (nor from the fall-through): decided on paths, so that it makes no difference
		// whether the send stands in the arm or behind a mode variable the arm sets
		var otherStarts []*ssa.BasicBlock
		if d.pktVal != nil {
			for _, tc := range typeCasesOn(disp, d.pktVal) {
				if tc.Body != nil && !(caseRecognises(p, tc.Asserted, "sshFxpReadPacket", "sshFxpClosePacket") || caseRecognises(p, tc.Asserted, "sshFxpWritePacket", "sshFxpClosePacket")) {
					otherStarts = append(otherStarts, tc.Body)
				}
			}
			if head := switchHead(disp, d.pktVal); head != nil {
				if st := p.NamedType(p.Sftp, "sshFxpStatPacket"); st != nil {
					if body, isDefault, _ := simulate(head, newPtr(st)); body != nil && isDefault {
						otherStarts = append(otherStarts, body)
					}
				}
			}
		}
		var loopHead func(ssa.Instruction) bool
		if ls := rangeChanLoops(disp); len(ls) == 1 {
			loopHead = isLoopHeadStart(ls[0])
		}
		inRWSend := func(s ssa.Instruction) bool {
			isS := func(in ssa.Instruction) bool { return in == s }
			from := func(starts []*ssa.BasicBlock) bool {
				for _, h := range starts {
					if reachFromBlock(h, isS, loopHead) {
						return true
					}
				}
				return false
			}
			return from(rwBodies) && !from(otherStarts)
		}
		inRW := func(b *ssa.BasicBlock) bool {
			for _, in := range b.Instrs {
				if _, isSend := in.(*ssa.Send); isSend && inRWSend(in) {
					return true
				}
			}
			return false
		}
		// a channel is identified by the make(chan) it comes from, whatever holds it (a variable, a captured variable, a
		// field of a local struct)
		sameOrigin := func(a, b []*ssa.MakeChan) bool {
			if len(a) != len(b) || len(a) == 0 {
				return false
			}
			for i := range a {
				if a[i] != b[i] {
					return false
				}
			}
			return true
		}
		var rwOrg, cmdOrg []*ssa.MakeChan
		for i, s := range d.sends {
			org, okO := chanOrigins(s.Chan)
			if !okO || len(org) != 1 {
				c.und("R6", fmt.Sprintf("hand-off #%d channel", i+1), pos(s), "cannot resolve the channel variable")
				continue
			}
			if cell := cellOf(s.Chan); cell != nil {
				if inRW(s.Block()) {
					d.rwCell = cell
				} else {
					d.cmdCell = cell
				}
			}
			if inRW(s.Block()) {
				rwOrg = org
				continue
			}
			cmdOrg = org
			// count runWorker calls with this channel in workerChan
			var calls []ssa.Instruction
			eachInstr(wc, func(in ssa.Instruction) {
				cc := callOf(in)
				if cc == nil {
					return
				}
				if _, isParam := cc.Value.(*ssa.Parameter); !isParam {
					return
				}
				for _, a := range cc.Args {
					if ao, okA := chanOrigins(a); okA && sameOrigin(ao, org) {
						calls = append(calls, in)
					}
				}
			})
			okOne := len(calls) == 1 && !inLoop(calls[0]) && !inLoop(org[0])
			c.check(okOne, "R6", fmt.Sprintf("sequential channel of hand-off #%d", i+1), pos(s),
				"the channel that carries CLOSE and all other commands is served by exactly one worker",
				fmt.Sprintf("the command channel is handed to runWorker %d times (or inside a loop): CLOSE and other commands no longer run sequentially", len(calls)))
		}
		if cmdOrg != nil && rwOrg != nil && sameOrigin(cmdOrg, rwOrg) {
			c.bad("R6", "command channel distinct", p.Pos(wc.Pos()), "CLOSE is handed to the same channel as READ/WRITE")
		}
		// runWorker closures start exactly one goroutine per call
		for _, name := range []string{"(*Server).Serve", "(*RequestServer).Serve"} {
			fn := p.Func(name)
			if fn == nil {
				c.missing("R6", name)
				continue
			}
			c.looked(name)
			for _, call := range callsWhere(fn, func(cc *ssa.CallCommon) bool { return cc.StaticCallee() == wc }) {
				arg := argsOf(callOf(call))[0]
				var rw *ssa.Function
				switch a := arg.(type) {
				case *ssa.MakeClosure:
					rw = a.Fn.(*ssa.Function)
				case *ssa.UnOp:
					if cell := cellOf(a); cell != nil {
						for _, st := range storesTo(fn, cell) {
							if mc, ok := st.Val.(*ssa.MakeClosure); ok {
								rw = mc.Fn.(*ssa.Function)
							}
						}
					}
				}
				if rw == nil {
					c.und("R6", "runWorker of "+name, pos(call), "cannot resolve the runWorker closure")
					continue
				}
				gos := findInstrs(rw, func(in ssa.Instruction) bool { _, ok := in.(*ssa.Go); return ok })
				c.check(len(gos) == 1 && !inLoop(gos[0]), "R6", "runWorker of "+name, pos(call),
					"runWorker starts exactly one worker goroutine per channel", fmt.Sprintf("runWorker starts %d goroutines per call", len(gos)))
			}
		}
		c.floor("R6", 3)
	}
}

// isServerSide: functions of the server halves (not client.go's map/reduce goroutines).
func isServerSide(fn *ssa.Function) bool {
	o := outermost(fn)
	if o.Signature.Recv() != nil {
		switch typeName(o.Signature.Recv().Type()) {
		case "File", "Client", "clientConn":
			return false
		}
	}
	return true
}

// checkCloseSites enforces who may close backing objects (shared by C11.R4 and C14.R5).
func checkCloseSites(c *Ctx, rule string) {
	p := c.P
	pos := func(in ssa.Instruction) string { return p.Pos(in.Pos()) }
	closeHandle := p.Func("(*Server).closeHandle")
	closeRequest := p.Func("(*RequestServer).closeRequest")
	reqClose := p.Func("(*Request).close")
	serve := p.Func("(*Server).Serve")
	rsServe := p.Func("(*RequestServer).Serve")
	handle := p.Func("handlePacket")
	worker := p.Func("(*RequestServer).packetWorker")
	for n, f := range map[string]*ssa.Function{"(*Server).closeHandle": closeHandle, "(*RequestServer).closeRequest": closeRequest, "(*Request).close": reqClose,
		"(*Server).Serve": serve, "(*RequestServer).Serve": rsServe, "handlePacket": handle, "(*RequestServer).packetWorker": worker} {
		if f == nil {
			c.missing(rule, n)
			return
		}
		c.looked(n)
	}
	inCase := func(fn *ssa.Function, in ssa.Instruction, names ...string) bool {
		ok := false
		eachInstr(fn, func(x ssa.Instruction) {
			ta, isTA := x.(*ssa.TypeAssert)
			if !isTA || !ta.CommaOk {
				return
			}
			for _, n := range names {
				if isPtrToNamed(ta.AssertedType, n) {
					for _, tc := range typeCasesOn(fn, ta.X) {
						if tc.TA == ta && tc.Body != nil && tc.Body.Dominates(in.Block()) {
							ok = true
						}
					}
				}
			}
		})
		return ok
	}
	isWGWait := func(in ssa.Instruction) bool {
		cc := callOf(in)
		if cc == nil {
			return false
		}
		_, plain := in.(*ssa.Call)
		return plain && isWGCall(cc, "Wait")
	}
	afterJoin := func(fn *ssa.Function, in ssa.Instruction) bool {
		for _, w := range findInstrs(fn, isWGWait) {
			if dominates(w, in) {
				return true
			}
		}
		return false
	}
	// closeHandle: only from handlePacket's CLOSE case
	for _, in := range p.callersOfStatic(closeHandle) {
		c.check(in.Parent() == handle && inCase(handle, in, "sshFxpClosePacket"), rule, "caller of closeHandle: "+fnName(in.Parent()), pos(in),
			"closeHandle is reached only from the CLOSE case", "closeHandle is called outside the CLOSE case of handlePacket: a file can be closed while pipelined reads/writes are pending")
	}
	// closeRequest: CLOSE case, or cleanup of a handle created in the same OPEN/OPENDIR case
	for _, in := range p.callersOfStatic(closeRequest) {
		ok := in.Parent() == worker && inCase(worker, in, "sshFxpClosePacket", "sshFxpOpenPacket", "sshFxpOpendirPacket")
		c.check(ok, rule, "caller of closeRequest: "+fnName(in.Parent()), pos(in),
			"closeRequest is reached only from the CLOSE case or the failed-open cleanup", "closeRequest is called from a branch that is neither CLOSE nor the cleanup of a failed open")
	}
	// Request.close: closeRequest, the RequestServer.Serve sweep after the join, or a never-registered request
	for _, in := range p.callersOfStatic(reqClose) {
		fn := in.Parent()
		switch {
		case fn == closeRequest:
			c.ok(rule, "caller of Request.close: closeRequest", pos(in), "close via the handle table")
		case fn == rsServe:
			c.check(afterJoin(fn, in), rule, "caller of Request.close: RequestServer.Serve sweep", pos(in),
				"the sweep closes requests only after wg.Wait() joined every worker", "the end sweep closes requests before all workers were joined")
		case fn == worker:
			// allowed only on a request that was not entered into the handle table on the way here
			recv := recvOf(callOf(in))
			fresh := false
			if call, ok := recv.(*ssa.Call); ok {
				if f := call.Call.StaticCallee(); f != nil && f.Name() == "requestFromPacket" {
					fresh = true
					for _, r := range *call.Referrers() {
						if p.publishesRequest(callOf(r)) != nil {
							// entered into the table on a path that leads to this close?
							// (within one iteration of the worker's loop: the next iteration has another request)
							nextIter := func(ssa.Instruction) bool { return false }
							if l := innermostLoop(loopsOf(fn), r.Block()); l != nil {
								nextIter = isLoopHeadStart(l)
							}
							if reachAvoiding(fn, r, func(x ssa.Instruction) bool { return x == in }, nextIter) {
								fresh = false
							}
						}
					}
				}
			}
			c.check(fresh, rule, "caller of Request.close: packetWorker path request", pos(in),
				"packetWorker closes only the per-request object that never received a handle", "packetWorker closes a request that is (or may be) registered in the handle table")
		default:
			c.bad(rule, "caller of Request.close: "+fnName(fn), pos(in), "Request.close called from an unexpected function")
		}
	}
	for _, f := range []*ssa.Function{closeHandle, closeRequest, reqClose} {
		for _, in := range p.refsAsValue(f) {
			c.bad(rule, "function value "+fnName(f)+" in "+fnName(in.Parent()), pos(in), "callers can no longer be enumerated")
		}
	}
	// Close on the `file` interface / *os.File typed values held in the handle table
	for _, fn := range p.LibFuncs() {
		if !isServerSide(fn) {
			continue
		}
		eachInstr(fn, func(in ssa.Instruction) {
			cc := callOf(in)
			if cc == nil || !cc.IsInvoke() || cc.Method.Name() != "Close" {
				return
			}
			if typeName(cc.Value.Type()) != "file" {
				return
			}
			switch fn {
			case closeHandle:
				c.ok(rule, "file.Close in closeHandle", pos(in), "close via the handle table")
			case serve:
				c.check(afterJoin(fn, in), rule, "file.Close in Server.Serve sweep", pos(in),
					"the sweep closes files only after wg.Wait() joined every worker", "the end sweep closes files before all workers were joined")
			default:
				c.bad(rule, "file.Close in "+fnName(fn), pos(in), "an open file is closed outside closeHandle and the end sweep")
			}
		})
	}
}

// checkHandleValidityFromTable (C14.R7, shared as C11.R12): whether a handle is valid is decided by the handle table
// alone, at the moment the request is executed.  A second source of "not found" (a set of handles marked while their
// CLOSE is still queued, say) refuses reads and writes that were sent before the CLOSE and have not run yet.
func checkHandleValidityFromTable(c *Ctx, rule string) {
	p := c.P
	for _, spec := range []struct{ fn, table string }{{"(*Server).getHandle", "openFiles"}, {"(*RequestServer).getRequest", "openRequests"}} {
		fn := p.Func(spec.fn)
		if fn == nil {
			c.missing(rule, spec.fn)
			continue
		}
		good := true
		why := ""
		for _, rl := range returnLeaves(fn, 1) {
			fromLookup := false
			if ex, ok := rl.v.(*ssa.Extract); ok && ex.Index == 1 {
				if lk, ok := ex.Tuple.(*ssa.Lookup); ok && lk.CommaOk {
					for _, l := range leavesOf(lk.X) {
						if l.Kind == leafFieldLoad && l.Field == spec.table {
							fromLookup = true
						}
					}
				}
			}
			// explicit `return nil, false` / `return f, true` under the lookup's own ok is the same answer
			if k, isK := rl.v.(*ssa.Const); isK && !fromLookup && k.Value != nil {
				for cv, truth := range edgeConds(rl.block, rl.pred) {
					ex, ok := cv.(*ssa.Extract)
					if !ok || ex.Index != 1 {
						continue
					}
					if lk, ok := ex.Tuple.(*ssa.Lookup); ok && lk.CommaOk && constant.BoolVal(k.Value) == truth {
						for _, l := range leavesOf(lk.X) {
							if l.Kind == leafFieldLoad && l.Field == spec.table {
								fromLookup = true
							}
						}
					}
				}
			}
			if !fromLookup {
				good = false
				why = rl.v.String()
			}
		}
		c.check(good, rule, spec.fn+" answers from the handle table alone", p.Pos(fn.Pos()), "found == the table lookup's ok",
			spec.fn+" can report a handle as not found for a reason other than the table lookup ("+why+"): requests that were sent before the handle's CLOSE and are still queued are refused with EBADF")
	}
}

// checkWorkersAccountedFor (C14.R11 / C07.R19 / C11.R16): Serve joins its workers with wg.Wait() before it sweeps the
// handle table.  That join waits for a worker only if the goroutine that runs the worker loop is the one that calls
// wg.Done — deferred, inside the goroutine — and wg.Add(1) comes before the go statement.  With Done deferred in the
// function that merely starts the goroutine, Wait returns at once: the sweep closes files under the queued reads and
// writes, and a CLOSE sent behind them finds its handle gone.
func checkWorkersAccountedFor(c *Ctx, rule string) {
	p := c.P
	n := 0
	for _, spec := range []struct{ serve, worker string }{
		{"(*Server).Serve", "(*Server).sftpServerWorker"},
		{"(*RequestServer).Serve", "(*RequestServer).packetWorker"},
	} {
		serve, worker := p.Func(spec.serve), p.Func(spec.worker)
		if serve == nil || worker == nil {
			c.missing(rule, spec.serve+" / "+spec.worker)
			continue
		}
		// the goroutine bodies that run the worker loop: functions under Serve that call the worker
		var all []*ssa.Function
		var collect func(f *ssa.Function)
		collect = func(f *ssa.Function) {
			all = append(all, f)
			for _, a := range f.AnonFuncs {
				collect(a)
			}
		}
		collect(serve)
		for _, f := range all {
			calls := false
			eachInstr(f, func(in ssa.Instruction) {
				if cc := callOf(in); cc != nil && cc.StaticCallee() == worker {
					calls = true
				}
			})
			if !calls {
				continue
			}
			n++
			// the goroutine that runs it: f itself, or the function that calls f through the function value it was
			// handed (a starter helper that takes the worker loop as a parameter)
			for hop := 0; hop < 2; hop++ {
				launched := false
				if f.Parent() != nil {
					eachInstr(f.Parent(), func(in ssa.Instruction) {
						if g, ok := in.(*ssa.Go); ok {
							if mc, ok := g.Call.Value.(*ssa.MakeClosure); ok && mc.Fn == ssa.Value(f) {
								launched = true
							}
						}
					})
				}
				if launched {
					break
				}
				var caller *ssa.Function
				if node := p.VTA().Nodes[f]; node != nil {
					for _, e := range node.In {
						for _, g := range all {
							if e.Caller.Func == g && g != f {
								caller = g
							}
						}
					}
				}
				if caller == nil {
					break
				}
				f = caller
			}
			// f runs as a goroutine
			var goIn ssa.Instruction
			if f.Parent() != nil {
				eachInstr(f.Parent(), func(in ssa.Instruction) {
					if g, ok := in.(*ssa.Go); ok {
						if mc, ok := g.Call.Value.(*ssa.MakeClosure); ok && mc.Fn == ssa.Value(f) {
							goIn = in
						}
					}
				})
			}
			doneInside := false
			eachInstr(f, func(in ssa.Instruction) {
				if d, ok := in.(*ssa.Defer); ok && isWGCall(&d.Call, "Done") {
					doneInside = true
				}
			})
			addBefore := false
			if goIn != nil {
				eachInstr(f.Parent(), func(in ssa.Instruction) {
					if cc := callOf(in); cc != nil && isWGCall(cc, "Add") {
						if _, plain := in.(*ssa.Call); plain && dominates(in, goIn) {
							addBefore = true
						}
					}
				})
			}
			c.check(goIn != nil && doneInside && addBefore, rule, "the goroutine of "+spec.worker+" is counted by the WaitGroup", p.Pos(f.Pos()), "wg.Add(1); go func() { defer wg.Done(); worker }()",
				"the goroutine that runs "+spec.worker+" is not the one that calls wg.Done (or wg.Add does not precede its start): Serve's wg.Wait() does not wait for the worker, the end sweep closes files while requests sent before are still being served")
		}
	}
	c.check(n >= 2, rule, "worker goroutines", "?", fmt.Sprintf("%d goroutine bodies", n), fmt.Sprintf("only %d goroutine bodies calling the worker loops found under the two Serve functions", n))
}
