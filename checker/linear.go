package main

import (
	"fmt"
	"sort"
	"strings"
)

// Engine Z, part 1: linear integer facts and a Fourier–Motzkin refutation prover.
// A lin L stands for the constraint  Σ coef·var + c ≤ 0.

type lin struct {
	coef map[string]int64
	c    int64
}

func newLin() lin { return lin{coef: map[string]int64{}} }

func linConst(c int64) lin { l := newLin(); l.c = c; return l }

func linVar(v string) lin { l := newLin(); l.coef[v] = 1; return l }

func (a lin) clone() lin {
	r := newLin()
	for k, v := range a.coef {
		r.coef[k] = v
	}
	r.c = a.c
	return r
}

func (a lin) plus(b lin, k int64) lin {
	r := a.clone()
	for v, c := range b.coef {
		r.coef[v] += k * c
		if r.coef[v] == 0 {
			delete(r.coef, v)
		}
	}
	r.c += k * b.c
	return r
}

func (a lin) scale(k int64) lin { return newLin().plus(a, k) }

func (a lin) String() string {
	var ks []string
	for k := range a.coef {
		ks = append(ks, k)
	}
	sort.Strings(ks)
	var parts []string
	for _, k := range ks {
		parts = append(parts, fmt.Sprintf("%+d·%s", a.coef[k], k))
	}
	parts = append(parts, fmt.Sprintf("%+d", a.c))
	return strings.Join(parts, " ") + " ≤ 0"
}

func (a lin) isConst() bool { return len(a.coef) == 0 }

// leq builds x - y + k ≤ 0, i.e. x + k ≤ y.
func leq(x, y lin, k int64) lin { r := x.plus(y, -1); r.c += k; return r }

func gcd(a, b int64) int64 {
	if a < 0 {
		a = -a
	}
	if b < 0 {
		b = -b
	}
	for b != 0 {
		a, b = b, a%b
	}
	return a
}

func (a lin) normalize() lin {
	g := int64(0)
	for _, v := range a.coef {
		g = gcd(g, v)
	}
	if g > 1 {
		r := newLin()
		for k, v := range a.coef {
			r.coef[k] = v / g
		}
		// integer tightening: Σ(g·a_i x_i) + c ≤ 0  ⇒  Σ a_i x_i + ceil(c/g) ≤ 0
		c := a.c
		q := c / g
		if c%g != 0 && c > 0 {
			q++
		}
		r.c = q
		return r
	}
	return a
}

func (a lin) key() string {
	var ks []string
	for k := range a.coef {
		ks = append(ks, k)
	}
	sort.Strings(ks)
	var sb strings.Builder
	for _, k := range ks {
		fmt.Fprintf(&sb, "%d*%s,", a.coef[k], k)
	}
	return sb.String()
}

// infeasible reports whether the conjunction of the constraints has no rational
// (hence no integer) solution, by Fourier–Motzkin elimination. It gives up (false)
// when the system grows beyond a bound.
func infeasible(cs []lin) bool {
	// dedupe, keep the tightest constant per coefficient vector
	best := map[string]lin{}
	for _, c := range cs {
		c = c.normalize()
		k := c.key()
		if o, ok := best[k]; !ok || c.c > o.c {
			best[k] = c
		}
	}
	var sys []lin
	for _, c := range best {
		sys = append(sys, c)
	}
	for iter := 0; iter < 64; iter++ {
		// contradiction among constants?
		vars := map[string][2]int{}
		for _, c := range sys {
			if c.isConst() {
				if c.c > 0 {
					return true
				}
				continue
			}
			for v, k := range c.coef {
				e := vars[v]
				if k > 0 {
					e[0]++
				} else {
					e[1]++
				}
				vars[v] = e
			}
		}
		if len(vars) == 0 {
			return false
		}
		// pick the variable with the smallest product
		pick := ""
		bestCost := -1
		var names []string
		for v := range vars {
			names = append(names, v)
		}
		sort.Strings(names)
		for _, v := range names {
			e := vars[v]
			cost := e[0] * e[1]
			if bestCost < 0 || cost < bestCost {
				bestCost, pick = cost, v
			}
		}
		var pos, neg, rest []lin
		for _, c := range sys {
			k := c.coef[pick]
			switch {
			case k > 0:
				pos = append(pos, c)
			case k < 0:
				neg = append(neg, c)
			default:
				rest = append(rest, c)
			}
		}
		if len(pos)*len(neg) > 4000 {
			return false
		}
		next := map[string]lin{}
		add := func(c lin) {
			c = c.normalize()
			k := c.key()
			if o, ok := next[k]; !ok || c.c > o.c {
				next[k] = c
			}
		}
		for _, c := range rest {
			add(c)
		}
		for _, p := range pos {
			for _, n := range neg {
				a, b := p.coef[pick], -n.coef[pick]
				g := gcd(a, b)
				r := p.scale(b/g).plus(n, a/g)
				delete(r.coef, pick)
				add(r)
			}
		}
		sys = sys[:0]
		for _, c := range next {
			sys = append(sys, c)
		}
		if len(sys) > 6000 {
			return false
		}
	}
	return false
}

// entails: do the hypotheses imply goal (goal ≤ 0)? Refutes hyps ∧ (goal ≥ 1).
func entails(hyps []lin, goal lin) bool {
	neg := goal.scale(-1)
	neg.c += 1 // -goal + 1 ≤ 0  ⇔  goal ≥ 1
	// restrict to the hypotheses connected to the goal
	rel := map[string]bool{}
	for v := range goal.coef {
		rel[v] = true
	}
	used := make([]bool, len(hyps))
	for changed := true; changed; {
		changed = false
		for i, h := range hyps {
			if used[i] {
				continue
			}
			touch := false
			for v := range h.coef {
				if rel[v] {
					touch = true
				}
			}
			allNZ := len(h.coef) > 0
			for v := range h.coef {
				if !strings.HasPrefix(v, "nz:") {
					allNZ = false
				}
			}
			if touch || h.isConst() || allNZ {
				used[i] = true
				changed = true
				for v := range h.coef {
					rel[v] = true
				}
			}
		}
	}
	sys := []lin{neg}
	for i, h := range hyps {
		if used[i] {
			sys = append(sys, h)
		}
	}
	// 0/1 integer variables (wrap-around of sign conversions): split cases instead of relaxing them
	var ks []string
	seenK := map[string]bool{}
	for _, c := range sys {
		for v := range c.coef {
			if strings.HasPrefix(v, "k:") && !seenK[v] {
				seenK[v] = true
				ks = append(ks, v)
			}
		}
	}
	sort.Strings(ks)
	if len(ks) == 0 || len(ks) > 3 {
		return infeasible(sys)
	}
	for mask := 0; mask < 1<<uint(len(ks)); mask++ {
		var inst []lin
		for _, c := range sys {
			r := c.clone()
			for i, k := range ks {
				if co, ok := r.coef[k]; ok {
					if mask&(1<<uint(i)) != 0 {
						r.c += co
					}
					delete(r.coef, k)
				}
			}
			inst = append(inst, r)
		}
		if !infeasible(inst) {
			return false
		}
	}
	return true
}
