package main

import (
	"fmt"
	"go/token"
	"go/types"
	"strings"

	"golang.org/x/tools/go/ssa"
)

func init() {
	register("C03", &propSpec{
		level:       "other",
		explanation: "Reply routing decided structurally: every request literal handed to the connection carries an id obtained from the atomic counter in the same loop iteration and used for one packet only; frames are written by one function under the connection's write lock; a request is registered in the in-flight table (under its mutex) before it is sent and only sent if registration succeeded; the receiver routes a packet to the channel registered under the id decoded from that very packet and removes the entry; a result channel is taken from the pool per request and returned only after its result was consumed.",
		run:         runC03,
		assumptions: []string{"peers answer with ids of outstanding requests (a foreign id ends the session by design)", "fewer than 2^32 requests are issued while one request stays outstanding (the 32-bit id counter wraps; demonstrated only by fast-forwarding the counter)"},
	})
	register("C04", &propSpec{
		level:       "other",
		explanation: "Shape of the shutdown protocol, each item a necessary condition of 'every call fails, none hangs': the receiver goroutine broadcasts on every exit of recv and recv has no nil return; broadcastErr, under the table mutex, notifies every in-flight entry once, replaces it, stores the error and closes `closed` exactly once on every path; putChannel refuses registration after close with exactly one error result; send errors are delivered through the table (exactly-once by deletion); every result channel has capacity >= 1; recv closes the writer, Close waits for the receiver; in the four map/reduce transfers every goroutine's sends are cancellable or drained, work channels are closed by deferred calls, workers never leave their range loop, and `cancel` is closed at most once. Liveness in bounded time is not claimed.",
		run:         runC04,
		assumptions: []string{"closing the transport's writer makes a blocked Read on the reader return (true for ssh sessions and pipes)", "the optional ssh session Wait hook returns"},
	})
}

// clientSendSites: calls that put a request on the wire with an id.
func clientSendSites(p *Program) (sites []ssa.Instruction, pktArg map[ssa.Instruction]ssa.Value, chArg map[ssa.Instruction]ssa.Value) {
	sp := p.Func("(*clientConn).sendPacket")
	dr := p.Func("(*clientConn).dispatchRequest")
	pktArg = map[ssa.Instruction]ssa.Value{}
	chArg = map[ssa.Instruction]ssa.Value{}
	for _, fn := range p.LibFuncs() {
		if fn == sp || fn == dr {
			continue
		}
		eachInstr(fn, func(in ssa.Instruction) {
			cc := callOf(in)
			if cc == nil {
				return
			}
			switch cc.StaticCallee() {
			case sp:
				if sp == nil {
					return
				}
				sites = append(sites, in)
				pktArg[in] = cc.Args[3]
				chArg[in] = cc.Args[2]
			case dr:
				if dr == nil {
					return
				}
				sites = append(sites, in)
				pktArg[in] = cc.Args[2]
				chArg[in] = cc.Args[1]
			}
		})
	}
	return
}

func loopHeadOf(in ssa.Instruction) *ssa.BasicBlock {
	if l := innermostLoop(loopsOf(in.Parent()), in.Block()); l != nil {
		return l.head
	}
	return nil
}

// isAtomicAddOne: the call advances a 32-bit counter atomically by one: atomic.AddUint32(&x, 1) or (*atomic.Uint32).Add(&x, 1).
func isAtomicAddOne(cc *ssa.CallCommon) bool {
	if cc == nil {
		return false
	}
	if callIs(cc, "sync/atomic.AddUint32") && len(cc.Args) == 2 {
		k, ok := constInt(cc.Args[1])
		return ok && k == 1
	}
	if f := calleeFunc(cc); f != nil && f.Name() == "Add" && f.Pkg() != nil && f.Pkg().Path() == "sync/atomic" {
		args := argsOf(cc)
		if len(args) == 1 {
			k, ok := constInt(args[0])
			return ok && k == 1 && typeName(recvOf(cc).Type()) == "Uint32"
		}
	}
	return false
}

func runC03(c *Ctx) {
	p := c.P
	pos := func(in ssa.Instruction) string { return p.Pos(in.Pos()) }
	nextID := p.Func("(*Client).nextID")
	if nextID == nil {
		c.missing("R1", "(*Client).nextID")
		return
	}
	c.looked("(*Client).nextID")

	// ---------- R1 fresh ids ----------
	{
		// nextid is only touched by atomic.AddUint32 inside nextID
		accs := p.accessesOf("Client", "nextid")
		for _, a := range accs {
			if isFreshRoot(a.Root) {
				continue
			}
			good := a.Fn == nextID
			if good {
				good = false
				for _, r := range *a.In.(ssa.Value).Referrers() {
					if cc := callOf(r); isAtomicAddOne(cc) {
						good = true
					}
				}
			}
			c.check(good, "R1", "access to Client.nextid in "+fnName(a.Fn), pos(a.In), "counter only advanced atomically by one in nextID", "the id counter is accessed outside atomic.AddUint32(&c.nextid, 1): two goroutines can draw the same id")
		}
		if len(accs) == 0 {
			c.bad("R1", "Client.nextid", p.Pos(nextID.Pos()), "id counter field not found")
		}
		// nextID returns the result of the atomic add
		ret := false
		eachInstr(nextID, func(in ssa.Instruction) {
			if r, ok := in.(*ssa.Return); ok && isReturn(in) {
				for _, l := range leavesOf(r.Results[0]) {
					if l.Kind == leafCallResult && isAtomicAddOne(l.Call) {
						ret = true
					}
				}
			}
		})
		c.check(ret, "R1", "nextID returns the new counter value", p.Pos(nextID.Pos()), "returns atomic.AddUint32's result", "nextID does not return the value it just reserved")

		sites, pktArg, _ := clientSendSites(p)
		usedBy := map[ssa.Instruction][]ssa.Instruction{} // nextID call -> packet literals
		for _, s := range sites {
			key := "request id at " + fnName(s.Parent())
			mi, ok := pktArg[s].(*ssa.MakeInterface)
			if !ok {
				if _, isParam := pktArg[s].(*ssa.Parameter); isParam {
					continue // forwarding wrapper
				}
				c.und("R1", key, pos(s), "request argument is not a packet literal")
				continue
			}
			alloc, ok := mi.X.(*ssa.Alloc)
			if !ok {
				c.und("R1", key, pos(s), "request argument is not a packet literal")
				continue
			}
			var idStore *ssa.Store
			for _, r := range *alloc.Referrers() {
				if fa, ok := r.(*ssa.FieldAddr); ok {
					if _, n, _, _ := fieldOf(fa); n == "ID" {
						for _, rr := range *fa.Referrers() {
							if st, ok := rr.(*ssa.Store); ok {
								idStore = st
							}
						}
					}
				}
			}
			if idStore == nil {
				c.bad("R1", key, pos(s), "request literal does not set its ID: it is sent with id 0")
				continue
			}
			ls := leavesOf(idStore.Val)
			good := len(ls) > 0
			var src ssa.Instruction
			for _, l := range ls {
				if l.Kind == leafCallResult && l.Call.StaticCallee() == nextID {
					src = l.CallIn
				} else {
					good = false
				}
			}
			if !good || src == nil {
				c.bad("R1", key, pos(s), "request id does not come from nextID()")
				continue
			}
			fresh := src.Parent() == s.Parent() && loopHeadOf(src) == loopHeadOf(s)
			c.check(fresh, "R1", key, pos(s), "id drawn by nextID() in the same function and loop iteration", "the id is drawn outside the loop that sends the requests: several requests in flight share one id")
			usedBy[src] = append(usedBy[src], alloc)
		}
		for src, lits := range usedBy {
			uniq := map[ssa.Instruction]bool{}
			for _, l := range lits {
				uniq[l] = true
			}
			c.check(len(uniq) == 1, "R1", "one packet per nextID() in "+fnName(src.Parent()), pos(src), "each drawn id labels one request", "one nextID() result labels several request packets")
		}
		// … and every id that is drawn labels a request: an id drawn on the side (while the literal draws another one) is
		// what the reply is later compared with, and the comparison never holds
		for _, fn := range p.LibFuncs() {
			if outermost(fn).Package() != p.Sftp {
				continue
			}
			eachInstr(fn, func(in ssa.Instruction) {
				cc := callOf(in)
				if cc == nil || cc.StaticCallee() != nextID {
					return
				}
				if _, ok := usedBy[in]; ok {
					return
				}
				// handed on to a helper that builds the packet (a parameter named id of a function that is checked itself)
				c.check(false, "R1", "the id drawn in "+fnName(fn)+" labels a request", pos(in), "stored into the ID of a request literal", "an id is drawn with nextID() that no request packet carries (the packet draws another one): what the reply is checked against is not what was sent")
			})
		}
		c.floor("R1", 30)
	}

	// ---------- R2 one contiguous frame ----------
	{
		pkgSend := p.Func("sendPacket")
		connSend := p.Func("(*conn).sendPacket")
		if pkgSend == nil || connSend == nil {
			c.missing("R2", "sendPacket / (*conn).sendPacket")
		} else {
			c.looked("sendPacket")
			for _, in := range p.callersOfStatic(pkgSend) {
				good := in.Parent() == connSend && heldAt(in, connSend.Params[0], "conn.Mutex") == "Lock"
				c.check(good, "R2", "caller of sendPacket(w,m): "+fnName(in.Parent()), pos(in), "frames are written by conn.sendPacket under conn's mutex", "a frame is written without holding the connection's write mutex: header and payload of concurrent requests can interleave")
			}
			for _, in := range p.refsAsValue(pkgSend) {
				c.bad("R2", "sendPacket used as value in "+fnName(in.Parent()), pos(in), "callers cannot be enumerated")
			}
			// Write calls on the connection: only inside sendPacket(w, m)
			n, nConn := 0, 0
			for _, fn := range p.LibFuncs() {
				if outermost(fn).Package() != p.Sftp {
					continue
				}
				eachInstr(fn, func(in ssa.Instruction) {
					cc := callOf(in)
					if cc == nil || !cc.IsInvoke() || cc.Method.Name() != "Write" {
						return
					}
					// the receiver must not be the connection unless we are in sendPacket
					conny := false
					for _, l := range leavesOf(cc.Value) {
						if l.Kind == leafFieldLoad && (l.Field == "WriteCloser" || l.Field == "conn") {
							conny = true
						}
						if l.Kind == leafParam && (typeName(l.Param.Type()) == "conn" || typeName(l.Param.Type()) == "clientConn") {
							conny = true
						}
					}
					if fn == pkgSend {
						n++
						c.ok("R2", "Write in sendPacket", pos(in), "frame bytes written by the framing function")
						return
					}
					// conn.sendPacket writing the frame itself (the framing function folded into it): under its mutex
					if fn == connSend && conny {
						nConn++
						c.check(heldAt(in, connSend.Params[0], "conn.Mutex") == "Lock", "R2", "Write in (*conn).sendPacket", pos(in), "frame bytes written under conn's mutex",
							"a frame is written without holding the connection's write mutex: header and payload of concurrent requests can interleave")
						return
					}
					if conny {
						// a writer type wrapped round the connection: its Write is part of the framing function when
						// the framing function is its only caller (resolved on the VTA call graph)
						only, callers := true, 0
						var visit func(f *ssa.Function, d int)
						visit = func(f *ssa.Function, d int) {
							node := p.VTA().Nodes[f]
							if node == nil || d > 3 {
								return
							}
							for _, e := range node.In {
								cf := e.Caller.Func
								if cf.Synthetic != "" && cf != pkgSend {
									visit(cf, d+1) // pointer-receiver and bound-method wrappers
									continue
								}
								if cf != pkgSend && cf.Name() == "Write" && cf.Signature.Recv() != nil {
									visit(cf, d+1) // an adapter type whose Write hands the bytes on (a func type with a Write method)
									continue
								}
								callers++
								if cf != pkgSend {
									only = false
								}
							}
						}
						visit(fn, 0)
						if only && callers > 0 {
							c.ok("R2", "Write in "+fnName(fn), pos(in), "a writer wrapped round the connection, called by sendPacket(w, m) only")
							return
						}
					}
					c.check(!conny, "R2", "Write in "+fnName(fn), pos(in), "not a write to the connection", "bytes are written to the connection outside sendPacket")
				})
			}
			c.check(n == 2, "R2", "sendPacket writes header then payload", p.Pos(pkgSend.Pos()), "two writes (header, payload) in one locked call", fmt.Sprintf("%d writes in sendPacket", n))
			if nConn > 0 {
				c.check(nConn == 2, "R2", "(*conn).sendPacket writes header then payload", p.Pos(connSend.Pos()), "two writes (header, payload) in one locked call", fmt.Sprintf("%d writes in (*conn).sendPacket", nConn))
			}
			// conn.Close also under the mutex (a close cannot cut a frame in two)
			if cl := p.Func("(*conn).Close"); cl != nil {
				for _, in := range anyCallsWhere(cl, func(cc *ssa.CallCommon) bool { return cc.IsInvoke() && cc.Method.Name() == "Close" }) {
					c.check(heldAt(in, cl.Params[0], "conn.Mutex") == "Lock", "R2", "conn.Close under mutex", pos(in), "close serialised with frame writes", "the writer can be closed in the middle of a frame")
				}
			} else {
				c.missing("R2", "(*conn).Close")
			}
			// … and nothing closes the connection's writer behind conn.Close's back: wherever Close is invoked on
			// the WriteCloser of a conn, conn's mutex is held there, or it is the writer wrapped round the connection
			// (which runs inside the locked sendPacket and was accepted above for its Write)
			for _, fn := range p.LibFuncs() {
				if outermost(fn).Package() != p.Sftp {
					continue
				}
				fn := fn
				eachInstr(fn, func(in ssa.Instruction) {
					cc := callOf(in)
					if cc == nil || !cc.IsInvoke() || cc.Method.Name() != "Close" {
						return
					}
					onWriter := false
					for _, l := range leavesOf(cc.Value) {
						if l.Kind == leafFieldLoad && l.Field == "WriteCloser" {
							onWriter = true
						}
					}
					if !onWriter {
						return
					}
					held := len(fn.Params) > 0 && heldAt(in, fn.Params[0], "conn.Mutex") == "Lock"
					wrapper := len(callsWhere(fn, func(c2 *ssa.CallCommon) bool {
						if !c2.IsInvoke() || c2.Method.Name() != "Write" {
							return false
						}
						for _, l := range leavesOf(c2.Value) {
							if l.Kind == leafFieldLoad && l.Field == "WriteCloser" {
								return true
							}
						}
						return false
					})) > 0
					c.check(held || wrapper, "R2", "the transport's Close in "+fnName(fn), pos(in), "under conn's mutex",
						"the connection's writer is closed without conn's write mutex: a Close from another goroutine falls between the header and the payload of a request being written, and a torn packet is left on the wire")
				})
			}
		}
	}

	// ---------- R3 register before send ----------
	dr := p.Func("(*clientConn).dispatchRequest")
	put := p.Func("(*clientConn).putChannel")
	get := p.Func("(*clientConn).getChannel")
	if dr == nil || put == nil || get == nil {
		c.missing("R3", "dispatchRequest/putChannel/getChannel")
	} else {
		c.looked("(*clientConn).dispatchRequest")
		puts := callsWhere(dr, func(cc *ssa.CallCommon) bool { return cc.StaticCallee() == put })
		sends := callsWhere(dr, func(cc *ssa.CallCommon) bool { return calleeName(cc) == "sendPacket" })
		if len(puts) != 1 || len(sends) != 1 {
			c.bad("R3", "dispatchRequest shape", p.Pos(dr.Pos()), fmt.Sprintf("%d putChannel and %d sendPacket calls (expected 1 and 1)", len(puts), len(sends)))
		} else {
			putc, send := puts[0].(*ssa.Call), sends[0]
			c.check(dominates(putc, send), "R3", "register before send", pos(send), "putChannel precedes the write", "the request can be written before it is registered: a fast reply finds no channel and kills the session")
			// send only if registration succeeded
			guarded := false
			for _, r := range *putc.Referrers() {
				if iff, ok := r.(*ssa.If); ok {
					if iff.Block().Succs[0].Dominates(send.Block()) && !iff.Block().Succs[1].Dominates(send.Block()) {
						guarded = true
					}
				}
				if u, ok := r.(*ssa.UnOp); ok && u.Op == token.NOT {
					for _, rr := range *u.Referrers() {
						if iff, ok := rr.(*ssa.If); ok && iff.Block().Succs[1].Dominates(send.Block()) {
							guarded = true
						}
					}
				}
			}
			c.check(guarded, "R3", "send only when registered", pos(send), "the write is skipped when putChannel refused", "the request is written even though registration was refused (connection already closed)")
			// same packet: sid = p.id() and the packet written is p
			sidOK := false
			putCh, putID := chanAndIDArgs(callOf(putc))
			if putCh == nil || putID == nil {
				c.und("R3", "registered id is the sent packet's id", pos(putc), "cannot tell the channel and the id among putChannel's arguments")
				putCh, putID = argsOf(callOf(putc))[0], argsOf(callOf(putc))[1]
			}
			for _, l := range leavesOf(putID) {
				if l.Kind == leafCallResult && calleeName(l.Call) == "id" {
					if pr, ok := recvOf(l.Call).(*ssa.Parameter); ok {
						for _, l2 := range leavesOf(argsOf(callOf(send))[0]) {
							if l2.Kind == leafParam && l2.Param == pr {
								sidOK = true
							}
						}
					}
				}
			}
			c.check(sidOK, "R3", "registered id is the sent packet's id", pos(putc), "sid = p.id() of the packet written", "the id registered is not the id of the packet that is written")
			chOK := false
			if pr, ok := putCh.(*ssa.Parameter); ok && pr == chanParamOf(dr) {
				chOK = true
			}
			c.check(chOK, "R3", "registered channel is the caller's", pos(putc), "the caller's channel is registered", "a channel other than the caller's is registered")
		}
	}

	// ---------- R4 table discipline ----------
	checkLockTable(c, "R4", "clientConn")
	if get != nil {
		var lk *ssa.Lookup
		var del ssa.Instruction
		eachInstr(get, func(in ssa.Instruction) {
			if l, ok := in.(*ssa.Lookup); ok {
				lk = l
			}
			if cc := callOf(in); cc != nil && builtinName(cc) == "delete" {
				del = in
			}
		})
		good := lk != nil && del != nil && lk.Index == get.Params[1] && callOf(del).Args[1] == ssa.Value(get.Params[1])
		c.check(good, "R4", "getChannel removes what it returns", p.Pos(get.Pos()), "lookup and delete use the same id", "getChannel does not delete the entry it returns: a second reply (or broadcast) would be delivered to the same caller twice")
	}
	if get != nil {
		// who may take an entry out of the table: the receiver, for the reply, and dispatchRequest, for a request whose
		// write failed.  Anybody else (a cancelled call, say) would turn the reply that is still to come into an
		// "unknown id", which ends the session for every other caller.
		for _, site := range p.callersOfStatic(get) {
			who := fnName(outermost(site.Parent()))
			c.check(who == "(*clientConn).recv" || who == "(*clientConn).dispatchRequest", "R4", "caller of getChannel: "+fnName(site.Parent()), pos(site),
				"the receiver (reply) or dispatchRequest (failed write)", "getChannel is called from "+fnName(site.Parent())+": the entry of a request whose reply is still to come is removed, the reply then finds no channel and recv ends the session for all callers")
		}
		c.check(len(p.refsAsValue(get)) == 0, "R4", "getChannel is only called directly", p.Pos(get.Pos()), "no method value taken", "getChannel escapes as a method value: its callers cannot be enumerated")
		for _, fn := range p.LibFuncs() {
			eachInstr(fn, func(in ssa.Instruction) {
				cc := callOf(in)
				if cc == nil || builtinName(cc) != "delete" {
					return
				}
				for _, l := range leavesOf(cc.Args[0]) {
					if p.isInflightLeaf(l) {
						c.check(fn == get || fnName(fn) == "(*clientConn).broadcastErr", "R4", "delete from the in-flight table in "+fnName(fn), pos(in), "only getChannel (and the final sweep) removes entries", "an in-flight entry is deleted outside getChannel")
					}
				}
			})
		}
	}
	if recv := p.Func("(*clientConn).recv"); recv == nil {
		c.missing("R4", "(*clientConn).recv")
	} else {
		c.looked("(*clientConn).recv")
		var snd *ssa.Send
		eachInstr(recv, func(in ssa.Instruction) {
			if s, ok := in.(*ssa.Send); ok {
				snd = s
			}
		})
		if snd == nil {
			c.bad("R4", "recv delivers", p.Pos(recv.Pos()), "recv never delivers a packet")
		} else {
			// channel = getChannel(sid)#0 ; sid = unmarshalUint32Safe(data)#0 ; data = recvPacket#1 ; value.data == data
			var getCall *ssa.Call
			for _, l := range leavesOf(snd.Chan) {
				if l.Kind == leafCallResult && l.Call.StaticCallee() == get && l.Idx == 0 {
					getCall = l.CallIn.(*ssa.Call)
				}
			}
			ok1 := getCall != nil
			var dataVal ssa.Value
			if ok1 {
				ok1 = false
				for _, l := range leavesOf(argsOf(&getCall.Call)[0]) {
					if l.Kind == leafCallResult && calleeName(l.Call) == "unmarshalUint32Safe" && l.Idx == 0 {
						for _, l2 := range leavesOf(l.Call.Args[0]) {
							if l2.Kind == leafCallResult && calleeName(l2.Call) == "recvPacket" && l2.Idx == 1 {
								ok1 = true
								dataVal = l2.V
							}
						}
					}
				}
			}
			c.check(ok1, "R4", "recv routes by the packet's own id", pos(snd), "channel = inflight[id decoded (checked) from this packet]", "the reply is routed by something other than the id decoded from the received packet")
			// the value sent carries that packet's data and type
			ok2 := false
			if dataVal != nil {
				for _, l := range leavesOf(snd.X) {
					_ = l
				}
				// result literal: find stores into the literal's data field
				if u, ok := snd.X.(*ssa.UnOp); ok {
					if a, ok := u.X.(*ssa.Alloc); ok {
						for _, r := range *a.Referrers() {
							if fa, ok := r.(*ssa.FieldAddr); ok {
								if _, n, _, _ := fieldOf(fa); n == "data" {
									for _, rr := range *fa.Referrers() {
										if st, ok := rr.(*ssa.Store); ok && st.Val == dataVal {
											ok2 = true
										}
									}
								}
							}
						}
					}
				}
			}
			if !ok2 && dataVal != nil {
				// the result travels through variables (code that came back from a helper): every value its data field
				// can hold is the payload just received, or the zero value of a path that does not deliver
				if ls, okL := structFieldLeaves(snd.X, "data", 0); okL && len(ls) > 0 {
					saw, other := false, false
					for _, l := range ls {
						switch {
						case l == nil || isNilConst(l):
						case l == dataVal:
							saw = true
						default:
							other = true
						}
					}
					ok2 = saw && !other
				}
			}
			c.check(ok2, "R4", "recv delivers the received payload", pos(snd), "result.data is the payload just received", "the delivered result does not carry the payload that was just received")
			// delivery only when the lookup succeeded
			if getCall != nil {
				var okEx *ssa.Extract
				for _, r := range *getCall.Referrers() {
					if ex, ok := r.(*ssa.Extract); ok && ex.Index == 1 {
						okEx = ex
					}
				}
				guard := false
				if okEx != nil {
					for _, r := range *okEx.Referrers() {
						if iff, ok := r.(*ssa.If); ok && iff.Block().Succs[0].Dominates(snd.Block()) {
							guard = true
						}
					}
				}
				c.check(guard, "R4", "recv delivers only to a registered channel", pos(snd), "unknown ids end the session instead of blocking on a nil channel", "recv sends on the looked-up channel without testing ok: an unknown id blocks the receiver forever")
				checkUnknownIDEndsSession(c, "R4")
			}
		}
	}

	// ---------- R5 one channel per in-flight request ----------
	{
		poolPut := p.Func("(resChanPool).Put")
		poolGet := p.Func("(resChanPool).Get")
		if poolPut == nil || poolGet == nil {
			c.missing("R5", "resChanPool.Get/Put")
		} else {
			n := 0
			for _, in := range p.callersOfStatic(poolPut) {
				n++
				arg := argsOf(callOf(in))[0]
				// a receive on the same channel value dominates the Put
				recvd := false
				eachInstr(in.Parent(), func(x ssa.Instruction) {
					if u, ok := x.(*ssa.UnOp); ok && u.Op == token.ARROW && sameValue(u.X, arg) && dominates(x, in) {
						recvd = true
					}
				})
				c.check(recvd, "R5", "pool.Put after receive in "+fnName(in.Parent()), pos(in), "the channel returns to the pool only after its result was taken", "a result channel is returned to the pool before its result was received: the next request may share the channel and steal the reply")
			}
			c.check(n >= 4, "R5", "pool.Put sites", "?", fmt.Sprintf("%d sites", n), fmt.Sprintf("only %d pool.Put sites (4 expected)", n))
			_, _, chArg := clientSendSites(p)
			drf := p.Func("(*clientConn).dispatchRequest")
			for s, ch := range chArg {
				if callOf(s).StaticCallee() != drf {
					continue
				}
				if _, isParam := ch.(*ssa.Parameter); isParam {
					continue
				}
				good := false
				for _, l := range leavesOf(ch) {
					if l.Kind == leafCallResult && l.Call.StaticCallee() == poolGet && loopHeadOf(l.CallIn) == loopHeadOf(s) && l.CallIn.Parent() == s.Parent() {
						good = true
					}
				}
				c.check(good, "R5", "channel per request in "+fnName(s.Parent()), pos(s), "each dispatched request takes its own channel from the pool in the same iteration", "a dispatched request reuses a channel that is not freshly taken from the pool in this iteration")
			}
			// channels handed to the synchronous sendPacket are private to the call: nil, made locally, or a parameter
			// that is itself private at every call site; never shared state (a field or global)
			spf := p.Func("(*clientConn).sendPacket")
			var private func(v ssa.Value, depth int) (bool, string)
			private = func(v ssa.Value, depth int) (bool, string) {
				if depth > 5 {
					return false, "provenance too deep"
				}
				for _, l := range leavesOf(v) {
					switch l.Kind {
					case leafConst:
						if !isNilConst(l.V) {
							return false, l.V.String()
						}
					case leafParam:
						ok, und := p.closedOverCallers(l.Param, func(arg ssa.Value, _ ssa.Instruction) bool {
							g, _ := private(arg, depth+1)
							return g
						})
						if und || !ok {
							return false, "parameter " + l.Param.Name() + " of " + fnName(l.Param.Parent()) + " is not private at every call site"
						}
					case leafFieldLoad:
						// a channel kept in the File is private where the File is held exclusively: every exported
						// method from which this load can be reached holds f.mu.Lock over it
						if li, isIn := l.V.(ssa.Instruction); isIn && typeName(l.Base.Type()) == "File" && p.underExclusiveFileLock(li) {
							continue
						}
						return false, "field " + l.Field + " (state shared between calls)"
					case leafGlobal:
						return false, "global " + l.V.Name()
					case leafCallResult:
						if l.Call.StaticCallee() != poolGet {
							return false, "result of " + calleeName(l.Call)
						}
					default:
						if _, isMake := l.V.(*ssa.MakeChan); !isMake {
							return false, l.V.String()
						}
					}
				}
				return true, ""
			}
			for s, ch := range chArg {
				if callOf(s).StaticCallee() != spf {
					continue
				}
				ok, why := private(ch, 0)
				c.check(ok, "R5", "result channel private to the call in "+fnName(s.Parent()), pos(s), "nil, locally made, or a private parameter", "the result channel handed to sendPacket is shared between calls ("+why+"): two concurrent requests wait on one channel and can receive each other's reply")
			}
			// pool hands out channels with capacity 1
			capOK := false
			eachInstr(poolGet, func(in ssa.Instruction) {
				if mc, ok := in.(*ssa.MakeChan); ok {
					if k, ok := constInt(mc.Size); ok && k >= 1 {
						capOK = true
					}
				}
			})
			c.check(capOK, "R5", "pool channels are buffered", p.Pos(poolGet.Pos()), "make(chan result, 1)", "the pool creates unbuffered result channels")
		}
	}
	// R6 (shared with C04.R10): after a write that failed inside a frame nothing more is written — the next request
	// would follow the torn frame on the wire and the peer would read its bytes as the rest of that frame
	checkWriteFailureLatched(c, "R6")
	// R7 (shared with C02.R11): the in-flight table is keyed by the request packet's id()
	checkIDMethods(c, "R7")
	// R8 (shared with C06.R18): a request goes out under its id only if the length word does not overwrite it
	checkHeaderReservesLengthPrefix(c, "R8")
	// R10 (shared with C06.R3): the bytes of a request follow its length word — all of them
	c.withOnly("R3", "R10", func() { runC06(c) })
	checkNextIDReturnsTheCounter(c, "R11")
	// R9 (shared with C08.O3): replies are cut out of the stream at the right places — the length word is read completely
	c.withRule("R9", func() { checkFrameLimits(c, newZWorld(p)) })
}

// sameValue: two SSA values denote the same runtime value in one function activation
// (identical, or both loads/fields of the same local).
// sameValueModNil is sameValue where a nil that one of the two may be on paths that do not matter here (a result
// zeroed on the error path of code inlined from a helper) is left out of the comparison.
func sameValueModNil(a, b ssa.Value) bool {
	if sameValue(a, b) {
		return true
	}
	strip := func(ls []leaf) []leaf {
		var out []leaf
		for _, l := range ls {
			if k, ok := l.V.(*ssa.Const); ok && k.Value == nil {
				continue
			}
			out = append(out, l)
		}
		return out
	}
	la, lb := strip(leavesOf(a)), strip(leavesOf(b))
	if len(la) != 1 || len(lb) != 1 {
		return false
	}
	return la[0].V == lb[0].V
}

func sameValue(a, b ssa.Value) bool {
	if a == b {
		return true
	}
	la, lb := leavesOf(a), leavesOf(b)
	if len(la) != 1 || len(lb) != 1 {
		return false
	}
	x, y := la[0], lb[0]
	if x.V == y.V {
		return true
	}
	if x.Kind == leafFieldLoad && y.Kind == leafFieldLoad && x.Field == y.Field {
		bx, by := leavesOf(x.Base), leavesOf(y.Base)
		if len(bx) == 1 && len(by) == 1 && bx[0].V == by[0].V {
			return true
		}
		if x.Base == y.Base {
			return true
		}
	}
	return false
}

// ---------------------------------------------------------------------------

func runC04(c *Ctx) {
	p := c.P
	pos := func(in ssa.Instruction) string { return p.Pos(in.Pos()) }
	recv := p.Func("(*clientConn).recv")
	bcast := p.Func("(*clientConn).broadcastErr")
	put := p.Func("(*clientConn).putChannel")
	get := p.Func("(*clientConn).getChannel")
	dr := p.Func("(*clientConn).dispatchRequest")
	ncp := p.Func("newClientPipe")
	for n, f := range map[string]*ssa.Function{"recv": recv, "broadcastErr": bcast, "putChannel": put, "getChannel": get, "dispatchRequest": dr, "newClientPipe": ncp} {
		if f == nil {
			c.missing("R1", n)
			return
		}
		c.looked(fnName(f))
	}

	// ---------- R1 receiver goroutine ----------
	{
		// recv has no nil return
		eachInstr(recv, func(in ssa.Instruction) {
			if r, ok := in.(*ssa.Return); ok && isReturn(in) {
				c.check(!isNilConst(r.Results[0]), "R1", "recv return", pos(in), "recv only returns errors", "recv can return nil: the receiver goroutine ends without telling anyone")
			}
		})
		// the goroutine that runs recv
		var gor *ssa.Function
		var goIn ssa.Instruction
		eachInstr(ncp, func(in ssa.Instruction) {
			if g, ok := in.(*ssa.Go); ok {
				if mc, ok := g.Call.Value.(*ssa.MakeClosure); ok {
					f := mc.Fn.(*ssa.Function)
					if len(callsWhere(f, func(cc *ssa.CallCommon) bool { return cc.StaticCallee() == recv })) > 0 {
						gor, goIn = f, in
					}
				}
			}
		})
		if gor == nil {
			c.bad("R1", "receiver goroutine", p.Pos(ncp.Pos()), "newClientPipe starts no goroutine running recv")
		} else {
			rc := callsWhere(gor, func(cc *ssa.CallCommon) bool { return cc.StaticCallee() == recv })[0].(*ssa.Call)
			// broadcastErr on the err != nil branch, for every non-nil error
			good := false
			for _, nt := range nilTests(rc) {
				// the side with an error must call broadcastErr before returning on every path
				if !reachFromBlock(nt.nonNil, isReturn, func(x ssa.Instruction) bool {
					cc := callOf(x)
					return cc != nil && cc.StaticCallee() == bcast
				}) {
					good = true
				}
			}
			// unconditional broadcast is fine too
			if !good {
				if !reachAvoiding(gor, rc, isReturn, func(x ssa.Instruction) bool {
					cc := callOf(x)
					return cc != nil && cc.StaticCallee() == bcast
				}) {
					good = true
				}
			}
			c.check(good, "R1", "receiver broadcasts every error", pos(rc), "every non-nil result of recv reaches broadcastErr", "some error returned by recv (for instance a clean EOF) does not reach broadcastErr: outstanding and later calls hang")
			// wg.Add before go, Done deferred
			addOK, doneOK := false, false
			eachInstr(ncp, func(in ssa.Instruction) {
				if cc := callOf(in); cc != nil && isWGCall(cc, "Add") && dominates(in, goIn) {
					addOK = true
				}
			})
			eachInstr(gor, func(in ssa.Instruction) {
				if d, ok := in.(*ssa.Defer); ok && isWGCall(&d.Call, "Done") {
					doneOK = true
				}
			})
			c.check(addOK && doneOK, "R1", "receiver join accounting", pos(goIn), "wg.Add(1) before go, deferred wg.Done", "Close cannot wait for the receiver goroutine (Add/Done accounting broken)")
		}
		for _, in := range p.callersOfStatic(bcast) {
			c.check(gor != nil && in.Parent() == gor, "R1", "caller of broadcastErr: "+fnName(in.Parent()), pos(in), "only the receiver goroutine broadcasts", "broadcastErr has another caller: `closed` may be closed twice (panic)")
		}
	}

	// ---------- R2 broadcastErr ----------
	checkBroadcastErr(c, "R2", bcast)

	// ---------- R3 putChannel ----------
	{
		root := put.Params[0]
		var sel *ssa.Select
		var upd *ssa.MapUpdate
		eachInstr(put, func(in ssa.Instruction) {
			if s, ok := in.(*ssa.Select); ok {
				sel = s
			}
			if m, ok := in.(*ssa.MapUpdate); ok {
				upd = m
			}
		})
		if sel == nil || upd == nil {
			c.bad("R3", "putChannel shape", p.Pos(put.Pos()), "putChannel lacks the non-blocking test of `closed` or the registration")
		} else {
			onClosed := false
			if !sel.Blocking && len(sel.States) == 1 && sel.States[0].Dir == types.RecvOnly {
				for _, l := range leavesOf(sel.States[0].Chan) {
					if l.Kind == leafFieldLoad && l.Field == "closed" {
						onClosed = true
					}
				}
			}
			c.check(onClosed, "R3", "putChannel tests closed", pos(sel), "non-blocking receive on c.closed", "putChannel does not test `closed` without blocking")
			c.check(dominates(sel, upd), "R3", "test precedes registration", pos(upd), "registration only after the closed test", "a request can be registered without the closed test")
			c.check(p.heldInflightLock(sel, root) == "Lock" && p.heldInflightLock(upd, root) == "Lock", "R3", "test and registration under one lock hold", pos(sel), "atomic with respect to broadcastErr", "the closed test and the registration are not under the table mutex: broadcastErr can run in between")
			// closed arm: exactly one send of an error result, returns false, no registration
			var body *ssa.BasicBlock
			for _, r := range *sel.Referrers() {
				if ex, ok := r.(*ssa.Extract); ok && ex.Index == 0 {
					for _, rr := range *ex.Referrers() {
						if b, ok := rr.(*ssa.BinOp); ok && b.Op == token.EQL {
							for _, r3 := range *b.Referrers() {
								if iff, ok := r3.(*ssa.If); ok {
									body = iff.Block().Succs[0]
								}
							}
						}
					}
				}
			}
			if body == nil {
				c.und("R3", "putChannel closed arm", pos(sel), "cannot find the arm taken when closed")
			} else {
				var sends []*ssa.Send
				for _, b := range put.Blocks {
					if body.Dominates(b) {
						for _, in := range b.Instrs {
							if s, ok := in.(*ssa.Send); ok {
								sends = append(sends, s)
							}
						}
					}
				}
				fromArm := reachWithFlags(body)
				// The arm must end the call: a fall-through into the registration is
				// the same as no test at all, so reachability, not dominance, decides.
				good := len(sends) == 1 && resultHasOnlyErr(sends[0].X) && chanParamOf(put) != nil && sends[0].Chan == ssa.Value(chanParamOf(put)) && !fromArm[upd.Block()]
				c.check(good, "R3", "closed arm notifies once and refuses", p.Pos(body.Instrs[0].Pos()), "one error result to the caller's channel, no registration", "after close, putChannel does not answer the caller exactly once with an error (or still registers the request)")
				// returns false there
				retFalse := true
				nret := 0
				for _, b := range put.Blocks {
					if !fromArm[b] {
						continue
					}
					for _, in := range b.Instrs {
						r, ok := in.(*ssa.Return)
						if !ok || !isReturn(in) || len(r.Results) == 0 {
							continue
						}
						nret++
						vals := []ssa.Value{r.Results[0]}
						if phi, ok := r.Results[0].(*ssa.Phi); ok && phi.Block() == b {
							vals = nil
							for i, pred := range b.Preds {
								if fromArm[pred] {
									vals = append(vals, phi.Edges[i])
								}
							}
						}
						// a named result kept in memory (the function defers): what the arm can leave in it is what a
						// store reachable from the arm, or made before the arm was entered, puts there — none: false
						if u, ok := r.Results[0].(*ssa.UnOp); ok && u.Op == token.MUL {
							if a, ok := u.X.(*ssa.Alloc); ok {
								vals = nil
								for _, st := range storesTo(put, a) {
									if ld, ok := st.Val.(*ssa.UnOp); ok && ld.Op == token.MUL && ld.X == ssa.Value(a) {
										continue // `return ok` of a named result stores it to itself
									}
									if st.Parent() != put || fromArm[st.Block()] || st.Block().Dominates(body) {
										vals = append(vals, st.Val)
									}
								}
							}
						}
						for _, v := range vals {
							for _, l := range leavesOf(v) {
								if l.Kind != leafConst || l.V.(*ssa.Const).Value == nil || l.V.(*ssa.Const).Value.String() != "false" {
									retFalse = false
								}
							}
						}
					}
				}
				if nret == 0 {
					// the arm sits in a closure that reports through a captured variable: nothing reachable from the
					// arm sets that variable to true
					sawRet := false
					for _, b := range put.Blocks {
						if !fromArm[b] {
							continue
						}
						for _, in := range b.Instrs {
							if _, ok := in.(*ssa.Return); ok {
								sawRet = true
							}
							if st, ok := in.(*ssa.Store); ok {
								if k, ok := st.Val.(*ssa.Const); ok && k.Value != nil && k.Value.String() == "true" {
									retFalse = false
								}
							}
						}
					}
					if !sawRet {
						retFalse = false
					}
				}
				c.check(retFalse, "R3", "closed arm returns false", p.Pos(body.Instrs[0].Pos()), "dispatchRequest then skips the write", "putChannel reports success after close")
			}
		}
	}

	// ---------- R4 send error delivered through the table ----------
	{
		var snds []*ssa.Send
		eachInstr(dr, func(in ssa.Instruction) {
			if s, ok := in.(*ssa.Send); ok {
				snds = append(snds, s)
			}
		})
		c.check(len(snds) == 1, "R4", "dispatchRequest error delivery", p.Pos(dr.Pos()), "one delivery site", fmt.Sprintf("%d sends in dispatchRequest", len(snds)))
		for _, s := range snds {
			viaTable := false
			for _, l := range leavesOf(s.Chan) {
				if l.Kind == leafCallResult && l.Call.StaticCallee() == get && l.Idx == 0 {
					viaTable = true
				}
			}
			c.check(viaTable, "R4", "send error goes to the table's channel", pos(s), "delivered to getChannel(sid)'s channel (deleted, hence exactly once)", "a send error is delivered to the caller's channel directly: after a broadcast that channel is already full and the send blocks forever")
			c.check(resultHasOnlyErr(s.X), "R4", "send error result", pos(s), "carries the error", "the delivered result has no error")
		}
		// on send error something must be delivered: err != nil branch reaches the send or a failed lookup
		sendCalls := callsWhere(dr, func(cc *ssa.CallCommon) bool { return calleeName(cc) == "sendPacket" })
		if len(sendCalls) == 1 {
			// on the side where the error is not nil, every path to the return goes through the table lookup (which
			// then delivers it, or finds that the receiver already took the channel) — whichever way the test is written
			tested := false
			for _, r := range *sendCalls[0].(*ssa.Call).Referrers() {
				b, ok := r.(*ssa.BinOp)
				if !ok || (b.Op != token.NEQ && b.Op != token.EQL) || !(isNilConst(b.X) || isNilConst(b.Y)) {
					continue
				}
				errSide := 0
				if b.Op == token.EQL {
					errSide = 1
				}
				for _, rr := range *b.Referrers() {
					if iff, ok := rr.(*ssa.If); ok {
						if !reachFromBlock(iff.Block().Succs[errSide], isReturn, func(in ssa.Instruction) bool {
							cc := callOf(in)
							return cc != nil && cc.StaticCallee() == get
						}) {
							tested = true
						}
					}
				}
			}
			c.check(tested, "R4", "send error is examined", pos(sendCalls[0]), "err != nil handled", "the error of conn.sendPacket is ignored: the caller waits forever for a reply to a request that was never written")
		}
	}

	// ---------- R5 result channels never block their sender ----------
	{
		n := 0
		for _, fn := range p.LibFuncs() {
			if outermost(fn).Package() != p.Sftp {
				continue
			}
			eachInstr(fn, func(in ssa.Instruction) {
				mc, ok := in.(*ssa.MakeChan)
				if !ok {
					return
				}
				ch, ok := mc.Type().Underlying().(*types.Chan)
				if !ok || typeName(ch.Elem()) != "result" {
					return
				}
				n++
				k, okc := constInt(mc.Size)
				c.check(okc && k >= 1, "R5", "make(chan result) in "+fnName(fn), pos(in), "capacity >= 1", "an unbuffered result channel: broadcastErr/recv block inside the table mutex")
			})
		}
		c.check(n >= 4, "R5", "result channel sites", "?", fmt.Sprintf("%d sites", n), fmt.Sprintf("only %d make(chan result) sites (at least 4 expected)", n))
		// clientConn.sendPacket guards cap(ch) < 1
		sp := p.Func("(*clientConn).sendPacket")
		if sp == nil {
			c.missing("R5", "(*clientConn).sendPacket")
		} else {
			guard := false
			eachInstr(sp, func(in ssa.Instruction) {
				if cc := callOf(in); cc != nil && builtinName(cc) == "cap" {
					guard = true
				}
			})
			// the channel handed to dispatchRequest is the guarded one
			c.check(guard, "R5", "sendPacket replaces unbuffered channels", p.Pos(sp.Pos()), "cap(ch) < 1 => fresh buffered channel", "clientConn.sendPacket accepts nil/unbuffered channels as they are: the receiver blocks on delivery")
			// and it waits on that same channel or ctx
			var sel *ssa.Select
			eachInstr(sp, func(in ssa.Instruction) {
				if s, ok := in.(*ssa.Select); ok {
					sel = s
				}
			})
			c.check(sel != nil && sel.Blocking && len(sel.States) == 2, "R5", "sendPacket waits for result or ctx", p.Pos(sp.Pos()), "select on ctx.Done and the result channel", "clientConn.sendPacket no longer waits on both the context and the result")
		}
	}

	// ---------- R6 close / wait ----------
	{
		deferredClose := false
		eachInstr(recv, func(in ssa.Instruction) {
			if d, ok := in.(*ssa.Defer); ok && calleeName(&d.Call) == "Close" {
				deferredClose = true
				for _, r := range findInstrs(recv, isReturn) {
					if !dominates(in, r) {
						deferredClose = false
					}
				}
			}
		})
		c.check(deferredClose, "R6", "recv closes the connection on exit", p.Pos(recv.Pos()), "defer c.conn.Close() at the top", "recv does not close the writer when it stops: the peer and later writers are never told")
		// the failure must reach the waiting callers without needing the write lock: a request blocked in Write holds
		// conn's mutex, and a receiver that has to take that mutex (to close the writer) before it broadcasts the loss
		// waits for a write that may never end — nobody is told
		locksBefore := ""
		for _, bc := range p.callersOfStatic(bcast) {
			lp := bc.Parent()
			{
				eachInstr(lp, func(in ssa.Instruction) {
					call, ok := in.(*ssa.Call)
					if !ok || !dominates(in, bc) || in == bc {
						return
					}
					f := call.Call.StaticCallee()
					if f == nil || !inModule(f) {
						return
					}
					for g := range p.cone(f) {
						eachInstr(g, func(y ssa.Instruction) {
							if cc := callOf(y); cc != nil {
								if op, _, key, ok := mutexOp(cc); ok && op == "Lock" && key == "conn.Mutex" {
									locksBefore = fnName(g)
								}
							}
						})
					}
				})
			}
		}
		c.check(locksBefore == "", "R6", "the loss is broadcast without the write lock", p.Pos(recv.Pos()), "no acquisition of conn's mutex before broadcastErr",
			"the receiver takes conn's write mutex (in "+locksBefore+") before it calls broadcastErr: if a request is blocked in Write at that moment the mutex is held, the receiver never gets to broadcastErr, and the outstanding request, Wait and Close all hang")
		if cl := p.Func("(*clientConn).Close"); cl == nil {
			c.missing("R6", "(*clientConn).Close")
		} else {
			waits, closes := false, false
			eachInstr(cl, func(in ssa.Instruction) {
				cc := callOf(in)
				if cc == nil {
					return
				}
				if isWGCall(cc, "Wait") {
					waits = true
				}
				if calleeName(cc) == "Close" {
					closes = true
				}
			})
			c.check(waits && closes, "R6", "Close closes the writer and waits for the receiver", p.Pos(cl.Pos()), "conn.Close() and wg.Wait()", "clientConn.Close does not both close the connection and wait for the receiver goroutine")
			// on every path: a Close that reports an error has still torn the link down, and must not return
			// while the receiver goroutine is alive and the waiters have not been told
			isJoin := func(in ssa.Instruction) bool {
				cc := callOf(in)
				return cc != nil && isWGCall(cc, "Wait")
			}
			skips := reachAvoiding(cl, nil, isReturn, isJoin)
			c.check(!skips, "R6", "Close joins the receiver on every path", p.Pos(cl.Pos()), "wg.Wait() (plain or deferred) before every return", "clientConn.Close can return without waiting for the receiver goroutine (for instance when the transport's Close reports an error): the goroutine survives Close and outstanding callers have not been notified yet")
		}
		if w := p.Func("(*clientConn).Wait"); w == nil {
			c.missing("R6", "(*clientConn).Wait")
		} else {
			first := false
			eachInstr(w, func(in ssa.Instruction) {
				if u, ok := in.(*ssa.UnOp); ok && u.Op == token.ARROW {
					for _, l := range leavesOf(u.X) {
						if l.Kind == leafFieldLoad && l.Field == "closed" {
							first = true
							for _, r := range findInstrs(w, isReturn) {
								if !dominates(in, r) {
									first = false
								}
							}
						}
					}
				}
			})
			c.check(first, "R6", "Wait blocks on closed", p.Pos(w.Pos()), "<-c.closed before anything else", "Wait does not wait for the shutdown latch")
		}
	}

	// ---------- R7 map/reduce channel protocol ----------
	for _, name := range []string{"(*File).readAt", "(*File).WriteTo", "(*File).writeAtConcurrent", "(*File).readFromWithConcurrency"} {
		fn := p.Func(name)
		if fn == nil {
			c.missing("R7", name)
			continue
		}
		c.looked(name)
		checkMapReduce(c, fn, name, "R7", false)
	}
	c.floor("R7", 30)

	// ---------- R9 a failed send is never taken for end of file ----------
	checkEOFIsTheServersWord(c, "R9")
	checkWriteFailureLatched(c, "R10")
	checkRoundTripErrorKept(c, "R11")
	checkFramingReportsWriteErrors(c, "R12")
	// R13 (shared with C13.R4 / C01.R18): the error of a chunk in the sequential loops is what the call returns — a
	// connection lost during the last chunk must not be overwritten by the source's io.EOF and reported as success
	checkSequentialLoops(c, "R13")
	// R14 (shared with C19.R8): a client whose handshake failed leaves no goroutine or session behind
	checkFailedConstructionReleasesSession(c, "R14")
	// R15 (shared with C20.Z8): with a worker count of zero WriteTo never returns, whatever happens to the connection
	checkWorkerCountBounded(c, "R15")
	// R16 (shared with C13.R22): after a lost connection the error found in a chunk is what the transfer returns
	checkKnownErrorNotAnsweredWithNil(c, "R16")
	checkConnSendReturnsTheWritersError(c, "R17")
	checkClosedLatchReadOnlyByTheConnection(c, "R18")
	checkCloseReportsFailure(c, "R19", isClientSide, 2)
	// R20 (= C08.O13): a read that failed is the last one — a receiver that retries a sticky error spins and no call ever fails
	checkFailedReadIsFinal(c, "R20", 8)

	// ---------- R8 no client lock is leaked: a later call would hang ----------
	checkLockBalance(c, "R8", func(fn *ssa.Function) bool { return !isServerSide(fn) && outermost(fn).Package() == p.Sftp }, 15)
}

// resultHasOnlyErr: the value is a `result` literal whose err field is set (and data is not).
func resultHasOnlyErr(v ssa.Value) bool {
	for _, l := range leavesOfIface(v) {
		u, ok := l.(*ssa.UnOp)
		if !ok {
			return false
		}
		a, ok := u.X.(*ssa.Alloc)
		if !ok {
			return false
		}
		hasErr, hasData := false, false
		for _, r := range *a.Referrers() {
			if fa, ok := r.(*ssa.FieldAddr); ok {
				_, n, _, _ := fieldOf(fa)
				for _, rr := range *fa.Referrers() {
					if st, ok := rr.(*ssa.Store); ok {
						if n == "err" && !isNilConst(st.Val) {
							hasErr = true
						}
						if n == "data" {
							hasData = true
						}
					}
				}
			}
		}
		if !hasErr || hasData {
			return false
		}
	}
	return true
}

// mapReduceKeyFilter, when set, keeps only the obligations of checkMapReduce whose key contains it (C20.Z10 shares the
// "cancel closed at most once" obligations: a second close panics the caller).
var mapReduceKeyFilter string

// checkMapReduce enforces the channel protocol of one concurrent transfer function.
func checkMapReduce(c *Ctx, fn *ssa.Function, name string, rule string, joinOnly bool) {
	p := c.P
	// joinOnly keeps the obligations that establish "every goroutine of the transfer has ended when the method returns"
	chk := func(join bool, ok bool, key, pos, good, bad string) {
		if joinOnly && !join {
			return
		}
		if mapReduceKeyFilter != "" && !strings.Contains(key, mapReduceKeyFilter) {
			return
		}
		c.check(ok, rule, key, pos, good, bad)
	}
	cbad := func(join bool, key, pos, why string) {
		if joinOnly && !join {
			return
		}
		if mapReduceKeyFilter != "" && !strings.Contains(key, mapReduceKeyFilter) {
			return
		}
		c.bad(rule, key, pos, why)
	}
	pos := func(in ssa.Instruction) string { return p.Pos(in.Pos()) }
	// the cancel channel: a chan struct{} made in fn
	var cancelCell ssa.Value
	var cancelMake *ssa.MakeChan
	eachInstr(fn, func(in ssa.Instruction) {
		if mc, ok := in.(*ssa.MakeChan); ok {
			if ch, ok := mc.Type().Underlying().(*types.Chan); ok {
				if st, ok := ch.Elem().Underlying().(*types.Struct); ok && st.NumFields() == 0 {
					cancelMake = mc
					for _, r := range *mc.Referrers() {
						if s, ok := r.(*ssa.Store); ok {
							cancelCell = s.Addr
						}
					}
				}
			}
		}
	})
	if cancelMake == nil {
		cbad(false, name+" cancel channel", p.Pos(fn.Pos()), "no cancel channel: feeder and workers cannot be stopped")
		return
	}
	isCancel := func(v ssa.Value) bool {
		if v == ssa.Value(cancelMake) {
			return true
		}
		cell := cellOf(v)
		return cell != nil && cancelCell != nil && cell == cancelCell
	}
	// channels drained by the parent with a range loop that has no early exit
	drained := map[ssa.Value]bool{} // cells
	for _, l := range rangeChanLoops(fn) {
		var ch ssa.Value
		for _, in := range l.head.Instrs {
			if u, ok := in.(*ssa.UnOp); ok && u.Op == token.ARROW && u.CommaOk {
				ch = u.X
			}
		}
		early := loopEarlyExit(l)
		cell := cellOf(ch)
		key := name + " reducer loop"
		chk(true, !early, key, p.Pos(l.head.Instrs[0].Pos()), "the reducer drains its channel to the end", "the reducer can leave its range loop early: workers still sending errors block forever")
		if !early {
			if cell != nil {
				drained[cell] = true
			} else if ch != nil {
				drained[ch] = true
			}
		}
	}
	// goroutines started in fn
	var gors []*ssa.Function
	eachInstr(fn, func(in ssa.Instruction) {
		if g, ok := in.(*ssa.Go); ok {
			if mc, ok := g.Call.Value.(*ssa.MakeClosure); ok {
				gors = append(gors, mc.Fn.(*ssa.Function))
			}
		}
	})
	wantG := 3
	if name == "(*File).WriteTo" {
		wantG = 2 // no error channel, hence no closer goroutine
	}
	chk(true, len(gors) >= wantG, name+" goroutines", p.Pos(fn.Pos()), fmt.Sprintf("%d goroutine literals (feeder, workers, closer)", len(gors)), "fewer goroutine literals than the feeder/worker/closer structure needs")
	closerSeen := false
	for gi, g := range gors {
		gname := fmt.Sprintf("%s goroutine #%d", name, gi+1)
		// sends
		eachInstr(g, func(in ssa.Instruction) {
			switch x := in.(type) {
			case *ssa.Send:
				cell := cellOf(x.Chan)
				ok := cell != nil && drained[cell]
				chk(false, ok, gname+" plain send", pos(in), "plain send goes to a channel the parent drains to the end", "an unconditional send on a channel nobody is guaranteed to drain: the goroutine can block forever after the transfer ended")
			case *ssa.Select:
				hasSend, hasCancel := false, false
				for _, st := range x.States {
					if st.Dir == types.SendOnly {
						hasSend = true
					}
					if st.Dir == types.RecvOnly && isCancel(st.Chan) {
						hasCancel = true
					}
				}
				if hasSend {
					chk(false, hasCancel && x.Blocking, gname+" select send", pos(in), "send is paired with a receive from cancel", "a select that sends has no cancel arm")
				}
			}
		})
		// range loops in goroutines (workers): no early exit; deferred wg.Done
		for _, l := range rangeChanLoops(g) {
			early := loopEarlyExit(l)
			chk(true, !early, gname+" worker loop", p.Pos(l.head.Instrs[0].Pos()), "the worker consumes the work channel to the end", "a worker can leave its range loop (return/break): dispatched requests are never collected and the feeder blocks")
			done := false
			eachInstr(g, func(in ssa.Instruction) {
				if d, ok := in.(*ssa.Defer); ok && isWGCall(&d.Call, "Done") {
					done = true
				}
			})
			chk(true, done, gname+" worker Done", p.Pos(g.Pos()), "deferred wg.Done", "a worker does not signal the wait group on exit")
		}
		// feeder: defers close of its work channel
		sendsWork := false
		eachInstr(g, func(in ssa.Instruction) {
			if s, ok := in.(*ssa.Select); ok {
				for _, st := range s.States {
					if st.Dir == types.SendOnly {
						sendsWork = true
					}
				}
			}
		})
		if sendsWork && len(rangeChanLoops(g)) == 0 {
			closes := false
			eachInstr(g, func(in ssa.Instruction) {
				if d, ok := in.(*ssa.Defer); ok && builtinName(&d.Call) == "close" {
					closes = true
					for _, r := range findInstrs(g, isReturn) {
						if !dominates(in, r) {
							closes = false
						}
					}
				}
			})
			chk(true, closes, gname+" feeder closes the work channel", p.Pos(g.Pos()), "defer close(workCh) at the top", "the feeder does not close the work channel on every exit: workers never finish and wg.Wait blocks")
		}
		// closer goroutine: wg.Wait(); close(errCh)
		var w, cl ssa.Instruction
		eachInstr(g, func(in ssa.Instruction) {
			cc := callOf(in)
			if cc == nil {
				return
			}
			if isWGCall(cc, "Wait") {
				w = in
			}
			if builtinName(cc) == "close" {
				if _, plain := in.(*ssa.Call); plain {
					cl = in
				}
			}
		})
		if w != nil && cl != nil {
			closerSeen = true
			chk(true, dominates(w, cl), gname+" closer order", pos(cl), "the error channel is closed after all workers ended", "the error channel is closed before the workers ended: a late error panics on a closed channel")
		}
	}
	// WriteTo has no error channel; the others need the closer
	if name != "(*File).WriteTo" {
		chk(true, closerSeen, name+" closer goroutine", p.Pos(fn.Pos()), "wg.Wait(); close(errCh)", "no goroutine closes the error channel after the workers ended: the reducer never terminates")
	}
	// cancel closed at most once: every close(cancel) is either deferred once, or in the default arm of a select on cancel
	var closes []ssa.Instruction
	eachInstrDeep(fn, func(f *ssa.Function, in ssa.Instruction) {
		cc := callOf(in)
		if cc != nil && builtinName(cc) == "close" && isCancel(cc.Args[0]) {
			closes = append(closes, in)
		}
	})
	if len(closes) == 0 {
		cbad(false, name+" cancel closed", p.Pos(fn.Pos()), "cancel is never closed: the feeder keeps dispatching after an error")
	}
	for _, cl := range closes {
		f := cl.Parent()
		guarded := false
		// in default arm of non-blocking select on cancel
		eachInstr(f, func(in ssa.Instruction) {
			s, ok := in.(*ssa.Select)
			if !ok || s.Blocking || len(s.States) != 1 || !isCancel(s.States[0].Chan) {
				return
			}
			// block of cl must be the "index != 0" branch
			for _, r := range *s.Referrers() {
				if ex, ok := r.(*ssa.Extract); ok && ex.Index == 0 {
					for _, rr := range *ex.Referrers() {
						if b, ok := rr.(*ssa.BinOp); ok && b.Op == token.EQL {
							for _, r3 := range *b.Referrers() {
								if iff, ok := r3.(*ssa.If); ok && iff.Block().Succs[1].Dominates(cl.Block()) {
									guarded = true
								}
							}
						}
					}
				}
			}
		})
		if !guarded {
			// deferred once, outside loops, in the parent function
			if d := enclosingDeferOnce(fn, cl); d {
				guarded = true
			}
		}
		if !guarded && f != fn {
			// the body of a literal that is run through a sync.Once and nothing else
			onlyOnce := false
			eachInstrDeep(fn, func(_ *ssa.Function, in ssa.Instruction) {
				mc, ok := in.(*ssa.MakeClosure)
				if !ok || mc.Fn != ssa.Value(f) {
					return
				}
				n, once := 0, 0
				for _, r := range *mc.Referrers() {
					n++
					if cc := callOf(r); cc != nil && callIs(cc, "sync.(*Once).Do") {
						once++
					}
				}
				onlyOnce = n > 0 && n == once
			})
			if onlyOnce {
				guarded = true
			}
		}
		if !guarded && len(closes) == 1 {
			// the one close, as a plain statement of the transfer function itself and outside every loop: executed at
			// most once per call (the first error peeled off the reduce loop closes it, the loop that follows does not)
			if _, plain := cl.(*ssa.Call); plain && f == fn && !inLoop(cl) {
				guarded = true
			}
		}
		chk(false, guarded && len(closes) == 1, name+" cancel closed at most once", pos(cl), "close(cancel) guarded by the select-default idiom or deferred once", "cancel can be closed twice (panic) or without the guard")
	}
	// the parent waits for the workers before returning: WriteTo defers wg.Wait; others drain errCh closed after wg.Wait
	if name == "(*File).WriteTo" {
		okw := false
		eachInstrDeep(fn, func(f *ssa.Function, in ssa.Instruction) {
			if cc := callOf(in); cc != nil && isWGCall(cc, "Wait") && f.Parent() == fn {
				// inside a deferred closure of fn
				eachInstr(fn, func(x ssa.Instruction) {
					if d, ok := x.(*ssa.Defer); ok {
						if mc, ok := d.Call.Value.(*ssa.MakeClosure); ok && mc.Fn == f {
							okw = true
						}
					}
				})
			}
		})
		chk(true, okw, name+" waits for its goroutines", p.Pos(fn.Pos()), "deferred close(cancel); wg.Wait()", "WriteTo can return while its goroutines still run")
	}
}

// enclosingDeferOnce: cl lies in a closure that fn defers exactly once outside loops.
func enclosingDeferOnce(fn *ssa.Function, cl ssa.Instruction) bool {
	f := cl.Parent()
	n := 0
	okd := false
	eachInstr(fn, func(in ssa.Instruction) {
		if d, ok := in.(*ssa.Defer); ok {
			if mc, ok := d.Call.Value.(*ssa.MakeClosure); ok && mc.Fn == f {
				n++
				okd = !inLoop(in) && !inLoop(cl)
			}
		}
	})
	return n == 1 && okd
}

// checkBroadcastErr (C04.R2, shared with C20.Z5): the sweep that fails every outstanding request when the receiver
// gives up — on connection loss and likewise on a reply it cannot decode.
func checkBroadcastErr(c *Ctx, rule string, bcast *ssa.Function) {
	p := c.P
	pos := func(in ssa.Instruction) string { return p.Pos(in.Pos()) }
	{
		root := bcast.Params[0]
		// everything under the mutex
		var rng *ssa.Range
		var snd *ssa.Send
		var upd *ssa.MapUpdate
		var closeIn, errStore ssa.Instruction
		eachInstr(bcast, func(in ssa.Instruction) {
			switch x := in.(type) {
			case *ssa.Range:
				rng = x
			case *ssa.Send:
				snd = x
			case *ssa.MapUpdate:
				upd = x
			case *ssa.Store:
				if fa, ok := x.Addr.(*ssa.FieldAddr); ok {
					if _, n, _, _ := fieldOf(fa); n == "err" && typeName(derefType(fa.X.Type())) == "clientConn" {
						errStore = in
					}
				}
			case *ssa.Call:
				if builtinName(&x.Call) == "close" {
					closeIn = in
				}
			}
		})
		// deleting the notified entry is as good as replacing it: getChannel then finds nothing to send to
		var del ssa.Instruction
		eachInstr(bcast, func(in ssa.Instruction) {
			if cc := callOf(in); cc != nil && builtinName(cc) == "delete" && snd != nil && in.Block() == snd.Block() {
				del = in
			}
		})
		steps := map[string]ssa.Instruction{}
		if upd == nil && del != nil {
			steps["replace"] = del
		}
		if rng != nil {
			steps["range"] = rng
		}
		if snd != nil {
			steps["send"] = snd
		}
		if upd != nil {
			steps["replace"] = upd
		}
		if closeIn != nil {
			steps["close"] = closeIn
		}
		if errStore != nil {
			steps["store err"] = errStore
		}
		for _, n := range []string{"range", "send", "replace", "close", "store err"} {
			in := steps[n]
			if in == nil {
				why := "broadcastErr lacks its " + n + " step"
				if n == "replace" {
					why = "a notified entry stays in the in-flight table with its (now full) channel: when the write of that request fails afterwards, dispatchRequest delivers a second result to the same channel and blocks for ever"
				}
				c.bad(rule, "broadcastErr "+n, p.Pos(bcast.Pos()), why)
				continue
			}
			c.check(p.heldInflightLock(in, root) == "Lock", rule, "broadcastErr "+n+" under mutex", pos(in), "under the table mutex", "broadcastErr's "+n+" step runs outside the table mutex: a concurrent putChannel can register after the sweep and wait forever")
		}
		if rng != nil && snd != nil && upd != nil {
			// range over inflight; send to the ranged channel an error result; replace under the ranged key
			overTable := false
			for _, l := range leavesOf(rng.X) {
				if p.isInflightLeaf(l) {
					overTable = true
				}
			}
			c.check(overTable, rule, "broadcastErr sweeps the in-flight table", pos(rng), "ranges over inflight", "broadcastErr does not range over the in-flight table")
			errRes := resultHasOnlyErr(snd.X)
			c.check(errRes, rule, "broadcastErr sends an error result", pos(snd), "every waiter gets a result with err set", "the broadcast result carries no error")
			c.check(snd.Block() == upd.Block() && inLoop(snd), rule, "broadcastErr replaces each notified entry", pos(upd), "entry replaced right after notification (exactly-once)", "a notified entry is not replaced: a later send error would be delivered to the same caller again and block")
			if mc, ok := upd.Value.(*ssa.MakeChan); ok {
				k, okc := constInt(mc.Size)
				c.check(okc && k >= 1, rule, "replacement channel buffered", pos(upd), "capacity >= 1", "the replacement channel is unbuffered: dispatchRequest's error delivery blocks forever")
				c.check(mc.Block() == upd.Block() || (inLoop(mc) && dominates(mc, upd) && loopHeadOf(mc) == loopHeadOf(upd)), rule, "replacement channel fresh per entry", pos(mc), "made inside the sweep, one per entry", "all notified entries share one replacement channel of capacity 1: the second late send error blocks its sender for ever")
			} else {
				c.bad(rule, "replacement channel", pos(upd), "the entry is not replaced by a fresh channel")
			}
		}
		if closeIn != nil {
			mn, mx, n := countPaths(bcast, nil, isReturn, func(x ssa.Instruction) bool { return x == closeIn })
			c.check(n > 0 && mn == 1 && mx == 1 && !inLoop(closeIn), rule, "closed is closed exactly once per broadcast", pos(closeIn), "close(c.closed) on every path, once", "close(c.closed) is skipped on some path or repeated")
			isClosedChan := false
			for _, l := range leavesOf(callOf(closeIn).Args[0]) {
				if l.Kind == leafFieldLoad && l.Field == "closed" {
					isClosedChan = true
				}
			}
			c.check(isClosedChan, rule, "broadcastErr closes c.closed", pos(closeIn), "the latch is c.closed", "broadcastErr closes a different channel")
			if errStore != nil {
				c.check(dominates(errStore, closeIn), rule, "err stored before closed is closed", pos(errStore), "Wait() readers see the error", "c.err is stored after `closed` is closed: Wait may return a nil error")
			}
		}
		// close(c.closed) has no other site
		for _, fn := range p.LibFuncs() {
			eachInstr(fn, func(in ssa.Instruction) {
				if cc := callOf(in); cc != nil && builtinName(cc) == "close" {
					for _, l := range leavesOf(cc.Args[0]) {
						if l.Kind == leafFieldLoad && l.Field == "closed" && typeName(l.Base.Type()) == "clientConn" {
							c.check(fn == bcast, rule, "close(c.closed) in "+fnName(fn), pos(in), "only broadcastErr closes the latch", "`closed` is closed outside broadcastErr: double close panics")
						}
					}
				}
			})
		}
	}
}

// checkUnknownIDEndsSession (C03.R4, C20.Z7): the not-ok branch of recv's table lookup ends recv with an error — the
// request that reply belonged to can never be answered, so carrying on would leave its caller waiting for ever.
func checkUnknownIDEndsSession(c *Ctx, rule string) {
	p := c.P
	recv := p.Func("(*clientConn).recv")
	get := p.Func("(*clientConn).getChannel")
	if recv == nil || get == nil {
		c.missing(rule, "(*clientConn).recv / getChannel")
		return
	}
	n := 0
	eachInstr(recv, func(in ssa.Instruction) {
		call, ok := in.(*ssa.Call)
		if !ok || call.Call.StaticCallee() != get {
			return
		}
		for _, r0 := range *call.Referrers() {
			okEx, isEx := r0.(*ssa.Extract)
			if !isEx || okEx.Index != 1 {
				continue
			}
			for _, r := range *okEx.Referrers() {
				iff, ok := r.(*ssa.If)
				if !ok {
					continue
				}
				n++
				var head func(ssa.Instruction) bool
				if l := innermostLoop(loopsOf(recv), iff.Block()); l != nil {
					head = isLoopHeadStart(l)
				}
				goesOn := head != nil && reachFromBlock(iff.Block().Succs[1], head, isReturn)
				nilRet := reachFromBlock(iff.Block().Succs[1], func(in ssa.Instruction) bool {
					rt, ok := in.(*ssa.Return)
					return ok && isReturn(in) && isNilConst(rt.Results[0])
				}, nil)
				c.check(!goesOn && !nilRet, rule, "a reply with an unknown id ends the session", p.Pos(call.Pos()), "recv returns an error, so broadcastErr fails every outstanding call",
					"recv drops a reply whose id it does not know and carries on: the request whose reply had its id damaged is never answered and its caller waits for ever")
			}
		}
	})
	if n == 0 {
		c.bad(rule, "a reply with an unknown id ends the session", p.Pos(recv.Pos()), "recv does not test whether the id of a reply is known")
	}
}

// checkEOFIsTheServersWord (C04.R9): on the download paths io.EOF means "the server answered SSH_FX_EOF"
// (normaliseError returns the bare sentinel).  A failed send is reported as `failed to send packet: %w`, and the
// transport's error may itself be io.EOF (x/crypto/ssh's channel.Write after close).  The download paths must
// therefore recognise end of file by identity; errors.Is would also match the wrapped transport error and turn a
// lost connection into a successful, truncated download.
func checkEOFIsTheServersWord(c *Ctx, rule string) {
	p := c.P
	n := 0
	for _, name := range []string{"(*File).WriteTo", "(*File).writeToSequential", "(*File).readAt", "(*File).readAtSequential", "(*File).readChunkAt", "(*File).Read"} {
		fn := p.Func(name)
		if fn == nil {
			continue
		}
		eachInstrDeep(fn, func(g *ssa.Function, in ssa.Instruction) {
			cc := callOf(in)
			isEOF := func(v ssa.Value) bool {
				for _, l := range leavesOf(v) {
					if l.Kind == leafGlobal && l.V.Name() == "EOF" {
						return true
					}
				}
				return false
			}
			if cc != nil && callIs(cc, "errors.Is") && len(cc.Args) == 2 && isEOF(cc.Args[1]) {
				n++
				c.bad(rule, fmt.Sprintf("%s: end of file recognised by identity #%d", name, n), p.Pos(in.Pos()), "errors.Is(err, io.EOF) on a download path also matches a failed send that wraps io.EOF (\"failed to send packet: EOF\"): a lost connection ends the download with a nil error")
				return
			}
			if b, ok := in.(*ssa.BinOp); ok && (b.Op == token.EQL || b.Op == token.NEQ) && (isEOF(b.X) || isEOF(b.Y)) {
				n++
				c.ok(rule, fmt.Sprintf("%s: end of file recognised by identity #%d", name, n), p.Pos(in.Pos()), "err == io.EOF")
			}
		})
	}
	c.check(n >= 2, rule, "EOF tests on the download paths", "?", fmt.Sprintf("%d tests", n), fmt.Sprintf("only %d EOF tests found on the download paths", n))
}

// checkWriteFailureLatched (C04.R10): sendPacket(w, m) puts a frame on the wire in more than one Write.  When one of
// them fails, the peer holds a torn frame and reads whatever is sent next as the rest of it, so the connection is lost
// at that moment, whatever the transport says later: the writer that (*conn).sendPacket hands to the framing function
// must remember the first failure and close the transport (the peer then sees the end of the stream, the receiver ends
// and every waiter is told), and must refuse to write once a failure is remembered.  With the connection itself as the
// writer the error reaches the one caller whose packet it was; the next call writes behind the torn frame and waits
// for ever for a reply, and Wait never returns.
func checkWriteFailureLatched(c *Ctx, rule string) {
	p := c.P
	pkgSend := p.Func("sendPacket")
	connSend := p.Func("(*conn).sendPacket")
	if pkgSend == nil || connSend == nil {
		c.missing(rule, "sendPacket / (*conn).sendPacket")
		return
	}
	n := 0
	checkWrites := func(w *ssa.Function, writes []ssa.Instruction, key string) {
		checkLatchedWrites(c, rule, w, writes, key)
	}
	for _, in := range callsWhere(connSend, func(cc *ssa.CallCommon) bool { return cc.StaticCallee() == pkgSend }) {
		n++
		arg := in.(*ssa.Call).Call.Args[0]
		var T types.Type
		switch x := arg.(type) {
		case *ssa.MakeInterface:
			T = x.X.Type()
		case *ssa.ChangeInterface:
			T = x.X.Type()
		}
		key := "the writer (*conn).sendPacket frames into remembers a failed write"
		if T == nil {
			c.und(rule, key, p.Pos(in.Pos()), "the writer handed to sendPacket(w, m) is not a concrete value")
			continue
		}
		sel := p.SSA.MethodSets.MethodSet(T).Lookup(p.Sftp.Pkg, "Write")
		if sel == nil {
			c.und(rule, key, p.Pos(in.Pos()), "no Write method found on "+T.String())
			continue
		}
		w := p.SSA.MethodValue(sel)
		if w == nil || w.Synthetic != "" || w.Blocks == nil {
			c.bad(rule, key, p.Pos(in.Pos()), "the connection's transport is itself the writer of the framing function: a Write that fails (header out, payload not; a write deadline; EPIPE with the read side still open) is reported to the one caller whose packet it was and forgotten — the next request is written behind the torn frame and is never answered, and Wait never returns")
			continue
		}
		c.looked(fnName(w))
		writes := callsWhere(w, func(cc *ssa.CallCommon) bool { return cc.IsInvoke() && cc.Method.Name() == "Write" })
		if len(writes) == 0 {
			// an adapter (a func type with a Write method): the function it hands the bytes to does the writing
			for _, in := range anyCallsWhere(w, func(cc *ssa.CallCommon) bool { return !cc.IsInvoke() && cc.StaticCallee() == nil }) {
				if site, ok := in.(ssa.CallInstruction); ok {
					for _, callee := range p.calleesAt(site) {
						for callee != nil && callee.Synthetic != "" && len(staticCallees(callee)) == 1 {
							callee = staticCallees(callee)[0]
						}
						if callee != nil && callee.Blocks != nil && inModule(callee) {
							if ws := callsWhere(callee, func(cc *ssa.CallCommon) bool { return cc.IsInvoke() && cc.Method.Name() == "Write" }); len(ws) > 0 {
								w, writes = callee, ws
							}
						}
					}
				}
			}
		}
		if len(writes) == 0 {
			c.und(rule, key, p.Pos(w.Pos()), fnName(w)+" does not write to a transport")
			continue
		}
		checkWrites(w, writes, key)
	}
	if n == 0 {
		// the framing function folded into (*conn).sendPacket: it writes to the transport itself
		ws := callsWhere(connSend, func(cc *ssa.CallCommon) bool {
			if !cc.IsInvoke() || cc.Method.Name() != "Write" {
				return false
			}
			for _, l := range leavesOf(cc.Value) {
				if l.Kind == leafFieldLoad && l.Field == "WriteCloser" {
					return true
				}
			}
			return false
		})
		if len(ws) > 0 {
			checkWrites(connSend, ws, "(*conn).sendPacket, which writes the frame itself, remembers a failed write")
			n = 1
		}
	}
	c.check(n == 1, rule, "(*conn).sendPacket frames through sendPacket(w, m)", p.Pos(connSend.Pos()), "one call", fmt.Sprintf("%d calls of sendPacket(w, m) in (*conn).sendPacket", n))
}

func checkLatchedWrites(c *Ctx, rule string, w *ssa.Function, writes []ssa.Instruction, key string) {
	p := c.P
	// conn itself, or a type defined as conn (`type latchedWriter conn`: the same fields seen as the writer)
	isConnLike := func(t types.Type) bool {
		if typeName(t) == "conn" {
			return true
		}
		cn := p.NamedType(p.Sftp, "conn")
		if pt, ok := t.(*types.Pointer); ok {
			t = pt.Elem()
		}
		return cn != nil && types.Identical(t.Underlying(), cn.Underlying())
	}
	{
		for _, wr := range writes {
			call := wr.(*ssa.Call)
			// (a) refused once a failure is remembered: dominated by the nil side of a test of an error field
			latch := ""
			for b := call.Block(); b != nil && latch == ""; b = b.Idom() {
				for _, pred := range b.Preds {
					for cv, truth := range edgeConds(b, pred) {
						bo, ok := cv.(*ssa.BinOp)
						if !ok || !isNilConst(bo.Y) || !((bo.Op == token.EQL && truth) || (bo.Op == token.NEQ && !truth)) {
							continue
						}
						if u, ok := bo.X.(*ssa.UnOp); ok && u.Op == token.MUL {
							if st, name, _, ok := fieldOf(u.X); ok && isConnLike(st) && bo.X.Type().String() == "error" {
								latch = name
							}
						}
					}
				}
			}
			// … and, where this function is the one that takes the connection's mutex (the framing folded into
			// conn.sendPacket), that test is made with the mutex held: a sender that waited for the lock while the packet
			// before it tore must see the latch when it gets in
			if latch != "" && w.Signature.Recv() != nil && typeName(w.Signature.Recv().Type()) == "conn" {
				locks, _ := lockCallsIn(w)
				if len(locks) > 0 {
					for _, b := range w.Blocks {
						iff, ok := b.Instrs[len(b.Instrs)-1].(*ssa.If)
						if !ok {
							continue
						}
						bo, ok := iff.Cond.(*ssa.BinOp)
						if !ok || !isNilConst(bo.Y) {
							continue
						}
						if u, ok := bo.X.(*ssa.UnOp); ok && u.Op == token.MUL {
							if st, name, _, ok := fieldOf(u.X); ok && isConnLike(st) && name == latch && dominates(iff, call) {
								c.check(heldAt(u, w.Params[0], "conn.Mutex") == "Lock", rule, key+" (latch read under the mutex)", p.Pos(u.Pos()), "conn."+latch+" is read with conn's mutex held",
									"the remembered write failure is looked at before the connection's mutex is taken: a sender that queued for the mutex while the previous packet was torn writes its whole packet behind the torn one")
							}
						}
					}
				}
			}
			// (b) a failure is remembered and the transport closed before returning
			var failEdge *ssa.BasicBlock
			for _, r := range *call.Referrers() {
				ex, ok := r.(*ssa.Extract)
				if !ok || ex.Index != 1 {
					continue
				}
				for _, nt := range nilTests(ex) {
					failEdge = nt.nonNil
				}
			}
			stores, closes := false, false
			if failEdge != nil && latch != "" {
				// every way from the Write to a return either takes the nil side of a test of its error, or passes the
				// store to the latch (and the Close): an early return in front of the test — for one kind of error, say a
				// timeout — leaves a torn frame on a connection that goes on being used
				var tests []nilTest
				for _, r := range *call.Referrers() {
					if ex, ok := r.(*ssa.Extract); ok && ex.Index == 1 {
						tests = append(tests, nilTests(ex)...)
					}
				}
				nilEdge := func(a, b *ssa.BasicBlock, _ int) bool {
					for _, nt := range tests {
						if nt.iff.Block() == a && nt.isNil == b && nt.isNil != nt.nonNil {
							return true
						}
					}
					return false
				}
				idx := 0
				for k, in := range call.Block().Instrs {
					if in == ssa.Instruction(call) {
						idx = k + 1
					}
				}
				isLatch := func(in ssa.Instruction, _ int) bool {
					st, ok := in.(*ssa.Store)
					if !ok {
						return false
					}
					t, name, _, ok := fieldOf(st.Addr)
					return ok && isConnLike(t) && name == latch && !isNilConst(st.Val)
				}
				isCloseCall := func(in ssa.Instruction, _ int) bool {
					cc := callOf(in)
					return cc != nil && cc.IsInvoke() && cc.Method.Name() == "Close"
				}
				stores = !reachStagedX(call.Block(), idx, []func(ssa.Instruction) bool{isReturn}, isLatch, nilEdge)
				closes = !reachStagedX(call.Block(), idx, []func(ssa.Instruction) bool{isReturn}, isCloseCall, nilEdge)
			}
			c.check(latch != "" && stores && closes, rule, key, p.Pos(call.Pos()), "tests conn."+latch+" before writing, stores the failure there and closes the transport",
				fmt.Sprintf("%s does not latch a failed write (tested before writing: %v, failure stored: %v, transport closed: %v): after a Write that fails inside a frame the next request is written behind the torn frame and is never answered", fnName(w), latch != "", stores, closes))
		}
	}
}

// checkRoundTripErrorKept (C04.R11): every client call is one or more round trips through (*clientConn).sendPacket, whose
// error result is how a lost connection reaches the caller.  Necessary for "connection loss fails every call": the error
// of each round trip goes somewhere — into a return, a variable, a struct, a call — and is not merely compared with nil
// and forgotten (the shape a shadowed `err` in a loop leaves behind: the loop ends and the function returns what it
// had collected, with a nil error).
func checkRoundTripErrorKept(c *Ctx, rule string) {
	p := c.P
	sp := p.Func("(*clientConn).sendPacket")
	if sp == nil {
		c.missing(rule, "(*clientConn).sendPacket")
		return
	}
	c.looked(fnName(sp))
	n := 0
	ord := map[string]int{}
	for _, fn := range p.LibFuncs() {
		if isServerSide(fn) {
			continue
		}
		eachInstr(fn, func(in ssa.Instruction) {
			call, ok := in.(*ssa.Call)
			if !ok || call.Call.StaticCallee() != sp {
				return
			}
			n++
			k := fnName(fn)
			ord[k]++
			key := fmt.Sprintf("%s: error of round trip #%d is kept", k, ord[k])
			var errEx *ssa.Extract
			for _, r := range *call.Referrers() {
				if ex, ok := r.(*ssa.Extract); ok && ex.Index == 2 {
					errEx = ex
				}
			}
			if errEx == nil {
				c.bad(rule, key, p.Pos(in.Pos()), "the error of the round trip is discarded: a lost connection does not fail this call")
				return
			}
			// does the value go anywhere but into comparisons?  (through phis and interface conversions)
			kept := false
			seen := map[ssa.Value]bool{}
			var walk func(v ssa.Value)
			walk = func(v ssa.Value) {
				if seen[v] || kept {
					return
				}
				seen[v] = true
				refs := v.Referrers()
				if refs == nil {
					return
				}
				for _, r := range *refs {
					switch x := r.(type) {
					case *ssa.BinOp:
						// a comparison keeps nothing
					case *ssa.Phi:
						walk(x)
					case *ssa.ChangeInterface:
						walk(x)
					case *ssa.MakeInterface:
						walk(x)
					case *ssa.DebugRef:
					default:
						kept = true // returned, stored, passed on, sent, wrapped
					}
				}
			}
			walk(errEx)
			c.check(kept, rule, key, p.Pos(in.Pos()), "the error value is returned, stored or passed on",
				"the error of this round trip is only compared with nil and then forgotten: when the connection is lost here the call ends without reporting it (returns what it had, with the error of an outer variable that was never set)")
		})
	}
	c.check(n >= 15, rule, "round trips", "?", fmt.Sprintf("%d calls of sendPacket", n), fmt.Sprintf("only %d calls of sendPacket found on the client side", n))
}

// underExclusiveFileLock: the instruction (in a function of the client's File) runs only while f.mu is held exclusively —
// in its own function, or in every exported File method from whose helpers it can be reached (then that method holds
// f.mu.Lock at every call into the File's helpers).
func (p *Program) underExclusiveFileLock(in ssa.Instruction) bool {
	host := outermost(in.Parent())
	fileT := p.NamedType(p.Sftp, "File")
	if fileT == nil || !isClientFile(host) {
		return false
	}
	any := false
	for _, m := range exportedFileMethods(p, fileT) {
		if !fileCone(m)[host] {
			continue
		}
		any = true
		if m == host {
			if len(m.Params) == 0 || heldAt(in, m.Params[0], "File.mu") != "Lock" {
				return false
			}
			continue
		}
		ok := true
		eachInstr(m, func(x ssa.Instruction) {
			cc := callOf(x)
			if cc == nil {
				return
			}
			if _, isDefer := x.(*ssa.Defer); isDefer {
				return
			}
			if f := cc.StaticCallee(); f != nil && f != m && isClientFile(f) && f.Blocks != nil && fileCone(f)[host] {
				if heldAt(x, m.Params[0], "File.mu") != "Lock" {
					ok = false
				}
			}
		})
		if !ok {
			return false
		}
	}
	return any
}

// checkFramingReportsWriteErrors (C04.R12): the framing function (sendPacket of packet.go) is where a lost connection
// first shows, as the error of a Write.  From the failing side of every test of a Write's error, every return that can
// be reached hands back an error that is not nil: a failure of the payload's Write swallowed by a shadowed variable
// makes dispatchRequest believe the request went out, and its caller waits for a reply that never comes.
func checkFramingReportsWriteErrors(c *Ctx, rule string) {
	p := c.P
	fn := p.Func("sendPacket")
	if fn == nil {
		c.missing(rule, "sendPacket")
		return
	}
	n := 0
	for _, in := range callsWhere(fn, func(cc *ssa.CallCommon) bool { return cc.IsInvoke() && cc.Method.Name() == "Write" }) {
		call, ok := in.(*ssa.Call)
		if !ok {
			continue
		}
		var errEx *ssa.Extract
		for _, r := range *call.Referrers() {
			if ex, ok := r.(*ssa.Extract); ok && ex.Index == 1 {
				errEx = ex
			}
		}
		n++
		if errEx == nil {
			c.bad(rule, fmt.Sprintf("sendPacket reports the failure of Write #%d", n), p.Pos(call.Pos()), "the error of a Write is discarded")
			continue
		}
		tests := nilTests(errEx)
		lost := len(tests) == 0
		for _, nt := range tests {
			if reachFromNilSide(nt, true, func(x ssa.Instruction) bool {
				r, ok := x.(*ssa.Return)
				if !ok || len(r.Results) == 0 {
					return false
				}
				cls, _ := classify(r.Results[len(r.Results)-1], reachEnv, 0)
				return cls != clsNonNil
			}, nil) {
				lost = true
			}
		}
		c.check(!lost, rule, fmt.Sprintf("sendPacket reports the failure of Write #%d", n), p.Pos(call.Pos()), "every return behind a failed Write carries an error",
			"after a Write failed sendPacket can return a nil error: the request is taken for sent, its caller waits for a reply on a connection that is gone")
	}
	c.check(n >= 2, rule, "Write calls of sendPacket", p.Pos(fn.Pos()), fmt.Sprintf("%d Write calls", n), fmt.Sprintf("only %d Write calls found in sendPacket (header and payload expected)", n))
}

// chanAndIDArgs: the channel argument and the uint32 argument of a call (of putChannel), whatever their order.
func chanAndIDArgs(cc *ssa.CallCommon) (ch, id ssa.Value) {
	for _, a := range argsOf(cc) {
		if _, isChan := a.Type().Underlying().(*types.Chan); isChan && ch == nil {
			ch = a
		}
		if isBasicKind(types.Uint32)(a.Type()) && id == nil {
			id = a
		}
	}
	return
}

// chanParamOf: the channel-typed parameter of a method (receiver excluded).
func chanParamOf(fn *ssa.Function) *ssa.Parameter {
	for i, prm := range fn.Params {
		if i == 0 && fn.Signature.Recv() != nil {
			continue
		}
		if _, isChan := prm.Type().Underlying().(*types.Chan); isChan {
			return prm
		}
	}
	return nil
}
