package main

import (
	"fmt"
	"go/token"
	"go/types"
	"sort"
	"strconv"
	"strings"

	"golang.org/x/tools/go/ssa"
)

// requestTypes lists the concrete packet types makePacket can build, and the
// SpecificPacket types sshFxpExtendedPacket.UnmarshalBinary can build.
func requestTypes(c *Ctx, rule string) (top, specific []types.Type) {
	p := c.P
	mk := p.Func("makePacket")
	if mk == nil {
		c.missing(rule, "makePacket")
		return
	}
	c.looked("makePacket")
	seen := map[string]bool{}
	// makePacket itself, and the constructors it calls when the switch on the type byte has become a table of them
	// (func() requestPacket values, resolved through the call graph)
	makers := []*ssa.Function{mk}
	if n := p.VTA().Nodes[mk]; n != nil {
		for _, e := range n.Out {
			f := e.Callee.Func
			if f == nil || f == mk || f.Blocks == nil || !inModule(f) {
				continue
			}
			if rs := f.Signature.Results(); rs.Len() == 1 && f.Signature.Params().Len() == 0 && typeName(rs.At(0).Type()) == "requestPacket" {
				makers = append(makers, f)
			}
		}
	}
	for _, f := range makers {
		eachInstr(f, func(in ssa.Instruction) {
			if mi, ok := in.(*ssa.MakeInterface); ok && typeName(mi.Type()) == "requestPacket" {
				t := mi.X.Type()
				if !seen[t.String()] {
					seen[t.String()] = true
					top = append(top, t)
				}
			}
		})
	}
	ub := p.Func("(*sshFxpExtendedPacket).UnmarshalBinary")
	if ub == nil {
		c.missing(rule, "(*sshFxpExtendedPacket).UnmarshalBinary")
		return
	}
	c.looked(fnName(ub))
	eachInstr(ub, func(in ssa.Instruction) {
		if mi, ok := in.(*ssa.MakeInterface); ok {
			if _, isIface := mi.Type().Underlying().(*types.Interface); isIface && p.isRequestType(mi.X.Type()) && typeName(mi.X.Type()) != "sshFxpExtendedPacket" {
				t := mi.X.Type()
				if !seen[t.String()] {
					seen[t.String()] = true
					specific = append(specific, t)
				}
			}
		}
	})
	for _, t := range p.extendedDecodeTable() {
		if p.isRequestType(t) && typeName(t) != "sshFxpExtendedPacket" && !seen[t.String()] {
			seen[t.String()] = true
			specific = append(specific, t)
		}
	}
	sort.Slice(top, func(i, j int) bool { return top[i].String() < top[j].String() })
	sort.Slice(specific, func(i, j int) bool { return specific[i].String() < specific[j].String() })
	return
}

func assertMatches(t, asserted types.Type) bool {
	if it, ok := asserted.Underlying().(*types.Interface); ok {
		return types.Implements(t, it)
	}
	return types.Identical(t, asserted)
}

// firstTypeAssertOn finds the first comma-ok type assertion on val in block order
// whose block is not dominated by another assertion on val (the head of the switch).
// switchKey names the value a type assertion looks at so that two reads of the same field of the same struct value
// (x.f.(T) written twice instead of one `switch x.f.(type)`) count as the same value.
func switchKey(v ssa.Value) string {
	switch x := v.(type) {
	case *ssa.Field:
		return fmt.Sprintf("%s.#%d", switchKey(x.X), x.Field)
	case *ssa.UnOp:
		if fa, ok := x.X.(*ssa.FieldAddr); ok && x.Op == token.MUL {
			return fmt.Sprintf("*%s.#%d", switchKey(fa.X), fa.Field)
		}
	}
	return fmt.Sprintf("%p", v)
}

func sameSwitchVal(a, b ssa.Value) bool { return a == b || switchKey(a) == switchKey(b) }

func switchHead(fn *ssa.Function, val ssa.Value) *ssa.TypeAssert {
	for _, b := range fn.Blocks {
		for _, in := range b.Instrs {
			if ta, ok := in.(*ssa.TypeAssert); ok && ta.CommaOk && sameSwitchVal(ta.X, val) {
				return ta
			}
		}
	}
	return nil
}

// simulate replays the type switch headed by ta for dynamic type t. It returns the
// block entered (case body) and whether that is the default arm (no case matched).
func simulate(ta *ssa.TypeAssert, t types.Type) (body *ssa.BasicBlock, isDefault bool, matched *ssa.TypeAssert) {
	body, isDefault, matched, _ = simulateFrom(ta, t)
	return
}

// simulateDeep is simulate for rules that ask what is *done* for a type: it goes on into a switch on the same value
// inside the arm (an arm that lists several types and tells them apart again).
func simulateDeep(ta *ssa.TypeAssert, t types.Type) (body *ssa.BasicBlock, isDefault bool, matched *ssa.TypeAssert) {
	body, isDefault, matched, _ = simulateFrom(ta, t)
	// an arm that lists several types and switches on the same value again inside: go on in the inner switch
	for depth := 0; depth < 3 && !isDefault && body != nil; depth++ {
		var inner *ssa.TypeAssert
		fn := ta.Parent()
		for _, b := range fn.Blocks {
			if !(b == body || body.Dominates(b)) {
				continue
			}
			for _, in := range b.Instrs {
				if x, ok := in.(*ssa.TypeAssert); ok && x.CommaOk && x != matched && sameSwitchVal(x.X, ta.X) && inner == nil {
					inner = x
				}
			}
			if inner != nil {
				break
			}
		}
		if inner == nil {
			break
		}
		b2, d2, m2, _ := simulateFrom(inner, t)
		if b2 == nil || m2 == nil && !d2 {
			break
		}
		if d2 {
			// no inner arm for this type: the outer arm's own code (behind the inner switch) is what runs
			break
		}
		body, matched = b2, m2
	}
	return
}

// simulateFrom also returns the block holding the branch that decided.
func simulateFrom(ta *ssa.TypeAssert, t types.Type) (body *ssa.BasicBlock, isDefault bool, matched *ssa.TypeAssert, from *ssa.BasicBlock) {
	val := ta.X
	cur := ta
	for {
		var okEx *ssa.Extract
		for _, r := range *cur.Referrers() {
			if ex, ok := r.(*ssa.Extract); ok && ex.Index == 1 {
				okEx = ex
			}
		}
		var iff *ssa.If
		if okEx != nil {
			for _, r := range *okEx.Referrers() {
				if i, ok := r.(*ssa.If); ok {
					iff = i
				}
			}
		}
		if iff == nil {
			// assertion without a branch (empty case body shares the successor)
			if assertMatches(t, cur.AssertedType) {
				return cur.Block(), false, cur, cur.Block()
			}
			return cur.Block(), true, nil, cur.Block()
		}
		if assertMatches(t, cur.AssertedType) {
			return iff.Block().Succs[0], false, cur, iff.Block()
		}
		next := iff.Block().Succs[1]
		var nta *ssa.TypeAssert
		for _, in := range next.Instrs {
			if x, ok := in.(*ssa.TypeAssert); ok && x.CommaOk && sameSwitchVal(x.X, val) {
				nta = x
				break
			}
		}
		if nta == nil {
			return next, true, nil, iff.Block()
		}
		cur = nta
	}
}

// switchedValue returns the interface value that fn type-switches on and that is a
// requestPacket (the `pkt.requestPacket` of the worker functions).
func requestSwitchValue(fn *ssa.Function) ssa.Value {
	counts := map[string]int{}
	var order []ssa.Value
	eachInstr(fn, func(in ssa.Instruction) {
		if ta, ok := in.(*ssa.TypeAssert); ok && ta.CommaOk && typeName(ta.X.Type()) == "requestPacket" {
			k := switchKey(ta.X)
			if counts[k] == 0 {
				order = append(order, ta.X)
			}
			counts[k]++
		}
	})
	var best ssa.Value
	for _, v := range order {
		if best == nil || counts[switchKey(v)] > counts[switchKey(best)] {
			best = v
		}
	}
	return best
}

// respTypes computes the set of concrete types a function may return as responsePacket.
func (p *Program) respTypes(fn *ssa.Function, depth int, seen map[*ssa.Function]bool) (out map[string]bool, unknown bool) {
	out = map[string]bool{}
	if fn == nil || fn.Blocks == nil || depth > 6 || seen[fn] {
		return out, fn == nil || fn.Blocks == nil
	}
	seen[fn] = true
	defer delete(seen, fn)
	eachInstr(fn, func(in ssa.Instruction) {
		r, ok := in.(*ssa.Return)
		if !ok || len(r.Results) == 0 || !isReturn(in) {
			return
		}
		ts, unk := p.valueRespTypes(r.Results[0], depth, seen)
		for t := range ts {
			out[t] = true
		}
		unknown = unknown || unk
	})
	return
}

// valueRespTypes: concrete types that may flow into an interface/pointer value.
func (p *Program) valueRespTypes(v ssa.Value, depth int, seen map[*ssa.Function]bool) (out map[string]bool, unknown bool) {
	out = map[string]bool{}
	for _, l := range leavesOfIface(v) {
		switch x := l.(type) {
		case *ssa.MakeInterface:
			out[typeName(x.X.Type())] = true
		case *ssa.Const:
			// nil: no packet
			if !isNilConst(x) {
				unknown = true
			}
		case *ssa.Call:
			cc := &x.Call
			if f := cc.StaticCallee(); f != nil {
				if _, isIface := f.Signature.Results().At(0).Type().Underlying().(*types.Interface); !isIface {
					out[typeName(f.Signature.Results().At(0).Type())] = true
					continue
				}
				ts, unk := p.respTypes(f, depth+1, seen)
				for t := range ts {
					out[t] = true
				}
				unknown = unknown || unk
			} else if cc.IsInvoke() {
				// resolve over all module implementations of the method on request types
				impls := p.calleesAt(x)
				if len(impls) == 0 {
					impls = p.implsOf(cc)
				}
				if len(impls) == 0 {
					unknown = true
				}
				for _, f := range impls {
					ts, unk := p.respTypes(f, depth+1, seen)
					for t := range ts {
						out[t] = true
					}
					unknown = unknown || unk
				}
			} else {
				unknown = true
			}
		default:
			if _, isIface := l.Type().Underlying().(*types.Interface); !isIface {
				out[typeName(l.Type())] = true
			} else {
				unknown = true
			}
		}
	}
	return
}

// leavesOfIface walks phis, local variable loads and interface conversions.
func leavesOfIface(v ssa.Value) []ssa.Value {
	var out []ssa.Value
	seen := map[ssa.Value]bool{}
	var walk func(ssa.Value)
	walk = func(v ssa.Value) {
		if v == nil || seen[v] {
			return
		}
		seen[v] = true
		switch x := v.(type) {
		case *ssa.Phi:
			for _, e := range x.Edges {
				walk(e)
			}
		case *ssa.ChangeInterface:
			walk(x.X)
		case *ssa.ChangeType:
			walk(x.X)
		case *ssa.UnOp:
			if a, ok := x.X.(*ssa.Alloc); ok {
				for _, st := range reachingStores(x, a) {
					walk(st.Val)
				}
				return
			}
			out = append(out, v)
		case *ssa.Extract:
			if ta, ok := x.Tuple.(*ssa.TypeAssert); ok && x.Index == 0 {
				walk(ta.X)
				return
			}
			out = append(out, v)
		case *ssa.TypeAssert:
			walk(x.X)
		default:
			out = append(out, v)
		}
	}
	walk(v)
	return out
}

// implsOf resolves an interface method call to the module's implementations, restricted
// by the static type of the receiver.
func (p *Program) implsOf(cc *ssa.CallCommon) []*ssa.Function {
	if !cc.IsInvoke() {
		return nil
	}
	it, ok := cc.Value.Type().Underlying().(*types.Interface)
	if !ok {
		return nil
	}
	var out []*ssa.Function
	for _, pk := range []*ssa.Package{p.Sftp, p.Sshfx, p.Ossh} {
		for _, m := range pk.Members {
			tn, ok := m.(*ssa.Type)
			if !ok {
				continue
			}
			for _, t := range []types.Type{tn.Type(), types.NewPointer(tn.Type())} {
				if _, isI := t.Underlying().(*types.Interface); isI {
					continue
				}
				if !types.Implements(t, it) {
					continue
				}
				sel := p.SSA.MethodSets.MethodSet(t).Lookup(cc.Method.Pkg(), cc.Method.Name())
				if sel == nil {
					continue
				}
				if f := p.SSA.MethodValue(sel); f != nil {
					dup := false
					for _, o := range out {
						if o == f {
							dup = true
						}
					}
					if !dup {
						out = append(out, f)
					}
				}
			}
		}
	}
	return out
}

// methodOf returns the SSA function implementing method name for type t.
func (p *Program) methodOf(t types.Type, name string) *ssa.Function {
	sel := p.SSA.MethodSets.MethodSet(t).Lookup(p.Sftp.Pkg, name)
	if sel == nil {
		return nil
	}
	return p.SSA.MethodValue(sel)
}

// extendedDecodeTable: extension name -> the concrete type of the specific packet the extended decoder builds for it.
// Read from (*sshFxpExtendedPacket).UnmarshalBinary in whichever way it is written: a switch (or if-chain) on the name
// whose arms store a value into SpecificPacket, or a package-level map from names to constructors whose result is
// stored there (the map's contents come from the interpreter's pass over the package initialiser).
func (p *Program) extendedDecodeTable() map[string]types.Type {
	if p.extTable != nil {
		return p.extTable
	}
	out := map[string]types.Type{}
	p.extTable = out
	ub := p.Func("(*sshFxpExtendedPacket).UnmarshalBinary")
	if ub == nil {
		return out
	}
	concreteOf := func(v ssa.Value) types.Type {
		for i := 0; i < 4; i++ {
			switch x := v.(type) {
			case *ssa.MakeInterface:
				return x.X.Type()
			case *ssa.ChangeInterface:
				v = x.X
			default:
				return nil
			}
		}
		return nil
	}
	storesSpecific := func(b *ssa.BasicBlock) ssa.Value {
		for _, in := range b.Instrs {
			if st, ok := in.(*ssa.Store); ok {
				if _, n, _, ok := fieldOf(st.Addr); ok && n == "SpecificPacket" && !isNilConst(st.Val) {
					return st.Val
				}
			}
		}
		return nil
	}
	// the switch form
	for _, b := range ub.Blocks {
		iff, ok := b.Instrs[len(b.Instrs)-1].(*ssa.If)
		if !ok {
			continue
		}
		cmp, ok := iff.Cond.(*ssa.BinOp)
		if !ok || cmp.Op != token.EQL {
			continue
		}
		s, ok := constString(cmp.Y)
		if !ok {
			continue
		}
		if v := storesSpecific(b.Succs[0]); v != nil {
			if t := concreteOf(v); t != nil {
				out[s] = t
			}
		}
	}
	// the table form: SpecificPacket = table[name]()  (the call's function value comes from a lookup in a global map)
	eachInstr(ub, func(in ssa.Instruction) {
		st, ok := in.(*ssa.Store)
		if !ok {
			return
		}
		if _, n, _, ok := fieldOf(st.Addr); !ok || n != "SpecificPacket" {
			return
		}
		v := st.Val
		if ci, ok := v.(*ssa.ChangeInterface); ok {
			v = ci.X
		}
		call, ok := v.(*ssa.Call)
		if !ok || call.Call.IsInvoke() || call.Call.StaticCallee() != nil {
			return
		}
		fv := call.Call.Value
		if ex, ok := fv.(*ssa.Extract); ok {
			fv = ex.Tuple
		}
		lk, ok := fv.(*ssa.Lookup)
		if !ok {
			return
		}
		ld, ok := lk.X.(*ssa.UnOp)
		if !ok || ld.Op != token.MUL {
			return
		}
		g, ok := ld.X.(*ssa.Global)
		if !ok {
			return
		}
		ev := newEvaluator(p)
		slot, ok := ev.globalScalars(g.Pkg).fields["g:"+g.Name()]
		if !ok || slot.k != evObject {
			return
		}
		for k, e := range slot.obj.fields {
			if !strings.HasPrefix(k, "k:") || e.k != evFunc || e.fn == nil {
				continue
			}
			name, err := strconv.Unquote(k[2:])
			if err != nil {
				continue
			}
			var t types.Type
			eachInstr(e.fn, func(x ssa.Instruction) {
				if r, ok := x.(*ssa.Return); ok && len(r.Results) == 1 {
					if ct := concreteOf(r.Results[0]); ct != nil {
						t = ct
					}
				}
			})
			if t != nil {
				out[name] = t
			}
		}
	})
	return out
}

// checkWrapperNotTakenForPacket (C02.R9, C09.R7, C14.R8): the dispatchers carry a request as an orderedRequest — a struct
// that embeds the requestPacket interface, and therefore itself satisfies every interface the packet satisfies.  Handing
// the wrapper (instead of its embedded packet) to code that asks "which packet is this?" compiles and answers "none of
// them": a type switch on it never matches a packet type, a marker-interface assertion never holds.  No value of a
// wrapper type is converted to an interface in library code (methods promoted through the wrapper are called on it
// directly, which needs no conversion).
func checkWrapperNotTakenForPacket(c *Ctx, rule string) {
	p := c.P
	// the interfaces of this package that a struct type embeds
	embeddedOf := func(t types.Type) []types.Type {
		n := namedOf(t)
		if n == nil || n.Obj().Pkg() != p.Sftp.Pkg {
			return nil
		}
		st, ok := n.Underlying().(*types.Struct)
		if !ok {
			return nil
		}
		var out []types.Type
		for i := 0; i < st.NumFields(); i++ {
			if f := st.Field(i); f.Embedded() && types.IsInterface(f.Type()) {
				if en := namedOf(f.Type()); en != nil && en.Obj().Pkg() == p.Sftp.Pkg {
					out = append(out, f.Type())
				}
			}
		}
		return out
	}
	isWrapper := func(t types.Type) bool { return len(embeddedOf(t)) > 0 }
	// the conversion could have been made from the embedded packet alone: the wrapper adds nothing the target needs
	viaEmbedded := func(from, to types.Type) bool {
		it, ok := to.Underlying().(*types.Interface)
		if !ok || it.NumMethods() == 0 {
			return false
		}
		for _, e := range embeddedOf(from) {
			if types.Implements(e, it) {
				return true
			}
		}
		return false
	}
	nWrappers := 0
	for _, name := range p.Sftp.Pkg.Scope().Names() {
		if tn, ok := p.Sftp.Pkg.Scope().Lookup(name).(*types.TypeName); ok && isWrapper(tn.Type()) {
			nWrappers++
		}
	}
	c.check(nWrappers >= 2, rule, "wrapper types", "?", fmt.Sprintf("%d struct types embed an interface", nWrappers), "the ordering wrappers (orderedRequest, orderedResponse) were not found")
	ord := map[string]int{}
	for _, fn := range p.LibFuncs() {
		if outermost(fn).Pkg != p.Sftp {
			continue
		}
		eachInstr(fn, func(in ssa.Instruction) {
			mi, ok := in.(*ssa.MakeInterface)
			if !ok || !isWrapper(mi.X.Type()) || !viaEmbedded(mi.X.Type(), mi.Type()) {
				return
			}
			k := fnName(fn) + ": " + typeName(mi.X.Type()) + " as " + typeName(mi.Type())
			ord[k]++
			key := k
			if ord[k] > 1 {
				key = fmt.Sprintf("%s #%d", k, ord[k])
			}
			c.bad(rule, key, p.Pos(in.Pos()), "the "+typeName(mi.X.Type())+" wrapper is passed where a "+typeName(mi.Type())+" is expected: it satisfies the interface through the packet it embeds, but it is none of the packet types — a type switch or a marker-interface test on it matches nothing (pass the embedded packet)")
		})
	}
}

// requestFieldsOf runs requestFromPacket on a packet of the named type whose fields are opaque tokens named after
//  themselves, and reports where each field of the Request it returns comes from: "Newpath", "clean:Newpath" (through
// cleanPathWithBase with the start directory; "clean-elsewhere:" with another base), "copy:Attrs" (a fresh slice with that field's contents).  However the function is written — a
// type switch, a method per packet type behind an interface, helpers — the answer is the same; ok is false when the
// interpreter cannot run it to its return (a branch on something it does not know).
func (p *Program) requestFieldsOf(tn string) (map[string]string, bool) {
	rfp := p.Func("requestFromPacket")
	nt := p.NamedType(p.Sftp, tn)
	if rfp == nil || nt == nil || len(rfp.Params) != 3 {
		return nil, false
	}
	st, isStruct := nt.Underlying().(*types.Struct)
	if !isStruct {
		return nil, false
	}
	obj := &evObj{typ: nt, fields: map[string]evVal{}}
	for i := 0; i < st.NumFields(); i++ {
		f := st.Field(i)
		tok := evSymbol(f.Name())
		if types.IsInterface(f.Type()) {
			// Attrs interface{}: the decoders put the raw bytes there
			obj.fields[f.Name()] = evVal{k: evIface, t: types.NewSlice(types.Typ[types.Byte]), inner: &tok}
		} else {
			obj.fields[f.Name()] = tok
		}
	}
	ev := newEvaluator(p)
	clean := p.Func("cleanPathWithBase")
	ev.opaque = func(callee *ssa.Function, args []evVal) (evVal, bool) {
		if callee == clean && clean != nil && len(args) == 2 {
			if l := labelOf(args[1]); l != "" {
				if labelOf(args[0]) != "baseDir" {
					return evSymbol("clean-elsewhere:" + l), true // made absolute against something other than the start directory
				}
				return evSymbol("clean:" + l), true
			}
			return evVal{}, true
		}
		if callee.Pkg != nil && callee.Pkg.Pkg.Path() == "bytes" && callee.Name() == "Clone" && len(args) == 1 {
			if l := labelOf(args[0]); l != "" {
				return evSymbol("copy:" + l), true
			}
		}
		return evVal{}, false
	}
	pt := types.NewPointer(nt)
	arg := evVal{k: evIface, t: pt, inner: &evVal{k: evObject, obj: obj}}
	res := ev.run(rfp, []evVal{{}, arg, evSymbol("baseDir")}, 0)
	if res.kind != "return" || len(res.vals) != 1 || res.vals[0].k != evObject {
		return nil, false
	}
	out := map[string]string{}
	for name, v := range res.vals[0].obj.fields {
		if l := labelOf(v); l != "" {
			out[name] = l
		}
	}
	return out, true
}
