package main

import (
	"go/token"
	"go/types"

	"golang.org/x/tools/go/ssa"
)

// Engine V: backward value provenance.

type leafKind int

const (
	leafConst leafKind = iota
	leafParam
	leafFieldLoad  // load of base.Field (through a pointer or a struct value)
	leafCallResult // result #idx of a call
	leafGlobal
	leafBinOp
	leafOther
)

type leaf struct {
	Kind   leafKind
	V      ssa.Value // the SSA value at the leaf
	Field  string    // leafFieldLoad
	Base   ssa.Value // leafFieldLoad: the struct (pointer) value
	Call   *ssa.CallCommon
	CallIn ssa.Instruction
	Idx    int // result index
	Param  *ssa.Parameter
}

// leavesOf walks backwards from v through phis, conversions, tuple extracts,
// loads of local variables (all stores, including those made by closures) and
// free variables, and returns the leaves.
func leavesOf(v ssa.Value) []leaf {
	var out []leaf
	seen := map[ssa.Value]bool{}
	var walk func(v ssa.Value, idx int)
	walk = func(v ssa.Value, idx int) {
		if v == nil {
			return
		}
		if seen[v] {
			return
		}
		seen[v] = true
		switch x := v.(type) {
		case *ssa.Const:
			out = append(out, leaf{Kind: leafConst, V: x})
		case *ssa.Parameter:
			out = append(out, leaf{Kind: leafParam, V: x, Param: x})
		case *ssa.Global:
			out = append(out, leaf{Kind: leafGlobal, V: x})
		case *ssa.Phi:
			for _, e := range x.Edges {
				walk(e, idx)
			}
		case *ssa.Convert:
			walk(x.X, idx)
		case *ssa.ChangeType:
			walk(x.X, idx)
		case *ssa.MakeInterface:
			walk(x.X, idx)
		case *ssa.ChangeInterface:
			walk(x.X, idx)
		case *ssa.Extract:
			if c, ok := x.Tuple.(*ssa.Call); ok {
				out = append(out, leaf{Kind: leafCallResult, V: x, Call: &c.Call, CallIn: c, Idx: x.Index})
			} else if ta, ok := x.Tuple.(*ssa.TypeAssert); ok && x.Index == 0 {
				walk(ta.X, idx)
			} else {
				out = append(out, leaf{Kind: leafOther, V: x})
			}
		case *ssa.TypeAssert:
			walk(x.X, idx)
		case *ssa.Call:
			out = append(out, leaf{Kind: leafCallResult, V: x, Call: &x.Call, CallIn: x, Idx: 0})
		case *ssa.UnOp:
			if x.Op != token.MUL {
				out = append(out, leaf{Kind: leafOther, V: x})
				return
			}
			switch a := x.X.(type) {
			case *ssa.Alloc:
				sts := reachingStores(x, a)
				if len(sts) == 0 {
					out = append(out, leaf{Kind: leafOther, V: x})
				}
				for _, st := range sts {
					walk(st.Val, idx)
				}
			case *ssa.FreeVar:
				r := resolveFreeVar(a)
				for {
					if fv, ok := r.(*ssa.FreeVar); ok {
						r = resolveFreeVar(fv)
						continue
					}
					break
				}
				if al, ok := r.(*ssa.Alloc); ok {
					for _, st := range storesTo(al.Parent(), al) {
						walk(st.Val, idx)
					}
				} else if r != nil {
					walk(r, idx)
				} else {
					out = append(out, leaf{Kind: leafOther, V: x})
				}
			case *ssa.FieldAddr:
				_, name, base, ok := fieldOf(a)
				if !ok {
					out = append(out, leaf{Kind: leafOther, V: x})
					return
				}
				// a field of a local struct variable: follow stores to that field address
				if root, _ := accessPath(a); root != nil {
					if al, isAlloc := root.(*ssa.Alloc); isAlloc && !al.Heap {
						found := false
						eachInstr(al.Parent(), func(in ssa.Instruction) {
							if st, ok := in.(*ssa.Store); ok {
								if fa, ok := st.Addr.(*ssa.FieldAddr); ok && fa.X == a.X && fa.Field == a.Field {
									found = true
									walk(st.Val, idx)
								}
							}
						})
						if found {
							return
						}
					}
				}
				out = append(out, leaf{Kind: leafFieldLoad, V: x, Field: name, Base: base})
			case *ssa.Global:
				out = append(out, leaf{Kind: leafGlobal, V: a})
			default:
				out = append(out, leaf{Kind: leafOther, V: x})
			}
		case *ssa.Field:
			_, name, base, ok := fieldOf(x)
			if !ok {
				out = append(out, leaf{Kind: leafOther, V: x})
				return
			}
			out = append(out, leaf{Kind: leafFieldLoad, V: x, Field: name, Base: base})
		case *ssa.BinOp:
			out = append(out, leaf{Kind: leafBinOp, V: x})
		default:
			out = append(out, leaf{Kind: leafOther, V: x})
		}
	}
	walk(v, 0)
	return out
}

// implementsIface: does T (or *T) implement the named interface of the root package?
func (p *Program) implementsIface(t types.Type, iface string) bool {
	obj := p.Sftp.Pkg.Scope().Lookup(iface)
	if obj == nil {
		return false
	}
	it, ok := obj.Type().Underlying().(*types.Interface)
	if !ok {
		return false
	}
	return types.Implements(t, it)
}

// isRequestType: t is a concrete request packet type or one of the request-side interfaces.
func (p *Program) isRequestType(t types.Type) bool {
	if t == nil {
		return false
	}
	switch typeName(t) {
	case "requestPacket", "hasPath", "hasHandle", "serverRespondablePacket", "orderedRequest", "idmarshaler":
		return true
	}
	if _, ok := t.Underlying().(*types.Interface); ok {
		// anonymous interface embedding serverRespondablePacket (SpecificPacket)
		return p.implementsIface(t, "requestPacket")
	}
	pt := t
	if _, ok := t.(*types.Pointer); !ok {
		pt = types.NewPointer(t)
	}
	return p.implementsIface(pt, "requestPacket")
}

// calleeName: method or function name a call resolves to.
func calleeName(cc *ssa.CallCommon) string {
	if f := calleeFunc(cc); f != nil {
		return f.Name()
	}
	if f := cc.StaticCallee(); f != nil {
		return f.Name()
	}
	return ""
}

// paramIndex returns the index of a parameter in its function (receiver included).
func paramIndex(pr *ssa.Parameter) int {
	for i, q := range pr.Parent().Params {
		if q == pr {
			return i
		}
	}
	return -1
}

// closedOverCallers evaluates pred on the argument bound to parameter pr at every static
// call site in the module. Returns ok=false if some site fails, undecided=true if callers
// cannot be enumerated (function used as a value, or no caller at all).
func (p *Program) closedOverCallers(pr *ssa.Parameter, pred func(arg ssa.Value, site ssa.Instruction) bool) (ok, undecided bool) {
	fn := pr.Parent()
	if len(p.refsAsValue(fn)) > 0 {
		return false, true
	}
	idx := paramIndex(pr)
	sites := p.callersOfStatic(fn)
	if len(sites) == 0 {
		// possibly only reachable through an interface: look at invoke sites by method name
		return false, true
	}
	for _, s := range sites {
		cc := callOf(s)
		if idx >= len(cc.Args) {
			return false, true
		}
		if !pred(cc.Args[idx], s) {
			return false, false
		}
	}
	return true, false
}

// originLeaves is leavesOf continued through parameters: a leaf that is a parameter of a module function whose callers
// can all be enumerated (static calls only, never used as a value) is replaced by the leaves of the corresponding
// argument at every call site, up to the given depth.  What remains are values that originate somewhere: fields,
// call results, constants, globals, and parameters of functions that can be called from outside.
func (p *Program) originLeaves(v ssa.Value, depth int) []leaf {
	var out []leaf
	for _, l := range leavesOf(v) {
		if l.Kind != leafParam || depth <= 0 || l.Param == nil {
			out = append(out, l)
			continue
		}
		fn := l.Param.Parent()
		if fn == nil || !inModule(fn) || len(p.refsAsValue(fn)) > 0 {
			out = append(out, l)
			continue
		}
		idx := -1
		for i, prm := range fn.Params {
			if prm == l.Param {
				idx = i
			}
		}
		sites := p.callersOfStatic(fn)
		if idx < 0 || len(sites) == 0 {
			out = append(out, l)
			continue
		}
		for _, s := range sites {
			cc := callOf(s)
			if cc == nil || idx >= len(cc.Args) {
				out = append(out, l)
				continue
			}
			out = append(out, p.originLeaves(cc.Args[idx], depth-1)...)
		}
	}
	return out
}
