// Copyright 2022 The Go Authors. All rights reserved.
// Use of this source code is governed by a BSD-style
// license that can be found in the LICENSE file.

package typeparams

import (
	"fmt"
	"go/types"
)

// CoreType returns the core type of T or nil if T does not have a core type.
//
// As of Go1.25, the notion of a core type has been removed from the language spec.
// See https://go.dev/blog/coretypes for more details.
// TODO(mkalil): We should eventually consider removing all uses of CoreType.
func CoreType(T types.Type) types.Type {
	U := T.Underlying()
	if _, ok := U.(*types.Interface); !ok {
		return U // for non-interface types,
	}

	terms, err := NormalTerms(U)
	if len(terms) == 0 || err != nil {
		// len(terms) -> empty type set of interface.
		// err != nil => U is invalid, exceeds complexity bounds, or has an empty type set.
		return nil // no core type.
	}

	U = terms[0].Type().Underlying()
	var identical int // i in [0,identical) => Identical(U, terms[i].Type().Underlying())
	for identical = 1; identical < len(terms); identical++ {
		if !types.Identical(U, terms[identical].Type().Underlying()) {
			break
		}
	}

	if identical == len(terms) {
		// From the deprecated core types spec:
		// "There is a single type U which is the underlying type of all types in the type set of T"
		return U
	}
	ch, ok := U.(*types.Chan)
	if !ok {
		return nil // no core type as identical < len(terms) and U is not a channel.
	}
	// From the deprecated core types spec:
	// "the type chan E if T contains only bidirectional channels, or the type chan<- E or
	// <-chan E depending on the direction of the directional channels present."
	for chans := identical; chans < len(terms); chans++ {
		curr, ok := terms[chans].Type().Underlying().(*types.Chan)
		if !ok {
			return nil
		}
		if !types.Identical(ch.Elem(), curr.Elem()) {
			return nil // channel elements are not identical.
		}
		if ch.Dir() == types.SendRecv {
			// ch is bidirectional. We can safely always use curr's direction.
			ch = curr
		} else if curr.Dir() != types.SendRecv && ch.Dir() != curr.Dir() {
			// ch and curr are not bidirectional and not the same direction.
			return nil
		}
	}
	return ch
}

// NormalTerms returns a slice of terms representing the normalized structural
// type restrictions of a type, if any.
//
// For all types other than *types.TypeParam, *types.Interface, and
// *types.Union, this is just a single term with Tilde() == false and
// Type() == typ. For *types.TypeParam, *types.Interface, and *types.Union, see
// below.
//
// Structural type restrictions of a type parameter are created via
// non-interface types embedded in its constraint interface (directly, or via a
// chain of interface embeddings). For example, in the declaration type
// T[P interface{~int; m()}] int the structural restriction of the type
// parameter P is ~int.
//
// With interface embedding and unions, the specification of structural type
// restrictions may be arbitrarily complex. For example, consider the
// following:
//
//	type A interface{ ~string|~[]byte }
//
//	type B interface{ int|string }
//
//	type C interface { ~string|~int }
//
//	type T[P interface{ A|B; C }] int
//
// In this example, the structural type restriction of P is ~string|int: A|B
// expands to ~string|~[]byte|int|string, which reduces to ~string|~[]byte|int,
// which when intersected with C (~string|~int) yields ~string|int.
//
// NormalTerms computes these expansions and reductions, producing a
// "normalized" form of the embeddings. A structural restriction is normalized
// if it is a single union containing no interface terms, and is minimal in the
// sense that removing any term changes the set of types satisfying the
// constraint. It is left as a proof for the reader that, modulo sorting, there
// is exactly one such normalized form.
//
// Because the minimal representation always takes this form, NormalTerms
// returns a slice of tilde terms corresponding to the terms of the union in
// the normalized structural restriction. An error is returned if the type is
// invalid, exceeds complexity bounds, or has an empty type set. In the latter
// case, NormalTerms returns ErrEmptyTypeSet.
//
// NormalTerms makes no guarantees about the order of terms, except that it
// is deterministic.
func NormalTerms(T types.Type) ([]*types.Term, error) {
	// typeSetOf(T) == typeSetOf(Unalias(T))
	typ := types.Unalias(T)
	if named, ok := typ.(*types.Named); ok {
		typ = named.Underlying()
	}
	switch typ := typ.(type) {
	case *types.TypeParam:
		return StructuralTerms(typ)
	case *types.Union:
		return UnionTermSet(typ)
	case *types.Interface:
		return InterfaceTermSet(typ)
	default:
		return []*types.Term{types.NewTerm(false, T)}, nil
	}
}

// Deref returns the type of the variable pointed to by t,
// if t's core type is a pointer; otherwise it returns t.
//
// Do not assume that Deref(T)==T implies T is not a pointer:
// consider "type T *T", for example.
//
// TODO(adonovan): ideally this would live in typesinternal, but that
// creates an import cycle. Move there when we melt this package down.
func Deref(t types.Type) types.Type {
	if ptr, ok := CoreType(t).(*types.Pointer); ok {
		return ptr.Elem()
	}
	return t
}

// MustDeref returns the type of the variable pointed to by t.
// It panics if t's core type is not a pointer.
//
// TODO(adonovan): ideally this would live in typesinternal, but that
// creates an import cycle. Move there when we melt this package down.
func MustDeref(t types.Type) types.Type {
	if ptr, ok := CoreType(t).(*types.Pointer); ok {
		return ptr.Elem()
	}
	panic(fmt.Sprintf("%v is not a pointer", t))
}
