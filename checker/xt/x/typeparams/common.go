// Copyright 2021 The Go Authors. All rights reserved.
// Use of this source code is governed by a BSD-style
// license that can be found in the LICENSE file.

// Package typeparams contains common utilities for writing tools that
// interact with generic Go code, as introduced with Go 1.18. It
// supplements the standard library APIs. Notably, the StructuralTerms
// API computes a minimal representation of the structural
// restrictions on a type parameter.
//
// An external version of these APIs is available in the
// golang.org/x/exp/typeparams module.
package typeparams

import (
	"go/ast"
	"go/token"
	"go/types"
)

// UnpackIndexExpr extracts data from AST nodes that represent index
// expressions.
//
// For an ast.IndexExpr, the resulting indices slice will contain exactly one
// index expression. For an ast.IndexListExpr (go1.18+), it may have a variable
// number of index expressions.
//
// For nodes that don't represent index expressions, the first return value of
// UnpackIndexExpr will be nil.
func UnpackIndexExpr(n ast.Node) (x ast.Expr, lbrack token.Pos, indices []ast.Expr, rbrack token.Pos) {
	switch e := n.(type) {
	case *ast.IndexExpr:
		return e.X, e.Lbrack, []ast.Expr{e.Index}, e.Rbrack
	case *ast.IndexListExpr:
		return e.X, e.Lbrack, e.Indices, e.Rbrack
	}
	return nil, token.NoPos, nil, token.NoPos
}

// PackIndexExpr returns an *ast.IndexExpr or *ast.IndexListExpr, depending on
// the cardinality of indices. Calling PackIndexExpr with len(indices) == 0
// will panic.
func PackIndexExpr(x ast.Expr, lbrack token.Pos, indices []ast.Expr, rbrack token.Pos) ast.Expr {
	switch len(indices) {
	case 0:
		panic("empty indices")
	case 1:
		return &ast.IndexExpr{
			X:      x,
			Lbrack: lbrack,
			Index:  indices[0],
			Rbrack: rbrack,
		}
	default:
		return &ast.IndexListExpr{
			X:       x,
			Lbrack:  lbrack,
			Indices: indices,
			Rbrack:  rbrack,
		}
	}
}

// IsTypeParam reports whether t is a type parameter (or an alias of one).
func IsTypeParam(t types.Type) bool {
	_, ok := types.Unalias(t).(*types.TypeParam)
	return ok
}
