// Copyright 2021 The Go Authors. All rights reserved.
// Use of this source code is governed by a BSD-style
// license that can be found in the LICENSE file.

package typeparams

import (
	"errors"
	"fmt"
	"go/types"
	"os"
	"strings"
)

//go:generate go run copytermlist.go

const debug = false

var ErrEmptyTypeSet = errors.New("empty type set")

// StructuralTerms returns a slice of terms representing the normalized
// structural type restrictions of a type parameter, if any.
//
// Structural type restrictions of a type parameter are created via
// non-interface types embedded in its constraint interface (directly, or via a
// chain of interface embeddings). For example, in the declaration
//
//	type T[P interface{~int; m()}] int
//
// the structural restriction of the type parameter P is ~int.
//
// With interface embedding and unions, the specification of structural type
// restrictions may be arbitrarily complex. For example, consider the
// following:
//
//	type A interface{ ~string|~[]byte }
//
//	type B interface{ int|string }
//
//	type C interface { ~string|~int }
//
//	type T[P interface{ A|B; C }] int
//
// In this example, the structural type restriction of P is ~string|int: A|B
// expands to ~string|~[]byte|int|string, which reduces to ~string|~[]byte|int,
// which when intersected with C (~string|~int) yields ~string|int.
//
// StructuralTerms computes these expansions and reductions, producing a
// "normalized" form of the embeddings. A structural restriction is normalized
// if it is a single union containing no interface terms, and is minimal in the
// sense that removing any term changes the set of types satisfying the
// constraint. It is left as a proof for the reader that, modulo sorting, there
// is exactly one such normalized form.
//
// Because the minimal representation always takes this form, StructuralTerms
// returns a slice of tilde terms corresponding to the terms of the union in
// the normalized structural restriction. An error is returned if the
// constraint interface is invalid, exceeds complexity bounds, or has an empty
// type set. In the latter case, StructuralTerms returns ErrEmptyTypeSet.
//
// StructuralTerms makes no guarantees about the order of terms, except that it
// is deterministic.
func StructuralTerms(tparam *types.TypeParam) ([]*types.Term, error) {
	constraint := tparam.Constraint()
	if constraint == nil {
		return nil, fmt.Errorf("%s has nil constraint", tparam)
	}
	iface, _ := constraint.Underlying().(*types.Interface)
	if iface == nil {
		return nil, fmt.Errorf("constraint is %T, not *types.Interface", constraint.Underlying())
	}
	return InterfaceTermSet(iface)
}

// InterfaceTermSet computes the normalized terms for a constraint interface,
// returning an error if the term set cannot be computed or is empty. In the
// latter case, the error will be ErrEmptyTypeSet.
//
// See the documentation of StructuralTerms for more information on
// normalization.
func InterfaceTermSet(iface *types.Interface) ([]*types.Term, error) {
	return computeTermSet(iface)
}

// UnionTermSet computes the normalized terms for a union, returning an error
// if the term set cannot be computed or is empty. In the latter case, the
// error will be ErrEmptyTypeSet.
//
// See the documentation of StructuralTerms for more information on
// normalization.
func UnionTermSet(union *types.Union) ([]*types.Term, error) {
	return computeTermSet(union)
}

func computeTermSet(typ types.Type) ([]*types.Term, error) {
	tset, err := computeTermSetInternal(typ, make(map[types.Type]*termSet), 0)
	if err != nil {
		return nil, err
	}
	if tset.terms.isEmpty() {
		return nil, ErrEmptyTypeSet
	}
	if tset.terms.isAll() {
		return nil, nil
	}
	var terms []*types.Term
	for _, term := range tset.terms {
		terms = append(terms, types.NewTerm(term.tilde, term.typ))
	}
	return terms, nil
}

// A termSet holds the normalized set of terms for a given type.
//
// The name termSet is intentionally distinct from 'type set': a type set is
// all types that implement a type (and includes method restrictions), whereas
// a term set just represents the structural restrictions on a type.
type termSet struct {
	complete bool
	terms    termlist
}

func indentf(depth int, format string, args ...any) {
	fmt.Fprintf(os.Stderr, strings.Repeat(".", depth)+format+"\n", args...)
}

func computeTermSetInternal(t types.Type, seen map[types.Type]*termSet, depth int) (res *termSet, err error) {
	if t == nil {
		panic("nil type")
	}

	if debug {
		indentf(depth, "%s", t.String())
		defer func() {
			if err != nil {
				indentf(depth, "=> %s", err)
			} else {
				indentf(depth, "=> %s", res.terms.String())
			}
		}()
	}

	const maxTermCount = 100
	if tset, ok := seen[t]; ok {
		if !tset.complete {
			return nil, fmt.Errorf("cycle detected in the declaration of %s", t)
		}
		return tset, nil
	}

	// Mark the current type as seen to avoid infinite recursion.
	tset := new(termSet)
	defer func() {
		tset.complete = true
	}()
	seen[t] = tset

	switch u := t.Underlying().(type) {
	case *types.Interface:
		// The term set of an interface is the intersection of the term sets of its
		// embedded types.
		tset.terms = allTermlist
		for embedded := range u.EmbeddedTypes() {
			if _, ok := embedded.Underlying().(*types.TypeParam); ok {
				return nil, fmt.Errorf("invalid embedded type %T", embedded)
			}
			tset2, err := computeTermSetInternal(embedded, seen, depth+1)
			if err != nil {
				return nil, err
			}
			tset.terms = tset.terms.intersect(tset2.terms)
		}
	case *types.Union:
		// The term set of a union is the union of term sets of its terms.
		tset.terms = nil
		for t := range u.Terms() {
			var terms termlist
			switch t.Type().Underlying().(type) {
			case *types.Interface:
				tset2, err := computeTermSetInternal(t.Type(), seen, depth+1)
				if err != nil {
					return nil, err
				}
				terms = tset2.terms
			case *types.TypeParam, *types.Union:
				// A stand-alone type parameter or union is not permitted as union
				// term.
				return nil, fmt.Errorf("invalid union term %T", t)
			default:
				if t.Type() == types.Typ[types.Invalid] {
					continue
				}
				terms = termlist{{t.Tilde(), t.Type()}}
			}
			tset.terms = tset.terms.union(terms)
			if len(tset.terms) > maxTermCount {
				return nil, fmt.Errorf("exceeded max term count %d", maxTermCount)
			}
		}
	case *types.TypeParam:
		panic("unreachable")
	default:
		// For all other types, the term set is just a single non-tilde term
		// holding the type itself.
		if u != types.Typ[types.Invalid] {
			tset.terms = termlist{{false, t}}
		}
	}
	return tset, nil
}

// under is a facade for the go/types internal function of the same name. It is
// used by typeterm.go.
func under(t types.Type) types.Type {
	return t.Underlying()
}
