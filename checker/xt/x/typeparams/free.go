// Copyright 2024 The Go Authors. All rights reserved.
// Use of this source code is governed by a BSD-style
// license that can be found in the LICENSE file.

package typeparams

import (
	"go/types"
)

// Free is a memoization of the set of free type parameters within a
// type. It makes a sequence of calls to [Free.Has] for overlapping
// types more efficient. The zero value is ready for use.
//
// NOTE: Adapted from go/types/infer.go. If it is later exported, factor.
type Free struct {
	seen map[types.Type]bool
}

// Has reports whether the specified type has a free type parameter.
func (w *Free) Has(typ types.Type) (res bool) {
	// detect cycles
	if x, ok := w.seen[typ]; ok {
		return x
	}
	if w.seen == nil {
		w.seen = make(map[types.Type]bool)
	}
	w.seen[typ] = false
	defer func() {
		w.seen[typ] = res
	}()

	switch t := typ.(type) {
	case nil, *types.Basic: // TODO(gri) should nil be handled here?
		break

	case *types.Alias:
		if t.TypeParams().Len() > t.TypeArgs().Len() {
			return true // This is an uninstantiated Alias.
		}
		// The expansion of an alias can have free type parameters,
		// whether or not the alias itself has type parameters:
		//
		//   func _[K comparable]() {
		//     type Set      = map[K]bool // free(Set)      = {K}
		//     type MapTo[V] = map[K]V    // free(Map[foo]) = {V}
		//   }
		//
		// So, we must Unalias.
		return w.Has(types.Unalias(t))

	case *types.Array:
		return w.Has(t.Elem())

	case *types.Slice:
		return w.Has(t.Elem())

	case *types.Struct:
		for i, n := 0, t.NumFields(); i < n; i++ {
			if w.Has(t.Field(i).Type()) {
				return true
			}
		}

	case *types.Pointer:
		return w.Has(t.Elem())

	case *types.Tuple:
		n := t.Len()
		for i := range n {
			if w.Has(t.At(i).Type()) {
				return true
			}
		}

	case *types.Signature:
		// t.tparams may not be nil if we are looking at a signature
		// of a generic function type (or an interface method) that is
		// part of the type we're testing. We don't care about these type
		// parameters.
		// Similarly, the receiver of a method may declare (rather than
		// use) type parameters, we don't care about those either.
		// Thus, we only need to look at the input and result parameters.
		return w.Has(t.Params()) || w.Has(t.Results())

	case *types.Interface:
		for i, n := 0, t.NumMethods(); i < n; i++ {
			if w.Has(t.Method(i).Type()) {
				return true
			}
		}
		terms, err := InterfaceTermSet(t)
		if err != nil {
			return false // ill typed
		}
		for _, term := range terms {
			if w.Has(term.Type()) {
				return true
			}
		}

	case *types.Map:
		return w.Has(t.Key()) || w.Has(t.Elem())

	case *types.Chan:
		return w.Has(t.Elem())

	case *types.Named:
		args := t.TypeArgs()
		if params := t.TypeParams(); params.Len() > args.Len() {
			return true // this is an uninstantiated named type.
		}
		for i, n := 0, args.Len(); i < n; i++ {
			if w.Has(args.At(i)) {
				return true
			}
		}
		return w.Has(t.Underlying()) // recurse for types local to parameterized functions

	case *types.TypeParam:
		return true

	default:
		panic(t) // unreachable
	}

	return false
}
