// Copyright 2025 The Go Authors. All rights reserved.
// Use of this source code is governed by a BSD-style
// license that can be found in the LICENSE file.

package moreiters

import "iter"

// First returns the first value of seq and true.
// If seq is empty, it returns the zero value of T and false.
func First[T any](seq iter.Seq[T]) (z T, ok bool) {
	for t := range seq {
		return t, true
	}
	return z, false
}

// Contains reports whether x is an element of the sequence seq.
func Contains[T comparable](seq iter.Seq[T], x T) bool {
	for cand := range seq {
		if cand == x {
			return true
		}
	}
	return false
}

// Every reports whether every pred(t) for t in seq returns true,
// stopping at the first false element.
func Every[T any](seq iter.Seq[T], pred func(T) bool) bool {
	for t := range seq {
		if !pred(t) {
			return false
		}
	}
	return true
}

// Any reports whether any pred(t) for t in seq returns true.
func Any[T any](seq iter.Seq[T], pred func(T) bool) bool {
	for t := range seq {
		if pred(t) {
			return true
		}
	}
	return false
}

// Len returns the number of elements in the sequence (by iterating).
func Len[T any](seq iter.Seq[T]) (n int) {
	for range seq {
		n++
	}
	return
}

// Empty reports whether the sequence contains no elements.
func Empty[T any](seq iter.Seq[T]) bool {
	for range seq {
		return false
	}
	return true
}
