// Copyright 2018 The Go Authors. All rights reserved.
// Use of this source code is governed by a BSD-style
// license that can be found in the LICENSE file.

package typesinternal

import (
	"fmt"
	"go/ast"
	"go/types"
)

// CallKind describes the function position of an [*ast.CallExpr].
type CallKind int

const (
	CallStatic     CallKind = iota // static call to known function
	CallInterface                  // dynamic call through an interface method
	CallDynamic                    // dynamic call of a func value
	CallBuiltin                    // call to a builtin function
	CallConversion                 // a conversion (not a call)
)

var callKindNames = []string{
	"CallStatic",
	"CallInterface",
	"CallDynamic",
	"CallBuiltin",
	"CallConversion",
}

func (k CallKind) String() string {
	if i := int(k); i >= 0 && i < len(callKindNames) {
		return callKindNames[i]
	}
	return fmt.Sprintf("typeutil.CallKind(%d)", k)
}

// ClassifyCall classifies the function position of a call expression ([*ast.CallExpr]).
// It distinguishes among true function calls, calls to builtins, and type conversions,
// and further classifies function calls as static calls (where the function is known),
// dynamic interface calls, and other dynamic calls.
//
// For the declarations:
//
//	func f() {}
//	func g[T any]() {}
//	var v func()
//	var s []func()
//	type I interface { M() }
//	var i I
//
// ClassifyCall returns the following:
//
//	f()           CallStatic
//	g[int]()      CallStatic
//	i.M()         CallInterface
//	min(1, 2)     CallBuiltin
//	v()           CallDynamic
//	s[0]()        CallDynamic
//	int(x)        CallConversion
//	[]byte("")    CallConversion
func ClassifyCall(info *types.Info, call *ast.CallExpr) CallKind {
	if info.Types == nil {
		panic("ClassifyCall: info.Types is nil")
	}
	tv := info.Types[call.Fun]
	if tv.IsType() {
		return CallConversion
	}
	if tv.IsBuiltin() {
		return CallBuiltin
	}
	id := UsedIdent(info, call.Fun)
	if id == nil {
		return CallDynamic
	}
	obj := info.Uses[id]
	// Classify the call by the type of the object, if any.
	switch obj := obj.(type) {
	case *types.Func:
		if isInterfaceMethod(obj) {
			return CallInterface
		}
		return CallStatic
	default:
		return CallDynamic
	}
}

// UsedIdent returns the identifier such that info.Uses[UsedIdent(info, e)]
// is the [types.Object] used by e, if any.
//
// If e is one of various forms of reference:
//
//	f, c, v, T           lexical reference
//	pkg.X                qualified identifier
//	f[T] or pkg.F[K,V]   instantiations of the above kinds
//	expr.f               field or method value selector
//	T.f                  method expression selector
//
// UsedIdent returns the identifier whose is associated value in [types.Info.Uses]
// is the object to which it refers.
//
// For the declarations:
//
//	func F[T any] {...}
//	type I interface { M() }
//	var (
//	  x int
//	  s struct { f  int }
//	  a []int
//	  i I
//	)
//
// UsedIdent returns the following:
//
//	Expr          UsedIdent
//	x             x
//	s.f           f
//	F[int]        F
//	i.M           M
//	I.M           M
//	min           min
//	int           int
//	1             nil
//	a[0]          nil
//	[]byte        nil
//
// Note: if e is an instantiated function or method, UsedIdent returns
// the corresponding generic function or method on the generic type.
func UsedIdent(info *types.Info, e ast.Expr) *ast.Ident {
	if info.Types == nil || info.Uses == nil {
		panic("one of info.Types or info.Uses is nil; both must be populated")
	}
	// Look through type instantiation if necessary.
	switch d := ast.Unparen(e).(type) {
	case *ast.IndexExpr:
		if info.Types[d.Index].IsType() {
			e = d.X
		}
	case *ast.IndexListExpr:
		e = d.X
	}

	switch e := ast.Unparen(e).(type) {
	// info.Uses always has the object we want, even for selector expressions.
	// We don't need info.Selections.
	// See go/types/recording.go:recordSelection.
	case *ast.Ident:
		return e
	case *ast.SelectorExpr:
		return e.Sel
	}
	return nil
}

// See [golang.org/x/tools/go/types/typeutil.Callee].
func Callee(info *types.Info, call *ast.CallExpr) types.Object {
	id := UsedIdent(info, call.Fun)
	if id == nil {
		return nil
	}
	obj := info.Uses[id]
	if obj == nil {
		return nil
	}
	if _, ok := obj.(*types.TypeName); ok {
		return nil
	}
	if fn, ok := obj.(*types.Func); ok {
		return fn.Origin()
	}
	return obj
}

// See [golang.org/x/tools/go/types/typeutil.StaticCallee].
func StaticCallee(info *types.Info, call *ast.CallExpr) *types.Func {
	id := UsedIdent(info, call.Fun)
	if id == nil {
		return nil
	}
	obj := info.Uses[id]
	if obj == nil {
		return nil
	}
	fn, _ := obj.(*types.Func)
	if fn == nil || isInterfaceMethod(fn) {
		return nil
	}
	return fn.Origin()
}

// isInterfaceMethod reports whether its argument is a method of an interface.
func isInterfaceMethod(f *types.Func) bool {
	recv := f.Signature().Recv()
	return recv != nil && types.IsInterface(recv.Type())
}
