// Copyright 2024 The Go Authors. All rights reserved.
// Use of this source code is governed by a BSD-style
// license that can be found in the LICENSE file.

//go:build !go1.25

package typesinternal

import "go/types"

type VarKind uint8

const (
	_          VarKind = iota // (not meaningful)
	PackageVar                // a package-level variable
	LocalVar                  // a local variable
	RecvVar                   // a method receiver variable
	ParamVar                  // a function parameter variable
	ResultVar                 // a function result variable
	FieldVar                  // a struct field
)

func (kind VarKind) String() string {
	return [...]string{
		0:          "VarKind(0)",
		PackageVar: "PackageVar",
		LocalVar:   "LocalVar",
		RecvVar:    "RecvVar",
		ParamVar:   "ParamVar",
		ResultVar:  "ResultVar",
		FieldVar:   "FieldVar",
	}[kind]
}

// GetVarKind returns an invalid VarKind.
func GetVarKind(v *types.Var) VarKind { return 0 }

// SetVarKind has no effect.
func SetVarKind(v *types.Var, kind VarKind) {}
