// Copyright 2024 The Go Authors. All rights reserved.
// Use of this source code is governed by a BSD-style
// license that can be found in the LICENSE file.

package typesinternal

import (
	"fmt"
	"go/ast"
	"go/token"
	"go/types"
	"strings"
)

// ZeroString returns the string representation of the zero value for any type t.
// The boolean result indicates whether the type is or contains an invalid type
// or a non-basic (constraint) interface type.
//
// Even for invalid input types, ZeroString may return a partially correct
// string representation. The caller should use the returned isValid boolean
// to determine the validity of the expression.
//
// When assigning to a wider type (such as 'any'), it's the caller's
// responsibility to handle any necessary type conversions.
//
// This string can be used on the right-hand side of an assignment where the
// left-hand side has that explicit type.
// References to named types are qualified by an appropriate (optional)
// qualifier function.
// Exception: This does not apply to tuples. Their string representation is
// informational only and cannot be used in an assignment.
//
// See [ZeroExpr] for a variant that returns an [ast.Expr].
func ZeroString(t types.Type, qual types.Qualifier) (_ string, isValid bool) {
	switch t := t.(type) {
	case *types.Basic:
		switch {
		case t.Info()&types.IsBoolean != 0:
			return "false", true
		case t.Info()&types.IsNumeric != 0:
			return "0", true
		case t.Info()&types.IsString != 0:
			return `""`, true
		case t.Kind() == types.UnsafePointer:
			fallthrough
		case t.Kind() == types.UntypedNil:
			return "nil", true
		case t.Kind() == types.Invalid:
			return "invalid", false
		default:
			panic(fmt.Sprintf("ZeroString for unexpected type %v", t))
		}

	case *types.Pointer, *types.Slice, *types.Chan, *types.Map, *types.Signature:
		return "nil", true

	case *types.Interface:
		if !t.IsMethodSet() {
			return "invalid", false
		}
		return "nil", true

	case *types.Named:
		switch under := t.Underlying().(type) {
		case *types.Struct, *types.Array:
			return types.TypeString(t, qual) + "{}", true
		default:
			return ZeroString(under, qual)
		}

	case *types.Alias:
		switch t.Underlying().(type) {
		case *types.Struct, *types.Array:
			return types.TypeString(t, qual) + "{}", true
		default:
			// A type parameter can have alias but alias type's underlying type
			// can never be a type parameter.
			// Use types.Unalias to preserve the info of type parameter instead
			// of call Underlying() going right through and get the underlying
			// type of the type parameter which is always an interface.
			return ZeroString(types.Unalias(t), qual)
		}

	case *types.Array, *types.Struct:
		return types.TypeString(t, qual) + "{}", true

	case *types.TypeParam:
		// Assumes func new is not shadowed.
		return "*new(" + types.TypeString(t, qual) + ")", true

	case *types.Tuple:
		// Tuples are not normal values.
		// We are currently format as "(t[0], ..., t[n])". Could be something else.
		isValid := true
		components := make([]string, t.Len())
		for i := 0; i < t.Len(); i++ {
			comp, ok := ZeroString(t.At(i).Type(), qual)

			components[i] = comp
			isValid = isValid && ok
		}
		return "(" + strings.Join(components, ", ") + ")", isValid

	case *types.Union:
		// Variables of these types cannot be created, so it makes
		// no sense to ask for their zero value.
		panic(fmt.Sprintf("invalid type for a variable: %v", t))

	default:
		panic(t) // unreachable.
	}
}

// ZeroExpr returns the ast.Expr representation of the zero value for any type t.
// The boolean result indicates whether the type is or contains an invalid type
// or a non-basic (constraint) interface type.
//
// Even for invalid input types, ZeroExpr may return a partially correct ast.Expr
// representation. The caller should use the returned isValid boolean to determine
// the validity of the expression.
//
// This function is designed for types suitable for variables and should not be
// used with Tuple or Union types.References to named types are qualified by an
// appropriate (optional) qualifier function.
//
// See [ZeroString] for a variant that returns a string.
func ZeroExpr(t types.Type, qual types.Qualifier) (_ ast.Expr, isValid bool) {
	switch t := t.(type) {
	case *types.Basic:
		switch {
		case t.Info()&types.IsBoolean != 0:
			return &ast.Ident{Name: "false"}, true
		case t.Info()&types.IsNumeric != 0:
			return &ast.BasicLit{Kind: token.INT, Value: "0"}, true
		case t.Info()&types.IsString != 0:
			return &ast.BasicLit{Kind: token.STRING, Value: `""`}, true
		case t.Kind() == types.UnsafePointer:
			fallthrough
		case t.Kind() == types.UntypedNil:
			return ast.NewIdent("nil"), true
		case t.Kind() == types.Invalid:
			return &ast.BasicLit{Kind: token.STRING, Value: `"invalid"`}, false
		default:
			panic(fmt.Sprintf("ZeroExpr for unexpected type %v", t))
		}

	case *types.Pointer, *types.Slice, *types.Chan, *types.Map, *types.Signature:
		return ast.NewIdent("nil"), true

	case *types.Interface:
		if !t.IsMethodSet() {
			return &ast.BasicLit{Kind: token.STRING, Value: `"invalid"`}, false
		}
		return ast.NewIdent("nil"), true

	case *types.Named:
		switch under := t.Underlying().(type) {
		case *types.Struct, *types.Array:
			return &ast.CompositeLit{
				Type: TypeExpr(t, qual),
			}, true
		default:
			return ZeroExpr(under, qual)
		}

	case *types.Alias:
		switch t.Underlying().(type) {
		case *types.Struct, *types.Array:
			return &ast.CompositeLit{
				Type: TypeExpr(t, qual),
			}, true
		default:
			return ZeroExpr(types.Unalias(t), qual)
		}

	case *types.Array, *types.Struct:
		return &ast.CompositeLit{
			Type: TypeExpr(t, qual),
		}, true

	case *types.TypeParam:
		return &ast.StarExpr{ // *new(T)
			X: &ast.CallExpr{
				// Assumes func new is not shadowed.
				Fun: ast.NewIdent("new"),
				Args: []ast.Expr{
					ast.NewIdent(t.Obj().Name()),
				},
			},
		}, true

	case *types.Tuple:
		// Unlike ZeroString, there is no ast.Expr can express tuple by
		// "(t[0], ..., t[n])".
		panic(fmt.Sprintf("invalid type for a variable: %v", t))

	case *types.Union:
		// Variables of these types cannot be created, so it makes
		// no sense to ask for their zero value.
		panic(fmt.Sprintf("invalid type for a variable: %v", t))

	default:
		panic(t) // unreachable.
	}
}

// TypeExpr returns syntax for the specified type. References to named types
// are qualified by an appropriate (optional) qualifier function.
// It may panic for types such as Tuple or Union.
//
// See also https://go.dev/issues/75604, which will provide a robust
// Type-to-valid-Go-syntax formatter.
func TypeExpr(t types.Type, qual types.Qualifier) ast.Expr {
	switch t := t.(type) {
	case *types.Basic:
		switch t.Kind() {
		case types.UnsafePointer:
			return &ast.SelectorExpr{X: ast.NewIdent(qual(types.NewPackage("unsafe", "unsafe"))), Sel: ast.NewIdent("Pointer")}
		default:
			return ast.NewIdent(t.Name())
		}

	case *types.Pointer:
		return &ast.UnaryExpr{
			Op: token.MUL,
			X:  TypeExpr(t.Elem(), qual),
		}

	case *types.Array:
		return &ast.ArrayType{
			Len: &ast.BasicLit{
				Kind:  token.INT,
				Value: fmt.Sprintf("%d", t.Len()),
			},
			Elt: TypeExpr(t.Elem(), qual),
		}

	case *types.Slice:
		return &ast.ArrayType{
			Elt: TypeExpr(t.Elem(), qual),
		}

	case *types.Map:
		return &ast.MapType{
			Key:   TypeExpr(t.Key(), qual),
			Value: TypeExpr(t.Elem(), qual),
		}

	case *types.Chan:
		dir := ast.ChanDir(t.Dir())
		if t.Dir() == types.SendRecv {
			dir = ast.SEND | ast.RECV
		}
		return &ast.ChanType{
			Dir:   dir,
			Value: TypeExpr(t.Elem(), qual),
		}

	case *types.Signature:
		var params []*ast.Field
		for v := range t.Params().Variables() {
			var names []*ast.Ident
			if v.Name() != "" {
				names = []*ast.Ident{ast.NewIdent(v.Name())}
			}
			params = append(params, &ast.Field{
				Type:  TypeExpr(v.Type(), qual),
				Names: names,
			})
		}
		if t.Variadic() {
			last := params[len(params)-1]
			last.Type = &ast.Ellipsis{Elt: last.Type.(*ast.ArrayType).Elt}
		}
		var returns []*ast.Field
		for v := range t.Results().Variables() {
			returns = append(returns, &ast.Field{
				Type: TypeExpr(v.Type(), qual),
			})
		}
		return &ast.FuncType{
			Params: &ast.FieldList{
				List: params,
			},
			Results: &ast.FieldList{
				List: returns,
			},
		}

	case *types.TypeParam:
		pkgName := qual(t.Obj().Pkg())
		if pkgName == "" || t.Obj().Pkg() == nil {
			return ast.NewIdent(t.Obj().Name())
		}
		return &ast.SelectorExpr{
			X:   ast.NewIdent(pkgName),
			Sel: ast.NewIdent(t.Obj().Name()),
		}

	// types.TypeParam also implements interface NamedOrAlias. To differentiate,
	// case TypeParam need to be present before case NamedOrAlias.
	// TODO(hxjiang): remove this comment once TypeArgs() is added to interface
	// NamedOrAlias.
	case NamedOrAlias:
		var expr ast.Expr = ast.NewIdent(t.Obj().Name())
		if pkgName := qual(t.Obj().Pkg()); pkgName != "." && pkgName != "" {
			expr = &ast.SelectorExpr{
				X:   ast.NewIdent(pkgName),
				Sel: expr.(*ast.Ident),
			}
		}

		// TODO(hxjiang): call t.TypeArgs after adding method TypeArgs() to
		// typesinternal.NamedOrAlias.
		if hasTypeArgs, ok := t.(interface{ TypeArgs() *types.TypeList }); ok {
			if typeArgs := hasTypeArgs.TypeArgs(); typeArgs != nil && typeArgs.Len() > 0 {
				var indices []ast.Expr
				for t0 := range typeArgs.Types() {
					indices = append(indices, TypeExpr(t0, qual))
				}
				expr = &ast.IndexListExpr{
					X:       expr,
					Indices: indices,
				}
			}
		}

		return expr

	case *types.Struct:
		return ast.NewIdent(types.TypeString(t, qual))

	case *types.Interface:
		return ast.NewIdent(types.TypeString(t, qual))

	case *types.Union:
		if t.Len() == 0 {
			panic("Union type should have at least one term")
		}
		// Same as go/ast, the return expression will put last term in the
		// Y field at topmost level of BinaryExpr.
		// For union of type "float32 | float64 | int64", the structure looks
		// similar to:
		// {
		// 	X: {
		// 		X: float32,
		// 		Op: |
		// 		Y: float64,
		// 	}
		// 	Op: |,
		// 	Y: int64,
		// }
		var union ast.Expr
		for i := range t.Len() {
			term := t.Term(i)
			termExpr := TypeExpr(term.Type(), qual)
			if term.Tilde() {
				termExpr = &ast.UnaryExpr{
					Op: token.TILDE,
					X:  termExpr,
				}
			}
			if i == 0 {
				union = termExpr
			} else {
				union = &ast.BinaryExpr{
					X:  union,
					Op: token.OR,
					Y:  termExpr,
				}
			}
		}
		return union

	case *types.Tuple:
		panic("invalid input type types.Tuple")

	default:
		panic("unreachable")
	}
}
