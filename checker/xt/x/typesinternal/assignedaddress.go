// Copyright 2026 The Go Authors. All rights reserved.
// Use of this source code is governed by a BSD-style
// license that can be found in the LICENSE file.

package typesinternal

import (
	"go/ast"
	"go/token"
	"go/types"

	"golang.org/x/tools/go/ast/edge"
	"golang.org/x/tools/go/ast/inspector"
)

// IsAssignedOrAddressTaken reports whether the expression cur denotes a
// variable and appears in a context that assigns it or that takes its address,
// potentially leading to indirect assignment.
//
// These examples cause IsAssignedOrAddressTaken on the identifier for x to
// return true:
//
//		x = 1
//		x++
//		x[i] = 1	   (assume x is an array)
//		x.a[i] = 1	 (assume x.a is a non-pointer struct field)
//	  use(&x)
//
// whereas these cause it to return false:
//
//	y = x
//	f(x)
//	use(x.a[i])
//	use(*x)
//
// The expression may itself be a compound, for example:
//
//	use(&(*ptr))  => IsAssignedOrAddressTaken("*ptr") = true
//	x.a[i] = 1    => IsAssignedOrAddressTaken("x.a")  = true
//	_ = x.a[i]    => IsAssignedOrAddressTaken("x.a")  = false
//
// A variable's declaration is not considered to be an assignment:
//
//	var x int     => IsAssignedOrAddressTaken(x) = false
//	x := 1        => IsAssignedOrAddressTaken(x) = false
//
// TODO(adonovan): revisit the surprising behavior for declarations.
func IsAssignedOrAddressTaken(info *types.Info, cur inspector.Cursor) bool {
	// Unfortunately we can't simply use info.Types[e].Assignable()
	// as it is always true for a variable even when that variable is
	// used only as an r-value. So we must inspect enclosing syntax.
outer:
	// Ascend to outermost aggregate of which
	// original cur is a part:
	//    x -> (x) | x.f | x[i] | x[i:j]
	for cur = range cur.Enclosing() {
		switch cur.ParentEdgeKind() {
		case edge.ParenExpr_X:
			// If x is an lvalue, then (x) is an lvalue.
		case edge.SelectorExpr_X:
			// If x is an lvalue, then x.f is an lvalue iff
			// the selection does not traverse a pointer.
			sel := cur.Parent().Node().(*ast.SelectorExpr)
			if seln, ok := info.Selections[sel]; ok {
				// Note: there is a bug in Indirect() where it spuriously returns true
				// when both the selection receiver and parameter are pointers. However,
				// it's okay in this case because there is no address taken when a
				// pointer receiver method is called on a pointer type.
				if seln.Indirect() {
					return false
				}
				if seln.Kind() == types.MethodVal {
					sig := seln.Obj().Type().(*types.Signature)
					if is[*types.Pointer](sig.Recv().Type().Underlying()) {
						t := seln.Recv()
						// The receiver may be an embedded field, so we need
						// to get the inner-most type (right before the method
						// call in seln.Index())
						for _, idx := range seln.Index()[:len(seln.Index())-1] {
							t = t.Underlying().(*types.Struct).Field(idx).Type()
						}
						if !is[*types.Pointer](t.Underlying()) {
							return true // takes address of receiver
						}
					}
					return false
				}
			}
		case edge.IndexExpr_X, edge.SliceExpr_X:
			// If x[i] or x[i:j] is an lvalue,
			// then x is an lvalue iff x is an array.
			if !is[*types.Array](info.TypeOf(cur.Node().(ast.Expr)).Underlying()) {
				return false
			}
		default:
			break outer
		}
	}
	switch cur.ParentEdgeKind() {
	case edge.AssignStmt_Lhs:
		assign := cur.Parent().Node().(*ast.AssignStmt)
		if assign.Tok != token.DEFINE {
			return true // x = j or x += j
		}
		id := cur.Node().(*ast.Ident)
		// Re-assigned identifiers are recorded in the Uses map.
		if _, ok := info.Uses[id]; ok {
			return true // reassignment of x (x, y := 1, 2)
		}
	case edge.RangeStmt_Key, edge.RangeStmt_Value:
		rng := cur.Parent().Node().(*ast.RangeStmt)
		if rng.Tok == token.ASSIGN {
			return true // "for k, v = range x" is like an AssignStmt to k, v
		}
	case edge.IncDecStmt_X:
		return true // x++, x--
	case edge.UnaryExpr_X:
		if cur.Parent().Node().(*ast.UnaryExpr).Op == token.AND {
			return true // &x
		}
	}
	return false
}

func is[T any](x any) bool {
	_, ok := x.(T)
	return ok
}
