// Copyright 2024 The Go Authors. All rights reserved.
// Use of this source code is governed by a BSD-style
// license that can be found in the LICENSE file.

package typesinternal

import (
	"go/ast"
	"go/types"
	"strconv"
)

// FileQualifier returns a [types.Qualifier] function that qualifies
// imported symbols appropriately based on the import environment of a given
// file.
// If the same package is imported multiple times, the last appearance is
// recorded.
//
// TODO(adonovan): this function ignores the effect of shadowing. It
// should accept a [token.Pos] and a [types.Info] and compute only the
// set of imports that are not shadowed at that point, analogous to
// [analysis.AddImport]. It could also compute (as a side
// effect) the set of additional imports required to ensure that there
// is an accessible import for each necessary package, making it
// converge even more closely with AddImport.
func FileQualifier(f *ast.File, pkg *types.Package) types.Qualifier {
	// Construct mapping of import paths to their defined names.
	// It is only necessary to look at renaming imports.
	imports := make(map[string]string)
	for _, imp := range f.Imports {
		if imp.Name != nil && imp.Name.Name != "_" {
			path, _ := strconv.Unquote(imp.Path.Value)
			imports[path] = imp.Name.Name
		}
	}

	// Define qualifier to replace full package paths with names of the imports.
	return func(p *types.Package) string {
		if p == nil || p == pkg {
			return ""
		}

		if name, ok := imports[p.Path()]; ok {
			if name == "." {
				return ""
			} else {
				return name
			}
		}

		// If there is no local renaming, fall back to the package name.
		return p.Name()
	}
}
