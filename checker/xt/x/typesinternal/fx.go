// Copyright 2025 The Go Authors. All rights reserved.
// Use of this source code is governed by a BSD-style
// license that can be found in the LICENSE file.

package typesinternal

import (
	"go/ast"
	"go/token"
	"go/types"
)

// NoEffects reports whether the expression has no side effects, i.e., it
// does not modify the memory state. This function is conservative: it may
// return false even when the expression has no effect.
func NoEffects(info *types.Info, expr ast.Expr) bool {
	noEffects := true
	ast.Inspect(expr, func(n ast.Node) bool {
		switch v := n.(type) {
		case nil, *ast.Ident, *ast.BasicLit, *ast.BinaryExpr, *ast.ParenExpr,
			*ast.SelectorExpr, *ast.IndexExpr, *ast.SliceExpr, *ast.TypeAssertExpr,
			*ast.StarExpr, *ast.CompositeLit,
			// non-expressions that may appear within expressions
			*ast.KeyValueExpr,
			*ast.FieldList,
			*ast.Field,
			*ast.Ellipsis,
			*ast.IndexListExpr:
			// No effect.

		case *ast.ArrayType,
			*ast.StructType,
			*ast.ChanType,
			*ast.FuncType,
			*ast.MapType,
			*ast.InterfaceType:
			// Type syntax: no effects, recursively.
			// Prune descent.
			return false

		case *ast.UnaryExpr:
			// Channel send <-ch has effects.
			if v.Op == token.ARROW {
				noEffects = false
			}

		case *ast.CallExpr:
			// Type conversion has no effects.
			if !info.Types[v.Fun].IsType() {
				if CallsPureBuiltin(info, v) {
					// A call such as len(e) has no effects of its
					// own, though the subexpression e might.
				} else {
					noEffects = false
				}
			}

		case *ast.FuncLit:
			// A FuncLit has no effects, but do not descend into it.
			return false

		default:
			// All other expressions have effects
			noEffects = false
		}

		return noEffects
	})
	return noEffects
}

// CallsPureBuiltin reports whether call is a call of a built-in
// function that is a pure computation over its operands (analogous to
// a + operator). Because it does not depend on program state, it may
// be evaluated at any point--though not necessarily at multiple
// points (consider new, make).
func CallsPureBuiltin(info *types.Info, call *ast.CallExpr) bool {
	if id, ok := ast.Unparen(call.Fun).(*ast.Ident); ok {
		if b, ok := info.ObjectOf(id).(*types.Builtin); ok {
			switch b.Name() {
			case "len", "cap", "complex", "imag", "real", "make", "new", "max", "min":
				return true
			}
			// Not: append clear close copy delete panic print println recover
		}
	}
	return false
}
