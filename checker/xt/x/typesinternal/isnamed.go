// Copyright 2025 The Go Authors. All rights reserved.
// Use of this source code is governed by a BSD-style
// license that can be found in the LICENSE file.

package typesinternal

import (
	"go/types"
	"slices"
)

// IsTypeNamed reports whether t is (or is an alias for) a
// package-level defined type with the given package path and one of
// the given names. It returns false if t is nil.
//
// This function avoids allocating the concatenation of "pkg.Name",
// which is important for the performance of syntax matching.
func IsTypeNamed(t types.Type, pkgPath string, names ...string) bool {
	if named, ok := types.Unalias(t).(*types.Named); ok {
		tname := named.Obj()
		return tname != nil &&
			IsPackageLevel(tname) &&
			tname.Pkg().Path() == pkgPath &&
			slices.Contains(names, tname.Name())
	}
	return false
}

// IsPointerToNamed reports whether t is (or is an alias for) a pointer to a
// package-level defined type with the given package path and one of the given
// names. It returns false if t is not a pointer type.
func IsPointerToNamed(t types.Type, pkgPath string, names ...string) bool {
	r := Unpointer(t)
	if r == t {
		return false
	}
	return IsTypeNamed(r, pkgPath, names...)
}

// IsFunctionNamed reports whether obj is a package-level function
// defined in the given package and has one of the given names.
// It returns false if obj is nil.
//
// This function avoids allocating the concatenation of "pkg.Name",
// which is important for the performance of syntax matching.
func IsFunctionNamed(obj types.Object, pkgPath string, names ...string) bool {
	f, ok := obj.(*types.Func)
	return ok &&
		IsPackageLevel(obj) &&
		f.Pkg().Path() == pkgPath &&
		f.Signature().Recv() == nil &&
		slices.Contains(names, f.Name())
}

// IsMethodNamed reports whether obj is a method defined on a
// package-level type with the given package and type name, and has
// one of the given names. It returns false if obj is nil.
//
// This function avoids allocating the concatenation of "pkg.TypeName.Name",
// which is important for the performance of syntax matching.
func IsMethodNamed(obj types.Object, pkgPath string, typeName string, names ...string) bool {
	if fn, ok := obj.(*types.Func); ok {
		if recv := fn.Signature().Recv(); recv != nil {
			_, T := ReceiverNamed(recv)
			return T != nil &&
				IsTypeNamed(T, pkgPath, typeName) &&
				slices.Contains(names, fn.Name())
		}
	}
	return false
}
