// Copyright 2024 The Go Authors. All rights reserved.
// Use of this source code is governed by a BSD-style
// license that can be found in the LICENSE file.

//go:build go1.25

package typesinternal

import "go/types"

type VarKind = types.VarKind

const (
	PackageVar = types.PackageVar
	LocalVar   = types.LocalVar
	RecvVar    = types.RecvVar
	ParamVar   = types.ParamVar
	ResultVar  = types.ResultVar
	FieldVar   = types.FieldVar
)

func GetVarKind(v *types.Var) VarKind       { return v.Kind() }
func SetVarKind(v *types.Var, kind VarKind) { v.SetKind(kind) }
