// Copyright 2024 The Go Authors. All rights reserved.
// Use of this source code is governed by a BSD-style
// license that can be found in the LICENSE file.

package typesinternal

import (
	"go/types"
)

// ReceiverNamed returns the named type (if any) associated with the
// type of recv, which may be of the form N or *N, or aliases thereof.
// It also reports whether a Pointer was present.
//
// The named result may be nil if recv is from a method on an
// anonymous interface or struct types or in ill-typed code.
func ReceiverNamed(recv *types.Var) (isPtr bool, named *types.Named) {
	t := recv.Type()
	if ptr, ok := types.Unalias(t).(*types.Pointer); ok {
		isPtr = true
		t = ptr.Elem()
	}
	named, _ = types.Unalias(t).(*types.Named)
	return
}

// Unpointer returns T given *T or an alias thereof.
// For all other types it is the identity function.
// It does not look at underlying types.
// The result may be an alias.
//
// Use this function to strip off the optional pointer on a receiver
// in a field or method selection, without losing the named type
// (which is needed to compute the method set).
//
// See also [typeparams.MustDeref], which removes one level of
// indirection from the type, regardless of named types (analogous to
// a LOAD instruction).
func Unpointer(t types.Type) types.Type {
	if ptr, ok := types.Unalias(t).(*types.Pointer); ok {
		return ptr.Elem()
	}
	return t
}
