// Copyright 2024 The Go Authors. All rights reserved.
// Use of this source code is governed by a BSD-style
// license that can be found in the LICENSE file.

package typesinternal

import (
	"fmt"
	"go/types"
)

// ForEachElement calls f for type T and each type reachable from its
// type through reflection. It does this by recursively stripping off
// type constructors; in addition, for each named type N, the type *N
// is added to the result as it may have additional methods.
//
// The access argument passed to f indicates whether the type is
// inaccessible to reflection (for example, intermediate tuple types
// or underlying types of named types).
//
// The result of f indicates whether the caller has seen this type
// already, so we can prune the traversal.
//
// methodSetOf abstracts (*typeutil.MethodSetCache).MethodSet,
// avoiding an import cycle.
func ForEachElement(methodSetOf func(types.Type) *types.MethodSet, T types.Type, f func(T types.Type, access bool) bool) {
	var visit func(T types.Type, access bool)
	visit = func(T types.Type, access bool) {
		if f(T, access) {
			return // duplicate; prune descent
		}

		// Recursion over signatures of each method.
		tmset := methodSetOf(T)
		for method := range tmset.Methods() {
			sig := method.Type().(*types.Signature)
			if sig.TypeParams() != nil {
				continue // skip type-parameterized methods
			}

			// It is tempting to call visit(sig, false)
			// but, as noted in golang.org/cl/65450043,
			// the Signature.Recv field is ignored by
			// types.Identical and typeutil.Map, which
			// is confusing at best.
			//
			// More importantly, the true signature rtype
			// reachable from a method using reflection
			// has no receiver but an extra ordinary parameter.
			// For the Read method of io.Reader we want:
			//   func(Reader, []byte) (int, error)
			// but here sig is:
			//   func([]byte) (int, error)
			// with .Recv = Reader (though it is hard to
			// notice because it doesn't affect Signature.String
			// or types.Identical).
			//
			// TODO(adonovan): construct and visit the correct
			// non-method signature with an extra parameter
			// (though since unnamed func types have no methods
			// there is essentially no actual demand for this).
			//
			// TODO(adonovan): document whether or not it is
			// safe to skip non-exported methods (as RTA does).
			visit(sig.Params(), false)  // the Tuple is inaccessible
			visit(sig.Results(), false) // the Tuple is inaccessible
		}

		switch T := T.(type) {
		case *types.Alias:
			visit(types.Unalias(T), access) // emulates the pre-Alias behavior

		case *types.Basic:
			// nop

		case *types.Interface:
			// nop---handled by recursion over method set.

		case *types.Pointer:
			visit(T.Elem(), true)

		case *types.Slice:
			visit(T.Elem(), true)

		case *types.Chan:
			visit(T.Elem(), true)

		case *types.Map:
			visit(T.Key(), true)
			visit(T.Elem(), true)

		case *types.Signature:
			if T.Recv() != nil {
				panic(fmt.Sprintf("Signature %s has Recv %s", T, T.Recv()))
			}
			visit(T.Params(), false)  // the Tuple is inaccessible
			visit(T.Results(), false) // the Tuple is inaccessible

		case *types.Named:
			// A pointer-to-named type can be derived from a named
			// type via reflection.  It may have methods too.
			visit(types.NewPointer(T), true)

			// Consider 'type T struct{S}' where S has methods.
			// Reflection provides no way to get from T to struct{S},
			// only to S, so the method set of struct{S} is unwanted,
			// so mark it inaccessible during recursion.
			visit(T.Underlying(), false) // skip the unnamed type

		case *types.Array:
			visit(T.Elem(), true)

		case *types.Struct:
			for i, n := 0, T.NumFields(); i < n; i++ {
				// TODO(adonovan): document whether or not
				// it is safe to skip non-exported fields.
				visit(T.Field(i).Type(), true)
			}

		case *types.Tuple:
			for i, n := 0, T.Len(); i < n; i++ {
				visit(T.At(i).Type(), true)
			}

		case *types.TypeParam, *types.Union:
			// forEachReachable must not be called on parameterized types.
			panic(fmt.Sprintf("ForEachElement called on type containing %T", T))

		default:
			panic(fmt.Sprintf("ForEachElement called on unexpected type %T", T))
		}
	}
	visit(T, true)
}
