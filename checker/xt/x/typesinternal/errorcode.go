// Copyright 2020 The Go Authors. All rights reserved.
// Use of this source code is governed by a BSD-style
// license that can be found in the LICENSE file.

package typesinternal

//go:generate stringer -type=ErrorCode

type ErrorCode int

// This file defines the error codes that can be produced during type-checking.
// Collectively, these codes provide an identifier that may be used to
// implement special handling for certain types of errors.
//
// Error codes should be fine-grained enough that the exact nature of the error
// can be easily determined, but coarse enough that they are not an
// implementation detail of the type checking algorithm. As a rule-of-thumb,
// errors should be considered equivalent if there is a theoretical refactoring
// of the type checker in which they are emitted in exactly one place. For
// example, the type checker emits different error messages for "too many
// arguments" and "too few arguments", but one can imagine an alternative type
// checker where this check instead just emits a single "wrong number of
// arguments", so these errors should have the same code.
//
// Error code names should be as brief as possible while retaining accuracy and
// distinctiveness. In most cases names should start with an adjective
// describing the nature of the error (e.g. "invalid", "unused", "misplaced"),
// and end with a noun identifying the relevant language object. For example,
// "DuplicateDecl" or "InvalidSliceExpr". For brevity, naming follows the
// convention that "bad" implies a problem with syntax, and "invalid" implies a
// problem with types.

const (
	// InvalidSyntaxTree occurs if an invalid syntax tree is provided
	// to the type checker. It should never happen.
	InvalidSyntaxTree ErrorCode = -1
)

const (
	_ ErrorCode = iota

	// Test is reserved for errors that only apply while in self-test mode.
	Test

	/* package names */

	// BlankPkgName occurs when a package name is the blank identifier "_".
	//
	// Per the spec:
	//  "The PackageName must not be the blank identifier."
	BlankPkgName

	// MismatchedPkgName occurs when a file's package name doesn't match the
	// package name already established by other files.
	MismatchedPkgName

	// InvalidPkgUse occurs when a package identifier is used outside of a
	// selector expression.
	//
	// Example:
	//  import "fmt"
	//
	//  var _ = fmt
	InvalidPkgUse

	/* imports */

	// BadImportPath occurs when an import path is not valid.
	BadImportPath

	// BrokenImport occurs when importing a package fails.
	//
	// Example:
	//  import "amissingpackage"
	BrokenImport

	// ImportCRenamed occurs when the special import "C" is renamed. "C" is a
	// pseudo-package, and must not be renamed.
	//
	// Example:
	//  import _ "C"
	ImportCRenamed

	// UnusedImport occurs when an import is unused.
	//
	// Example:
	//  import "fmt"
	//
	//  func main() {}
	UnusedImport

	/* initialization */

	// InvalidInitCycle occurs when an invalid cycle is detected within the
	// initialization graph.
	//
	// Example:
	//  var x int = f()
	//
	//  func f() int { return x }
	InvalidInitCycle

	/* decls */

	// DuplicateDecl occurs when an identifier is declared multiple times.
	//
	// Example:
	//  var x = 1
	//  var x = 2
	DuplicateDecl

	// InvalidDeclCycle occurs when a declaration cycle is not valid.
	//
	// Example:
	//  import "unsafe"
	//
	//  type T struct {
	//  	a [n]int
	//  }
	//
	//  var n = unsafe.Sizeof(T{})
	InvalidDeclCycle

	// InvalidTypeCycle occurs when a cycle in type definitions results in a
	// type that is not well-defined.
	//
	// Example:
	//  import "unsafe"
	//
	//  type T [unsafe.Sizeof(T{})]int
	InvalidTypeCycle

	/* decls > const */

	// InvalidConstInit occurs when a const declaration has a non-constant
	// initializer.
	//
	// Example:
	//  var x int
	//  const _ = x
	InvalidConstInit

	// InvalidConstVal occurs when a const value cannot be converted to its
	// target type.
	//
	// TODO(findleyr): this error code and example are not very clear. Consider
	// removing it.
	//
	// Example:
	//  const _ = 1 << "hello"
	InvalidConstVal

	// InvalidConstType occurs when the underlying type in a const declaration
	// is not a valid constant type.
	//
	// Example:
	//  const c *int = 4
	InvalidConstType

	/* decls > var (+ other variable assignment codes) */

	// UntypedNilUse occurs when the predeclared (untyped) value nil is used to
	// initialize a variable declared without an explicit type.
	//
	// Example:
	//  var x = nil
	UntypedNilUse

	// WrongAssignCount occurs when the number of values on the right-hand side
	// of an assignment or initialization expression does not match the number
	// of variables on the left-hand side.
	//
	// Example:
	//  var x = 1, 2
	WrongAssignCount

	// UnassignableOperand occurs when the left-hand side of an assignment is
	// not assignable.
	//
	// Example:
	//  func f() {
	//  	const c = 1
	//  	c = 2
	//  }
	UnassignableOperand

	// NoNewVar occurs when a short variable declaration (':=') does not declare
	// new variables.
	//
	// Example:
	//  func f() {
	//  	x := 1
	//  	x := 2
	//  }
	NoNewVar

	// MultiValAssignOp occurs when an assignment operation (+=, *=, etc) does
	// not have single-valued left-hand or right-hand side.
	//
	// Per the spec:
	//  "In assignment operations, both the left- and right-hand expression lists
	//  must contain exactly one single-valued expression"
	//
	// Example:
	//  func f() int {
	//  	x, y := 1, 2
	//  	x, y += 1
	//  	return x + y
	//  }
	MultiValAssignOp

	// InvalidIfaceAssign occurs when a value of type T is used as an
	// interface, but T does not implement a method of the expected interface.
	//
	// Example:
	//  type I interface {
	//  	f()
	//  }
	//
	//  type T int
	//
	//  var x I = T(1)
	InvalidIfaceAssign

	// InvalidChanAssign occurs when a chan assignment is invalid.
	//
	// Per the spec, a value x is assignable to a channel type T if:
	//  "x is a bidirectional channel value, T is a channel type, x's type V and
	//  T have identical element types, and at least one of V or T is not a
	//  defined type."
	//
	// Example:
	//  type T1 chan int
	//  type T2 chan int
	//
	//  var x T1
	//  // Invalid assignment because both types are named
	//  var _ T2 = x
	InvalidChanAssign

	// IncompatibleAssign occurs when the type of the right-hand side expression
	// in an assignment cannot be assigned to the type of the variable being
	// assigned.
	//
	// Example:
	//  var x []int
	//  var _ int = x
	IncompatibleAssign

	// UnaddressableFieldAssign occurs when trying to assign to a struct field
	// in a map value.
	//
	// Example:
	//  func f() {
	//  	m := make(map[string]struct{i int})
	//  	m["foo"].i = 42
	//  }
	UnaddressableFieldAssign

	/* decls > type (+ other type expression codes) */

	// NotAType occurs when the identifier used as the underlying type in a type
	// declaration or the right-hand side of a type alias does not denote a type.
	//
	// Example:
	//  var S = 2
	//
	//  type T S
	NotAType

	// InvalidArrayLen occurs when an array length is not a constant value.
	//
	// Example:
	//  var n = 3
	//  var _ = [n]int{}
	InvalidArrayLen

	// BlankIfaceMethod occurs when a method name is '_'.
	//
	// Per the spec:
	//  "The name of each explicitly specified method must be unique and not
	//  blank."
	//
	// Example:
	//  type T interface {
	//  	_(int)
	//  }
	BlankIfaceMethod

	// IncomparableMapKey occurs when a map key type does not support the == and
	// != operators.
	//
	// Per the spec:
	//  "The comparison operators == and != must be fully defined for operands of
	//  the key type; thus the key type must not be a function, map, or slice."
	//
	// Example:
	//  var x map[T]int
	//
	//  type T []int
	IncomparableMapKey

	// InvalidIfaceEmbed occurs when a non-interface type is embedded in an
	// interface.
	//
	// Example:
	//  type T struct {}
	//
	//  func (T) m()
	//
	//  type I interface {
	//  	T
	//  }
	InvalidIfaceEmbed

	// InvalidPtrEmbed occurs when an embedded field is of the pointer form *T,
	// and T itself is itself a pointer, an unsafe.Pointer, or an interface.
	//
	// Per the spec:
	//  "An embedded field must be specified as a type name T or as a pointer to
	//  a non-interface type name *T, and T itself may not be a pointer type."
	//
	// Example:
	//  type T *int
	//
	//  type S struct {
	//  	*T
	//  }
	InvalidPtrEmbed

	/* decls > func and method */

	// BadRecv occurs when a method declaration does not have exactly one
	// receiver parameter.
	//
	// Example:
	//  func () _() {}
	BadRecv

	// InvalidRecv occurs when a receiver type expression is not of the form T
	// or *T, or T is a pointer type.
	//
	// Example:
	//  type T struct {}
	//
	//  func (**T) m() {}
	InvalidRecv

	// DuplicateFieldAndMethod occurs when an identifier appears as both a field
	// and method name.
	//
	// Example:
	//  type T struct {
	//  	m int
	//  }
	//
	//  func (T) m() {}
	DuplicateFieldAndMethod

	// DuplicateMethod occurs when two methods on the same receiver type have
	// the same name.
	//
	// Example:
	//  type T struct {}
	//  func (T) m() {}
	//  func (T) m(i int) int { return i }
	DuplicateMethod

	/* decls > special */

	// InvalidBlank occurs when a blank identifier is used as a value or type.
	//
	// Per the spec:
	//  "The blank identifier may appear as an operand only on the left-hand side
	//  of an assignment."
	//
	// Example:
	//  var x = _
	InvalidBlank

	// InvalidIota occurs when the predeclared identifier iota is used outside
	// of a constant declaration.
	//
	// Example:
	//  var x = iota
	InvalidIota

	// MissingInitBody occurs when an init function is missing its body.
	//
	// Example:
	//  func init()
	MissingInitBody

	// InvalidInitSig occurs when an init function declares parameters or
	// results.
	//
	// Example:
	//  func init() int { return 1 }
	InvalidInitSig

	// InvalidInitDecl occurs when init is declared as anything other than a
	// function.
	//
	// Example:
	//  var init = 1
	InvalidInitDecl

	// InvalidMainDecl occurs when main is declared as anything other than a
	// function, in a main package.
	InvalidMainDecl

	/* exprs */

	// TooManyValues occurs when a function returns too many values for the
	// expression context in which it is used.
	//
	// Example:
	//  func ReturnTwo() (int, int) {
	//  	return 1, 2
	//  }
	//
	//  var x = ReturnTwo()
	TooManyValues

	// NotAnExpr occurs when a type expression is used where a value expression
	// is expected.
	//
	// Example:
	//  type T struct {}
	//
	//  func f() {
	//  	T
	//  }
	NotAnExpr

	/* exprs > const */

	// TruncatedFloat occurs when a float constant is truncated to an integer
	// value.
	//
	// Example:
	//  var _ int = 98.6
	TruncatedFloat

	// NumericOverflow occurs when a numeric constant overflows its target type.
	//
	// Example:
	//  var x int8 = 1000
	NumericOverflow

	/* exprs > operation */

	// UndefinedOp occurs when an operator is not defined for the type(s) used
	// in an operation.
	//
	// Example:
	//  var c = "a" - "b"
	UndefinedOp

	// MismatchedTypes occurs when operand types are incompatible in a binary
	// operation.
	//
	// Example:
	//  var a = "hello"
	//  var b = 1
	//  var c = a - b
	MismatchedTypes

	// DivByZero occurs when a division operation is provable at compile
	// time to be a division by zero.
	//
	// Example:
	//  const divisor = 0
	//  var x int = 1/divisor
	DivByZero

	// NonNumericIncDec occurs when an increment or decrement operator is
	// applied to a non-numeric value.
	//
	// Example:
	//  func f() {
	//  	var c = "c"
	//  	c++
	//  }
	NonNumericIncDec

	/* exprs > ptr */

	// UnaddressableOperand occurs when the & operator is applied to an
	// unaddressable expression.
	//
	// Example:
	//  var x = &1
	UnaddressableOperand

	// InvalidIndirection occurs when a non-pointer value is indirected via the
	// '*' operator.
	//
	// Example:
	//  var x int
	//  var y = *x
	InvalidIndirection

	/* exprs > [] */

	// NonIndexableOperand occurs when an index operation is applied to a value
	// that cannot be indexed.
	//
	// Example:
	//  var x = 1
	//  var y = x[1]
	NonIndexableOperand

	// InvalidIndex occurs when an index argument is not of integer type,
	// negative, or out-of-bounds.
	//
	// Example:
	//  var s = [...]int{1,2,3}
	//  var x = s[5]
	//
	// Example:
	//  var s = []int{1,2,3}
	//  var _ = s[-1]
	//
	// Example:
	//  var s = []int{1,2,3}
	//  var i string
	//  var _ = s[i]
	InvalidIndex

	// SwappedSliceIndices occurs when constant indices in a slice expression
	// are decreasing in value.
	//
	// Example:
	//  var _ = []int{1,2,3}[2:1]
	SwappedSliceIndices

	/* operators > slice */

	// NonSliceableOperand occurs when a slice operation is applied to a value
	// whose type is not sliceable, or is unaddressable.
	//
	// Example:
	//  var x = [...]int{1, 2, 3}[:1]
	//
	// Example:
	//  var x = 1
	//  var y = 1[:1]
	NonSliceableOperand

	// InvalidSliceExpr occurs when a three-index slice expression (a[x:y:z]) is
	// applied to a string.
	//
	// Example:
	//  var s = "hello"
	//  var x = s[1:2:3]
	InvalidSliceExpr

	/* exprs > shift */

	// InvalidShiftCount occurs when the right-hand side of a shift operation is
	// either non-integer, negative, or too large.
	//
	// Example:
	//  var (
	//  	x string
	//  	y int = 1 << x
	//  )
	InvalidShiftCount

	// InvalidShiftOperand occurs when the shifted operand is not an integer.
	//
	// Example:
	//  var s = "hello"
	//  var x = s << 2
	InvalidShiftOperand

	/* exprs > chan */

	// InvalidReceive occurs when there is a channel receive from a value that
	// is either not a channel, or is a send-only channel.
	//
	// Example:
	//  func f() {
	//  	var x = 1
	//  	<-x
	//  }
	InvalidReceive

	// InvalidSend occurs when there is a channel send to a value that is not a
	// channel, or is a receive-only channel.
	//
	// Example:
	//  func f() {
	//  	var x = 1
	//  	x <- "hello!"
	//  }
	InvalidSend

	/* exprs > literal */

	// DuplicateLitKey occurs when an index is duplicated in a slice, array, or
	// map literal.
	//
	// Example:
	//  var _ = []int{0:1, 0:2}
	//
	// Example:
	//  var _ = map[string]int{"a": 1, "a": 2}
	DuplicateLitKey

	// MissingLitKey occurs when a map literal is missing a key expression.
	//
	// Example:
	//  var _ = map[string]int{1}
	MissingLitKey

	// InvalidLitIndex occurs when the key in a key-value element of a slice or
	// array literal is not an integer constant.
	//
	// Example:
	//  var i = 0
	//  var x = []string{i: "world"}
	InvalidLitIndex

	// OversizeArrayLit occurs when an array literal exceeds its length.
	//
	// Example:
	//  var _ = [2]int{1,2,3}
	OversizeArrayLit

	// MixedStructLit occurs when a struct literal contains a mix of positional
	// and named elements.
	//
	// Example:
	//  var _ = struct{i, j int}{i: 1, 2}
	MixedStructLit

	// InvalidStructLit occurs when a positional struct literal has an incorrect
	// number of values.
	//
	// Example:
	//  var _ = struct{i, j int}{1,2,3}
	InvalidStructLit

	// MissingLitField occurs when a struct literal refers to a field that does
	// not exist on the struct type.
	//
	// Example:
	//  var _ = struct{i int}{j: 2}
	MissingLitField

	// DuplicateLitField occurs when a struct literal contains duplicated
	// fields.
	//
	// Example:
	//  var _ = struct{i int}{i: 1, i: 2}
	DuplicateLitField

	// UnexportedLitField occurs when a positional struct literal implicitly
	// assigns an unexported field of an imported type.
	UnexportedLitField

	// InvalidLitField occurs when a field name is not a valid identifier.
	//
	// Example:
	//  var _ = struct{i int}{1: 1}
	InvalidLitField

	// UntypedLit occurs when a composite literal omits a required type
	// identifier.
	//
	// Example:
	//  type outer struct{
	//  	inner struct { i int }
	//  }
	//
	//  var _ = outer{inner: {1}}
	UntypedLit

	// InvalidLit occurs when a composite literal expression does not match its
	// type.
	//
	// Example:
	//  type P *struct{
	//  	x int
	//  }
	//  var _ = P {}
	InvalidLit

	/* exprs > selector */

	// AmbiguousSelector occurs when a selector is ambiguous.
	//
	// Example:
	//  type E1 struct { i int }
	//  type E2 struct { i int }
	//  type T struct { E1; E2 }
	//
	//  var x T
	//  var _ = x.i
	AmbiguousSelector

	// UndeclaredImportedName occurs when a package-qualified identifier is
	// undeclared by the imported package.
	//
	// Example:
	//  import "go/types"
	//
	//  var _ = types.NotAnActualIdentifier
	UndeclaredImportedName

	// UnexportedName occurs when a selector refers to an unexported identifier
	// of an imported package.
	//
	// Example:
	//  import "reflect"
	//
	//  type _ reflect.flag
	UnexportedName

	// UndeclaredName occurs when an identifier is not declared in the current
	// scope.
	//
	// Example:
	//  var x T
	UndeclaredName

	// MissingFieldOrMethod occurs when a selector references a field or method
	// that does not exist.
	//
	// Example:
	//  type T struct {}
	//
	//  var x = T{}.f
	MissingFieldOrMethod

	/* exprs > ... */

	// BadDotDotDotSyntax occurs when a "..." occurs in a context where it is
	// not valid.
	//
	// Example:
	//  var _ = map[int][...]int{0: {}}
	BadDotDotDotSyntax

	// NonVariadicDotDotDot occurs when a "..." is used on the final argument to
	// a non-variadic function.
	//
	// Example:
	//  func printArgs(s []string) {
	//  	for _, a := range s {
	//  		println(a)
	//  	}
	//  }
	//
	//  func f() {
	//  	s := []string{"a", "b", "c"}
	//  	printArgs(s...)
	//  }
	NonVariadicDotDotDot

	// MisplacedDotDotDot occurs when a "..." is used somewhere other than the
	// final argument to a function call.
	//
	// Example:
	//  func printArgs(args ...int) {
	//  	for _, a := range args {
	//  		println(a)
	//  	}
	//  }
	//
	//  func f() {
	//  	a := []int{1,2,3}
	//  	printArgs(0, a...)
	//  }
	MisplacedDotDotDot

	// InvalidDotDotDotOperand occurs when a "..." operator is applied to a
	// single-valued operand.
	//
	// Example:
	//  func printArgs(args ...int) {
	//  	for _, a := range args {
	//  		println(a)
	//  	}
	//  }
	//
	//  func f() {
	//  	a := 1
	//  	printArgs(a...)
	//  }
	//
	// Example:
	//  func args() (int, int) {
	//  	return 1, 2
	//  }
	//
	//  func printArgs(args ...int) {
	//  	for _, a := range args {
	//  		println(a)
	//  	}
	//  }
	//
	//  func g() {
	//  	printArgs(args()...)
	//  }
	InvalidDotDotDotOperand

	// InvalidDotDotDot occurs when a "..." is used in a non-variadic built-in
	// function.
	//
	// Example:
	//  var s = []int{1, 2, 3}
	//  var l = len(s...)
	InvalidDotDotDot

	/* exprs > built-in */

	// UncalledBuiltin occurs when a built-in function is used as a
	// function-valued expression, instead of being called.
	//
	// Per the spec:
	//  "The built-in functions do not have standard Go types, so they can only
	//  appear in call expressions; they cannot be used as function values."
	//
	// Example:
	//  var _ = copy
	UncalledBuiltin

	// InvalidAppend occurs when append is called with a first argument that is
	// not a slice.
	//
	// Example:
	//  var _ = append(1, 2)
	InvalidAppend

	// InvalidCap occurs when an argument to the cap built-in function is not of
	// supported type.
	//
	// See https://golang.org/ref/spec#Length_and_capacity for information on
	// which underlying types are supported as arguments to cap and len.
	//
	// Example:
	//  var s = 2
	//  var x = cap(s)
	InvalidCap

	// InvalidClose occurs when close(...) is called with an argument that is
	// not of channel type, or that is a receive-only channel.
	//
	// Example:
	//  func f() {
	//  	var x int
	//  	close(x)
	//  }
	InvalidClose

	// InvalidCopy occurs when the arguments are not of slice type or do not
	// have compatible type.
	//
	// See https://golang.org/ref/spec#Appending_and_copying_slices for more
	// information on the type requirements for the copy built-in.
	//
	// Example:
	//  func f() {
	//  	var x []int
	//  	y := []int64{1,2,3}
	//  	copy(x, y)
	//  }
	InvalidCopy

	// InvalidComplex occurs when the complex built-in function is called with
	// arguments with incompatible types.
	//
	// Example:
	//  var _ = complex(float32(1), float64(2))
	InvalidComplex

	// InvalidDelete occurs when the delete built-in function is called with a
	// first argument that is not a map.
	//
	// Example:
	//  func f() {
	//  	m := "hello"
	//  	delete(m, "e")
	//  }
	InvalidDelete

	// InvalidImag occurs when the imag built-in function is called with an
	// argument that does not have complex type.
	//
	// Example:
	//  var _ = imag(int(1))
	InvalidImag

	// InvalidLen occurs when an argument to the len built-in function is not of
	// supported type.
	//
	// See https://golang.org/ref/spec#Length_and_capacity for information on
	// which underlying types are supported as arguments to cap and len.
	//
	// Example:
	//  var s = 2
	//  var x = len(s)
	InvalidLen

	// SwappedMakeArgs occurs when make is called with three arguments, and its
	// length argument is larger than its capacity argument.
	//
	// Example:
	//  var x = make([]int, 3, 2)
	SwappedMakeArgs

	// InvalidMake occurs when make is called with an unsupported type argument.
	//
	// See https://golang.org/ref/spec#Making_slices_maps_and_channels for
	// information on the types that may be created using make.
	//
	// Example:
	//  var x = make(int)
	InvalidMake

	// InvalidReal occurs when the real built-in function is called with an
	// argument that does not have complex type.
	//
	// Example:
	//  var _ = real(int(1))
	InvalidReal

	/* exprs > assertion */

	// InvalidAssert occurs when a type assertion is applied to a
	// value that is not of interface type.
	//
	// Example:
	//  var x = 1
	//  var _ = x.(float64)
	InvalidAssert

	// ImpossibleAssert occurs for a type assertion x.(T) when the value x of
	// interface cannot have dynamic type T, due to a missing or mismatching
	// method on T.
	//
	// Example:
	//  type T int
	//
	//  func (t *T) m() int { return int(*t) }
	//
	//  type I interface { m() int }
	//
	//  var x I
	//  var _ = x.(T)
	ImpossibleAssert

	/* exprs > conversion */

	// InvalidConversion occurs when the argument type cannot be converted to the
	// target.
	//
	// See https://golang.org/ref/spec#Conversions for the rules of
	// convertibility.
	//
	// Example:
	//  var x float64
	//  var _ = string(x)
	InvalidConversion

	// InvalidUntypedConversion occurs when there is no valid implicit
	// conversion from an untyped value satisfying the type constraints of the
	// context in which it is used.
	//
	// Example:
	//  var _ = 1 + ""
	InvalidUntypedConversion

	/* offsetof */

	// BadOffsetofSyntax occurs when unsafe.Offsetof is called with an argument
	// that is not a selector expression.
	//
	// Example:
	//  import "unsafe"
	//
	//  var x int
	//  var _ = unsafe.Offsetof(x)
	BadOffsetofSyntax

	// InvalidOffsetof occurs when unsafe.Offsetof is called with a method
	// selector, rather than a field selector, or when the field is embedded via
	// a pointer.
	//
	// Per the spec:
	//
	//  "If f is an embedded field, it must be reachable without pointer
	//  indirections through fields of the struct. "
	//
	// Example:
	//  import "unsafe"
	//
	//  type T struct { f int }
	//  type S struct { *T }
	//  var s S
	//  var _ = unsafe.Offsetof(s.f)
	//
	// Example:
	//  import "unsafe"
	//
	//  type S struct{}
	//
	//  func (S) m() {}
	//
	//  var s S
	//  var _ = unsafe.Offsetof(s.m)
	InvalidOffsetof

	/* control flow > scope */

	// UnusedExpr occurs when a side-effect free expression is used as a
	// statement. Such a statement has no effect.
	//
	// Example:
	//  func f(i int) {
	//  	i*i
	//  }
	UnusedExpr

	// UnusedVar occurs when a variable is declared but unused.
	//
	// Example:
	//  func f() {
	//  	x := 1
	//  }
	UnusedVar

	// MissingReturn occurs when a function with results is missing a return
	// statement.
	//
	// Example:
	//  func f() int {}
	MissingReturn

	// WrongResultCount occurs when a return statement returns an incorrect
	// number of values.
	//
	// Example:
	//  func ReturnOne() int {
	//  	return 1, 2
	//  }
	WrongResultCount

	// OutOfScopeResult occurs when the name of a value implicitly returned by
	// an empty return statement is shadowed in a nested scope.
	//
	// Example:
	//  func factor(n int) (i int) {
	//  	for i := 2; i < n; i++ {
	//  		if n%i == 0 {
	//  			return
	//  		}
	//  	}
	//  	return 0
	//  }
	OutOfScopeResult

	/* control flow > if */

	// InvalidCond occurs when an if condition is not a boolean expression.
	//
	// Example:
	//  func checkReturn(i int) {
	//  	if i {
	//  		panic("non-zero return")
	//  	}
	//  }
	InvalidCond

	/* control flow > for */

	// InvalidPostDecl occurs when there is a declaration in a for-loop post
	// statement.
	//
	// Example:
	//  func f() {
	//  	for i := 0; i < 10; j := 0 {}
	//  }
	InvalidPostDecl

	// InvalidChanRange occurs when a send-only channel used in a range
	// expression.
	//
	// Example:
	//  func sum(c chan<- int) {
	//  	s := 0
	//  	for i := range c {
	//  		s += i
	//  	}
	//  }
	InvalidChanRange

	// InvalidIterVar occurs when two iteration variables are used while ranging
	// over a channel.
	//
	// Example:
	//  func f(c chan int) {
	//  	for k, v := range c {
	//  		println(k, v)
	//  	}
	//  }
	InvalidIterVar

	// InvalidRangeExpr occurs when the type of a range expression is not array,
	// slice, string, map, or channel.
	//
	// Example:
	//  func f(i int) {
	//  	for j := range i {
	//  		println(j)
	//  	}
	//  }
	InvalidRangeExpr

	/* control flow > switch */

	// MisplacedBreak occurs when a break statement is not within a for, switch,
	// or select statement of the innermost function definition.
	//
	// Example:
	//  func f() {
	//  	break
	//  }
	MisplacedBreak

	// MisplacedContinue occurs when a continue statement is not within a for
	// loop of the innermost function definition.
	//
	// Example:
	//  func sumeven(n int) int {
	//  	proceed := func() {
	//  		continue
	//  	}
	//  	sum := 0
	//  	for i := 1; i <= n; i++ {
	//  		if i % 2 != 0 {
	//  			proceed()
	//  		}
	//  		sum += i
	//  	}
	//  	return sum
	//  }
	MisplacedContinue

	// MisplacedFallthrough occurs when a fallthrough statement is not within an
	// expression switch.
	//
	// Example:
	//  func typename(i interface{}) string {
	//  	switch i.(type) {
	//  	case int64:
	//  		fallthrough
	//  	case int:
	//  		return "int"
	//  	}
	//  	return "unsupported"
	//  }
	MisplacedFallthrough

	// DuplicateCase occurs when a type or expression switch has duplicate
	// cases.
	//
	// Example:
	//  func printInt(i int) {
	//  	switch i {
	//  	case 1:
	//  		println("one")
	//  	case 1:
	//  		println("One")
	//  	}
	//  }
	DuplicateCase

	// DuplicateDefault occurs when a type or expression switch has multiple
	// default clauses.
	//
	// Example:
	//  func printInt(i int) {
	//  	switch i {
	//  	case 1:
	//  		println("one")
	//  	default:
	//  		println("One")
	//  	default:
	//  		println("1")
	//  	}
	//  }
	DuplicateDefault

	// BadTypeKeyword occurs when a .(type) expression is used anywhere other
	// than a type switch.
	//
	// Example:
	//  type I interface {
	//  	m()
	//  }
	//  var t I
	//  var _ = t.(type)
	BadTypeKeyword

	// InvalidTypeSwitch occurs when .(type) is used on an expression that is
	// not of interface type.
	//
	// Example:
	//  func f(i int) {
	//  	switch x := i.(type) {}
	//  }
	InvalidTypeSwitch

	// InvalidExprSwitch occurs when a switch expression is not comparable.
	//
	// Example:
	//  func _() {
	//  	var a struct{ _ func() }
	//  	switch a /* ERROR cannot switch on a */ {
	//  	}
	//  }
	InvalidExprSwitch

	/* control flow > select */

	// InvalidSelectCase occurs when a select case is not a channel send or
	// receive.
	//
	// Example:
	//  func checkChan(c <-chan int) bool {
	//  	select {
	//  	case c:
	//  		return true
	//  	default:
	//  		return false
	//  	}
	//  }
	InvalidSelectCase

	/* control flow > labels and jumps */

	// UndeclaredLabel occurs when an undeclared label is jumped to.
	//
	// Example:
	//  func f() {
	//  	goto L
	//  }
	UndeclaredLabel

	// DuplicateLabel occurs when a label is declared more than once.
	//
	// Example:
	//  func f() int {
	//  L:
	//  L:
	//  	return 1
	//  }
	DuplicateLabel

	// MisplacedLabel occurs when a break or continue label is not on a for,
	// switch, or select statement.
	//
	// Example:
	//  func f() {
	//  L:
	//  	a := []int{1,2,3}
	//  	for _, e := range a {
	//  		if e > 10 {
	//  			break L
	//  		}
	//  		println(a)
	//  	}
	//  }
	MisplacedLabel

	// UnusedLabel occurs when a label is declared but not used.
	//
	// Example:
	//  func f() {
	//  L:
	//  }
	UnusedLabel

	// JumpOverDecl occurs when a label jumps over a variable declaration.
	//
	// Example:
	//  func f() int {
	//  	goto L
	//  	x := 2
	//  L:
	//  	x++
	//  	return x
	//  }
	JumpOverDecl

	// JumpIntoBlock occurs when a forward jump goes to a label inside a nested
	// block.
	//
	// Example:
	//  func f(x int) {
	//  	goto L
	//  	if x > 0 {
	//  	L:
	//  		print("inside block")
	//  	}
	// }
	JumpIntoBlock

	/* control flow > calls */

	// InvalidMethodExpr occurs when a pointer method is called but the argument
	// is not addressable.
	//
	// Example:
	//  type T struct {}
	//
	//  func (*T) m() int { return 1 }
	//
	//  var _ = T.m(T{})
	InvalidMethodExpr

	// WrongArgCount occurs when too few or too many arguments are passed by a
	// function call.
	//
	// Example:
	//  func f(i int) {}
	//  var x = f()
	WrongArgCount

	// InvalidCall occurs when an expression is called that is not of function
	// type.
	//
	// Example:
	//  var x = "x"
	//  var y = x()
	InvalidCall

	/* control flow > suspended */

	// UnusedResults occurs when a restricted expression-only built-in function
	// is suspended via go or defer. Such a suspension discards the results of
	// these side-effect free built-in functions, and therefore is ineffectual.
	//
	// Example:
	//  func f(a []int) int {
	//  	defer len(a)
	//  	return i
	//  }
	UnusedResults

	// InvalidDefer occurs when a deferred expression is not a function call,
	// for example if the expression is a type conversion.
	//
	// Example:
	//  func f(i int) int {
	//  	defer int32(i)
	//  	return i
	//  }
	InvalidDefer

	// InvalidGo occurs when a go expression is not a function call, for example
	// if the expression is a type conversion.
	//
	// Example:
	//  func f(i int) int {
	//  	go int32(i)
	//  	return i
	//  }
	InvalidGo

	// All codes below were added in Go 1.17.

	/* decl */

	// BadDecl occurs when a declaration has invalid syntax.
	BadDecl

	// RepeatedDecl occurs when an identifier occurs more than once on the left
	// hand side of a short variable declaration.
	//
	// Example:
	//  func _() {
	//  	x, y, y := 1, 2, 3
	//  }
	RepeatedDecl

	/* unsafe */

	// InvalidUnsafeAdd occurs when unsafe.Add is called with a
	// length argument that is not of integer type.
	//
	// Example:
	//  import "unsafe"
	//
	//  var p unsafe.Pointer
	//  var _ = unsafe.Add(p, float64(1))
	InvalidUnsafeAdd

	// InvalidUnsafeSlice occurs when unsafe.Slice is called with a
	// pointer argument that is not of pointer type or a length argument
	// that is not of integer type, negative, or out of bounds.
	//
	// Example:
	//  import "unsafe"
	//
	//  var x int
	//  var _ = unsafe.Slice(x, 1)
	//
	// Example:
	//  import "unsafe"
	//
	//  var x int
	//  var _ = unsafe.Slice(&x, float64(1))
	//
	// Example:
	//  import "unsafe"
	//
	//  var x int
	//  var _ = unsafe.Slice(&x, -1)
	//
	// Example:
	//  import "unsafe"
	//
	//  var x int
	//  var _ = unsafe.Slice(&x, uint64(1) << 63)
	InvalidUnsafeSlice

	// All codes below were added in Go 1.18.

	/* features */

	// UnsupportedFeature occurs when a language feature is used that is not
	// supported at this Go version.
	UnsupportedFeature

	/* type params */

	// NotAGenericType occurs when a non-generic type is used where a generic
	// type is expected: in type or function instantiation.
	//
	// Example:
	//  type T int
	//
	//  var _ T[int]
	NotAGenericType

	// WrongTypeArgCount occurs when a type or function is instantiated with an
	// incorrect number of type arguments, including when a generic type or
	// function is used without instantiation.
	//
	// Errors involving failed type inference are assigned other error codes.
	//
	// Example:
	//  type T[p any] int
	//
	//  var _ T[int, string]
	//
	// Example:
	//  func f[T any]() {}
	//
	//  var x = f
	WrongTypeArgCount

	// CannotInferTypeArgs occurs when type or function type argument inference
	// fails to infer all type arguments.
	//
	// Example:
	//  func f[T any]() {}
	//
	//  func _() {
	//  	f()
	//  }
	//
	// Example:
	//   type N[P, Q any] struct{}
	//
	//   var _ N[int]
	CannotInferTypeArgs

	// InvalidTypeArg occurs when a type argument does not satisfy its
	// corresponding type parameter constraints.
	//
	// Example:
	//  type T[P ~int] struct{}
	//
	//  var _ T[string]
	InvalidTypeArg // arguments? InferenceFailed

	// InvalidInstanceCycle occurs when an invalid cycle is detected
	// within the instantiation graph.
	//
	// Example:
	//  func f[T any]() { f[*T]() }
	InvalidInstanceCycle

	// InvalidUnion occurs when an embedded union or approximation element is
	// not valid.
	//
	// Example:
	//  type _ interface {
	//   	~int | interface{ m() }
	//  }
	InvalidUnion

	// MisplacedConstraintIface occurs when a constraint-type interface is used
	// outside of constraint position.
	//
	// Example:
	//   type I interface { ~int }
	//
	//   var _ I
	MisplacedConstraintIface

	// InvalidMethodTypeParams occurs when methods have type parameters.
	//
	// It cannot be encountered with an AST parsed using go/parser.
	InvalidMethodTypeParams

	// MisplacedTypeParam occurs when a type parameter is used in a place where
	// it is not permitted.
	//
	// Example:
	//  type T[P any] P
	//
	// Example:
	//  type T[P any] struct{ *P }
	MisplacedTypeParam

	// InvalidUnsafeSliceData occurs when unsafe.SliceData is called with
	// an argument that is not of slice type. It also occurs if it is used
	// in a package compiled for a language version before go1.20.
	//
	// Example:
	//  import "unsafe"
	//
	//  var x int
	//  var _ = unsafe.SliceData(x)
	InvalidUnsafeSliceData

	// InvalidUnsafeString occurs when unsafe.String is called with
	// a length argument that is not of integer type, negative, or
	// out of bounds. It also occurs if it is used in a package
	// compiled for a language version before go1.20.
	//
	// Example:
	//  import "unsafe"
	//
	//  var b [10]byte
	//  var _ = unsafe.String(&b[0], -1)
	InvalidUnsafeString

	// InvalidUnsafeStringData occurs if it is used in a package
	// compiled for a language version before go1.20.
	_ // not used anymore

)
