// Copyright 2024 The Go Authors. All rights reserved.
// Use of this source code is governed by a BSD-style
// license that can be found in the LICENSE file.

package typesinternal

import (
	"go/types"

	"sftpcheck/xt/x/stdlib"
	"sftpcheck/xt/x/versions"
)

// TooNewStdSymbols computes the set of package-level symbols
// exported by pkg that are not available at the specified version.
//
// The pkg is allowed to contain type errors.
func TooNewStdSymbols(pkg *types.Package, version string) map[types.Object]stdlib.Symbol {
	disallowed := make(map[types.Object]stdlib.Symbol)

	// Some symbols are accessible before their release but
	// only with specific build tags unknown to us here.
	// Avoid false positives in such cases.
	if pkg.Path() == "testing/synctest" && versions.AtLeast(version, "go1.24") {
		// requires go1.24 && goexperiment.synctest || go1.25
		return disallowed
	}
	if (pkg.Path() == "encoding/json/v2" || pkg.Path() == "encoding/json/jsontext") && versions.AtLeast(version, "go1.25") {
		// requires go1.25 && goexperiment.jsonv2 || go1.27
		return disallowed
	}

	// Pass 1: package-level symbols.
	symbols := stdlib.PackageSymbols[pkg.Path()]
	for _, sym := range symbols {
		if versions.Before(version, sym.Version.String()) {
			switch sym.Kind {
			case stdlib.Func, stdlib.Var, stdlib.Const, stdlib.Type:
				disallowed[pkg.Scope().Lookup(sym.Name)] = sym
			}
		}
	}

	// Pass 2: fields and methods.
	//
	// We allow fields and methods if their associated type is
	// disallowed, as otherwise we would report false positives
	// for compatibility shims. Consider:
	//
	//   //go:build go1.22
	//   type T struct { F std.Real } // correct new API
	//
	//   //go:build !go1.22
	//   type T struct { F fake } // shim
	//   type fake struct { ... }
	//   func (fake) M () {}
	//
	// These alternative declarations of T use either the std.Real
	// type, introduced in go1.22, or a fake type, for the field
	// F. (The fakery could be arbitrarily deep, involving more
	// nested fields and methods than are shown here.) Clients
	// that use the compatibility shim T will compile with any
	// version of go, whether older or newer than go1.22, but only
	// the newer version will use the std.Real implementation.
	//
	// Now consider a reference to method M in new(T).F.M() in a
	// module that requires a minimum of go1.21. The analysis may
	// occur using a version of Go higher than 1.21, selecting the
	// first version of T, so the method M is Real.M. This would
	// spuriously cause the analyzer to report a reference to a
	// too-new symbol even though this expression compiles just
	// fine (with the fake implementation) using go1.21.
	var noSym stdlib.Symbol
	depth := make(map[types.Object]int)
	for _, sym := range symbols {
		if !versions.Before(version, sym.Version.String()) {
			continue // allowed
		}

		var obj types.Object
		var indices []int
		switch sym.Kind {
		case stdlib.Field:
			typename, name := sym.SplitField()
			if t := pkg.Scope().Lookup(typename); t != nil && disallowed[t] == noSym {
				obj, indices, _ = types.LookupFieldOrMethod(t.Type(), false, pkg, name)
			}

		case stdlib.Method:
			ptr, recvname, name := sym.SplitMethod()
			if t := pkg.Scope().Lookup(recvname); t != nil && disallowed[t] == noSym {
				obj, indices, _ = types.LookupFieldOrMethod(t.Type(), ptr, pkg, name)
			}
		}
		if obj != nil {
			// In the presence of embedding, two or more "pkg.T.name"
			// strings may map to the same types.Object.
			// Prefer the Object with the shorter index path.
			if min, ok := depth[obj]; !ok || len(indices) < min {
				depth[obj] = len(indices)
				disallowed[obj] = sym
			}
		}
	}

	return disallowed
}
