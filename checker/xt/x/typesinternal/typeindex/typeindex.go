// Copyright 2025 The Go Authors. All rights reserved.
// Use of this source code is governed by a BSD-style
// license that can be found in the LICENSE file.

// Package typeindex provides an [Index] of type information for a
// package, allowing efficient lookup of, say, whether a given symbol
// is referenced and, if so, where from; or of the [inspector.Cursor] for
// the declaration of a particular [types.Object] symbol.
package typeindex

import (
	"encoding/binary"
	"go/ast"
	"go/types"
	"iter"

	"golang.org/x/tools/go/ast/edge"
	"golang.org/x/tools/go/ast/inspector"
	"golang.org/x/tools/go/types/typeutil"
	"sftpcheck/xt/x/astutil"
	"sftpcheck/xt/x/typesinternal"
)

// New constructs an Index for the package of type-annotated syntax
//
// TODO(adonovan): accept a FileSet too?
// We regret not requiring one in inspector.New.
func New(inspect *inspector.Inspector, pkg *types.Package, info *types.Info) *Index {
	ix := &Index{
		inspect:  inspect,
		info:     info,
		packages: make(map[string]*types.Package),
		def:      make(map[types.Object]inspector.Cursor),
		uses:     make(map[types.Object]*uses),
	}

	addPackage := func(pkg2 *types.Package) {
		if pkg2 != nil && pkg2 != pkg {
			ix.packages[pkg2.Path()] = pkg2
		}
	}

	for cur := range inspect.Root().Preorder((*ast.ImportSpec)(nil), (*ast.Ident)(nil)) {
		switch n := cur.Node().(type) {
		case *ast.ImportSpec:
			// Index direct imports, including blank ones.
			if pkgname := info.PkgNameOf(n); pkgname != nil {
				addPackage(pkgname.Imported())
			}

		case *ast.Ident:
			// Index all defining and using identifiers.
			if obj := info.Defs[n]; obj != nil {
				ix.def[obj] = cur
			}

			if obj := info.Uses[n]; obj != nil {
				// Index indirect dependencies (via fields and methods).
				if !typesinternal.IsPackageLevel(obj) {
					addPackage(obj.Pkg())
				}

				for {
					us, ok := ix.uses[obj]
					if !ok {
						us = &uses{}
						us.code = us.initial[:0]
						ix.uses[obj] = us
					}
					delta := cur.Index() - us.last
					if delta < 0 {
						panic("non-monotonic")
					}
					us.code = binary.AppendUvarint(us.code, uint64(delta))
					us.last = cur.Index()

					// If n is a selection of a field or method of an instantiated
					// type, also record a use of the generic field or method.
					obj, ok = objectOrigin(obj)
					if !ok {
						break
					}
				}
			}
		}
	}
	return ix
}

// objectOrigin returns the generic object for obj if it is a field or
// method of an instantied type; zero otherwise.
//
// (This operation is appropriate only for selections.
// Lexically resolved references always resolve to the generic.
// Although Named and Alias types also use Origin to express
// an instance/generic distinction, that's in the domain
// of Types; their TypeName objects always refer to the generic.)
func objectOrigin(obj types.Object) (types.Object, bool) {
	var origin types.Object
	switch obj := obj.(type) {
	case *types.Func:
		if obj.Signature().Recv() != nil {
			origin = obj.Origin() // G[int].method -> G[T].method
		}
	case *types.Var:
		if obj.IsField() {
			origin = obj.Origin() // G[int].field  -> G[T].field
		}
	}
	if origin != nil && origin != obj {
		return origin, true
	}
	return nil, false
}

// An Index holds an index mapping [types.Object] symbols to their syntax.
// In effect, it is the inverse of [types.Info].
type Index struct {
	inspect  *inspector.Inspector
	info     *types.Info
	packages map[string]*types.Package         // packages of all symbols referenced from this package
	def      map[types.Object]inspector.Cursor // Cursor of *ast.Ident that defines the Object
	uses     map[types.Object]*uses            // Cursors of *ast.Idents that use the Object
}

// A uses holds the list of Cursors of Idents that use a given symbol.
//
// The Uses map of [types.Info] is substantial, so it pays to compress
// its inverse mapping here, both in space and in CPU due to reduced
// allocation. A Cursor is 2 words; a Cursor.Index is 4 bytes; but
// since Cursors are naturally delivered in ascending order, we can
// use varint-encoded deltas at a cost of only ~1.7-2.2 bytes per use.
//
// Many variables have only one or two uses, so their encoded uses may
// fit in the 4 bytes of initial, saving further CPU and space
// essentially for free since the struct's size class is 4 words.
type uses struct {
	code    []byte  // varint-encoded deltas of successive Cursor.Index values
	last    int32   // most recent Cursor.Index value; used during encoding
	initial [4]byte // use slack in size class as initial space for code
}

// Uses returns the sequence of Cursors of [*ast.Ident]s in this package
// that refer to obj. If obj is nil, the sequence is empty.
//
// Uses, unlike the Uses field of [types.Info], records additional
// entries mapping fields and methods of generic types to references
// through their corresponding instantiated objects.
func (ix *Index) Uses(obj types.Object) iter.Seq[inspector.Cursor] {
	return func(yield func(inspector.Cursor) bool) {
		if uses := ix.uses[obj]; uses != nil {
			var last int32
			for code := uses.code; len(code) > 0; {
				delta, n := binary.Uvarint(code)
				last += int32(delta)
				if !yield(ix.inspect.At(last)) {
					return
				}
				code = code[n:]
			}
		}
	}
}

// Used reports whether any of the specified objects are used, in
// other words, obj != nil && Uses(obj) is non-empty for some obj in objs.
//
// (This treatment of nil allows Used to be called directly on the
// result of [Index.Object] so that analyzers can conveniently skip
// packages that don't use a symbol of interest.)
func (ix *Index) Used(objs ...types.Object) bool {
	for _, obj := range objs {
		if obj != nil && ix.uses[obj] != nil {
			return true
		}
	}
	return false
}

// Def returns the Cursor of the [*ast.Ident] in this package
// that declares the specified object, if any.
func (ix *Index) Def(obj types.Object) (inspector.Cursor, bool) {
	cur, ok := ix.def[obj]
	return cur, ok
}

// Package returns the package of the specified path,
// or nil if it is not referenced from this package.
func (ix *Index) Package(path string) *types.Package {
	return ix.packages[path]
}

// Object returns the package-level symbol name within the package of
// the specified path, or nil if the package or symbol does not exist
// or is not visible from this package.
func (ix *Index) Object(path, name string) types.Object {
	if pkg := ix.Package(path); pkg != nil {
		return pkg.Scope().Lookup(name)
	}
	return nil
}

// Selection returns the named method or field belonging to the
// package-level type returned by Object(path, typename).
func (ix *Index) Selection(path, typename, name string) types.Object {
	if obj := ix.Object(path, typename); obj != nil {
		if tname, ok := obj.(*types.TypeName); ok {
			obj, _, _ := types.LookupFieldOrMethod(tname.Type(), true, obj.Pkg(), name)
			return obj
		}
	}
	return nil
}

// Calls returns the sequence of cursors for *ast.CallExpr nodes that
// call the specified callee, as defined by [typeutil.Callee].
// If callee is nil, the sequence is empty.
func (ix *Index) Calls(callee types.Object) iter.Seq[inspector.Cursor] {
	return func(yield func(inspector.Cursor) bool) {
		for cur := range ix.Uses(callee) {
			// The call may be of the form f() or x.f(),
			// optionally with parens; ascend from f to call.
			// See logic in [typesinternal.UsedIdent], to which this is dual.
			//
			// It is tempting but wrong to use the first
			// CallExpr ancestor: we have to make sure the
			// ident is in the CallExpr.Fun position, otherwise
			// f(f, f) would have two spurious matches.
			// Avoiding Enclosing is also significantly faster.

			// inverse unparen: f -> (f)
			cur = astutil.UnparenEnclosingCursor(cur)

			// ascend selector (or qualified identifier): f -> x.f
			if cur.ParentEdgeKind() == edge.SelectorExpr_Sel {
				cur = astutil.UnparenEnclosingCursor(cur.Parent())
			}

			// ascend typeparams: f -> f[T]; f -> f[T1, T2]
			if ek := cur.ParentEdgeKind(); ek == edge.IndexExpr_X || ek == edge.IndexListExpr_X {
				cur = astutil.UnparenEnclosingCursor(cur.Parent())
			}

			// ascend from f or x.f to call
			if cur.ParentEdgeKind() == edge.CallExpr_Fun {
				curCall := cur.Parent()
				call := curCall.Node().(*ast.CallExpr)
				if typeutil.Callee(ix.info, call) == callee {
					if !yield(curCall) {
						return
					}
				}
			}
		}
	}
}
