// Copyright 2025 The Go Authors. All rights reserved.
// Use of this source code is governed by a BSD-style
// license that can be found in the LICENSE file.

package stdlib

// This file provides the API for the import graph of the standard library.
//
// Be aware that the compiler-generated code for every package
// implicitly depends on package "runtime" and a handful of others
// (see runtimePkgs in GOROOT/src/cmd/internal/objabi/pkgspecial.go).

import (
	"encoding/binary"
	"iter"
	"slices"
	"strings"
)

// Imports returns the sequence of packages directly imported by the
// named standard packages, in name order.
// The imports of an unknown package are the empty set.
//
// The graph is built into the application and may differ from the
// graph in the Go source tree being analyzed by the application.
func Imports(pkgs ...string) iter.Seq[string] {
	return func(yield func(string) bool) {
		for _, pkg := range pkgs {
			if i, ok := find(pkg); ok {
				var depIndex uint64
				for data := []byte(deps[i].deps); len(data) > 0; {
					delta, n := binary.Uvarint(data)
					depIndex += delta
					if !yield(deps[depIndex].name) {
						return
					}
					data = data[n:]
				}
			}
		}
	}
}

// Dependencies returns the set of all dependencies of the named
// standard packages, including the initial package,
// in a deterministic topological order.
// The dependencies of an unknown package are the empty set.
//
// The graph is built into the application and may differ from the
// graph in the Go source tree being analyzed by the application.
func Dependencies(pkgs ...string) iter.Seq[string] {
	return func(yield func(string) bool) {
		for _, pkg := range pkgs {
			if i, ok := find(pkg); ok {
				var seen [1 + len(deps)/8]byte // bit set of seen packages
				var visit func(i int) bool
				visit = func(i int) bool {
					bit := byte(1) << (i % 8)
					if seen[i/8]&bit == 0 {
						seen[i/8] |= bit
						var depIndex uint64
						for data := []byte(deps[i].deps); len(data) > 0; {
							delta, n := binary.Uvarint(data)
							depIndex += delta
							if !visit(int(depIndex)) {
								return false
							}
							data = data[n:]
						}
						if !yield(deps[i].name) {
							return false
						}
					}
					return true
				}
				if !visit(i) {
					return
				}
			}
		}
	}
}

// find returns the index of pkg in the deps table.
func find(pkg string) (int, bool) {
	return slices.BinarySearchFunc(deps[:], pkg, func(p pkginfo, n string) int {
		return strings.Compare(p.name, n)
	})
}

// IsBootstrapPackage reports whether pkg is one of the low-level
// packages in the Go distribution that must compile with the older
// language version specified by [BootstrapVersion] during toolchain
// bootstrapping; see golang.org/s/go15bootstrap.
func IsBootstrapPackage(pkg string) bool {
	return bootstrap[pkg]
}
