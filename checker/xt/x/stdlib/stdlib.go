// Copyright 2022 The Go Authors. All rights reserved.
// Use of this source code is governed by a BSD-style
// license that can be found in the LICENSE file.

//go:generate go run generate.go

// Package stdlib provides a table of all exported symbols in the
// standard library, along with the version at which they first
// appeared. It also provides the import graph of std packages.
package stdlib

import (
	"fmt"
	"strings"
)

type Symbol struct {
	Name    string
	Kind    Kind
	Version Version // Go version that first included the symbol
	// Signature provides the type of a function (defined only for Kind=Func).
	// Imported types are denoted as pkg.T; pkg is not fully qualified.
	// TODO(adonovan): use an unambiguous encoding that is parseable.
	//
	// Example2:
	//    func[M ~map[K]V, K comparable, V any](m M) M
	//    func(fi fs.FileInfo, link string) (*Header, error)
	Signature string // if Kind == stdlib.Func
}

// A Kind indicates the kind of a symbol:
// function, variable, constant, type, and so on.
type Kind int8

const (
	Invalid Kind = iota // Example name:
	Type                // "Buffer"
	Func                // "Println"
	Var                 // "EOF"
	Const               // "Pi"
	Field               // "Point.X"
	Method              // "(*Buffer).Grow" or "(Reader).Read"
)

func (kind Kind) String() string {
	return [...]string{
		Invalid: "invalid",
		Type:    "type",
		Func:    "func",
		Var:     "var",
		Const:   "const",
		Field:   "field",
		Method:  "method",
	}[kind]
}

// A Version represents a version of Go of the form "go1.%d".
type Version int8

// String returns a version string of the form "go1.23", without allocating.
func (v Version) String() string { return versions[v] }

var versions [30]string // (increase constant as needed)

func init() {
	for i := range versions {
		versions[i] = fmt.Sprintf("go1.%d", i)
	}
}

// HasPackage reports whether the specified package path is part of
// the standard library's public API.
func HasPackage(path string) bool {
	_, ok := PackageSymbols[path]
	return ok
}

// SplitField splits the field symbol name into type and field
// components. It must be called only on Field symbols.
//
// Example: "File.Package" -> ("File", "Package")
func (sym *Symbol) SplitField() (typename, name string) {
	if sym.Kind != Field {
		panic("not a field")
	}
	typename, name, _ = strings.Cut(sym.Name, ".")
	return
}

// SplitMethod splits the method symbol name into pointer, receiver,
// and method components. It must be called only on Method symbols.
//
// Example: "(*Buffer).Grow" -> (true, "Buffer", "Grow")
func (sym *Symbol) SplitMethod() (ptr bool, recv, name string) {
	if sym.Kind != Method {
		panic("not a method")
	}
	recv, name, _ = strings.Cut(sym.Name, ".")
	recv = recv[len("(") : len(recv)-len(")")]
	ptr = recv[0] == '*'
	if ptr {
		recv = recv[len("*"):]
	}
	return
}
