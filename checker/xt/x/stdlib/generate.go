// Copyright 2024 The Go Authors. All rights reserved.
// Use of this source code is governed by a BSD-style
// license that can be found in the LICENSE file.

//go:build ignore

// The generate command reads all the GOROOT/api/go1.*.txt files and
// generates a single combined manifest.go file containing the Go
// standard library API symbols along with versions.
//
// It also runs "go list -deps std" and records the import graph. This
// information may be used, for example, to ensure that tools don't
// suggest fixes that import package P when analyzing one of P's
// dependencies.
package main

import (
	"bytes"
	"cmp"
	"encoding/binary"
	"encoding/json"
	"errors"
	"fmt"
	"go/ast"
	"go/format"
	"go/parser"
	"go/token"
	"go/types"
	"io/fs"
	"log"
	"os"
	"os/exec"
	"path/filepath"
	"regexp"
	"slices"
	"strconv"
	"strings"

	"golang.org/x/tools/go/packages"
)

func main() {
	log.SetFlags(log.Lshortfile) // to identify the source of the log messages

	dir := apidir()
	manifest(dir)
	deps()
}

// -- generate std manifest --

func manifest(apidir string) {
	// find the signatures
	cfg := packages.Config{
		Mode: packages.LoadTypes,
		Env:  append(os.Environ(), "CGO_ENABLED=0", "GOOS=linux", "GOARCH=amd64"),
	}
	// find the source. This is not totally reliable: different
	// systems may get different versions of unreleased APIs.
	// The result depends on the toolchain.
	// The x/tools release process regenerates the table
	// with the canonical toolchain.
	stdpkgs, err := packages.Load(&cfg, "std")
	if err != nil {
		log.Fatal(err)
	}
	signatures := make(map[string]map[string]string) // PkgPath->FuncName->signature
	// signatures start with func and may contain type parameters
	// "func[T comparable](value T) unique.Handle[T]"
	for _, pkg := range stdpkgs {
		if strings.HasPrefix(pkg.PkgPath, "vendor/") ||
			strings.HasPrefix(pkg.PkgPath, "internal/") ||
			strings.Contains(pkg.PkgPath, "/internal/") {
			continue
		}
		for _, name := range pkg.Types.Scope().Names() {
			fixer := func(p *types.Package) string {
				// fn.Signature() would have produced
				// "func(fi io/fs.FileInfo, link string) (*archive/tar.Header, error)"},
				// This produces
				// "func FileInfoHeader(fi fs.FileInfo, link string) (*Header, error)""
				// Note that the function name is superfluous, so it is removed below
				if p != pkg.Types {
					return p.Name()
				}
				return ""
			}
			obj := pkg.Types.Scope().Lookup(name)
			if fn, ok := obj.(*types.Func); ok {
				mp, ok := signatures[pkg.PkgPath]
				if !ok {
					mp = make(map[string]string)
					signatures[pkg.PkgPath] = mp
				}
				sig := types.ObjectString(fn, fixer)
				// remove the space and function name introduced by fixer
				sig = strings.Replace(sig, " "+name, "", 1)
				mp[name] = sig
			}
		}
	}

	// read the api data
	pkgs := make(map[string]map[string]symInfo) // package -> symbol -> info
	symRE := regexp.MustCompile(`^pkg (\S+).*?, (var|func|type|const|method \([^)]*\)) ([\pL\p{Nd}_]+)(.*)`)

	// parse parses symbols out of GOROOT/api/*.txt data, with the specified minor version.
	// Errors are reported against filename.
	parse := func(filename string, data []byte, minor int) {
		for linenum, line := range strings.Split(string(data), "\n") {
			if line == "" || strings.HasPrefix(line, "#") {
				continue
			}
			m := symRE.FindStringSubmatch(line)
			if m == nil {
				log.Fatalf("invalid input: %s:%d: %s", filename, linenum+1, line)
			}
			path, kind, sym, rest := m[1], m[2], m[3], m[4]

			if _, recv, ok := strings.Cut(kind, "method "); ok {
				// e.g. "method (*Func) Pos() token.Pos"
				kind = "method" // (concrete)

				recv := removeTypeParam(recv) // (*Foo[T]) -> (*Foo)

				sym = recv + "." + sym // (*T).m

			} else if method, ok := strings.CutPrefix(rest, " interface, "); ok && kind == "type" {
				// e.g. "pkg reflect, type Type interface, Comparable() bool"
				// or   "pkg net, type Error interface, Temporary //deprecated"

				kind = "method" // (abstract)

				if strings.HasPrefix(method, "unexported methods") {
					continue
				}
				if strings.Contains(method, " //deprecated") {
					continue
				}
				name, _, ok := strings.Cut(method, "(")
				if !ok {
					log.Printf("unexpected: %s", line)
					continue
				}
				sym = fmt.Sprintf("(%s).%s", sym, name) // (T).m

			} else if field, ok := strings.CutPrefix(rest, " struct, "); ok && kind == "type" {
				// e.g. "type ParenExpr struct, Lparen token.Pos"
				kind = "field"
				name, typ, _ := strings.Cut(field, " ")

				// The api script uses the name
				// "embedded" (ambiguously) for
				// the name of an anonymous field.
				if name == "embedded" {
					// Strip "*pkg.T" down to "T".
					typ = strings.TrimPrefix(typ, "*")
					if _, after, ok := strings.Cut(typ, "."); ok {
						typ = after
					}
					typ = removeTypeParam(typ) // embedded Foo[T] -> Foo
					name = typ
				}

				sym += "." + name // T.f
			}

			symbols, ok := pkgs[path]
			if !ok {
				symbols = make(map[string]symInfo)
				pkgs[path] = symbols
			}

			// Don't overwrite earlier entries:
			// enums are redeclared in later versions
			// as their encoding changes;
			// deprecations count as updates too.
			// TODO(adonovan): it would be better to mark
			// deprecated as a boolean without changing the
			// version.
			if _, ok := symbols[sym]; !ok {
				var sig string
				if kind == "func" {
					sig = signatures[path][sym]
				}
				symbols[sym] = symInfo{
					kind:      kind,
					minor:     minor,
					signature: sig,
				}
			}
		}
	}

	// Read and parse the GOROOT/api manifests.
	for minor := 0; ; minor++ {
		base := "go1.txt"
		if minor > 0 {
			base = fmt.Sprintf("go1.%d.txt", minor)
		}
		filename := filepath.Join(apidir, base)
		data, err := os.ReadFile(filename)
		if err != nil {
			if errors.Is(err, fs.ErrNotExist) {
				// All caught up.
				// Synthesize one final file from any api/next/*.txt fragments.
				// (They are consolidated into a go1.%d file some time between
				// the freeze and the first release candidate.)
				filenames, err := filepath.Glob(filepath.Join(apidir, "next", "*.txt"))
				if err != nil {
					log.Fatal(err)
				}
				var next bytes.Buffer
				for _, filename := range filenames {
					data, err := os.ReadFile(filename)
					if err != nil {
						log.Fatal(err)
					}
					next.Write(data)
				}
				parse(filename, next.Bytes(), minor) // (filename is a lie)
				break
			}
			log.Fatal(err)
		}
		parse(filename, data, minor)
	}

	// The APIs of the syscall/js and unsafe packages need to be computed explicitly,
	// because they're not included in the GOROOT/api/go1.*.txt files at this time.
	pkgs["syscall/js"] = loadSymbols("syscall/js", "GOOS=js", "GOARCH=wasm")
	pkgs["unsafe"] = exportedSymbols(types.Unsafe) // TODO(adonovan): set correct versions

	// Write the combined manifest.
	var buf bytes.Buffer
	buf.WriteString(`// Copyright 2025 The Go Authors. All rights reserved.
// Use of this source code is governed by a BSD-style
// license that can be found in the LICENSE file.

// Code generated by generate.go. DO NOT EDIT.

package stdlib

var PackageSymbols = map[string][]Symbol{
`)

	for _, path := range sortedKeys(pkgs) {
		pkg := pkgs[path]
		fmt.Fprintf(&buf, "\t%q: {\n", path)
		for _, name := range sortedKeys(pkg) {
			info := pkg[name]
			fmt.Fprintf(&buf, "\t\t{%q, %s, %d, %q},\n",
				name, strings.Title(info.kind), info.minor, info.signature)
		}
		fmt.Fprintln(&buf, "},")
	}
	fmt.Fprintln(&buf, "}")
	fmtbuf, err := format.Source(buf.Bytes())
	if err != nil {
		log.Fatal(err)
	}
	if err := os.WriteFile("manifest.go", fmtbuf, 0o666); err != nil {
		log.Fatal(err)
	}
}

// find the api directory, In most situations it is in GOROOT/api, but not always.
// TODO(pjw): understand where it might be, and if there could be newer and older versions
func apidir() string {
	stdout := new(bytes.Buffer)
	cmd := exec.Command("go", "env", "GOROOT", "GOPATH")
	cmd.Stdout = stdout
	cmd.Stderr = os.Stderr
	if err := cmd.Run(); err != nil {
		log.Fatal(err)
	}
	// Prefer GOROOT/api over GOPATH/api.
	for line := range strings.SplitSeq(stdout.String(), "\n") {
		apidir := filepath.Join(line, "api")
		info, err := os.Stat(apidir)
		if err == nil && info.IsDir() {
			return apidir
		}
	}
	log.Fatal("could not find api dir")
	return ""
}

type symInfo struct {
	kind  string // e.g. "func"
	minor int    // go1.%d
	// for completion snippets
	signature string // for Kind == stdlib.Func
}

// loadSymbols computes the exported symbols in the specified package
// by parsing and type-checking the current source.
func loadSymbols(pkg string, extraEnv ...string) map[string]symInfo {
	pkgs, err := packages.Load(&packages.Config{
		Mode: packages.NeedTypes,
		Env:  append(os.Environ(), extraEnv...),
	}, pkg)
	if err != nil {
		log.Fatalln(err)
	} else if len(pkgs) != 1 {
		log.Fatalf("got %d packages, want one package %q", len(pkgs), pkg)
	}
	return exportedSymbols(pkgs[0].Types)
}

func exportedSymbols(pkg *types.Package) map[string]symInfo {
	symbols := make(map[string]symInfo)
	for _, name := range pkg.Scope().Names() {
		if obj := pkg.Scope().Lookup(name); obj.Exported() {
			var kind string
			switch obj.(type) {
			case *types.Func, *types.Builtin:
				kind = "func"
			case *types.Const:
				kind = "const"
			case *types.Var:
				kind = "var"
			case *types.TypeName:
				kind = "type"
				// TODO(adonovan): expand fields and methods of syscall/js.*
			default:
				log.Fatalf("unexpected object type: %v", obj)
			}
			symbols[name] = symInfo{kind: kind, minor: 0} // pretend go1.0
		}
	}
	return symbols
}

func sortedKeys[M ~map[K]V, K cmp.Ordered, V any](m M) []K {
	r := make([]K, 0, len(m))
	for k := range m {
		r = append(r, k)
	}
	slices.Sort(r)
	return r
}

func removeTypeParam(s string) string {
	i := strings.IndexByte(s, '[')
	j := strings.LastIndexByte(s, ']')
	if i > 0 && j > i {
		s = s[:i] + s[j+len("["):]
	}
	return s
}

// -- generate dependency graph --

func deps() {
	type Package struct {
		// go list JSON output
		ImportPath string   // import path of package in dir
		Imports    []string // import paths used by this package

		// encoding
		index int
		deps  []int // indices of direct imports, sorted
	}
	pkgs := make(map[string]*Package)
	var keys []string
	for dec := json.NewDecoder(runGo("list", "-deps", "-json", "std")); dec.More(); {
		var pkg Package
		if err := dec.Decode(&pkg); err != nil {
			log.Fatal(err)
		}
		pkgs[pkg.ImportPath] = &pkg
		keys = append(keys, pkg.ImportPath)
	}

	// Sort and number the packages.
	// There are 344 as of Mar 2025.
	slices.Sort(keys)
	for i, name := range keys {
		pkgs[name].index = i
	}

	// Encode the dependencies.
	for _, pkg := range pkgs {
		for _, imp := range pkg.Imports {
			if imp == "C" {
				continue
			}
			pkg.deps = append(pkg.deps, pkgs[imp].index)
		}
		slices.Sort(pkg.deps)
	}

	// Emit the table.
	var buf bytes.Buffer
	buf.WriteString(`// Copyright 2025 The Go Authors. All rights reserved.
// Use of this source code is governed by a BSD-style
// license that can be found in the LICENSE file.

// Code generated by generate.go. DO NOT EDIT.

package stdlib

type pkginfo struct {
	name string
	deps string // list of indices of dependencies, as varint-encoded deltas
}
var deps = [...]pkginfo{
`)
	for _, name := range keys {
		prev := 0
		var deps []int
		for _, v := range pkgs[name].deps {
			deps = append(deps, v-prev) // delta
			prev = v
		}
		var data []byte
		for _, v := range deps {
			data = binary.AppendUvarint(data, uint64(v))
		}
		fmt.Fprintf(&buf, "\t{%q, %q},\n", name, data)
	}
	fmt.Fprintln(&buf, "}")

	// Also write the list of bootstrap packages.
	// (We can't use indices because it is not a subset of std.)
	bootstrap, version := bootstrap()
	minor := strings.Split(version, ".")[1] // "go1.2.3" -> "2"
	buf.WriteString(`
// bootstrap is the list of bootstrap packages extracted from cmd/dist.
var bootstrap = map[string]bool{
`)
	for _, pkg := range bootstrap {
		fmt.Fprintf(&buf, "\t%q: true,\n", pkg)
	}
	fmt.Fprintf(&buf, `}

// BootstrapVersion is the minor version of Go used during toolchain
// bootstrapping. Packages for which [IsBootstrapPackage] must not use
// features of Go newer than this version.
const BootstrapVersion = Version(%s) // %s
`, minor, version)

	// Format and update the dependencies file.
	fmtbuf, err := format.Source(buf.Bytes())
	if err != nil {
		log.Fatal(err)
	}
	if err := os.WriteFile("deps.go", fmtbuf, 0o666); err != nil {
		log.Fatal(err)
	}

	// Also generate the data for the test.
	for _, t := range [...]struct{ flag, filename string }{
		{"-deps=true", "testdata/nethttp.deps"},
		{`-f={{join .Imports "\n"}}`, "testdata/nethttp.imports"},
	} {
		stdout := new(bytes.Buffer)
		cmd := exec.Command("go", "list", t.flag, "net/http")
		cmd.Stdout = stdout
		cmd.Stderr = os.Stderr
		cmd.Env = append(os.Environ(), "CGO_ENABLED=0", "GOOS=linux", "GOARCH=amd64")
		if err := cmd.Run(); err != nil {
			log.Fatal(err)
		}
		if err := os.WriteFile(t.filename, stdout.Bytes(), 0666); err != nil {
			log.Fatal(err)
		}
	}
}

// bootstrap returns the list of bootstrap packages out of the
// source of the dist command, along with the minimum toolchain
// version.
//
// We assume it is "var bootstrapDirs []string" in buildtool.go, and
// is a list of string literals, either package names or "dir/...".
// TODO(adonovan): find a more robust solution.
func bootstrap() ([]string, string) {
	fset := token.NewFileSet()
	filename := strings.TrimSpace(runGo("list", "-f={{.Dir}}/buildtool.go", "cmd/dist").String())
	f, err := parser.ParseFile(fset, filename, nil, 0)
	if err != nil {
		log.Fatalf("can't parse buildtool.go file in cmd/dist package: %v", err)
	}

	const bootstrapVarName = "bootstrapDirs"
	var (
		args    = []string{"list"} // go list command to expand bootstrap packages
		version string
	)
	for _, decl := range f.Decls {
		decl, ok := decl.(*ast.GenDecl)
		if !ok {
			continue
		}
		for _, spec := range decl.Specs {
			spec, ok := spec.(*ast.ValueSpec)
			if !ok {
				continue
			}
			if len(spec.Names) != 1 {
				continue
			}
			switch spec.Names[0].Name {
			case bootstrapVarName:
				// var bootstrapDirs = []string{ ... }
				if len(spec.Values) != 1 {
					log.Fatalf("%s: %s var spec has %d values, want 1",
						fset.Position(spec.Pos()), len(spec.Values))
				}
				value0 := spec.Values[0]
				lit, ok := value0.(*ast.CompositeLit)
				if !ok {
					log.Fatalf("%s: %s assigned from %T, want slice literal",
						fset.Position(value0.Pos()), value0)
				}
				// Construct a go list command from the package patterns.
				for _, elt := range lit.Elts {
					lit, ok := elt.(*ast.BasicLit)
					if !ok {
						log.Fatalf("%s: element is %T, want string literal",
							fset.Position(elt.Pos()), elt)
					}
					pattern, err := strconv.Unquote(lit.Value)
					if err != nil {
						log.Fatalf("%s: %v", fset.Position(elt.Pos()), err)
					}
					args = append(args, pattern)
				}

			case "minBootstrap":
				// const minBootstrap = "go1.2.3"
				lit := spec.Values[0].(*ast.BasicLit)
				version, _ = strconv.Unquote(lit.Value)
			}
		}
	}
	if len(args) < 2 {
		log.Fatalf("can't find var %s in buildtool.go file in cmd/dist package: %v",
			bootstrapVarName, err)
	}
	if version == "" {
		log.Fatalf("can't find const minBootstrap version in buildtool.go file in cmd/dist package: %v",
			err)
	}

	return strings.Split(strings.TrimSpace(runGo(args...).String()), "\n"), version
}

func runGo(args ...string) *bytes.Buffer {
	cmd := exec.Command("go", args...)
	cmd.Env = append(os.Environ(), "CGO_ENABLED=0", "GOOS=linux", "GOARCH=amd64")
	stdout, err := cmd.Output()
	if err != nil {
		log.Fatalf("%s: failed: %v", cmd, err)
	}
	return bytes.NewBuffer(stdout)
}
