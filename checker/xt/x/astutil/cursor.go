// Copyright 2026 The Go Authors. All rights reserved.
// Use of this source code is governed by a BSD-style
// license that can be found in the LICENSE file.

package astutil

import (
	"go/ast"

	"golang.org/x/tools/go/ast/edge"
	"golang.org/x/tools/go/ast/inspector"
)

// UnparenCursor returns the cursor for an expression with any
// enclosing parentheses removed, similar to [ast.Unparen].
// It is often prudent to call this before switching on the
// type of cur.Node().
//
// See also [UnparenEnclosingCursor].
func UnparenCursor(cur inspector.Cursor) inspector.Cursor {
	for is[*ast.ParenExpr](cur) {
		cur, _ = cur.FirstChild()
	}
	return cur
}

// UnparenEnclosingCursor returns the first element of
// the [Cursor.Enclosing] sequence that is not itself enclosed
// in parens. It is often prudent to call this before switching on
// cur.ParentEdge().
//
// See also [UnparenCursor].
func UnparenEnclosingCursor(cur inspector.Cursor) inspector.Cursor {
	for cur.ParentEdgeKind() == edge.ParenExpr_X {
		cur = cur.Parent()
	}
	return cur
}
