// Copyright 2023 The Go Authors. All rights reserved.
// Use of this source code is governed by a BSD-style
// license that can be found in the LICENSE file.

package astutil

import (
	"go/ast"
	"reflect"
)

// CloneNode returns a deep copy of a Node.
// It omits pointers to ast.{Scope,Object} variables.
func CloneNode[T ast.Node](n T) T {
	return cloneNode(n).(T)
}

func cloneNode(n ast.Node) ast.Node {
	var clone func(x reflect.Value) reflect.Value
	set := func(dst, src reflect.Value) {
		src = clone(src)
		if src.IsValid() {
			dst.Set(src)
		}
	}
	clone = func(x reflect.Value) reflect.Value {
		switch x.Kind() {
		case reflect.Pointer:
			if x.IsNil() {
				return x
			}
			// Skip fields of types potentially involved in cycles.
			switch x.Interface().(type) {
			case *ast.Object, *ast.Scope:
				return reflect.Zero(x.Type())
			}
			y := reflect.New(x.Type().Elem())
			set(y.Elem(), x.Elem())
			return y

		case reflect.Struct:
			y := reflect.New(x.Type()).Elem()
			for i := 0; i < x.Type().NumField(); i++ {
				set(y.Field(i), x.Field(i))
			}
			return y

		case reflect.Slice:
			if x.IsNil() {
				return x
			}
			y := reflect.MakeSlice(x.Type(), x.Len(), x.Cap())
			for i := 0; i < x.Len(); i++ {
				set(y.Index(i), x.Index(i))
			}
			return y

		case reflect.Interface:
			y := reflect.New(x.Type()).Elem()
			set(y, x.Elem())
			return y

		case reflect.Array, reflect.Chan, reflect.Func, reflect.Map, reflect.UnsafePointer:
			panic(x) // unreachable in AST

		default:
			return x // bool, string, number
		}
	}
	return clone(reflect.ValueOf(n)).Interface().(ast.Node)
}
