// Copyright 2024 The Go Authors. All rights reserved.
// Use of this source code is governed by a BSD-style
// license that can be found in the LICENSE file.

package astutil

import (
	"go/ast"
	"iter"
)

// FlatFields 'flattens' an ast.FieldList, returning an iterator over each
// (name, field) combination in the list. For unnamed fields, the identifier is
// nil.
func FlatFields(list *ast.FieldList) iter.Seq2[*ast.Ident, *ast.Field] {
	return func(yield func(*ast.Ident, *ast.Field) bool) {
		if list == nil {
			return
		}

		for _, field := range list.List {
			if len(field.Names) == 0 {
				if !yield(nil, field) {
					return
				}
			} else {
				for _, name := range field.Names {
					if !yield(name, field) {
						return
					}
				}
			}
		}
	}
}
