// Copyright 2023 The Go Authors. All rights reserved.
// Use of this source code is governed by a BSD-style
// license that can be found in the LICENSE file.

// Package astutil provides various AST utility functions for gopls.
package astutil

import (
	"bytes"
	"go/scanner"
	"go/token"
)

// PurgeFuncBodies returns a copy of src in which the contents of each
// outermost {...} region have been deleted, except for struct and
// interface type bodies and the bodies of length-elided array
// literals ([...]T), whose element count is part of the type. It
// includes function bodies, function-literal bodies, and the bodies
// of slice, map, and explicitly-sized array composite literals (whose
// contents don't affect the type of the enclosing declaration). This
// reduces the amount of work required to parse the top-level
// declarations.
//
// PurgeFuncBodies does not preserve newlines or position information.
// Also, if the input is invalid, parsing the output of
// PurgeFuncBodies may result in a different tree due to its effects
// on parser error recovery.
func PurgeFuncBodies(src []byte) []byte {
	// Destroy the content of any {...}-bracketed regions that are
	// not immediately preceded by a "struct" or "interface" token,
	// and that are not the body of a length-elided array literal.
	// That includes function bodies, switch/select bodies, and most
	// composite literals; this will lead to non-void functions that
	// don't have return statements, which of course is a type error,
	// but that's ok.

	var out bytes.Buffer
	file := token.NewFileSet().AddFile("", -1, len(src))
	var sc scanner.Scanner
	sc.Init(file, src, nil, 0)
	var prev token.Token
	var cursor int         // last consumed src offset
	var braces []token.Pos // stack of unclosed braces, or -1 for a region we preserve
	var ellipsis bool      // saw "[...]" not yet consumed by a literal-body "{"
	for {
		pos, tok, _ := sc.Scan()
		if tok == token.EOF {
			break
		}
		switch tok {
		case token.COMMENT:
			// TODO(adonovan): opt: skip, to save an estimated 20% of time.

		case token.SEMICOLON:
			ellipsis = false

		case token.RBRACK:
			// "...]" occurs only in the array-type prefix of a
			// composite literal; variadic "..." is followed by
			// a type or ")", never "]".
			if prev == token.ELLIPSIS {
				ellipsis = true
			}

		case token.LBRACE:
			if prev == token.STRUCT || prev == token.INTERFACE {
				pos = -1 // type body: preserve (don't consume ellipsis)
			} else if ellipsis {
				pos = -1 // [...]T literal body: preserve
				ellipsis = false
			}
			braces = append(braces, pos)

		case token.RBRACE:
			if last := len(braces) - 1; last >= 0 {
				top := braces[last]
				braces = braces[:last]
				if top < 0 {
					// preserve
				} else if len(braces) == 0 { // toplevel only
					// Delete {...} body.
					start := file.Offset(top)
					end := file.Offset(pos)
					out.Write(src[cursor : start+len("{")])
					cursor = end
				}
			}
		}
		prev = tok
	}
	out.Write(src[cursor:])
	return out.Bytes()
}
