// Copyright 2025 The Go Authors. All rights reserved.
// Use of this source code is governed by a BSD-style
// license that can be found in the LICENSE file.

package astutil

import (
	"fmt"
	"go/ast"
	"go/token"
	"strconv"
	"unicode/utf8"
)

// RangeInStringLiteral calculates the positional range within a string literal
// corresponding to the specified start and end byte offsets within the logical string.
func RangeInStringLiteral(lit *ast.BasicLit, start, end int) (Range, error) {
	startPos, err := PosInStringLiteral(lit, start)
	if err != nil {
		return Range{}, fmt.Errorf("start: %v", err)
	}
	endPos, err := PosInStringLiteral(lit, end)
	if err != nil {
		return Range{}, fmt.Errorf("end: %v", err)
	}
	return Range{startPos, endPos}, nil
}

// PosInStringLiteral returns the position within a string literal
// corresponding to the specified byte offset within the logical
// string that it denotes.
func PosInStringLiteral(lit *ast.BasicLit, offset int) (token.Pos, error) {
	raw := lit.Value

	value, err := strconv.Unquote(raw)
	if err != nil {
		return 0, err
	}
	if !(0 <= offset && offset <= len(value)) {
		return 0, fmt.Errorf("invalid offset")
	}

	pos, _ := walkStringLiteral(lit, lit.End(), offset)
	return pos, nil
}

// OffsetInStringLiteral returns the byte offset within the logical (unquoted)
// string corresponding to the specified source position.
func OffsetInStringLiteral(lit *ast.BasicLit, pos token.Pos) (int, error) {
	if !NodeContainsPos(lit, pos) {
		return 0, fmt.Errorf("invalid position")
	}

	raw := lit.Value

	value, err := strconv.Unquote(raw)
	if err != nil {
		return 0, err
	}

	_, offset := walkStringLiteral(lit, pos, len(value))
	return offset, nil
}

// walkStringLiteral iterates through the raw string literal to map between
// a file position and a logical byte offset. It stops when it reaches
// either the targetPos or the targetOffset.
//
// TODO(hxjiang): consider making an iterator.
func walkStringLiteral(lit *ast.BasicLit, targetPos token.Pos, targetOffset int) (token.Pos, int) {
	raw := lit.Value
	norm := int(lit.End()-lit.Pos()) > len(lit.Value)

	// remove quotes
	quote := raw[0] // '"' or '`'
	raw = raw[1 : len(raw)-1]

	var (
		i   = 0             // byte index within logical value
		pos = lit.Pos() + 1 // position within literal
	)

	for raw != "" {
		r, _, rest, _ := strconv.UnquoteChar(raw, quote) // can't fail
		sz := len(raw) - len(rest)                       // length of literal char in raw bytes

		nextPos := pos + token.Pos(sz)
		if norm && r == '\n' {
			nextPos++
		}
		nextI := i + utf8.RuneLen(r) // length of logical char in "cooked" bytes

		if nextPos > targetPos || nextI > targetOffset {
			break
		}

		raw = raw[sz:]
		i = nextI
		pos = nextPos
	}

	return pos, i
}
