// Copyright 2023 The Go Authors. All rights reserved.
// Use of this source code is governed by a BSD-style
// license that can be found in the LICENSE file.

package astutil

import (
	"go/ast"
	"go/token"
	"reflect"
)

// Equal reports whether two nodes are structurally equal,
// ignoring fields of type [token.Pos], [ast.Object],
// and [ast.Scope], and comments.
//
// The operands x and y may be nil.
// A nil slice is not equal to an empty slice.
//
// The provided function determines whether two identifiers
// should be considered identical.
func Equal(x, y ast.Node, identical func(x, y *ast.Ident) bool) bool {
	if x == nil || y == nil {
		return x == y
	}
	return equal(reflect.ValueOf(x), reflect.ValueOf(y), identical)
}

// EqualSyntax reports whether x and y are equal.
// Identifiers are considered equal if they are spelled the same.
// Comments are ignored.
func EqualSyntax(x, y ast.Expr) bool {
	sameName := func(x, y *ast.Ident) bool { return x.Name == y.Name }
	return Equal(x, y, sameName)
}

func equal(x, y reflect.Value, identical func(x, y *ast.Ident) bool) bool {
	// Ensure types are the same
	if x.Type() != y.Type() {
		return false
	}
	switch x.Kind() {
	case reflect.Pointer:
		if x.IsNil() || y.IsNil() {
			return x.IsNil() == y.IsNil()
		}
		switch t := x.Interface().(type) {
		// Skip fields of types potentially involved in cycles.
		case *ast.Object, *ast.Scope, *ast.CommentGroup:
			return true
		case *ast.Ident:
			return identical(t, y.Interface().(*ast.Ident))
		default:
			return equal(x.Elem(), y.Elem(), identical)
		}

	case reflect.Interface:
		if x.IsNil() || y.IsNil() {
			return x.IsNil() == y.IsNil()
		}
		return equal(x.Elem(), y.Elem(), identical)

	case reflect.Struct:
		for i := range x.NumField() {
			xf := x.Field(i)
			yf := y.Field(i)
			// Skip position fields.
			if xpos, ok := xf.Interface().(token.Pos); ok {
				ypos := yf.Interface().(token.Pos)
				// Numeric value of a Pos is not significant but its "zeroness" is,
				// because it is often significant, e.g. CallExpr.Variadic(Ellipsis), ChanType.Arrow.
				if xpos.IsValid() != ypos.IsValid() {
					return false
				}
			} else if !equal(xf, yf, identical) {
				return false
			}
		}
		return true

	case reflect.Slice:
		if x.IsNil() || y.IsNil() {
			return x.IsNil() == y.IsNil()
		}
		if x.Len() != y.Len() {
			return false
		}
		for i := range x.Len() {
			if !equal(x.Index(i), y.Index(i), identical) {
				return false
			}
		}
		return true

	case reflect.String:
		return x.String() == y.String()

	case reflect.Bool:
		return x.Bool() == y.Bool()

	case reflect.Int:
		return x.Int() == y.Int()

	default:
		panic(x)
	}
}
