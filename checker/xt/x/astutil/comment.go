// Copyright 2025 The Go Authors. All rights reserved.
// Use of this source code is governed by a BSD-style
// license that can be found in the LICENSE file.

package astutil

import (
	"go/ast"
	"go/token"
	"iter"
	"sort"
	"strings"
)

// Deprecation returns the paragraph of the doc comment that starts with the
// conventional "Deprecation: " marker, or the end of a single-line comment
// with the deprecation marker, as defined by https://go.dev/wiki/Deprecated.
// Returns "" if the documented symbol is not deprecated.
//
// Deprecation(nil) returns the empty string.
func Deprecation(doc *ast.CommentGroup) string {
	// doc.Text() is newline-terminated. For legacy reasons, this function will
	// return as newline-terminated if is the last segment of the CommentGroup
	// but not if it is a paragraph in the middle of the CommentGroup.
	docText := doc.Text()
	for p := range strings.SplitSeq(docText, "\n\n") {
		// There is still some ambiguity for deprecation message. This function
		// only returns the paragraph introduced by "Deprecated: ". More
		// information related to the deprecation may follow in additional
		// paragraphs, but the deprecation message should be able to stand on
		// its own. See golang/go#38743.
		if strings.HasPrefix(p, "Deprecated: ") {
			return p
		}
	}

	// We also want to support deprecation markers in line comments. Not all
	// call sites know whether they have a line comment or the type of AST node
	// the comment is associated with; so to best match line deprecations,
	// the CommentGroup must meet these criteria:
	//   * The doc.Text() is a single line.
	//   * The comment uses the "// ..." format.
	if doc == nil || len(doc.List) != 1 || !strings.HasPrefix(doc.List[0].Text, "//") {
		return ""
	}
	if i := strings.Index(docText, "Deprecated: "); i != -1 {
		return docText[i:]
	}
	return ""
}

// -- plundered from the future (CL 605517, issue #68021) --

// TODO(adonovan): replace with ast.Directive in go1.26 (#68021).
// Beware of our local mods to handle analysistest
// "want" comments on the same line.

// A directive is a comment line with special meaning to the Go
// toolchain or another tool. It has the form:
//
//	//tool:name args
//
// The "tool:" portion is missing for the three directives named
// line, extern, and export.
//
// See https://go.dev/doc/comment#Syntax for details of Go comment
// syntax and https://pkg.go.dev/cmd/compile#hdr-Compiler_Directives
// for details of directives used by the Go compiler.
type Directive struct {
	Pos  token.Pos // of preceding "//"
	Tool string
	Name string
	Args string // may contain internal spaces
}

// isDirective reports whether c is a comment directive.
// This code is also in go/printer.
func isDirective(c string) bool {
	// "//line " is a line directive.
	// "//extern " is for gccgo.
	// "//export " is for cgo.
	// (The // has been removed.)
	if strings.HasPrefix(c, "line ") || strings.HasPrefix(c, "extern ") || strings.HasPrefix(c, "export ") {
		return true
	}

	// "//[a-z0-9]+:[a-z0-9]"
	// (The // has been removed.)
	colon := strings.Index(c, ":")
	if colon <= 0 || colon+1 >= len(c) {
		return false
	}
	for i := 0; i <= colon+1; i++ {
		if i == colon {
			continue
		}
		b := c[i]
		if !('a' <= b && b <= 'z' || '0' <= b && b <= '9') {
			return false
		}
	}
	return true
}

// Directives returns the directives within the comment.
func Directives(g *ast.CommentGroup) (res []*Directive) {
	if g != nil {
		// Avoid (*ast.CommentGroup).Text() as it swallows directives.
		for _, c := range g.List {
			if len(c.Text) > 2 &&
				c.Text[1] == '/' &&
				c.Text[2] != ' ' &&
				isDirective(c.Text[2:]) {

				tool, nameargs, ok := strings.Cut(c.Text[2:], ":")
				if !ok {
					// Must be one of {line,extern,export}.
					tool, nameargs = "", tool
				}
				name, args, _ := strings.Cut(nameargs, " ") // tab??
				// Permit an additional line comment after the args, chiefly to support
				// [golang.org/x/tools/go/analysis/analysistest].
				args, _, _ = strings.Cut(args, "//")
				res = append(res, &Directive{
					Pos:  c.Slash,
					Tool: tool,
					Name: name,
					Args: strings.TrimSpace(args),
				})
			}
		}
	}
	return
}

// Comments returns an iterator over the comments overlapping the specified interval.
// Comments are sorted by position in the file, so we can use binary search.
func Comments(file *ast.File, start, end token.Pos) iter.Seq[*ast.Comment] {
	return func(yield func(*ast.Comment) bool) {
		// Find the first comment group that overlaps the range.
		i := sort.Search(len(file.Comments), func(i int) bool {
			return file.Comments[i].End() >= start
		})
		for _, cg := range file.Comments[i:] {
			if cg.Pos() > end {
				return
			}
			// Find the first comment in the group that overlaps the range.
			j := sort.Search(len(cg.List), func(j int) bool {
				return cg.List[j].End() >= start
			})
			for _, co := range cg.List[j:] {
				if co.Pos() > end {
					return
				}
				if !yield(co) {
					return
				}
			}
		}
	}
}
