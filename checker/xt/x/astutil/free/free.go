// Copyright 2025 The Go Authors. All rights reserved.
// Use of this source code is governed by a BSD-style
// license that can be found in the LICENSE file.

// Package free defines utilities for computing the free variables of
// a syntax tree without type information. This is inherently
// heuristic because of the T{f: x} ambiguity, in which f may or may
// not be a lexical reference depending on whether T is a struct type.
package free

import (
	"go/ast"
	"go/token"
)

// Copied, with considerable changes, from go/parser/resolver.go
// at af53bd2c03.

// Names computes an approximation to the set of free names of the AST
// at node n based solely on syntax.
//
// In the absence of composite literals, the set of free names is exact. Composite
// literals introduce an ambiguity that can only be resolved with type information:
// whether F is a field name or a value in `T{F: ...}`.
// If includeComplitIdents is true, this function conservatively assumes
// T is not a struct type, so freeishNames overapproximates: the resulting
// set may contain spurious entries that are not free lexical references
// but are references to struct fields.
// If includeComplitIdents is false, this function assumes that T *is*
// a struct type, so freeishNames underapproximates: the resulting set
// may omit names that are free lexical references.
//
// TODO(adonovan): includeComplitIdents is a crude hammer: the caller
// may have partial or heuristic information about whether a given T
// is struct type. Replace includeComplitIdents with a hook to query
// the caller.
//
// The code is based on go/parser.resolveFile, but heavily simplified. Crucial
// differences are:
//   - Instead of resolving names to their objects, this function merely records
//     whether they are free.
//   - Labels are ignored: they do not refer to values.
//   - This is never called on ImportSpecs, so the function panics if it sees one.
func Names(n ast.Node, includeComplitIdents bool) map[string]bool {
	v := &freeVisitor{
		free:                 make(map[string]bool),
		includeComplitIdents: includeComplitIdents,
	}
	// Begin with a scope, even though n might not be a form that establishes a scope.
	// For example, n might be:
	//    x := ...
	// Then we need to add the first x to some scope.
	v.openScope()
	ast.Walk(v, n)
	v.closeScope()
	if v.scope != nil {
		panic("unbalanced scopes")
	}
	return v.free
}

// A freeVisitor holds state for a free-name analysis.
type freeVisitor struct {
	scope                *scope          // the current innermost scope
	free                 map[string]bool // free names seen so far
	includeComplitIdents bool            // include identifier key in composite literals
}

// scope contains all the names defined in a lexical scope.
// It is like ast.Scope, but without deprecation warnings.
type scope struct {
	names map[string]bool
	outer *scope
}

func (s *scope) defined(name string) bool {
	for ; s != nil; s = s.outer {
		if s.names[name] {
			return true
		}
	}
	return false
}

func (v *freeVisitor) Visit(n ast.Node) ast.Visitor {
	switch n := n.(type) {

	// Expressions.
	case *ast.Ident:
		v.use(n)

	case *ast.FuncLit:
		v.openScope()
		defer v.closeScope()
		v.walkFuncType(nil, n.Type)
		v.walkBody(n.Body)

	case *ast.SelectorExpr:
		v.walk(n.X)
		// Skip n.Sel: it cannot be free.

	case *ast.StructType:
		v.openScope()
		defer v.closeScope()
		v.walkFieldList(n.Fields)

	case *ast.FuncType:
		v.openScope()
		defer v.closeScope()
		v.walkFuncType(nil, n)

	case *ast.CompositeLit:
		v.walk(n.Type)
		for _, e := range n.Elts {
			if kv, _ := e.(*ast.KeyValueExpr); kv != nil {
				if ident, _ := kv.Key.(*ast.Ident); ident != nil {
					// It is not possible from syntax alone to know whether
					// an identifier used as a composite literal key is
					// a struct field (if n.Type is a struct) or a value
					// (if n.Type is a map, slice or array).
					if v.includeComplitIdents {
						// Over-approximate by treating both cases as potentially
						// free names.
						v.use(ident)
					} else {
						// Under-approximate by ignoring potentially free names.
					}
				} else {
					v.walk(kv.Key)
				}
				v.walk(kv.Value)
			} else {
				v.walk(e)
			}
		}

	case *ast.InterfaceType:
		v.openScope()
		defer v.closeScope()
		v.walkFieldList(n.Methods)

	// Statements
	case *ast.AssignStmt:
		walkSlice(v, n.Rhs)
		if n.Tok == token.DEFINE {
			v.shortVarDecl(n.Lhs)
		} else {
			walkSlice(v, n.Lhs)
		}

	case *ast.LabeledStmt:
		// Ignore labels.
		v.walk(n.Stmt)

	case *ast.BranchStmt:
		// Ignore labels.

	case *ast.BlockStmt:
		v.openScope()
		defer v.closeScope()
		walkSlice(v, n.List)

	case *ast.IfStmt:
		v.openScope()
		defer v.closeScope()
		v.walk(n.Init)
		v.walk(n.Cond)
		v.walk(n.Body)
		v.walk(n.Else)

	case *ast.CaseClause:
		walkSlice(v, n.List)
		v.openScope()
		defer v.closeScope()
		walkSlice(v, n.Body)

	case *ast.SwitchStmt:
		v.openScope()
		defer v.closeScope()
		v.walk(n.Init)
		v.walk(n.Tag)
		v.walkBody(n.Body)

	case *ast.TypeSwitchStmt:
		v.openScope()
		defer v.closeScope()
		if n.Init != nil {
			v.walk(n.Init)
		}
		v.walk(n.Assign)
		// We can use walkBody here because we don't track label scopes.
		v.walkBody(n.Body)

	case *ast.CommClause:
		v.openScope()
		defer v.closeScope()
		v.walk(n.Comm)
		walkSlice(v, n.Body)

	case *ast.SelectStmt:
		v.walkBody(n.Body)

	case *ast.ForStmt:
		v.openScope()
		defer v.closeScope()
		v.walk(n.Init)
		v.walk(n.Cond)
		v.walk(n.Post)
		v.walk(n.Body)

	case *ast.RangeStmt:
		v.openScope()
		defer v.closeScope()
		v.walk(n.X)
		var lhs []ast.Expr
		if n.Key != nil {
			lhs = append(lhs, n.Key)
		}
		if n.Value != nil {
			lhs = append(lhs, n.Value)
		}
		if len(lhs) > 0 {
			if n.Tok == token.DEFINE {
				v.shortVarDecl(lhs)
			} else {
				walkSlice(v, lhs)
			}
		}
		v.walk(n.Body)

	// Declarations
	case *ast.GenDecl:
		switch n.Tok {
		case token.CONST, token.VAR:
			for _, spec := range n.Specs {
				spec := spec.(*ast.ValueSpec)
				walkSlice(v, spec.Values)
				v.walk(spec.Type)
				v.declare(spec.Names...)
			}

		case token.TYPE:
			for _, spec := range n.Specs {
				spec := spec.(*ast.TypeSpec)
				// Go spec: The scope of a type identifier declared inside a
				// function begins at the identifier in the TypeSpec and ends
				// at the end of the innermost containing block.
				v.declare(spec.Name)
				if spec.TypeParams != nil {
					v.openScope()
					defer v.closeScope()
					v.walkTypeParams(spec.TypeParams)
				}
				v.walk(spec.Type)
			}

		case token.IMPORT:
			panic("encountered import declaration in free analysis")
		}

	case *ast.FuncDecl:
		if n.Recv == nil && n.Name.Name != "init" { // package-level function
			v.declare(n.Name)
		}
		v.openScope()
		defer v.closeScope()
		v.walkTypeParams(n.Type.TypeParams)
		v.walkFuncType(n.Recv, n.Type)
		v.walkBody(n.Body)

	default:
		return v
	}

	return nil
}

func (v *freeVisitor) openScope() {
	v.scope = &scope{map[string]bool{}, v.scope}
}

func (v *freeVisitor) closeScope() {
	v.scope = v.scope.outer
}

func (v *freeVisitor) walk(n ast.Node) {
	if n != nil {
		ast.Walk(v, n)
	}
}

func (v *freeVisitor) walkFuncType(recv *ast.FieldList, typ *ast.FuncType) {
	// First use field types...
	v.walkRecvFieldType(recv)
	v.walkFieldTypes(typ.Params)
	v.walkFieldTypes(typ.Results)

	// ...then declare field names.
	v.declareFieldNames(recv)
	v.declareFieldNames(typ.Params)
	v.declareFieldNames(typ.Results)
}

// A receiver field is not like a param or result field because
// "func (recv R[T]) method()" uses R but declares T.
func (v *freeVisitor) walkRecvFieldType(list *ast.FieldList) {
	if list == nil {
		return
	}
	for _, f := range list.List { // valid => len=1
		typ := f.Type
		if ptr, ok := typ.(*ast.StarExpr); ok {
			typ = ptr.X
		}

		// Analyze receiver type as Base[Index, ...]
		var (
			base    ast.Expr
			indices []ast.Expr
		)
		switch typ := typ.(type) {
		case *ast.IndexExpr: // B[T]
			base, indices = typ.X, []ast.Expr{typ.Index}
		case *ast.IndexListExpr: // B[K, V]
			base, indices = typ.X, typ.Indices
		default: // B
			base = typ
		}
		for _, expr := range indices {
			if id, ok := expr.(*ast.Ident); ok {
				v.declare(id)
			}
		}
		v.walk(base)
	}
}

// walkTypeParams is like walkFieldList, but declares type parameters eagerly so
// that they may be resolved in the constraint expressions held in the field
// Type.
func (v *freeVisitor) walkTypeParams(list *ast.FieldList) {
	v.declareFieldNames(list)
	v.walkFieldTypes(list) // constraints
}

func (v *freeVisitor) walkBody(body *ast.BlockStmt) {
	if body == nil {
		return
	}
	walkSlice(v, body.List)
}

func (v *freeVisitor) walkFieldList(list *ast.FieldList) {
	if list == nil {
		return
	}
	v.walkFieldTypes(list)    // .Type may contain references
	v.declareFieldNames(list) // .Names declares names
}

func (v *freeVisitor) shortVarDecl(lhs []ast.Expr) {
	// Go spec: A short variable declaration may redeclare variables provided
	// they were originally declared in the same block with the same type, and
	// at least one of the non-blank variables is new.
	//
	// However, it doesn't matter to free analysis whether a variable is declared
	// fresh or redeclared.
	for _, x := range lhs {
		// In a well-formed program each expr must be an identifier,
		// but be forgiving.
		if id, ok := x.(*ast.Ident); ok {
			v.declare(id)
		}
	}
}

func walkSlice[S ~[]E, E ast.Node](r *freeVisitor, list S) {
	for _, e := range list {
		r.walk(e)
	}
}

// walkFieldTypes resolves the types of the walkFieldTypes in list.
// The companion method declareFieldList declares the names of the walkFieldTypes.
func (v *freeVisitor) walkFieldTypes(list *ast.FieldList) {
	if list != nil {
		for _, f := range list.List {
			v.walk(f.Type)
		}
	}
}

// declareFieldNames declares the names of the fields in list.
// (Names in a FieldList always establish new bindings.)
// The companion method resolveFieldList resolves the types of the fields.
func (v *freeVisitor) declareFieldNames(list *ast.FieldList) {
	if list != nil {
		for _, f := range list.List {
			v.declare(f.Names...)
		}
	}
}

// use marks ident as free if it is not in scope.
func (v *freeVisitor) use(ident *ast.Ident) {
	if s := ident.Name; s != "_" && !v.scope.defined(s) {
		v.free[s] = true
	}
}

// declare adds each non-blank ident to the current scope.
func (v *freeVisitor) declare(idents ...*ast.Ident) {
	for _, id := range idents {
		if id.Name != "_" {
			v.scope.names[id.Name] = true
		}
	}
}
