// Copyright 2023 The Go Authors. All rights reserved.
// Use of this source code is governed by a BSD-style
// license that can be found in the LICENSE file.

package astutil

import (
	"go/ast"

	"sftpcheck/xt/x/typeparams"
)

// UnpackRecv unpacks a receiver type expression, reporting whether it is a
// pointer receiver, along with the type name identifier and any receiver type
// parameter identifiers.
//
// Copied (with modifications) from go/types.
func UnpackRecv(rtyp ast.Expr) (ptr bool, rname *ast.Ident, tparams []*ast.Ident) {
L: // unpack receiver type
	// This accepts invalid receivers such as ***T and does not
	// work for other invalid receivers, but we don't care. The
	// validity of receiver expressions is checked elsewhere.
	for {
		switch t := rtyp.(type) {
		case *ast.ParenExpr:
			rtyp = t.X
		case *ast.StarExpr:
			ptr = true
			rtyp = t.X
		default:
			break L
		}
	}

	// unpack type parameters, if any
	switch rtyp.(type) {
	case *ast.IndexExpr, *ast.IndexListExpr:
		var indices []ast.Expr
		rtyp, _, indices, _ = typeparams.UnpackIndexExpr(rtyp)
		for _, arg := range indices {
			var par *ast.Ident
			switch arg := arg.(type) {
			case *ast.Ident:
				par = arg
			default:
				// ignore errors
			}
			if par == nil {
				par = &ast.Ident{NamePos: arg.Pos(), Name: "_"}
			}
			tparams = append(tparams, par)
		}
	}

	// unpack receiver name
	if name, _ := rtyp.(*ast.Ident); name != nil {
		rname = name
	}

	return
}
