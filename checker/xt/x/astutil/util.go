// Copyright 2025 The Go Authors. All rights reserved.
// Use of this source code is governed by a BSD-style
// license that can be found in the LICENSE file.

package astutil

import (
	"fmt"
	"go/ast"
	"go/printer"
	"go/token"
	"strings"

	"golang.org/x/tools/go/ast/inspector"
	"sftpcheck/xt/x/moreiters"
)

// NodeContains reports whether the Pos/End range of node n encloses
// the given range.
//
// It is inclusive of both end points, to allow hovering (etc) when
// the cursor is immediately after a node.
//
// Like [NodeRange], it treats the range of an [ast.File] as the
// file's complete extent.
//
// Precondition: n must not be nil.
func NodeContains(n ast.Node, rng Range) bool {
	return NodeRange(n).Contains(rng)
}

// NodeContainsPos reports whether the Pos/End range of node n encloses
// the given pos.
//
// Like [NodeRange], it treats the range of an [ast.File] as the
// file's complete extent.
func NodeContainsPos(n ast.Node, pos token.Pos) bool {
	return NodeRange(n).ContainsPos(pos)
}

// EnclosingFile returns the syntax tree for the file enclosing c.
//
// TODO(adonovan): promote this to a method of Cursor.
func EnclosingFile(c inspector.Cursor) *ast.File {
	c, _ = moreiters.First(c.Enclosing((*ast.File)(nil)))
	return c.Node().(*ast.File)
}

// DocComment returns the doc comment for a node, if any.
func DocComment(n ast.Node) *ast.CommentGroup {
	switch n := n.(type) {
	case *ast.FuncDecl:
		return n.Doc
	case *ast.GenDecl:
		return n.Doc
	case *ast.ValueSpec:
		return n.Doc
	case *ast.TypeSpec:
		return n.Doc
	case *ast.File:
		return n.Doc
	case *ast.ImportSpec:
		return n.Doc
	case *ast.Field:
		return n.Doc
	}
	return nil
}

// Format returns a string representation of the node n.
func Format(fset *token.FileSet, n ast.Node) string {
	var buf strings.Builder
	printer.Fprint(&buf, fset, n) // ignore errors
	return buf.String()
}

// -- Range --

// Range is a Pos interval.
// It implements [analysis.Range] and [ast.Node].
type Range struct{ Start, EndPos token.Pos }

// RangeOf constructs a Range.
//
// RangeOf exists to pacify the "unkeyed literal" (composites) vet
// check. It would be nice if there were a way for a type to add
// itself to the allowlist.
func RangeOf(start, end token.Pos) Range { return Range{start, end} }

// NodeRange returns the extent of node n as a Range.
//
// For unfortunate historical reasons, the Pos/End extent of an
// ast.File runs from the start of its package declaration---excluding
// copyright comments, build tags, and package documentation---to the
// end of its last declaration, excluding any trailing comments. So,
// as a special case, if n is an [ast.File], NodeContains uses
// n.FileStart <= pos && pos <= n.FileEnd to report whether the
// position lies anywhere within the file.
func NodeRange(n ast.Node) Range {
	if file, ok := n.(*ast.File); ok {
		return Range{file.FileStart, file.FileEnd} // entire file
	}
	return Range{n.Pos(), n.End()}
}

func (r Range) Pos() token.Pos { return r.Start }
func (r Range) End() token.Pos { return r.EndPos }

// ContainsPos reports whether the range (inclusive of both end points)
// includes the specified position.
func (r Range) ContainsPos(pos token.Pos) bool {
	return r.Contains(RangeOf(pos, pos))
}

// Contains reports whether the range (inclusive of both end points)
// includes the specified range.
func (r Range) Contains(rng Range) bool {
	return r.Start <= rng.Start && rng.EndPos <= r.EndPos
}

// IsValid reports whether the range is valid.
func (r Range) IsValid() bool { return r.Start.IsValid() && r.Start <= r.EndPos }

// --

// Select returns the syntax nodes identified by a user's text
// selection. It returns three nodes: the innermost node that wholly
// encloses the selection; and the first and last nodes that are
// wholly enclosed by the selection.
//
// For example, given this selection:
//
//	{ f(); g(); /* comment */ }
//	  ~~~~~~~~~~~
//
// Select returns the enclosing BlockStmt, the f() CallExpr, and the g() CallExpr.
//
// If the selection does not wholly enclose any nodes, Select returns an error
// and invalid start/end nodes, but it may return a valid enclosing node.
//
// Callers that require exactly one syntax tree (e.g. just f() or just
// g()) should check that the returned start and end nodes are
// identical.
//
// This function is intended to be called early in the handling of a
// user's request, since it is tolerant of sloppy selection including
// extraneous whitespace and comments. Use it in new code instead of
// PathEnclosingInterval. When the exact extent of a node is known,
// use [Cursor.FindByPos] instead.
//
// TODO(hxjiang): Consider refactoring the function signature. It is currently
// confusing that an error is returned even when a valid enclosing node is
// successfully found. Consider grouping all cursors into one struct.
func Select(curFile inspector.Cursor, start, end token.Pos) (_enclosing, _start, _end inspector.Cursor, _ error) {
	curEnclosing, ok := curFile.FindByPos(start, end)
	if !ok {
		return noCursor, noCursor, noCursor, fmt.Errorf("invalid selection")
	}

	// Find the first and last node wholly within the (start, end) range.
	// We'll narrow the effective selection to them, to exclude whitespace.
	// (This matches the functionality of PathEnclosingInterval.)
	var curStart, curEnd inspector.Cursor
	rng := RangeOf(start, end)
	for cur := range curEnclosing.Preorder() {
		if rng.Contains(NodeRange(cur.Node())) {
			// The start node has the least Pos.
			if !curStart.Valid() {
				curStart = cur
			}
			// The end node has the greatest End.
			// End positions do not change monotonically,
			// so we must compute the max.
			if !curEnd.Valid() ||
				cur.Node().End() > curEnd.Node().End() {
				curEnd = cur
			}
		}
	}
	if !curStart.Valid() {
		// The selection is valid (inside curEnclosing) but contains no
		// complete nodes. This happens for point selections (start == end),
		// or selections covering only only spaces, comments, and punctuation
		// tokens.
		// Return the enclosing node so the caller can still use the context.
		return curEnclosing, noCursor, noCursor, fmt.Errorf("invalid selection")
	}
	return curEnclosing, curStart, curEnd, nil
}

var noCursor inspector.Cursor

// MaybeParenthesize returns new, possibly wrapped in parens if needed
// to preserve operator precedence when it replaces old, whose parent
// is parentNode.
//
// (This would be more naturally written in terms of Cursor, but one of
// the callers--the inliner--does not have cursors handy.)
func MaybeParenthesize(parentNode ast.Node, old, new ast.Expr) ast.Expr {
	if needsParens(parentNode, old, new) {
		new = &ast.ParenExpr{X: new}
	}
	return new
}

func needsParens(parentNode ast.Node, old, new ast.Expr) bool {
	// An expression beneath a non-expression
	// has no precedence ambiguity.
	parent, ok := parentNode.(ast.Expr)
	if !ok {
		return false
	}

	precedence := func(n ast.Node) int {
		switch n := n.(type) {
		case *ast.UnaryExpr, *ast.StarExpr:
			return token.UnaryPrec
		case *ast.BinaryExpr:
			return n.Op.Precedence()
		}
		return -1
	}

	// Parens are not required if the new node
	// is not unary or binary.
	newprec := precedence(new)
	if newprec < 0 {
		return false
	}

	// Parens are required if parent and child are both
	// unary or binary and the parent has higher precedence.
	if precedence(parent) > newprec {
		return true
	}

	// Was the old node the operand of a postfix operator?
	//  f().sel
	//  f()[i:j]
	//  f()[i]
	//  f().(T)
	//  f()(x)
	switch parent := parent.(type) {
	case *ast.SelectorExpr:
		return parent.X == old
	case *ast.IndexExpr:
		return parent.X == old
	case *ast.SliceExpr:
		return parent.X == old
	case *ast.TypeAssertExpr:
		return parent.X == old
	case *ast.CallExpr:
		return parent.Fun == old
	}
	return false
}

func is[T any](n any) bool {
	_, ok := n.(T)
	return ok
}
