// Copyright 2025 The Go Authors. All rights reserved.
// Use of this source code is governed by a BSD-style
// license that can be found in the LICENSE file.

package refactor

// This file defines operations for computing deletion edits.

import (
	"fmt"
	"go/ast"
	"go/token"
	"go/types"
	"slices"

	"golang.org/x/tools/go/ast/edge"
	"golang.org/x/tools/go/ast/inspector"
	"sftpcheck/xt/x/astutil"
	"sftpcheck/xt/x/typesinternal"
	"sftpcheck/xt/x/typesinternal/typeindex"
)

// DeleteVar returns edits to delete the declaration of a variable or
// constant whose defining identifier is curId.
//
// It handles variants including:
// - GenDecl > ValueSpec versus AssignStmt;
// - RHS expression has effects, or not;
// - entire statement/declaration may be eliminated;
// and removes associated comments.
//
// If it cannot make the necessary edits, such as for a function
// parameter or result, it returns nil.
func DeleteVar(tokFile *token.File, info *types.Info, curId inspector.Cursor) []Edit {
	switch curId.ParentEdgeKind() {
	case edge.ValueSpec_Names:
		return deleteVarFromValueSpec(tokFile, info, curId)

	case edge.AssignStmt_Lhs:
		return deleteVarFromAssignStmt(tokFile, info, curId)
	}

	// e.g. function receiver, parameter, or result,
	// or "switch v := expr.(T) {}" (which has no object).
	return nil
}

// deleteVarFromValueSpec returns edits to delete the declaration of a
// variable or constant within a ValueSpec.
//
// Precondition: curId is Ident beneath ValueSpec.Names beneath GenDecl.
//
// See also [deleteVarFromAssignStmt], which has parallel structure.
func deleteVarFromValueSpec(tokFile *token.File, info *types.Info, curIdent inspector.Cursor) []Edit {
	var (
		id      = curIdent.Node().(*ast.Ident)
		curSpec = curIdent.Parent()
		spec    = curSpec.Node().(*ast.ValueSpec)
	)

	declaresOtherNames := slices.ContainsFunc(spec.Names, func(name *ast.Ident) bool {
		return name != id && name.Name != "_"
	})
	noRHSEffects := !slices.ContainsFunc(spec.Values, func(rhs ast.Expr) bool {
		return !typesinternal.NoEffects(info, rhs)
	})
	if !declaresOtherNames && noRHSEffects {
		// The spec is no longer needed, either to declare
		// other variables, or for its side effects.
		return DeleteSpec(tokFile, curSpec)
	}

	// The spec is still needed, either for
	// at least one LHS, or for effects on RHS.
	// Blank out or delete just one LHS.

	index := curIdent.ParentEdgeIndex() // index of LHS within ValueSpec.Names

	// If there is no RHS, we can delete the LHS.
	if len(spec.Values) == 0 {
		var pos, end token.Pos
		if index == len(spec.Names)-1 {
			// Delete final name.
			//
			// var _, lhs1 T
			//      ------
			pos = spec.Names[index-1].End()
			end = spec.Names[index].End()
		} else {
			// Delete non-final name.
			//
			// var lhs0, _ T
			//     ------
			pos = spec.Names[index].Pos()
			end = spec.Names[index+1].Pos()
		}
		return []Edit{{
			Pos: pos,
			End: end,
		}}
	}

	// If the assignment is n:n and the RHS has no effects,
	// we can delete the LHS and its corresponding RHS.
	if len(spec.Names) == len(spec.Values) &&
		typesinternal.NoEffects(info, spec.Values[index]) {

		if index == len(spec.Names)-1 {
			// Delete final items.
			//
			// var _, lhs1 = rhs0, rhs1
			//      ------       ------
			return []Edit{
				{
					Pos: spec.Names[index-1].End(),
					End: spec.Names[index].End(),
				},
				{
					Pos: spec.Values[index-1].End(),
					End: spec.Values[index].End(),
				},
			}
		} else {
			// Delete non-final items.
			//
			// var lhs0, _ = rhs0, rhs1
			//     ------    ------
			return []Edit{
				{
					Pos: spec.Names[index].Pos(),
					End: spec.Names[index+1].Pos(),
				},
				{
					Pos: spec.Values[index].Pos(),
					End: spec.Values[index+1].Pos(),
				},
			}
		}
	}

	// We cannot delete the RHS.
	// Blank out the LHS.
	return []Edit{{
		Pos:     id.Pos(),
		End:     id.End(),
		NewText: []byte("_"),
	}}
}

// Precondition: curId is Ident beneath AssignStmt.Lhs.
//
// See also [deleteVarFromValueSpec], which has parallel structure.
func deleteVarFromAssignStmt(tokFile *token.File, info *types.Info, curIdent inspector.Cursor) []Edit {
	var (
		id      = curIdent.Node().(*ast.Ident)
		curStmt = curIdent.Parent()
		assign  = curStmt.Node().(*ast.AssignStmt)
	)

	declaresOtherNames := slices.ContainsFunc(assign.Lhs, func(lhs ast.Expr) bool {
		lhsId, ok := lhs.(*ast.Ident)
		return ok && lhsId != id && lhsId.Name != "_"
	})
	noRHSEffects := !slices.ContainsFunc(assign.Rhs, func(rhs ast.Expr) bool {
		return !typesinternal.NoEffects(info, rhs)
	})
	if !declaresOtherNames && noRHSEffects {
		// The assignment is no longer needed, either to
		// declare other variables, or for its side effects.
		if edits := DeleteStmt(tokFile, curStmt); edits != nil {
			return edits
		}
		// Statement could not not be deleted in this context.
		// Fall back to conservative deletion.
	}

	// The assign is still needed, either for
	// at least one LHS, or for effects on RHS,
	// or because it cannot deleted because of its context.
	// Blank out or delete just one LHS.

	// If the assignment is 1:1 and the RHS has no effects,
	// we can delete the LHS and its corresponding RHS.
	index := curIdent.ParentEdgeIndex()
	if len(assign.Lhs) > 1 &&
		len(assign.Lhs) == len(assign.Rhs) &&
		typesinternal.NoEffects(info, assign.Rhs[index]) {

		if index == len(assign.Lhs)-1 {
			// Delete final items.
			//
			// _, lhs1 := rhs0, rhs1
			//  ------        ------
			return []Edit{
				{
					Pos: assign.Lhs[index-1].End(),
					End: assign.Lhs[index].End(),
				},
				{
					Pos: assign.Rhs[index-1].End(),
					End: assign.Rhs[index].End(),
				},
			}
		} else {
			// Delete non-final items.
			//
			// lhs0, _ := rhs0, rhs1
			// ------     ------
			return []Edit{
				{
					Pos: assign.Lhs[index].Pos(),
					End: assign.Lhs[index+1].Pos(),
				},
				{
					Pos: assign.Rhs[index].Pos(),
					End: assign.Rhs[index+1].Pos(),
				},
			}
		}
	}

	// We cannot delete the RHS.
	// Blank out the LHS.
	edits := []Edit{{
		Pos:     id.Pos(),
		End:     id.End(),
		NewText: []byte("_"),
	}}

	// If this eliminates the final variable declared by
	// an := statement, we need to turn it into an =
	// assignment to avoid a "no new variables on left
	// side of :=" error.
	if !declaresOtherNames {
		edits = append(edits, Edit{
			Pos:     assign.TokPos,
			End:     assign.TokPos + token.Pos(len(":=")),
			NewText: []byte("="),
		})
	}

	return edits
}

// DeleteSpec returns edits to delete the {Type,Value}Spec identified by curSpec.
//
// TODO(adonovan): add test suite. Test for consts as well.
func DeleteSpec(tokFile *token.File, curSpec inspector.Cursor) []Edit {
	var (
		spec    = curSpec.Node().(ast.Spec)
		curDecl = curSpec.Parent()
		decl    = curDecl.Node().(*ast.GenDecl)
	)

	// If it is the sole spec in the decl,
	// delete the entire decl.
	if len(decl.Specs) == 1 {
		return DeleteDecl(tokFile, curDecl)
	}

	// Delete the spec and its comments.
	index := curSpec.ParentEdgeIndex() // index of ValueSpec within GenDecl.Specs
	pos, end := spec.Pos(), spec.End()
	if doc := astutil.DocComment(spec); doc != nil {
		pos = doc.Pos() // leading comment
	}
	if index == len(decl.Specs)-1 {
		// Delete final spec.
		if c := eolComment(spec); c != nil {
			//  var (v int // comment \n)
			end = c.End()
		}
	} else {
		// Delete non-final spec.
		//   var ( a T; b T )
		//         -----
		end = decl.Specs[index+1].Pos()
	}
	return []Edit{{
		Pos: pos,
		End: end,
	}}
}

// DeleteDecl returns edits to delete the ast.Decl identified by curDecl.
//
// TODO(adonovan): add test suite.
func DeleteDecl(tokFile *token.File, curDecl inspector.Cursor) []Edit {
	decl := curDecl.Node().(ast.Decl)

	ek := curDecl.ParentEdgeKind()
	switch ek {
	case edge.DeclStmt_Decl:
		return DeleteStmt(tokFile, curDecl.Parent())

	case edge.File_Decls:
		pos, end := decl.Pos(), decl.End()
		if doc := astutil.DocComment(decl); doc != nil {
			pos = doc.Pos()
		}

		// Delete free-floating comments on same line as rparen.
		//    var (...) // comment
		var (
			file        = curDecl.Parent().Node().(*ast.File)
			lineOf      = tokFile.Line
			declEndLine = lineOf(decl.End())
		)
		for _, cg := range file.Comments {
			for _, c := range cg.List {
				if c.Pos() < end {
					continue // too early
				}
				commentEndLine := lineOf(c.End())
				if commentEndLine > declEndLine {
					break // too late
				} else if lineOf(c.Pos()) == declEndLine && commentEndLine == declEndLine {
					end = c.End()
				}
			}
		}

		return []Edit{{
			Pos: pos,
			End: end,
		}}

	default:
		panic(fmt.Sprintf("Decl parent is %v, want DeclStmt or File", ek))
	}
}

// find leftmost Pos bigger than start and rightmost less than end
func filterPos(nds []*ast.Comment, start, end token.Pos) (token.Pos, token.Pos, bool) {
	l, r := end, token.NoPos
	ok := false
	for _, n := range nds {
		if n.Pos() > start && n.Pos() < l {
			l = n.Pos()
			ok = true
		}
		if n.End() <= end && n.End() > r {
			r = n.End()
			ok = true
		}
	}
	return l, r, ok
}

// DeleteStmt returns the edits to remove the [ast.Stmt] identified by
// curStmt if it recognizes the context. It returns nil otherwise.
// TODO(pjw, adonovan): it should not return nil, it should return an error
//
// DeleteStmt is called with just the AST so it has trouble deciding if
// a comment is associated with the statement to be deleted. For instance,
//
//	for /*A*/ init()/*B*/;/*C/cond()/*D/;/*E*/post() /*F*/ { /*G*/}
//
// comment B and C are indistinguishable, as are D and E. That is, as the
// AST does not say where the semicolons are, B and C could go either
// with the init() or the cond(), so cannot be removed safely. The same
// is true for D, E, and the post(). (And there are other similar cases.)
// But the other comments can be removed as they are unambiguously
// associated with the statement being deleted. In particular,
// it removes whole lines like
//
//	stmt // comment
func DeleteStmt(file *token.File, curStmt inspector.Cursor) []Edit {
	// if the stmt is on a line by itself, or a range of lines, delete the whole thing
	// including comments. Except for the heads of switches, type
	// switches, and for-statements that's the usual case. Complexity occurs where
	// there are multiple statements on the same line, and adjacent comments.

	// In that case we remove some adjacent comments:
	// In me()/*A*/;b(), comment A cannot be removed, because the ast
	// is indistinguishable from me();/*A*/b()
	// and the same for cases like switch me()/*A*/; x.(type) {

	// this would be more precise with the file contents, or if the ast
	// contained the location of semicolons
	var (
		stmt          = curStmt.Node().(ast.Stmt)
		tokFile       = file
		lineOf        = tokFile.Line
		stmtStartLine = lineOf(stmt.Pos())
		stmtEndLine   = lineOf(stmt.End())

		leftSyntax, rightSyntax     token.Pos      // pieces of parent node on stmt{Start,End}Line
		leftComments, rightComments []*ast.Comment // comments before/after stmt on the same line
	)

	// remember the Pos that are on the same line as stmt
	use := func(left, right token.Pos) {
		if lineOf(left) == stmtStartLine {
			leftSyntax = left
		}
		if lineOf(right) == stmtEndLine {
			rightSyntax = right
		}
	}

	// find the comments, if any, on the same line
Big:
	for _, cg := range astutil.EnclosingFile(curStmt).Comments {
		for _, co := range cg.List {
			if lineOf(co.End()) < stmtStartLine {
				continue
			} else if lineOf(co.Pos()) > stmtEndLine {
				break Big // no more are possible
			}
			if lineOf(co.End()) == stmtStartLine && co.End() <= stmt.Pos() {
				// comment is before the statement
				leftComments = append(leftComments, co)
			} else if lineOf(co.Pos()) == stmtEndLine && co.Pos() >= stmt.End() {
				// comment is after the statement
				rightComments = append(rightComments, co)
			}
		}
	}

	// find any other syntax on the same line
	var (
		leftStmt, rightStmt token.Pos // end/start positions of sibling statements in a []Stmt list
		inStmtList          = false
		curParent           = curStmt.Parent()
	)
	switch parent := curParent.Node().(type) {
	case *ast.BlockStmt:
		use(parent.Lbrace, parent.Rbrace)
		inStmtList = true
	case *ast.CaseClause:
		use(parent.Colon, curStmt.Parent().Parent().Node().(*ast.BlockStmt).Rbrace)
		inStmtList = true
	case *ast.CommClause:
		if parent.Comm == stmt {
			return nil // maybe the user meant to remove the entire CommClause?
		}
		use(parent.Colon, curStmt.Parent().Parent().Node().(*ast.BlockStmt).Rbrace)
		inStmtList = true
	case *ast.ForStmt:
		use(parent.For, parent.Body.Lbrace)
		// special handling, as init;cond;post BlockStmt is not a statement list
		if parent.Init != nil && parent.Cond != nil && stmt == parent.Init && lineOf(parent.Cond.Pos()) == lineOf(stmt.End()) {
			rightStmt = parent.Cond.Pos()
		} else if parent.Post != nil && parent.Cond != nil && stmt == parent.Post && lineOf(parent.Cond.End()) == lineOf(stmt.Pos()) {
			leftStmt = parent.Cond.End()
		}
	case *ast.IfStmt:
		switch stmt {
		case parent.Init:
			use(parent.If, parent.Body.Lbrace)
		case parent.Else:
			// stmt is the {...} in "if cond {} else {...}" and removing
			// it would require removing the 'else' keyword, but the ast
			// does not contain its position.
			return nil
		}
	case *ast.SwitchStmt:
		use(parent.Switch, parent.Body.Lbrace)
	case *ast.TypeSwitchStmt:
		if stmt == parent.Assign {
			return nil // don't remove .(type)
		}
		use(parent.Switch, parent.Body.Lbrace)
	default:
		return nil // not one of ours
	}

	if inStmtList {
		// find the siblings, if any, on the same line
		if prev, found := curStmt.PrevSibling(); found && lineOf(prev.Node().End()) == stmtStartLine {
			if _, ok := prev.Node().(ast.Stmt); ok {
				leftStmt = prev.Node().End() // preceding statement ends on same line
			}
		}
		if next, found := curStmt.NextSibling(); found && lineOf(next.Node().Pos()) == stmtEndLine {
			rightStmt = next.Node().Pos() // following statement begins on same line
		}
	}

	// compute the left and right limits of the edit
	var leftEdit, rightEdit token.Pos
	if leftStmt.IsValid() {
		leftEdit = stmt.Pos() // can't remove preceding comments: a()/*A*/; me()
	} else if leftSyntax.IsValid() {
		// remove intervening leftComments
		if a, _, ok := filterPos(leftComments, leftSyntax, stmt.Pos()); ok {
			leftEdit = a
		} else {
			leftEdit = stmt.Pos()
		}
	} else { // remove whole line
		for leftEdit = stmt.Pos(); lineOf(leftEdit) == stmtStartLine; leftEdit-- {
		}
		if leftEdit < stmt.Pos() {
			leftEdit++ // beginning of line
		}
	}
	if rightStmt.IsValid() {
		rightEdit = stmt.End() // can't remove following comments
	} else if rightSyntax.IsValid() {
		// remove intervening rightComments
		if _, b, ok := filterPos(rightComments, stmt.End(), rightSyntax); ok {
			rightEdit = b
		} else {
			rightEdit = stmt.End()
		}
	} else { // remove whole line
		fend := token.Pos(file.Base()) + token.Pos(file.Size())
		for rightEdit = stmt.End(); fend >= rightEdit && lineOf(rightEdit) == stmtEndLine; rightEdit++ {
		}
		// don't remove \n if there was other stuff earlier
		if leftSyntax.IsValid() || leftStmt.IsValid() {
			rightEdit--
		}
	}

	return []Edit{{Pos: leftEdit, End: rightEdit}}
}

// DeleteUnusedVars computes the edits required to delete the
// declarations of any local variables whose last uses are in the
// curDelend subtree, which is about to be deleted.
func DeleteUnusedVars(index *typeindex.Index, info *types.Info, tokFile *token.File, curDelend inspector.Cursor) []Edit {
	// TODO(adonovan): we might want to generalize this by
	// splitting the two phases below, so that we can gather
	// across a whole sequence of deletions then finally compute the
	// set of variables that are no longer wanted.

	// Count number of deletions of each var.
	delcount := make(map[*types.Var]int)
	for curId := range curDelend.Preorder((*ast.Ident)(nil)) {
		id := curId.Node().(*ast.Ident)
		if v, ok := info.Uses[id].(*types.Var); ok &&
			typesinternal.GetVarKind(v) == typesinternal.LocalVar { // always false before go1.25
			delcount[v]++
		}
	}

	// Delete declaration of each var that became unused.
	var edits []Edit
	for v, count := range delcount {
		if len(slices.Collect(index.Uses(v))) == count {
			if curDefId, ok := index.Def(v); ok {
				edits = append(edits, DeleteVar(tokFile, info, curDefId)...)
			}
		}
	}
	return edits
}

func eolComment(n ast.Node) *ast.CommentGroup {
	// TODO(adonovan): support:
	//    func f() {...} // comment
	switch n := n.(type) {
	case *ast.GenDecl:
		if !n.TokPos.IsValid() && len(n.Specs) == 1 {
			return eolComment(n.Specs[0])
		}
	case *ast.ValueSpec:
		return n.Comment
	case *ast.TypeSpec:
		return n.Comment
	}
	return nil
}
