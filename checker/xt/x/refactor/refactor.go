// Copyright 2025 The Go Authors. All rights reserved.
// Use of this source code is governed by a BSD-style
// license that can be found in the LICENSE file.

// Package refactor provides operators to compute common textual edits
// for refactoring tools.
//
// This package should not use features of the analysis API other than [Edit].
package refactor

import (
	"fmt"
	"go/token"
	"go/types"
)

// FreshName returns the name of an identifier that is undefined
// at the specified position, based on the preferred name.
//
// export/use freshName in go/analysis/passes/modernize/modernize.go if you want
// to generate a fresh name only when necessary (i.e., there is both an existing
// declaration and some free reference to the name within a narrower scope)
func FreshName(scope *types.Scope, pos token.Pos, preferred string) string {
	newName := preferred
	for i := 0; ; i++ {
		if _, obj := scope.LookupParent(newName, pos); obj == nil {
			break // fresh
		}
		newName = fmt.Sprintf("%s%d", preferred, i)
	}
	return newName
}
