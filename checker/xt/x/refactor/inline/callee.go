// Copyright 2023 The Go Authors. All rights reserved.
// Use of this source code is governed by a BSD-style
// license that can be found in the LICENSE file.

package inline

// This file defines the analysis of the callee function.

import (
	"bytes"
	"cmp"
	"encoding/gob"
	"fmt"
	"go/ast"
	"go/parser"
	"go/token"
	"go/types"
	"slices"
	"strings"

	"golang.org/x/tools/go/types/typeutil"
	"sftpcheck/xt/x/moremaps"
	"sftpcheck/xt/x/typeparams"
	"sftpcheck/xt/x/typesinternal"
)

// A Callee holds information about an inlinable function. Gob-serializable.
type Callee struct {
	impl gobCallee
}

func (callee *Callee) String() string { return callee.impl.Name }

type gobCallee struct {
	Content []byte // file content, compacted to a single func decl

	// results of type analysis (does not reach go/types data structures)
	PkgPath          string                 // package path of declaring package
	Name             string                 // user-friendly name for error messages
	GoVersion        string                 // version of Go effective in callee file
	Unexported       []string               // names of free objects that are unexported
	FreeRefs         []freeRef              // locations of references to free objects
	FreeObjs         []object               // descriptions of free objects
	ValidForCallStmt bool                   // function body is "return expr" where expr is f() or <-ch
	NumResults       int                    // number of results (according to type, not ast.FieldList)
	Params           []*paramInfo           // information about parameters (incl. receiver)
	TypeParams       []*paramInfo           // information about type parameters
	Results          []*paramInfo           // information about result variables
	Effects          []int                  // order in which parameters are evaluated (see calleefx)
	HasDefer         bool                   // uses defer
	HasBareReturn    bool                   // uses bare return in non-void function
	Returns          [][]returnOperandFlags // metadata about result expressions for each return
	Labels           []string               // names of all control labels
	Falcon           falconResult           // falcon constraint system
}

// returnOperandFlags records metadata about a single result expression in a return
// statement.
type returnOperandFlags int

const (
	nonTrivialResult returnOperandFlags = 1 << iota // return operand has non-trivial conversion to result type
	untypedNilResult                                // return operand is nil literal
)

// A freeRef records a reference to a free object. Gob-serializable.
// (This means free relative to the FuncDecl as a whole, i.e. excluding parameters.)
type freeRef struct {
	Offset int // byte offset of the reference relative to the FuncDecl
	Object int // index into Callee.freeObjs
}

// An object abstracts a free types.Object referenced by the callee. Gob-serializable.
type object struct {
	Name    string // Object.Name()
	Kind    string // one of {var,func,const,type,pkgname,nil,builtin}
	PkgPath string // path of object's package (or imported package if kind="pkgname")
	PkgName string // name of object's package (or imported package if kind="pkgname")
	// TODO(rfindley): should we also track LocalPkgName here? Do we want to
	// preserve the local package name?
	ValidPos bool      // Object.Pos().IsValid()
	Shadow   shadowMap // shadowing info for the object's refs
}

// AnalyzeCallee analyzes a function that is a candidate for inlining
// and returns a Callee that describes it. The Callee object, which is
// serializable, can be passed to one or more subsequent calls to
// Inline, each with a different Caller.
//
// This design allows separate analysis of callers and callees in the
// golang.org/x/tools/go/analysis framework: the inlining information
// about a callee can be recorded as a "fact".
//
// The content should be the actual input to the compiler, not the
// apparent source file according to any //line directives that
// may be present within it.
func AnalyzeCallee(logf func(string, ...any), fset *token.FileSet, pkg *types.Package, info *types.Info, decl *ast.FuncDecl, content []byte) (*Callee, error) {
	checkInfoFields(info)

	// The client is expected to have determined that the callee
	// is a function with a declaration (not a built-in or var).
	fn := info.Defs[decl.Name].(*types.Func)
	sig := fn.Type().(*types.Signature)

	logf("analyzeCallee %v @ %v", fn, fset.PositionFor(decl.Pos(), false))

	// Create user-friendly name ("pkg.Func" or "(pkg.T).Method")
	var name string
	if sig.Recv() == nil {
		name = fmt.Sprintf("%s.%s", fn.Pkg().Name(), fn.Name())
	} else {
		name = fmt.Sprintf("(%s).%s", types.TypeString(sig.Recv().Type(), (*types.Package).Name), fn.Name())
	}

	if decl.Body == nil {
		return nil, fmt.Errorf("cannot inline function %s as it has no body", name)
	}

	// Record the file's Go goVersion so that we don't
	// inline newer code into file using an older dialect.
	//
	// Using the file version is overly conservative.
	// A more precise solution would be for the type checker to
	// record which language features the callee actually needs;
	// see https://go.dev/issue/75726.
	//
	// We don't have the ast.File handy, so instead of a
	// lookup we must scan the entire FileVersions map.
	var goVersion string
	for file, v := range info.FileVersions {
		if file.Pos() < decl.Pos() && decl.Pos() < file.End() {
			goVersion = v
			break
		}
	}

	// Record the location of all free references in the FuncDecl.
	// (Parameters are not free by this definition.)
	var (
		fieldObjs    = fieldObjs(sig)
		freeObjIndex = make(map[types.Object]int)
		freeObjs     []object
		freeRefs     []freeRef // free refs that may need renaming
		unexported   []string  // free refs to unexported objects, for later error checks
	)
	var f func(n ast.Node, stack []ast.Node) bool
	var stack []ast.Node
	stack = append(stack, decl.Type) // for scope of function itself
	visit := func(n ast.Node, stack []ast.Node) { ast.PreorderStack(n, stack, f) }
	f = func(n ast.Node, stack []ast.Node) bool {
		switch n := n.(type) {
		case *ast.SelectorExpr:
			// Check selections of free fields/methods.
			if sel, ok := info.Selections[n]; ok &&
				!within(sel.Obj().Pos(), decl) &&
				!n.Sel.IsExported() {
				sym := fmt.Sprintf("(%s).%s", info.TypeOf(n.X), n.Sel.Name)
				unexported = append(unexported, sym)
			}

			// Don't recur into SelectorExpr.Sel.
			visit(n.X, stack)
			return false

		case *ast.CompositeLit:
			// Check for struct literals that refer to unexported fields,
			// whether keyed or unkeyed. (Logic assumes well-typedness.)
			litType := typeparams.Deref(info.TypeOf(n))
			if s, ok := typeparams.CoreType(litType).(*types.Struct); ok {
				if n.Type != nil {
					visit(n.Type, stack)
				}
				for i, elt := range n.Elts {
					var field *types.Var
					var value ast.Expr
					if kv, ok := elt.(*ast.KeyValueExpr); ok {
						field = info.Uses[kv.Key.(*ast.Ident)].(*types.Var)
						value = kv.Value
					} else {
						field = s.Field(i)
						value = elt
					}
					if !within(field.Pos(), decl) && !field.Exported() {
						sym := fmt.Sprintf("(%s).%s", litType, field.Name())
						unexported = append(unexported, sym)
					}

					// Don't recur into KeyValueExpr.Key.
					visit(value, stack)
				}
				return false
			}

		case *ast.Ident:
			if obj, ok := info.Uses[n]; ok {
				// Methods and fields are handled by SelectorExpr and CompositeLit.
				if isField(obj) || isMethod(obj) {
					panic(obj)
				}
				// Inv: id is a lexical reference.

				// A reference to an unexported package-level declaration
				// cannot be inlined into another package.
				if !n.IsExported() &&
					obj.Pkg() != nil && obj.Parent() == obj.Pkg().Scope() {
					unexported = append(unexported, n.Name)
				}

				// Record free reference (incl. self-reference).
				if obj == fn || !within(obj.Pos(), decl) {
					objidx, ok := freeObjIndex[obj]
					if !ok {
						objidx = len(freeObjIndex)
						var pkgPath, pkgName string
						if pn, ok := obj.(*types.PkgName); ok {
							pkgPath = pn.Imported().Path()
							pkgName = pn.Imported().Name()
						} else if obj.Pkg() != nil {
							pkgPath = obj.Pkg().Path()
							pkgName = obj.Pkg().Name()
						}
						freeObjs = append(freeObjs, object{
							Name:     obj.Name(),
							Kind:     objectKind(obj),
							PkgName:  pkgName,
							PkgPath:  pkgPath,
							ValidPos: obj.Pos().IsValid(),
						})
						freeObjIndex[obj] = objidx
					}

					freeObjs[objidx].Shadow = freeObjs[objidx].Shadow.add(info, fieldObjs, obj.Name(), stack)

					freeRefs = append(freeRefs, freeRef{
						Offset: int(n.Pos() - decl.Pos()),
						Object: objidx,
					})
				}
			}
		}
		return true
	}
	visit(decl, stack)

	// Analyze callee body for "return expr" form,
	// where expr is f() or <-ch. These forms are
	// safe to inline as a standalone statement.
	validForCallStmt := false
	if len(decl.Body.List) != 1 {
		// not just a return statement
	} else if ret, ok := decl.Body.List[0].(*ast.ReturnStmt); ok && len(ret.Results) == 1 {
		validForCallStmt = func() bool {
			switch expr := ast.Unparen(ret.Results[0]).(type) {
			case *ast.CallExpr: // f(x)
				callee := typeutil.Callee(info, expr)
				if callee == nil {
					return false // conversion T(x)
				}

				// The only non-void built-in functions that may be
				// called as a statement are copy and recover
				// (though arguably a call to recover should never
				// be inlined as that changes its behavior).
				if builtin, ok := callee.(*types.Builtin); ok {
					return builtin.Name() == "copy" ||
						builtin.Name() == "recover"
				}

				return true // ordinary call f()

			case *ast.UnaryExpr: // <-x
				return expr.Op == token.ARROW // channel receive <-ch
			}

			// No other expressions are valid statements.
			return false
		}()
	}

	// Record information about control flow in the callee
	// (but not any nested functions).
	var (
		hasDefer      = false
		hasBareReturn = false
		returnInfo    [][]returnOperandFlags
		labels        []string
	)
	ast.Inspect(decl.Body, func(n ast.Node) bool {
		switch n := n.(type) {
		case *ast.FuncLit:
			return false // prune traversal
		case *ast.DeferStmt:
			hasDefer = true
		case *ast.LabeledStmt:
			labels = append(labels, n.Label.Name)
		case *ast.ReturnStmt:

			// Are implicit assignment conversions
			// to result variables all trivial?
			var resultInfo []returnOperandFlags
			if len(n.Results) > 0 {
				argInfo := func(i int) (ast.Expr, types.Type) {
					expr := n.Results[i]
					return expr, info.TypeOf(expr)
				}
				if len(n.Results) == 1 && sig.Results().Len() > 1 {
					// Spread return: return f() where f.Results > 1.
					tuple := info.TypeOf(n.Results[0]).(*types.Tuple)
					argInfo = func(i int) (ast.Expr, types.Type) {
						return nil, tuple.At(i).Type()
					}
				}
				for i := range sig.Results().Len() {
					expr, typ := argInfo(i)
					var flags returnOperandFlags
					if typ == types.Typ[types.UntypedNil] { // untyped nil is preserved by go/types
						flags |= untypedNilResult
					}
					if !trivialConversion(info.Types[expr].Value, typ, sig.Results().At(i).Type()) {
						flags |= nonTrivialResult
					}
					resultInfo = append(resultInfo, flags)
				}
			} else if sig.Results().Len() > 0 {
				hasBareReturn = true
			}
			returnInfo = append(returnInfo, resultInfo)
		}
		return true
	})

	// Reject attempts to inline cgo-generated functions.
	for _, obj := range freeObjs {
		// There are others (iconst fconst sconst fpvar macro)
		// but this is probably sufficient.
		if strings.HasPrefix(obj.Name, "_Cfunc_") ||
			strings.HasPrefix(obj.Name, "_Ctype_") ||
			strings.HasPrefix(obj.Name, "_Cvar_") {
			return nil, fmt.Errorf("cannot inline cgo-generated functions")
		}
	}

	// Compact content to just the FuncDecl.
	//
	// As a space optimization, we don't retain the complete
	// callee file content; all we need is "package _; func f() { ... }".
	// This reduces the size of analysis facts.
	//
	// Offsets in the callee information are "relocatable"
	// since they are all relative to the FuncDecl.

	content = append([]byte("package _\n"),
		content[offsetOf(fset, decl.Pos()):offsetOf(fset, decl.End())]...)
	// Sanity check: re-parse the compacted content.
	if _, _, err := parseCompact(content); err != nil {
		return nil, err
	}

	params, results, effects, falcon := analyzeParams(logf, fset, info, decl)
	tparams := analyzeTypeParams(logf, fset, info, decl)
	return &Callee{gobCallee{
		Content:          content,
		PkgPath:          pkg.Path(),
		Name:             name,
		GoVersion:        goVersion,
		Unexported:       unexported,
		FreeObjs:         freeObjs,
		FreeRefs:         freeRefs,
		ValidForCallStmt: validForCallStmt,
		NumResults:       sig.Results().Len(),
		Params:           params,
		TypeParams:       tparams,
		Results:          results,
		Effects:          effects,
		HasDefer:         hasDefer,
		HasBareReturn:    hasBareReturn,
		Returns:          returnInfo,
		Labels:           labels,
		Falcon:           falcon,
	}}, nil
}

// parseCompact parses a Go source file of the form "package _\n func f() { ... }"
// and returns the sole function declaration.
func parseCompact(content []byte) (*token.FileSet, *ast.FuncDecl, error) {
	fset := token.NewFileSet()
	const mode = parser.ParseComments | parser.SkipObjectResolution | parser.AllErrors
	f, err := parser.ParseFile(fset, "callee.go", content, mode)
	if err != nil {
		return nil, nil, fmt.Errorf("internal error: cannot compact file: %v", err)
	}
	return fset, f.Decls[0].(*ast.FuncDecl), nil
}

// A paramInfo records information about a callee receiver, parameter, or result variable.
type paramInfo struct {
	Name        string    // parameter name (may be blank, or even "")
	Index       int       // index within signature
	IsResult    bool      // false for receiver or parameter, true for result variable
	IsInterface bool      // parameter has a (non-type parameter) interface type
	Assigned    bool      // parameter appears on left side of an assignment statement
	Escapes     bool      // parameter has its address taken
	Refs        []refInfo // information about references to parameter within body
	Shadow      shadowMap // shadowing info for the above refs; see [shadowMap]
	FalconType  string    // name of this parameter's type (if basic) in the falcon system
}

type refInfo struct {
	Offset           int  // FuncDecl-relative byte offset of parameter ref within body
	Assignable       bool // ref appears in context of assignment to known type
	IfaceAssignment  bool // ref is being assigned to an interface
	AffectsInference bool // ref type may affect type inference
	// IsSelectionOperand indicates whether the parameter reference is the
	// operand of a selection (param.f). If so, and param's argument is itself
	// a receiver parameter (a common case), we don't need to desugar (&v or *ptr)
	// the selection: if param.Method is a valid selection, then so is param.fieldOrMethod.
	IsSelectionOperand bool
}

// analyzeParams computes information about parameters of the function declared by decl,
// including a simple "address taken" escape analysis.
//
// It returns two new arrays, one of the receiver and parameters, and
// the other of the result variables of the function.
//
// The input must be well-typed.
func analyzeParams(logf func(string, ...any), fset *token.FileSet, info *types.Info, decl *ast.FuncDecl) (params, results []*paramInfo, effects []int, _ falconResult) {
	sig := signature(fset, info, decl)

	paramInfos := make(map[*types.Var]*paramInfo)
	{
		newParamInfo := func(param *types.Var, isResult bool) *paramInfo {
			info := &paramInfo{
				Name:        param.Name(),
				IsResult:    isResult,
				Index:       len(paramInfos),
				IsInterface: isNonTypeParamInterface(param.Type()),
			}
			paramInfos[param] = info
			return info
		}
		if sig.Recv() != nil {
			params = append(params, newParamInfo(sig.Recv(), false))
		}
		for v := range sig.Params().Variables() {
			params = append(params, newParamInfo(v, false))
		}
		for v := range sig.Results().Variables() {
			results = append(results, newParamInfo(v, true))
		}
	}

	// Search function body for operations &x, x.f(), and x = y
	// where x is a parameter, and record it.
	escape(info, decl, func(v *types.Var, escapes bool) {
		if info := paramInfos[v]; info != nil {
			if escapes {
				info.Escapes = true
			} else {
				info.Assigned = true
			}
		}
	})

	// Record locations of all references to parameters.
	// And record the set of intervening definitions for each parameter.
	//
	// TODO(adonovan): combine this traversal with the one that computes
	// FreeRefs. The tricky part is that calleefx needs this one first.
	fieldObjs := fieldObjs(sig)
	var stack []ast.Node
	stack = append(stack, decl.Type) // for scope of function itself
	ast.PreorderStack(decl.Body, stack, func(n ast.Node, stack []ast.Node) bool {
		if id, ok := n.(*ast.Ident); ok {
			if v, ok := info.Uses[id].(*types.Var); ok {
				if pinfo, ok := paramInfos[v]; ok {
					// Record ref information, and any intervening (shadowing) names.
					//
					// If the parameter v has an interface type, and the reference id
					// appears in a context where assignability rules apply, there may be
					// an implicit interface-to-interface widening. In that case it is
					// not necessary to insert an explicit conversion from the argument
					// to the parameter's type.
					//
					// Contrapositively, if param is not an interface type, then the
					// assignment may lose type information, for example in the case that
					// the substituted expression is an untyped constant or unnamed type.
					stack = append(stack, n) // (the two calls below want n)
					assignable, ifaceAssign, affectsInference := analyzeAssignment(info, stack)
					ref := refInfo{
						Offset:             int(n.Pos() - decl.Pos()),
						Assignable:         assignable,
						IfaceAssignment:    ifaceAssign,
						AffectsInference:   affectsInference,
						IsSelectionOperand: isSelectionOperand(stack),
					}
					pinfo.Refs = append(pinfo.Refs, ref)
					pinfo.Shadow = pinfo.Shadow.add(info, fieldObjs, pinfo.Name, stack)
				}
			}
		}
		return true
	})

	// Compute subset and order of parameters that are strictly evaluated.
	// (Depends on Refs computed above.)
	effects = calleefx(info, decl.Body, paramInfos)
	logf("effects list = %v", effects)

	falcon := falcon(logf, fset, paramInfos, info, decl)

	return params, results, effects, falcon
}

// analyzeTypeParams computes information about the type parameters of the function declared by decl.
func analyzeTypeParams(_ logger, fset *token.FileSet, info *types.Info, decl *ast.FuncDecl) []*paramInfo {
	sig := signature(fset, info, decl)
	paramInfos := make(map[*types.TypeName]*paramInfo)
	var params []*paramInfo
	collect := func(tpl *types.TypeParamList) {
		for tparam := range tpl.TypeParams() {
			typeName := tparam.Obj()
			info := &paramInfo{Name: typeName.Name()}
			params = append(params, info)
			paramInfos[typeName] = info
		}
	}
	collect(sig.RecvTypeParams())
	collect(sig.TypeParams())

	// Find references.
	// We don't care about most of the properties that matter for parameter references:
	// a type is immutable, cannot have its address taken, and does not undergo conversions.
	// TODO(jba): can we nevertheless combine this with the traversal in analyzeParams?
	visit := func(n ast.Node, stack []ast.Node) bool {
		if id, ok := n.(*ast.Ident); ok {
			if v, ok := info.Uses[id].(*types.TypeName); ok {
				if pinfo, ok := paramInfos[v]; ok {
					ref := refInfo{Offset: int(n.Pos() - decl.Pos())}
					pinfo.Refs = append(pinfo.Refs, ref)
					pinfo.Shadow = pinfo.Shadow.add(info, nil, pinfo.Name, stack)
				}
			}
		}
		return true
	}
	var stack []ast.Node
	stack = append(stack, decl.Type) // for scope of function itself
	if decl.Type.Params != nil {
		ast.PreorderStack(decl.Type.Params, stack, visit)
	}
	if decl.Type.Results != nil {
		ast.PreorderStack(decl.Type.Results, stack, visit)
	}
	ast.PreorderStack(decl.Body, stack, visit)
	return params
}

func signature(fset *token.FileSet, info *types.Info, decl *ast.FuncDecl) *types.Signature {
	fnobj, ok := info.Defs[decl.Name]
	if !ok {
		panic(fmt.Sprintf("%s: no func object for %q",
			fset.PositionFor(decl.Name.Pos(), false), decl.Name)) // ill-typed?
	}
	return fnobj.Type().(*types.Signature)
}

// -- callee helpers --

// analyzeAssignment looks at the given stack, and analyzes certain
// attributes of the innermost expression.
//
// In all cases we 'fail closed' when we cannot detect (or for simplicity
// choose not to detect) the condition in question, meaning we err on the side
// of the more restrictive rule. This is noted for each result below.
//
//   - assignable reports whether the expression is used in a position where
//     assignability rules apply, such as in an actual assignment, as call
//     argument, or in a send to a channel. Defaults to 'false'. If assignable
//     is false, the other two results are irrelevant.
//   - ifaceAssign reports whether that assignment is to an interface type.
//     This is important as we want to preserve the concrete type in that
//     assignment. Defaults to 'true'. Notably, if the assigned type is a type
//     parameter, we assume that it could have interface type.
//   - affectsInference is (somewhat vaguely) defined as whether or not the
//     type of the operand may affect the type of the surrounding syntax,
//     through type inference. It is infeasible to completely reverse engineer
//     type inference, so we over approximate: if the expression is an argument
//     to a call to a generic function (but not method!) that uses type
//     parameters, assume that unification of that argument may affect the
//     inferred types.
func analyzeAssignment(info *types.Info, stack []ast.Node) (assignable, ifaceAssign, affectsInference bool) {
	remaining, parent, expr := exprContext(stack)
	if parent == nil {
		return false, false, false
	}

	// TODO(golang/go#70638): simplify when types.Info records implicit conversions.

	// Types do not need to match for assignment to a variable.
	if assign, ok := parent.(*ast.AssignStmt); ok {
		for i, v := range assign.Rhs {
			if v == expr {
				if i >= len(assign.Lhs) {
					return false, false, false // ill typed
				}
				// Check to see if the assignment is to an interface type.
				if i < len(assign.Lhs) {
					// TODO: We could handle spread calls here, but in current usage expr
					// is an ident.
					if id, _ := assign.Lhs[i].(*ast.Ident); id != nil && info.Defs[id] != nil {
						// Types must match for a defining identifier in a short variable
						// declaration.
						return false, false, false
					}
					// In all other cases, types should be known.
					typ := info.TypeOf(assign.Lhs[i])
					return true, typ == nil || types.IsInterface(typ), false
				}
				// Default:
				return assign.Tok == token.ASSIGN, true, false
			}
		}
	}

	// Types do not need to match for an initializer with known type.
	if spec, ok := parent.(*ast.ValueSpec); ok && spec.Type != nil {
		if slices.Contains(spec.Values, expr) {
			typ := info.TypeOf(spec.Type)
			return true, typ == nil || types.IsInterface(typ), false
		}
	}

	// Types do not need to match for index expressions.
	if ix, ok := parent.(*ast.IndexExpr); ok {
		if ix.Index == expr {
			typ := info.TypeOf(ix.X)
			if typ == nil {
				return true, true, false
			}
			m, _ := typeparams.CoreType(typ).(*types.Map)
			return true, m == nil || types.IsInterface(m.Key()), false
		}
	}

	// Types do not need to match for composite literal keys, values, or
	// fields.
	if kv, ok := parent.(*ast.KeyValueExpr); ok {
		var under types.Type
		if len(remaining) > 0 {
			if complit, ok := remaining[len(remaining)-1].(*ast.CompositeLit); ok {
				if typ := info.TypeOf(complit); typ != nil {
					// Unpointer to allow for pointers to slices or arrays, which are
					// permitted as the types of nested composite literals without a type
					// name.
					under = typesinternal.Unpointer(typeparams.CoreType(typ))
				}
			}
		}
		if kv.Key == expr { // M{expr: ...}: assign to map key
			m, _ := under.(*types.Map)
			return true, m == nil || types.IsInterface(m.Key()), false
		}
		if kv.Value == expr {
			switch under := under.(type) {
			case interface{ Elem() types.Type }: // T{...: expr}: assign to map/array/slice element
				return true, types.IsInterface(under.Elem()), false
			case *types.Struct: // Struct{k: expr}
				if id, _ := kv.Key.(*ast.Ident); id != nil {
					for field := range under.Fields() {
						if info.Uses[id] == field {
							return true, types.IsInterface(field.Type()), false
						}
					}
				}
			default:
				return true, true, false
			}
		}
	}
	if lit, ok := parent.(*ast.CompositeLit); ok {
		for i, v := range lit.Elts {
			if v == expr {
				typ := info.TypeOf(lit)
				if typ == nil {
					return true, true, false
				}
				// As in the KeyValueExpr case above, unpointer to handle pointers to
				// array/slice literals.
				under := typesinternal.Unpointer(typeparams.CoreType(typ))
				switch under := under.(type) {
				case interface{ Elem() types.Type }: // T{expr}: assign to map/array/slice element
					return true, types.IsInterface(under.Elem()), false
				case *types.Struct: // Struct{expr}: assign to unkeyed struct field
					if i < under.NumFields() {
						return true, types.IsInterface(under.Field(i).Type()), false
					}
				}
				return true, true, false
			}
		}
	}

	// Types do not need to match for values sent to a channel.
	if send, ok := parent.(*ast.SendStmt); ok {
		if send.Value == expr {
			typ := info.TypeOf(send.Chan)
			if typ == nil {
				return true, true, false
			}
			ch, _ := typeparams.CoreType(typ).(*types.Chan)
			return true, ch == nil || types.IsInterface(ch.Elem()), false
		}
	}

	// Types do not need to match for an argument to a call, unless the
	// corresponding parameter has type parameters, as in that case the
	// argument type may affect inference.
	if call, ok := parent.(*ast.CallExpr); ok {
		if _, ok := isConversion(info, call); ok {
			return false, false, false // redundant conversions are handled at the call site
		}
		// Ordinary call. Could be a call of a func, builtin, or function value.
		for i, arg := range call.Args {
			if arg == expr {
				typ := info.TypeOf(call.Fun)
				if typ == nil {
					return true, true, false
				}
				sig, ok := typeparams.CoreType(typ).(*types.Signature)
				if ok {
					// Find the relevant parameter type, accounting for variadics.
					paramType := paramTypeAtIndex(sig, call, i)
					ifaceAssign := paramType == nil || types.IsInterface(paramType)
					affectsInference := false
					switch callee := typeutil.Callee(info, call).(type) {
					case *types.Builtin:
						// Consider this litmus test:
						//
						//   func f(x int64) any { return max(x) }
						//   func main() { fmt.Printf("%T", f(42)) }
						//
						// If we lose the implicit conversion from untyped int
						// to int64, the type inferred for the max(x) call changes,
						// resulting in a different dynamic behavior: it prints
						// int, not int64.
						//
						// Inferred result type affected:
						//    new
						//    complex, real, imag
						//    min, max
						//
						// Dynamic behavior change:
						//    append         -- dynamic type of append([]any(nil), x)[0]
						//    delete(m, x)   -- dynamic key type where m is map[any]unit
						//    panic          -- dynamic type of panic value
						//
						// Unaffected:
						//    recover
						//    make
						//    len, cap
						//    clear
						//    close
						//    copy
						//    print, println  -- only uses underlying types (?)
						//
						// The dynamic type cases are all covered by
						// the ifaceAssign logic.
						switch callee.Name() {
						case "new", "complex", "real", "imag", "min", "max":
							affectsInference = true
						}

					case *types.Func:
						// Only standalone (non-method) functions have type
						// parameters affected by the call arguments.
						if sig2 := callee.Signature(); sig2.Recv() == nil {
							originParamType := paramTypeAtIndex(sig2, call, i)
							affectsInference = originParamType == nil || new(typeparams.Free).Has(originParamType)
						}
					}
					return true, ifaceAssign, affectsInference
				}
			}
		}
	}

	return false, false, false
}

// paramTypeAtIndex returns the effective parameter type at the given argument
// index in call, if valid.
func paramTypeAtIndex(sig *types.Signature, call *ast.CallExpr, index int) types.Type {
	if plen := sig.Params().Len(); sig.Variadic() && index >= plen-1 && !call.Ellipsis.IsValid() {
		if s, ok := sig.Params().At(plen - 1).Type().(*types.Slice); ok {
			return s.Elem()
		}
	} else if index < plen {
		return sig.Params().At(index).Type()
	}
	return nil // ill typed
}

// exprContext returns the innermost parent->child expression nodes for the
// given outer-to-inner stack, after stripping parentheses, along with the
// remaining stack up to the parent node.
//
// If no such context exists, returns (nil, nil, nil).
func exprContext(stack []ast.Node) (remaining []ast.Node, parent ast.Node, expr ast.Expr) {
	expr, _ = stack[len(stack)-1].(ast.Expr)
	if expr == nil {
		return nil, nil, nil
	}
	i := len(stack) - 2
	for ; i >= 0; i-- {
		if pexpr, ok := stack[i].(*ast.ParenExpr); ok {
			expr = pexpr
		} else {
			parent = stack[i]
			break
		}
	}
	if parent == nil {
		return nil, nil, nil
	}
	// inv: i is the index of parent in the stack.
	return stack[:i], parent, expr
}

// isSelectionOperand reports whether the innermost node of stack is operand
// (x) of a selection x.f.
func isSelectionOperand(stack []ast.Node) bool {
	_, parent, expr := exprContext(stack)
	if parent == nil {
		return false
	}
	sel, ok := parent.(*ast.SelectorExpr)
	return ok && sel.X == expr
}

// A shadowMap records information about shadowing at any of the parameter's
// references within the callee decl.
//
// For each name shadowed at a reference to the parameter within the callee
// body, shadow map records the 1-based index of the callee decl parameter
// causing the shadowing, or -1, if the shadowing is not due to a callee decl.
// A value of zero (or missing) indicates no shadowing. By convention,
// self-shadowing is excluded from the map.
//
// For example, in the following callee
//
//	func f(a, b int) int {
//		c := 2 + b
//		return a + c
//	}
//
// the shadow map of a is {b: 2, c: -1}, because b is shadowed by the 2nd
// parameter. The shadow map of b is {a: 1}, because c is not shadowed at the
// use of b.
type shadowMap map[string]int

// add returns the [shadowMap] augmented by the set of names
// locally shadowed at the location of the reference in the callee
// (identified by the stack). The name of the reference itself is
// excluded.
//
// These shadowed names may not be used in a replacement expression
// for the reference.
func (s shadowMap) add(info *types.Info, paramIndexes map[types.Object]int, exclude string, stack []ast.Node) shadowMap {
	for _, n := range stack {
		if scope := scopeFor(info, n); scope != nil {
			for _, name := range scope.Names() {
				if name != exclude {
					if s == nil {
						s = make(shadowMap)
					}
					obj := scope.Lookup(name)
					if idx, ok := paramIndexes[obj]; ok {
						s[name] = idx + 1
					} else {
						s[name] = -1
					}
				}
			}
		}
	}
	return s
}

var (
	_ gob.GobEncoder = (*shadowMap)(nil)
	_ gob.GobDecoder = (*shadowMap)(nil)
)

// GobEncode implements gob.GobEncoder, encoding the map's entries in a
// deterministic order so that serialized facts are stable.
func (s *shadowMap) GobEncode() ([]byte, error) {
	entries := moremaps.Entries(*s)
	slices.SortFunc(entries, func(x, y moremaps.Entry[string, int]) int {
		return cmp.Compare(x.Key, y.Key)
	})
	var out bytes.Buffer
	if err := gob.NewEncoder(&out).Encode(entries); err != nil {
		return nil, err
	}
	return out.Bytes(), nil
}

func (s *shadowMap) GobDecode(data []byte) error {
	var entries []moremaps.Entry[string, int]
	if err := gob.NewDecoder(bytes.NewReader(data)).Decode(&entries); err != nil {
		return err
	}
	*s = moremaps.FromEntries(entries)
	return nil
}

// fieldObjs returns a map of each types.Object defined by the given signature
// to its index in the parameter list. Parameters with missing or blank name
// are skipped.
func fieldObjs(sig *types.Signature) map[types.Object]int {
	m := make(map[types.Object]int)
	for i := range sig.Params().Len() {
		if p := sig.Params().At(i); p.Name() != "" && p.Name() != "_" {
			m[p] = i
		}
	}
	return m
}

func isField(obj types.Object) bool {
	if v, ok := obj.(*types.Var); ok && v.IsField() {
		return true
	}
	return false
}

func isMethod(obj types.Object) bool {
	if f, ok := obj.(*types.Func); ok && f.Type().(*types.Signature).Recv() != nil {
		return true
	}
	return false
}

// -- serialization --

var (
	_ gob.GobEncoder = (*Callee)(nil)
	_ gob.GobDecoder = (*Callee)(nil)
)

func (callee *Callee) GobEncode() ([]byte, error) {
	var out bytes.Buffer
	if err := gob.NewEncoder(&out).Encode(callee.impl); err != nil {
		return nil, err
	}
	return out.Bytes(), nil
}

func (callee *Callee) GobDecode(data []byte) error {
	return gob.NewDecoder(bytes.NewReader(data)).Decode(&callee.impl)
}
