// Copyright 2023 The Go Authors. All rights reserved.
// Use of this source code is governed by a BSD-style
// license that can be found in the LICENSE file.

package inline

// This file defines various common helpers.

import (
	"go/ast"
	"go/constant"
	"go/token"
	"go/types"
	"reflect"
	"strings"

	"sftpcheck/xt/x/typeparams"
)

func is[T any](x any) bool {
	_, ok := x.(T)
	return ok
}

func btoi(b bool) int {
	if b {
		return 1
	} else {
		return 0
	}
}

func offsetOf(fset *token.FileSet, pos token.Pos) int {
	return fset.PositionFor(pos, false).Offset
}

// objectKind returns an object's kind (e.g. var, func, const, typename).
func objectKind(obj types.Object) string {
	return strings.TrimPrefix(strings.ToLower(reflect.TypeOf(obj).String()), "*types.")
}

// within reports whether pos is within the half-open interval [n.Pos, n.End).
func within(pos token.Pos, n ast.Node) bool {
	return n.Pos() <= pos && pos < n.End()
}

// trivialConversion reports whether it is safe to omit the implicit
// value-to-variable conversion that occurs in argument passing or
// result return. The only case currently allowed is converting from
// untyped constant to its default type (e.g. 0 to int).
//
// The reason for this check is that converting from A to B to C may
// yield a different result than converting A directly to C: consider
// 0 to int32 to any.
//
// trivialConversion under-approximates trivial conversions, as unfortunately
// go/types does not record the type of an expression *before* it is implicitly
// converted, and therefore it cannot distinguish typed constant
// expressions from untyped constant expressions. For example, in the
// expression `c + 2`, where c is a uint32 constant, trivialConversion does not
// detect that the default type of this expression is actually uint32, not untyped
// int.
//
// We could, of course, do better here by reverse engineering some of go/types'
// constant handling. That may or may not be worthwhile.
//
// Example: in func f() int32 { return 0 },
// the type recorded for 0 is int32, not untyped int;
// although it is Identical to the result var,
// the conversion is non-trivial.
func trivialConversion(fromValue constant.Value, from, to types.Type) bool {
	if fromValue != nil {
		var defaultType types.Type
		switch fromValue.Kind() {
		case constant.Bool:
			defaultType = types.Typ[types.Bool]
		case constant.String:
			defaultType = types.Typ[types.String]
		case constant.Int:
			defaultType = types.Typ[types.Int]
		case constant.Float:
			defaultType = types.Typ[types.Float64]
		case constant.Complex:
			defaultType = types.Typ[types.Complex128]
		default:
			return false
		}
		return types.Identical(defaultType, to)
	}
	return types.Identical(from, to)
}

func checkInfoFields(info *types.Info) {
	assert(info.Defs != nil, "types.Info.Defs is nil")
	assert(info.Implicits != nil, "types.Info.Implicits is nil")
	assert(info.Scopes != nil, "types.Info.Scopes is nil")
	assert(info.Selections != nil, "types.Info.Selections is nil")
	assert(info.Types != nil, "types.Info.Types is nil")
	assert(info.Uses != nil, "types.Info.Uses is nil")
	assert(info.FileVersions != nil, "types.Info.FileVersions is nil")
}

// intersects reports whether the maps' key sets intersect.
func intersects[K comparable, T1, T2 any](x map[K]T1, y map[K]T2) bool {
	if len(x) > len(y) {
		return intersects(y, x)
	}
	for k := range x {
		if _, ok := y[k]; ok {
			return true
		}
	}
	return false
}

// convert returns syntax for the conversion T(x).
func convert(T, x ast.Expr) *ast.CallExpr {
	// The formatter generally adds parens as needed,
	// but before go1.22 it had a bug (#63362) for
	// channel types that requires this workaround.
	if ch, ok := T.(*ast.ChanType); ok && ch.Dir == ast.RECV {
		T = &ast.ParenExpr{X: T}
	}
	return &ast.CallExpr{
		Fun:  T,
		Args: []ast.Expr{x},
	}
}

// isPointer reports whether t's core type is a pointer.
func isPointer(t types.Type) bool {
	return is[*types.Pointer](typeparams.CoreType(t))
}

// indirectSelection is like seln.Indirect() without bug #8353.
func indirectSelection(seln *types.Selection) bool {
	// Work around bug #8353 in Selection.Indirect when Kind=MethodVal.
	if seln.Kind() == types.MethodVal {
		tArg, indirect := effectiveReceiver(seln)
		if indirect {
			return true
		}

		tParam := seln.Obj().Type().Underlying().(*types.Signature).Recv().Type()
		return isPointer(tArg) && !isPointer(tParam) // implicit *
	}

	return seln.Indirect()
}

// effectiveReceiver returns the effective type of the method
// receiver after all implicit field selections (but not implicit * or
// & operations) have been applied.
//
// The boolean indicates whether any implicit field selection was indirect.
func effectiveReceiver(seln *types.Selection) (types.Type, bool) {
	assert(seln.Kind() == types.MethodVal, "not MethodVal")
	t := seln.Recv()
	indices := seln.Index()
	indirect := false
	for _, index := range indices[:len(indices)-1] {
		if isPointer(t) {
			indirect = true
			t = typeparams.MustDeref(t)
		}
		t = typeparams.CoreType(t).(*types.Struct).Field(index).Type()
	}
	return t, indirect
}
