// Copyright 2023 The Go Authors. All rights reserved.
// Use of this source code is governed by a BSD-style
// license that can be found in the LICENSE file.

package inline

import (
	"fmt"
	"go/ast"
	"go/token"
	"go/types"
)

// escape implements a simple "address-taken" escape analysis. It
// calls f for each local variable that appears on the left side of an
// assignment (escapes=false) or has its address taken (escapes=true).
// The initialization of a variable by its declaration does not count
// as an assignment.
func escape(info *types.Info, root ast.Node, f func(v *types.Var, escapes bool)) {

	// lvalue is called for each address-taken expression or LHS of assignment.
	// Supported forms are: x, (x), x[i], x.f, *x, T{}.
	var lvalue func(e ast.Expr, escapes bool)
	lvalue = func(e ast.Expr, escapes bool) {
		switch e := e.(type) {
		case *ast.Ident:
			if v, ok := info.Uses[e].(*types.Var); ok {
				if !isPkgLevel(v) {
					f(v, escapes)
				}
			}
		case *ast.ParenExpr:
			lvalue(e.X, escapes)
		case *ast.IndexExpr:
			// TODO(adonovan): support generics without assuming e.X has a core type.
			// Consider:
			//
			// func Index[T interface{ [3]int | []int }](t T, i int) *int {
			//     return &t[i]
			// }
			//
			// We must traverse the normal terms and check
			// whether any of them is an array.
			//
			// We assume TypeOf returns non-nil.
			if _, ok := info.TypeOf(e.X).Underlying().(*types.Array); ok {
				lvalue(e.X, escapes) // &a[i] on array
			}
		case *ast.SelectorExpr:
			// We assume TypeOf returns non-nil.
			if _, ok := info.TypeOf(e.X).Underlying().(*types.Struct); ok {
				lvalue(e.X, escapes) // &s.f on struct
			}
		case *ast.StarExpr:
			// *ptr indirects an existing pointer
		case *ast.CompositeLit:
			// &T{...} creates a new variable
		default:
			panic(fmt.Sprintf("&x on %T", e)) // unreachable in well-typed code
		}
	}

	// Search function body for operations &x, x.f(), x++, and x = y
	// where x is a parameter. Each of these treats x as an address.
	ast.Inspect(root, func(n ast.Node) bool {
		switch n := n.(type) {
		case *ast.UnaryExpr:
			if n.Op == token.AND {
				lvalue(n.X, true) // &x
			}

		case *ast.CallExpr:
			// implicit &x in method call x.f(),
			// where x has type T and method is (*T).f
			if sel, ok := n.Fun.(*ast.SelectorExpr); ok {
				if seln, ok := info.Selections[sel]; ok &&
					seln.Kind() == types.MethodVal &&
					isPointer(seln.Obj().Type().Underlying().(*types.Signature).Recv().Type()) {
					tArg, indirect := effectiveReceiver(seln)
					if !indirect && !isPointer(tArg) {
						lvalue(sel.X, true) // &x.f
					}
				}
			}

		case *ast.AssignStmt:
			for _, lhs := range n.Lhs {
				if id, ok := lhs.(*ast.Ident); ok &&
					info.Defs[id] != nil &&
					n.Tok == token.DEFINE {
					// declaration: doesn't count
				} else {
					lvalue(lhs, false)
				}
			}

		case *ast.IncDecStmt:
			lvalue(n.X, false)
		}
		return true
	})
}
